import Enc.Lemmas.Proto
import Enc.Lemmas.ProtoVarint
import Enc.Lemmas.ProtoRoundTrip
import Enc.Lemmas.ProtoMap
import Enc.Lemmas.ProtoDepth
/-!
# C03 — proto: Unmarshal(Marshal(v)) == v and Size(v) == len(Marshal(v))

Property theorems only (helper lemmas live in Enc/Lemmas/Proto.lean).
`Model.Proto` is the codec tree of /repo/proto as `codecOf` builds it, interpreted over the `Ty`/`Val` universe.
-/
namespace Enc.Props.C03
open Enc Enc.Model.Proto

/-- Size(v) == len(Marshal(v)) — for every codec tree, every value, every flag combination (hence for every
supported message type and value): the `size` functions and the `encode` functions agree, including `wantzero`
propagation and clearing, embedded length prefixes, repeated fields, maps with their entry prefix and the
empty-map marker, pointers, byte arrays and Message implementers. -/
theorem size_eq_len_encode (c : Codec) (v : Val) (fl : Flags) : (encode c v fl).length = size c v fl :=
  Lemmas.Proto.size_eq c v fl

/-- … in particular at the entry points. -/
theorem Size_eq_len_Marshal (t : Ty) (v : Val) : (marshal t v).length = marshalSize t v :=
  Lemmas.Proto.size_eq _ _ _

/-- Marshal is a function of the value alone (deterministic): immediate, because the model's only source of
non-determinism is the order of `Val.map` entries, which is part of the value. Stated for the record:
equal type and equal value give equal bytes. -/
theorem marshal_deterministic (t : Ty) (v w : Val) (h : v = w) : marshal t v = marshal t w := by rw [h]

/-- sint32/sint64 zig-zag is a bijection on 64-bit words -/
theorem zigzag_decode_encode (v : BitVec 64) : decodeZigZag64 (encodeZigZag64 v) = v :=
  Lemmas.Proto.zigzag_roundtrip v
theorem zigzag_encode_decode (u : BitVec 64) : encodeZigZag64 (decodeZigZag64 u) = u :=
  Lemmas.Proto.zigzag_roundtrip' u

/-- decodeVarint ∘ encodeVarint = id, for every 64-bit value and whatever bytes follow (the 10-byte overflow rule
`i > 9 ∨ i = 9 ∧ c > 1` never rejects an encoder output) -/
theorem varint_decode_encode (v : BitVec 64) (rest : Bytes) :
    decodeVarint (encodeVarint v ++ rest) = .ok (v, sizeOfVarint v) :=
  Lemmas.ProtoVarint.decode_encode_varint v rest

/-- a varint has between 1 and 10 bytes -/
theorem varint_size_bounds (v : BitVec 64) : 1 ≤ sizeOfVarint v ∧ sizeOfVarint v ≤ 10 :=
  ⟨Lemmas.ProtoVarint.sizeOfVarint_pos v, Lemmas.ProtoVarint.sizeOfVarint_le v⟩

/-! the theorems above are unconditional (no hypotheses to satisfy); a concrete instance for the reader:
`struct{A int32; B []bool}{5, {false,true}}` → 08 05 10 00 10 01 -/
example : encode (.struct (.cons 1 false false false .int32 (.cons 2 false true false (.slice .bool 2 .varint false) .nil)))
    (.struct (.cons (.int 5) (.cons (.list (.cons (.bool false) (.cons (.bool true) .nil))) .nil))) {}
    = [0x08, 0x05, 0x10, 0x00, 0x10, 0x01] := by decide +kernel

/-! ## Unmarshal ∘ Marshal (proofs in Enc/Lemmas/ProtoRoundTrip*.lean, on top of ProtoWire*.lean)

Universe `tyOK` (see Props/C12): messages with scalar fields of every kind and tag, nested messages, optional `*T` and
repeated `[]T` fields, field numbers 1…65535 pairwise distinct; `hasType`: well-typed values in range. Outside it: maps,
byte arrays, `[]*T`, `**T`, named types, RawMessage (differential only) and the known-finding shapes.

`hdep` (new with commit b70a382, `proto.maxDepth`): the message type is at most 10000 messages high (`Codec.nesting`: messages,
repeated elements and map entries count, pointers do not). It is decidable, holds for every type one can write down, and
is NECESSARY: a value of a type 10001 messages high is marshalled without complaint and refused by `Unmarshal`
(`Props.C07.depth_limit`; harness op `proto.deepr 10001`). Under it `unmarshal` is the decoder the proofs were written for
(`Props.C07.limit_invisible_below`). -/

open Lemmas.ProtoWire Lemmas.ProtoRoundTrip in
/-- **MAIN (round trip, scalar messages).** The model's own decoder inverts the model's encoder, literally — also when
every field is zero and nothing is written. -/
theorem unmarshal_marshal (fs : Fields) (v : Val)
    (hty : tyOK (.struct fs) = true) (hpl : plainTy (.struct fs) = true) (hv : hasType (.struct fs) v = true)
    (hlen : (marshal (.struct fs) v).length < 2 ^ 64) (hdep : Codec.nesting (codecOf (.struct fs)) ≤ Gen.c_proto_maxDepth) :
    unmarshal (.struct fs) (marshal (.struct fs) v) = .ok v := by
  rw [Lemmas.ProtoDepth.unmarshal_eq_unmarshalU _ _ hdep]
  exact Lemmas.ProtoRoundTrip.unmarshal_marshal_scalar fs v hty hpl hv hlen

open Lemmas.ProtoWire Lemmas.ProtoRoundTrip in
/-- … and with optional and repeated fields, up to the nil-versus-empty normal form; `noEmptyPtr` excludes exactly the
known finding "a pointer whose pointee encodes to zero bytes comes back nil" -/
theorem unmarshal_marshal_partial (fs : Fields) (v : Val)
    (hty : tyOK (.struct fs) = true) (hv : hasType (.struct fs) v = true) (hne : noEmptyPtr (.struct fs) v = true)
    (hlen : (marshal (.struct fs) v).length < 2 ^ 64) (hdep : Codec.nesting (codecOf (.struct fs)) ≤ Gen.c_proto_maxDepth) :
    ∃ v', unmarshal (.struct fs) (marshal (.struct fs) v) = .ok v'
      ∧ Spec.Protobuf.canonical (.struct fs) v' = Spec.Protobuf.canonical (.struct fs) v := by
  rw [Lemmas.ProtoDepth.unmarshal_eq_unmarshalU _ _ hdep]
  exact Lemmas.ProtoRoundTrip.unmarshal_marshal_partial fs v hty hv hne hlen

open Lemmas.ProtoWire Lemmas.ProtoMap in
/-- … and with map fields (`map[K]V`, any key kind protobuf allows, scalar / message / pointer values) anywhere in the
message, on the larger universe `tyOKM` (= `tyOK` + map-typed fields; proofs in Enc/Lemmas/ProtoMap*.lean). `valOKM`
extends `noEmptyPtr` through maps and asks every map to be non-empty with pairwise distinct keys: the empty map is the
known finding proto-empty-map-marker (`ProtoMapFindings` shows the theorem fails there), and distinct keys is what a
Go map guarantees. -/
theorem unmarshal_marshal_map_partial (fs : Fields) (v : Val)
    (hty : tyOKM (.struct fs) = true) (hv : hasTypeM (.struct fs) v = true) (hne : valOKM (.struct fs) v = true)
    (hlen : (marshal (.struct fs) v).length < 2 ^ 64) (hdep : Codec.nesting (codecOf (.struct fs)) ≤ Gen.c_proto_maxDepth) :
    ∃ v', unmarshal (.struct fs) (marshal (.struct fs) v) = .ok v'
      ∧ Spec.Protobuf.canonical (.struct fs) v' = Spec.Protobuf.canonical (.struct fs) v := by
  rw [Lemmas.ProtoDepth.unmarshal_eq_unmarshalU _ _ hdep]
  exact Lemmas.ProtoMap.unmarshal_marshal_map_partial fs v hty hv hne hlen

open Lemmas.ProtoWire Lemmas.ProtoMap in
/-- the hypotheses are satisfiable by a concrete message with map fields -/
example : tyOKM (.struct Lemmas.ProtoMap.Findings.exMFields) = true
    ∧ hasTypeM (.struct Lemmas.ProtoMap.Findings.exMFields) (.struct Lemmas.ProtoMap.Findings.exMVals) = true
    ∧ valOKM (.struct Lemmas.ProtoMap.Findings.exMFields) (.struct Lemmas.ProtoMap.Findings.exMVals) = true
    ∧ Codec.nesting (codecOf (.struct Lemmas.ProtoMap.Findings.exMFields)) ≤ Gen.c_proto_maxDepth :=
  ⟨Lemmas.ProtoMap.Findings.exM_ty, Lemmas.ProtoMap.Findings.exM_val, Lemmas.ProtoMap.Findings.exM_ok, by
    have : codecOf (.struct Lemmas.ProtoMap.Findings.exMFields) = .struct (fieldsOf 1 Lemmas.ProtoMap.Findings.exMFields) := by
      simp [codecOf]
    rw [this, Lemmas.ProtoMap.Findings.exM_codec]; decide⟩

end Enc.Props.C03
