import Enc.Model.Json.Token
import Enc.Spec.Json.Tokens
/-!
# C17 — json.Tokenizer enumerates exactly the tokens of the document
Property theorems only.
-/
namespace Enc.Props.C17
open Enc Enc.Model.Json Enc.Model.Json.Token

/-- once `Err` is set, `Next` keeps returning false and changes nothing — until `Reset` -/
theorem err_is_sticky (s : St) (h : s.err = true) : next s = (none, s) := by
  unfold next; simp [h]

/-- a Reset tokenizer behaves like a new one: whatever the history `old` and whatever stale content the pooled stack
carries, the state after `Reset(b)` is exactly `NewTokenizer(b)`'s -/
theorem reset_is_new (old : St) (garbage : List (Scope × Nat)) (b : Bytes) : reset old garbage b = newSt b := rfl

end Enc.Props.C17
