import Enc.Model.Json.Token
import Enc.Spec.Json.Tokens
import Enc.Lemmas.TokSpec
import Enc.Lemmas.TokConcat
import Enc.Model.Json.TokenAcc
import Enc.Spec.Json.TokenVal
import Enc.Lemmas.TokAcc
/-!
# C17 — json.Tokenizer enumerates exactly the tokens of the document
Property theorems only.
-/
namespace Enc.Props.C17
open Enc Enc.Model.Json Enc.Model.Json.Token

/-- once `Err` is set, `Next` keeps returning false and changes nothing — until `Reset` -/
theorem err_is_sticky (s : St) (h : s.err = true) : next s = (none, s) := by
  unfold next; simp [h]

/-- a Reset tokenizer behaves like a new one: whatever the history `old` and whatever stale content the pooled stack
carries, the state after `Reset(b)` is exactly `NewTokenizer(b)`'s -/
theorem reset_is_new (old : St) (garbage : List (Scope × Nat)) (b : Bytes) : reset old garbage b = newSt b := rfl

/-- **Main theorem.** For every valid JSON document (`tokensOf b = some ts`, the grammar-directed specification that
DEFINES depth = number of enclosing containers, index = position within the parent, and key/value role), iterating
the tokenizer yields, in order, exactly the specification's tokens — delimiter, value span, Depth, Index, IsKey — and
ends without error. -/
theorem tokens_eq_spec (b : Bytes) (ts : List Spec.Json.STok) (h : Spec.Json.tokensOf b = some ts) :
    (tokens b).2 = false ∧
    (tokens b).1.map (fun t => (t.delim, t.value, t.depth, t.index, t.isKey)) =
      ts.map (fun t => (t.delim, t.value, (t.depth : Int), (t.index : Int), t.isKey)) :=
  Lemmas.TokSpec.tokens_spec b ts h

/-- the concatenation of the token Values equals the compacted document (all white space outside strings removed;
`compact` is defined without reference to tokens) -/
theorem concat_values_eq_compact (b : Bytes) (ts : List Spec.Json.STok) (h : Spec.Json.tokensOf b = some ts) :
    ((tokens b).1.map (·.value)).flatten = Lemmas.TokConcat.compact b :=
  Lemmas.TokConcat.concat_values b ts h

/-- for EVERY byte string the tokenizer terminates: each successful `Next` strictly shortens the remaining input, so the
iteration never exhausts its fuel (`len + 2` calls suffice, whatever extra fuel is given) -/
theorem next_progress (s : St) (t : Tok) (s' : St) (h : next s = (some t, s')) : s'.json.length < s.json.length :=
  Lemmas.TokSpec.next_progress s t s' h
theorem tokens_terminate (b : Bytes) (k : Nat) : run (b.length + 2 + k) (newSt b) [] = tokens b :=
  Lemmas.TokSpec.tokens_fuel b k

/-- non-vacuity: the hypothesis of the main theorem is met by a document with an empty object inside an array -/
example : (Spec.Json.tokensOf [0x5b, 0x7b, 0x7d, 0x2c, 0x22, 0x61, 0x22, 0x5d]).isSome = true := by decide +kernel

/-! ## "… and Kind/String/Int/Uint/Float/Bool report the token's class and decoded value"

Model: `Model/Json/TokenAcc.lean` (the accessors as written; none of them can fail — parse errors are dropped and the zero
value returned; only `RawValue.AppendUnquote/Unquote` panic). Specification: `Spec/Json/TokenVal.lean` (class and value
of a token from its text alone; the string value is encoding/json's `unquote`). Proofs: `Lemmas/TokAcc*.lean`.
The per-token theorems hold for every token the tokenizer emits on EVERY input (valid or not); `accessors_eq_spec`
states them for the grammar-directed token stream of a valid document. `fl` is the tokenizer's flag word
(`internalParseFlags b`). Trusted: `strconv.ParseFloat` (shared with encoding/json) — the model exposes its argument. -/

open Enc.Spec.Json (kindOf classOfKind int64Of uint64Of stringOf isStrKind rawFlagsOf)

/-- `Kind()` is the grammatical class of the token with the sub-kinds as json.go defines them (`Spec.Json.kindOf`):
`{` Object, `[` Array, other delimiters Undefined; null / false / true; numbers: Uint = no sign, no fraction, no exponent,
Int = minus sign, no fraction, no exponent, Float = a fraction or an exponent; strings: Unescaped = the body is printable
ASCII without backslash, String otherwise. `Kind().Class()` is the highest bit of that code. -/
theorem kind_is_class (b : Bytes) (t : Tok) (ht : t ∈ (tokens b).1) :
    tokKind t = kindOf t.delim t.value ∧ kindClass (tokKind t) = classOfKind (kindOf t.delim t.value) :=
  Lemmas.TokAcc.kind_is_class b t ht

/-- `Bool()` is true exactly on the token `true` (false on `false` AND on every token of another kind) -/
theorem bool_value (b : Bytes) (t : Tok) (ht : t ∈ (tokens b).1) : tokBool t = (kindOf t.delim t.value == 3) :=
  Lemmas.TokAcc.bool_value b t ht

/-- `String()` of a string token — a value OR a key — is encoding/json's unquoted string (`Spec.Json.unquote`: escapes,
surrogate pairs, U+FFFD for lone surrogates and invalid UTF-8), through the fast path (kind Unescaped) and the slow one
alike; on a token of any other kind it is empty. -/
theorem string_value (b : Bytes) (t : Tok) (ht : t ∈ (tokens b).1) :
    tokString (internalParseFlags b) t =
      if isStrKind (kindOf t.delim t.value) then Spec.Json.unquote t.value else [] :=
  (Lemmas.TokAcc.tokens_acc b t ht).str

/-- `Int()`: the integer the literal denotes when the token is an integer (kind Uint or Int) within int64; **0 otherwise**
— for a Float token, for a token that is not a number, and for an integer outside [-2^63, 2^63) (no error, no
saturation, no wrap-around: the overflow error of parseInt is dropped). -/
theorem int_value (b : Bytes) (t : Tok) (ht : t ∈ (tokens b).1) : (tokInt t).toInt = int64Of t.delim t.value :=
  (Lemmas.TokAcc.tokens_acc b t ht).int

/-- `Uint()`: the literal's value for an unsigned integer token (kind Uint) below 2^64; **0 otherwise** (any token with a
minus sign, `-0` included; Float tokens; non-numbers; 2^64 and above). -/
theorem uint_value (b : Bytes) (t : Tok) (ht : t ∈ (tokens b).1) : (tokUint t).toNat = uint64Of t.delim t.value :=
  (Lemmas.TokAcc.tokens_acc b t ht).uint

/-- `Float()` hands strconv.ParseFloat exactly the bytes of the token and bit size 64 — for every kind of number token:
`-0` goes as `-0`, a 20-digit integer as its 20 digits (no detour through `Int()`). -/
theorem float_literal (t : Tok) : tokFloatArg t = (t.value, 64) := rfl

/-- `RawValue`: the five class tests look at the first byte only and agree with the kind; `AppendUnquote(p)` returns
`p ++` the unquoted string on a string token and panics on every other token. -/
theorem raw_value (b : Bytes) (t : Tok) (ht : t ∈ (tokens b).1) :
    [rawString t.value, rawNull t.value, rawTrue t.value, rawFalse t.value, rawNumber t.value]
      = rawFlagsOf (kindOf t.delim t.value) ∧
    ∀ p, rawAppendUnquote t.value p =
      if isStrKind (kindOf t.delim t.value) then .ok (p ++ stringOf t.delim t.value) else .panic "syntax" :=
  ⟨(Lemmas.TokAcc.tokens_acc b t ht).raw, (Lemmas.TokAcc.tokens_acc b t ht).unq⟩

/-- after a successful `parseString` the unquoting loop of `parseStringUnquote` cannot fail: the partial buffer the Go
code returns together with the loop's error is never observed by `String()`, and its `s[0]` cannot go out of range -/
theorem unquote_total (fl : PFlags) (b : Bytes) (k : Kind) (rest : Bytes) (hs : Lemmas.JsonString.QSound fl b)
    (h : parseString fl b = .ok k rest) : (parseStringUnquote fl b).isSome = true :=
  Lemmas.TokAcc.unquote_total fl b k rest hs h

/-- **valid documents**: the stream of (delimiter, text, everything the accessors report) the tokenizer yields is the one
the specification computes from the grammar-directed token list. -/
theorem accessors_eq_spec (b : Bytes) (ts : List Spec.Json.STok) (h : Spec.Json.tokensOf b = some ts) :
    (tokens b).1.map (fun t => (t.delim, t.value, Lemmas.TokAcc.accView (accOf (internalParseFlags b) t))) =
      ts.map (fun st => (st.delim, st.value, Lemmas.TokAcc.specView st.delim st.value)) :=
  Lemmas.TokAcc.acc_eq_spec b ts h

/-- the shapes of number tokens behind `kind_is_class`: what `parseNumber` consumes is sign? digits (no leading zero),
for kind Float followed by `.`/`e`/`E` -/
theorem number_token_shape (b : Bytes) (k : Kind) (rest : Bytes) (h : parseNumber b = .ok k rest) :
    ∃ v, b = v ++ rest ∧ Lemmas.TokAcc.NumLit k v :=
  Lemmas.TokAcc.parseNumber_lit b k rest h

/-- non-vacuity and the seeded cases: `[-0,"\u00e9",18446744073709551616,true]` — the tokens are emitted … -/
example : ((tokens [0x5b, 0x2d, 0x30, 0x2c, 0x22, 0x5c, 0x75, 0x30, 0x30, 0x65, 0x39, 0x22, 0x2c, 0x31, 0x38, 0x5d]).1.map (·.value)) =
    [[0x5b], [0x2d, 0x30], [0x2c], [0x22, 0x5c, 0x75, 0x30, 0x30, 0x65, 0x39, 0x22], [0x2c], [0x31, 0x38], [0x5d]] := by decide +kernel
-- … `-0` is an Int token whose Int() is 0, whose Uint() is 0 and whose Float() argument is `-0`
example : kindOf 0 [0x2d, 0x30] = 6 ∧ int64Of 0 [0x2d, 0x30] = 0 ∧ uint64Of 0 [0x2d, 0x30] = 0 := by decide
-- 9223372036854775808 (2^63): a Uint token; Int() gives 0, Uint() the value
example : int64Of 0 [0x39,0x32,0x32,0x33,0x33,0x37,0x32,0x30,0x33,0x36,0x38,0x35,0x34,0x37,0x37,0x35,0x38,0x30,0x38] = 0 ∧
    uint64Of 0 [0x39,0x32,0x32,0x33,0x33,0x37,0x32,0x30,0x33,0x36,0x38,0x35,0x34,0x37,0x37,0x35,0x38,0x30,0x38] = 9223372036854775808 := by decide
-- 18446744073709551616 (2^64): both give 0
example : int64Of 0 [0x31,0x38,0x34,0x34,0x36,0x37,0x34,0x34,0x30,0x37,0x33,0x37,0x30,0x39,0x35,0x35,0x31,0x36,0x31,0x36] = 0 ∧
    uint64Of 0 [0x31,0x38,0x34,0x34,0x36,0x37,0x34,0x34,0x30,0x37,0x33,0x37,0x30,0x39,0x35,0x35,0x31,0x36,0x31,0x36] = 0 := by decide
-- the string "\u00e9" has kind String (8) and unquotes to é; "abc" has kind Unescaped (9)
example : kindOf 0 [0x22, 0x5c, 0x75, 0x30, 0x30, 0x65, 0x39, 0x22] = 8 ∧
    Spec.Json.unquote [0x22, 0x5c, 0x75, 0x30, 0x30, 0x65, 0x39, 0x22] = [0xc3, 0xa9] ∧
    kindOf 0 [0x22, 0x61, 0x62, 0x63, 0x22] = 9 := by decide

end Enc.Props.C17
