import Enc.Model.Json.Token
import Enc.Spec.Json.Tokens
import Enc.Lemmas.TokSpec
import Enc.Lemmas.TokConcat
/-!
# C17 — json.Tokenizer enumerates exactly the tokens of the document
Property theorems only.
-/
namespace Enc.Props.C17
open Enc Enc.Model.Json Enc.Model.Json.Token

/-- once `Err` is set, `Next` keeps returning false and changes nothing — until `Reset` -/
theorem err_is_sticky (s : St) (h : s.err = true) : next s = (none, s) := by
  unfold next; simp [h]

/-- a Reset tokenizer behaves like a new one: whatever the history `old` and whatever stale content the pooled stack
carries, the state after `Reset(b)` is exactly `NewTokenizer(b)`'s -/
theorem reset_is_new (old : St) (garbage : List (Scope × Nat)) (b : Bytes) : reset old garbage b = newSt b := rfl

/-- **Main theorem.** For every valid JSON document (`tokensOf b = some ts`, the grammar-directed specification that
DEFINES depth = number of enclosing containers, index = position within the parent, and key/value role), iterating
the tokenizer yields, in order, exactly the specification's tokens — delimiter, value span, Depth, Index, IsKey — and
ends without error. -/
theorem tokens_eq_spec (b : Bytes) (ts : List Spec.Json.STok) (h : Spec.Json.tokensOf b = some ts) :
    (tokens b).2 = false ∧
    (tokens b).1.map (fun t => (t.delim, t.value, t.depth, t.index, t.isKey)) =
      ts.map (fun t => (t.delim, t.value, (t.depth : Int), (t.index : Int), t.isKey)) :=
  Lemmas.TokSpec.tokens_spec b ts h

/-- the concatenation of the token Values equals the compacted document (all white space outside strings removed;
`compact` is defined without reference to tokens) -/
theorem concat_values_eq_compact (b : Bytes) (ts : List Spec.Json.STok) (h : Spec.Json.tokensOf b = some ts) :
    ((tokens b).1.map (·.value)).flatten = Lemmas.TokConcat.compact b :=
  Lemmas.TokConcat.concat_values b ts h

/-- for EVERY byte string the tokenizer terminates: each successful `Next` strictly shortens the remaining input, so the
iteration never exhausts its fuel (`len + 2` calls suffice, whatever extra fuel is given) -/
theorem next_progress (s : St) (t : Tok) (s' : St) (h : next s = (some t, s')) : s'.json.length < s.json.length :=
  Lemmas.TokSpec.next_progress s t s' h
theorem tokens_terminate (b : Bytes) (k : Nat) : run (b.length + 2 + k) (newSt b) [] = tokens b :=
  Lemmas.TokSpec.tokens_fuel b k

/-- non-vacuity: the hypothesis of the main theorem is met by a document with an empty object inside an array -/
example : (Spec.Json.tokensOf [0x5b, 0x7b, 0x7d, 0x2c, 0x22, 0x61, 0x22, 0x5d]).isSome = true := by decide +kernel

end Enc.Props.C17
