import Enc.Model.Thrift
import Enc.Spec.Thrift
import Enc.Lemmas.ThriftSpec
import Enc.Lemmas.ThriftAccept
import Enc.Lemmas.ThriftDeltaStop
import Enc.Lemmas.ThriftMessage
import Enc.Lemmas.ThriftUnionSpec
/-!
# C13 — thrift bytes follow the binary and compact protocol specifications
Property theorems only. `Spec.Thrift` is the reference (written from the Apache specifications).
-/
namespace Enc.Props.C13
open Enc Enc.Model.Thrift

/-- the thrift type of the model for each specification type -/
def ofSpec : Spec.Thrift.TT → TType
  | .bool => .bool | .i8 => .i8 | .i16 => .i16 | .i32 => .i32 | .i64 => .i64 | .double => .double
  | .binary => .binary | .list => .list | .set => .set | .map => .map | .struct => .struct

/-- the `Type` enum of /repo/thrift (regenerated from thrift.go on every run) carries exactly the COMPACT protocol's
type codes … -/
theorem type_codes_are_compact (t : Spec.Thrift.TT) : (ofSpec t).code = Spec.Thrift.cmpCode t := by
  cases t <;> decide

/-- … which is why the full statement "the binary protocol writes the specification's type codes" is FALSE on the
unchanged tree (known finding thrift-binary-type-codes): witness I32, written as 5, specified as 8. -/
theorem binary_type_codes_full_fails : ¬ (∀ t : Spec.Thrift.TT, (ofSpec t).code = Spec.Thrift.binCode t) := by
  intro h; exact absurd (h .i32) (by decide)

/-- compact varints are the specification's base-128 varints -/
theorem uvarint_is_leb128 (n : Nat) : uvarint n = Spec.Thrift.leb128 n := by
  induction n using Nat.strongRecOn with
  | _ n ih =>
    unfold uvarint Spec.Thrift.leb128
    split
    · rfl
    · rw [ih (n / 128) (by omega)]

/-- … and compact integers are zig-zag encoded as specified -/
theorem zigzag_is_spec (i : Int) : zigzag64 i = Spec.Thrift.zigzag i := rfl

/-- list/set headers in the compact protocol: short form `ssss tttt` below 15 elements, else `1111 tttt` + varint -/
theorem compact_list_header (t : Spec.Thrift.TT) (n : Nat) :
    wList .compact (ofSpec t) n = Spec.Thrift.listHdr .compact t n := by
  unfold wList Spec.Thrift.listHdr
  rw [type_codes_are_compact, uvarint_is_leb128]
  by_cases h : n ≤ 14
  · have h2 : n < 15 := by omega
    have : Spec.Thrift.cmpCode t < 16 := by cases t <;> decide
    simp only [h, h2, if_true]
    congr 2
    omega
  · have h2 : ¬ n < 15 := by omega
    simp only [h, h2, if_false]
    congr 2
    cases t <;> decide

/-- the one-byte empty map, else varint size + `kkkk vvvv` -/
theorem compact_map_header (k v : Spec.Thrift.TT) (n : Nat) :
    wMap .compact (ofSpec k) (ofSpec v) n = Spec.Thrift.mapHdr .compact k v n := by
  unfold wMap Spec.Thrift.mapHdr
  rw [type_codes_are_compact, type_codes_are_compact, uvarint_is_leb128]
  by_cases h : n = 0
  · subst h; simp [Spec.Thrift.leb128]
  · have : (n == 0) = false := by simpa using h
    simp only [this, Bool.false_eq_true, if_false]
    congr 2
    cases k <;> cases v <;> decide

/-! ## bytes = specification (proofs in Enc/Lemmas/ThriftSpec*.lean)

Universe `ok = tyOK ∧ valOK`: bool, signed integer kinds, string, binary, lists, sets, maps, structs, pointers, named
types at any nesting; ids positive and distinct (Go panics otherwise); well-typed values in range; nil pointers and
collections allowed everywhere. Excluded: float fields (known finding: big-endian compact doubles) and enum fields of a
kind other than int32 (known finding). -/

/-- **MAIN (compact protocol).** For every type and value of the universe, what the encoder writes is byte for byte
what the Apache compact-protocol specification prescribes: zig-zag varints, field headers with the id-delta short
form, bools folded into the type nibble, list/set headers with the short form below 15, the one-byte empty map. -/
theorem encode_compact_eq_spec (ty : Ty) (v : Val) (h : Lemmas.ThriftSpec.ok ty v = true) :
    Model.Thrift.encode .compact ty v = Spec.Thrift.encode .compact ty v :=
  Lemmas.ThriftSpec.encode_compact_eq_spec ty v h

/-- **Binary protocol, modulo the known finding.** The binary writers produce the specification's encoding with two
substitutions and nothing else: the compact type-code table instead of the binary one, and a three-byte stop field
instead of one byte (`encB code stop` is the specification's binary encoder with those two as parameters;
`encB_spec`: with the specification's table and stop byte it IS `Spec.Thrift.encode`). -/
theorem encode_binary_eq_spec_mod (s : Bool) (ty : Ty) (v : Val) (h : Lemmas.ThriftSpec.ok ty v = true) :
    Model.Thrift.encode (.binary s) ty v = Lemmas.ThriftSpec.encB Spec.Thrift.cmpCode [0, 0, 0] ty v :=
  Lemmas.ThriftSpec.encode_binary_eq_spec_mod s ty v h

theorem encB_is_the_specification (s : Bool) (ty : Ty) (v : Val) :
    Lemmas.ThriftSpec.encB Spec.Thrift.binCode [0] ty v = Spec.Thrift.encode (.binary s) ty v :=
  Lemmas.ThriftSpec.encB_spec s ty v

/-! ## every conformant compact encoding is accepted (proofs in Enc/Lemmas/ThriftAccept*.lean; 7 files)

`Conf ty v bytes` is the SET of encodings the compact specification permits for a value: any varint representation up
to 10 bytes (minimal or padded), list/set headers in short (< 15) or long form, the empty map as a varint 0, field
headers in delta short form (when 0 < id − previous ≤ 15) or long form, struct fields in ANY order, optional fields
holding their default present or absent, bool element and map key/value types announced as 1 or 2 — recursively.

Nesting depth: types nested deeper than maxDepth = 10000 containers (lists, sets, maps, structs: `Model.Thrift.nest ty`;
pointers and named types do not count) are rejected by the decoder since the fix 9c8d6b4, whatever the encoding, hence
the hypothesis `hd : nest ty ≤ Gen.c_thrift_maxDepth` of `accept_unmarshal`. It constrains the type only and is not part
of `U` or `Conf`. -/

/-- the depth hypothesis is satisfiable for nested types (`[]map[string]struct{ A []int32 }`: 4 containers) -/
example : Model.Thrift.nest (.slice (.map .str (.struct (.cons "A" "thrift:\"1\"" false (.slice (.int .i32)) .nil))))
    ≤ Gen.c_thrift_maxDepth := by decide

open Lemmas.ThriftAccept in
/-- **MAIN (second half).** Every specification-conformant compact encoding of a value of the universe
(`U = ok ∧ RTS`), of a type nested at most maxDepth containers deep, is accepted by `Unmarshal`, strict or not, with the
same result as the canonical encoding. -/
theorem accept_unmarshal (strict : Bool) (ty : Ty) (v : Val) (h : U ty v = true)
    (hd : Model.Thrift.nest ty ≤ Gen.c_thrift_maxDepth) (bs : Bytes) (hc : Conf ty v bs) :
    Model.Thrift.unmarshal .compact strict ty bs = .ok (Lemmas.ThriftRoundTrip.norm ty v) :=
  Lemmas.ThriftAccept.accept_unmarshal strict ty v h hd bs hc

open Lemmas.ThriftAccept in
/-- the canonical encoding (= what Marshal writes) is a member of the set -/
theorem conf_marshal (ty : Ty) (v : Val) (h : U ty v = true) : Conf ty v (Model.Thrift.marshal .compact ty v) :=
  Lemmas.ThriftAccept.conf_marshal ty v h

/-! ## compact field headers: only the byte 0 is the stop field (fix 7d9da57; proofs in Enc/Lemmas/ThriftDeltaStop.lean) -/

/-- the compact writer never produces a header byte 0x10 … 0xF0 (non-zero id delta with type nibble 0): every field of a
real thrift type has a non-zero type nibble and the stop field is the byte 0 … -/
theorem writer_never_delta_stop (t : TType) (id : Int) (dl : Bool) (ht : Lemmas.ThriftPrim.isReal t = true ∨ t = .stop) :
    ∃ c rest, wField .compact t id dl = c :: rest ∧ ¬ Lemmas.ThriftDeltaStop.IsDeltaStop c :=
  Lemmas.ThriftDeltaStop.wField_not_delta_stop t id dl ht

/-- … and the reader rejects such a byte wherever a field header is expected (it is neither a field of a thrift type nor
the stop field of the specification); conformant encodings (`Conf`) never contain one, so `accept_unmarshal` is
unaffected -/
theorem delta_stop_rejected (strict : Bool) (d fuel : Nat) (c : UInt8) (h : Lemmas.ThriftDeltaStop.IsDeltaStop c)
    (rest : Bytes) (last : Int) (num : Nat) :
    skipStruct .compact d (fuel + 1) (c :: rest) last num = .err "deltaStop" ∧
    (∀ descs vs seen, decodeStruct .compact strict d (fuel + 1) descs (c :: rest) vs last num seen = .err "deltaStop") :=
  ⟨Lemmas.ThriftDeltaStop.skipStruct_delta_stop d fuel c h rest last num,
   fun descs vs seen => Lemmas.ThriftDeltaStop.decodeStruct_delta_stop strict d fuel descs c h rest vs last num seen⟩

/-- the short form is chosen exactly for a Delta in 1 … 15 (fix 988f9bb): an absolute id ≤ 15 with `Delta = false`, a zero
or a negative id go to the long form and are read back as themselves -/
theorem long_form_reads_back (t : TType) (id : Int) (dl : Bool) (ht : Lemmas.ThriftPrim.isReal t = true)
    (hsel : (dl && decide (0 < id) && decide (id ≤ 15)) = false) (hid : -2 ^ 15 ≤ id ∧ id < 2 ^ 15) (rest : Bytes) :
    rField .compact (wField .compact t id dl ++ rest) = .ok ({ t := t, id := id, delta := false }, rest) :=
  Lemmas.ThriftPrim.rField_wField_compact_long_gen t id dl ht hsel hid rest

/-! ## message headers (fixes 6527322, 3d53304; proofs in Enc/Lemmas/ThriftMessage.lean) -/

/-- **Compact message header, modulo the known finding `thrift-message-header`.** `WriteMessage` writes the protocol id
0x82, ONE byte that is not the specified `(type << 5) | version` (the known finding: the bare type, no version bits), and
then exactly what the specification prescribes: the sequence id as the varint of its 32-bit two's complement (the
repaired rule: a negative id takes 5 bytes; before it was sign-extended to 64 bits, 10 bytes), the name length, the
name. `k` is whatever message type the specification side is given: the tail does not depend on it. -/
theorem compact_message_header_mod (mt k : Nat) (name : Bytes) (seq : Int) :
    wMessage .compact mt name seq =
      0x82 :: UInt8.ofNat (mt % 256) :: (Spec.Thrift.message .compact k name seq).drop 2 :=
  Lemmas.ThriftMessage.wMessage_compact_tail mt k name seq

/-- **The compact message header round-trips**, negative sequence ids included (`ReadMessage` accepts sequence id
varints up to MaxUint32 and converts back to int32) -/
theorem compact_message_roundtrip (mt : Nat) (hmt : mt < 256) (name : Bytes) (hn : name.length ≤ 2147483647)
    (seq : Int) (hs : -2 ^ 31 ≤ seq ∧ seq < 2 ^ 31) (rest : Bytes) :
    rMessage .compact (wMessage .compact mt name seq ++ rest) =
      .ok ({ mtype := mt % 8, name := name, seq := seq }, rest) :=
  Lemmas.ThriftMessage.rMessage_wMessage_compact mt hmt name hn seq hs rest

/-- a sequence id varint above MaxUint32 is rejected -/
theorem compact_seq_id_bound (b1 : UInt8) (n : Nat) (hn : 4294967295 < n) (hn64 : n < 2 ^ 64) (rest : Bytes) :
    rMessage .compact (0x82 :: b1 :: (uvarint n ++ rest)) = .err "range" :=
  Lemmas.ThriftMessage.rMessage_compact_seq_bound b1 n hn hn64 rest

/-- binary strict header that ends right before the sequence id: an unexpected EOF (fix 3d53304; it was a plain EOF) -/
theorem binary_message_cut_before_seq (s : Bool) (mt : Nat) (name : Bytes) (hn : name.length ≤ 2147483647) :
    rMessage (.binary s) ([0x80, 0, 0, UInt8.ofNat (mt % 8)] ++ wBytes (.binary s) name) = .err "unexpectedEof" :=
  Lemmas.ThriftMessage.rMessage_binary_cut_before_seq s mt name hn

/-- non-vacuity: seq = -1 is written as the 5-byte varint ff ff ff ff 0f -/
example : wMessage .compact 0 [] (-1) = [0x82, 0, 0xff, 0xff, 0xff, 0xff, 0x0f, 0] := by decide +kernel

/-! ## unions (proofs in Enc/Lemmas/ThriftUnionSpec.lean; executable reference with unions: `Spec.Thrift.encodeU`)

Apache Thrift: a union is, on the wire, an ordinary struct carrying exactly one field — the member that is set, whatever
its value. -/

open Lemmas.ThriftSkip Lemmas.ThriftUnion in
/-- **union bytes = specification (compact protocol).** The bytes written for a union value with exactly member `k` emitted
(`othersQuiet`, `emittedU`: see Props/C04 — the designated ZERO-valued member included) are byte for byte the specification's
encoding (`Spec.Thrift.encode`) of the struct that has exactly that field: `tag'` = the member's id and enum flag plus
`required`, so that the reference transmits the field whatever its value. Member universe: `Lemmas.ThriftSpec.ok`. -/
theorem union_bytes_eq_spec (fs : Fields) (vs : Vals) (k : Nat) (tag : String) (t : Ty) (x : Val) (id : Int) (en : Bool)
    (n tag' : String) (e : Bool)
    (hq : othersQuiet (zeroMember fs vs) k fs vs 0 = true)
    (hk : fieldAt fs vs k = some (tag, t, x))
    (he : emittedU (zeroMember fs vs) k tag t x = some (id, en))
    (hnu : noUnion t = true)
    (hp' : parseTag tag' = some (id, true, en)) (hnn : isNilPtr t x = false)
    (hok : Lemmas.ThriftSpec.ok (.struct (.cons n tag' e t .nil)) (.struct (.cons x .nil)) = true) :
    encodeU .compact (.struct fs) (.struct vs) =
      .ok (Spec.Thrift.encode .compact (.struct (.cons n tag' e t .nil)) (.struct (.cons x .nil))) :=
  Lemmas.ThriftUnion.union_bytes_eq_spec fs vs k tag t x id en n tag' e hq hk he hnu hp' hnn hok

open Lemmas.ThriftSkip Lemmas.ThriftUnion in
/-- every protocol setting, at the level of the model: union bytes = the bytes of the one-field struct (binary: then
`encode_binary_eq_spec_mod` applies to the right-hand side) -/
theorem union_bytes_eq_single (p : Proto) (fs : Fields) (vs : Vals) (k : Nat) (tag : String) (t : Ty) (x : Val) (id : Int)
    (en : Bool) (n tag' : String) (e : Bool)
    (hq : othersQuiet (zeroMember fs vs) k fs vs 0 = true)
    (hk : fieldAt fs vs k = some (tag, t, x))
    (he : emittedU (zeroMember fs vs) k tag t x = some (id, en))
    (hnu : noUnion t = true)
    (hp' : parseTag tag' = some (id, true, en)) (hnn : isNilPtr t x = false) :
    encodeU p (.struct fs) (.struct vs) = .ok (encode p (.struct (.cons n tag' e t .nil)) (.struct (.cons x .nil))) :=
  Lemmas.ThriftUnion.union_bytes_eq_single p fs vs k tag t x id en n tag' e hq hk he hnu hp' hnn

/-- conservativity: on union-free types `encodeU` is `encode`, so `encode_compact_eq_spec` speaks about the model the driver runs -/
theorem encodeU_eq_encode (p : Proto) (ty : Ty) (v : Val) (h : noUnion ty = true) :
    encodeU p ty v = .ok (Model.Thrift.encode p ty v) := Lemmas.ThriftUnion.encodeU_eq_encode p ty v h

end Enc.Props.C13
