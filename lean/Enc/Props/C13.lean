import Enc.Model.Thrift
import Enc.Spec.Thrift
/-!
# C13 — thrift bytes follow the binary and compact protocol specifications
Property theorems only. `Spec.Thrift` is the reference (written from the Apache specifications).
-/
namespace Enc.Props.C13
open Enc Enc.Model.Thrift

/-- the thrift type of the model for each specification type -/
def ofSpec : Spec.Thrift.TT → TType
  | .bool => .bool | .i8 => .i8 | .i16 => .i16 | .i32 => .i32 | .i64 => .i64 | .double => .double
  | .binary => .binary | .list => .list | .set => .set | .map => .map | .struct => .struct

/-- the `Type` enum of /repo/thrift (regenerated from thrift.go on every run) carries exactly the COMPACT protocol's
type codes … -/
theorem type_codes_are_compact (t : Spec.Thrift.TT) : (ofSpec t).code = Spec.Thrift.cmpCode t := by
  cases t <;> decide

/-- … which is why the full statement "the binary protocol writes the specification's type codes" is FALSE on the
unchanged tree (known finding thrift-binary-type-codes): witness I32, written as 5, specified as 8. -/
theorem binary_type_codes_full_fails : ¬ (∀ t : Spec.Thrift.TT, (ofSpec t).code = Spec.Thrift.binCode t) := by
  intro h; exact absurd (h .i32) (by decide)

/-- compact varints are the specification's base-128 varints -/
theorem uvarint_is_leb128 (n : Nat) : uvarint n = Spec.Thrift.leb128 n := by
  induction n using Nat.strongRecOn with
  | _ n ih =>
    unfold uvarint Spec.Thrift.leb128
    split
    · rfl
    · rw [ih (n / 128) (by omega)]

/-- … and compact integers are zig-zag encoded as specified -/
theorem zigzag_is_spec (i : Int) : zigzag64 i = Spec.Thrift.zigzag i := rfl

/-- list/set headers in the compact protocol: short form `ssss tttt` below 15 elements, else `1111 tttt` + varint -/
theorem compact_list_header (t : Spec.Thrift.TT) (n : Nat) :
    wList .compact (ofSpec t) n = Spec.Thrift.listHdr .compact t n := by
  unfold wList Spec.Thrift.listHdr
  rw [type_codes_are_compact, uvarint_is_leb128]
  by_cases h : n ≤ 14
  · have h2 : n < 15 := by omega
    have : Spec.Thrift.cmpCode t < 16 := by cases t <;> decide
    simp only [h, h2, if_true]
    congr 2
    omega
  · have h2 : ¬ n < 15 := by omega
    simp only [h, h2, if_false]
    congr 2
    cases t <;> decide

/-- the one-byte empty map, else varint size + `kkkk vvvv` -/
theorem compact_map_header (k v : Spec.Thrift.TT) (n : Nat) :
    wMap .compact (ofSpec k) (ofSpec v) n = Spec.Thrift.mapHdr .compact k v n := by
  unfold wMap Spec.Thrift.mapHdr
  rw [type_codes_are_compact, type_codes_are_compact, uvarint_is_leb128]
  by_cases h : n = 0
  · subst h; simp [Spec.Thrift.leb128]
  · have : (n == 0) = false := by simpa using h
    simp only [this, Bool.false_eq_true, if_false]
    congr 2
    cases k <;> cases v <;> decide

end Enc.Props.C13
