import Enc.Model.Thrift
import Enc.Spec.Thrift
import Enc.Lemmas.ThriftSpec
import Enc.Lemmas.ThriftAccept
/-!
# C13 — thrift bytes follow the binary and compact protocol specifications
Property theorems only. `Spec.Thrift` is the reference (written from the Apache specifications).
-/
namespace Enc.Props.C13
open Enc Enc.Model.Thrift

/-- the thrift type of the model for each specification type -/
def ofSpec : Spec.Thrift.TT → TType
  | .bool => .bool | .i8 => .i8 | .i16 => .i16 | .i32 => .i32 | .i64 => .i64 | .double => .double
  | .binary => .binary | .list => .list | .set => .set | .map => .map | .struct => .struct

/-- the `Type` enum of /repo/thrift (regenerated from thrift.go on every run) carries exactly the COMPACT protocol's
type codes … -/
theorem type_codes_are_compact (t : Spec.Thrift.TT) : (ofSpec t).code = Spec.Thrift.cmpCode t := by
  cases t <;> decide

/-- … which is why the full statement "the binary protocol writes the specification's type codes" is FALSE on the
unchanged tree (known finding thrift-binary-type-codes): witness I32, written as 5, specified as 8. -/
theorem binary_type_codes_full_fails : ¬ (∀ t : Spec.Thrift.TT, (ofSpec t).code = Spec.Thrift.binCode t) := by
  intro h; exact absurd (h .i32) (by decide)

/-- compact varints are the specification's base-128 varints -/
theorem uvarint_is_leb128 (n : Nat) : uvarint n = Spec.Thrift.leb128 n := by
  induction n using Nat.strongRecOn with
  | _ n ih =>
    unfold uvarint Spec.Thrift.leb128
    split
    · rfl
    · rw [ih (n / 128) (by omega)]

/-- … and compact integers are zig-zag encoded as specified -/
theorem zigzag_is_spec (i : Int) : zigzag64 i = Spec.Thrift.zigzag i := rfl

/-- list/set headers in the compact protocol: short form `ssss tttt` below 15 elements, else `1111 tttt` + varint -/
theorem compact_list_header (t : Spec.Thrift.TT) (n : Nat) :
    wList .compact (ofSpec t) n = Spec.Thrift.listHdr .compact t n := by
  unfold wList Spec.Thrift.listHdr
  rw [type_codes_are_compact, uvarint_is_leb128]
  by_cases h : n ≤ 14
  · have h2 : n < 15 := by omega
    have : Spec.Thrift.cmpCode t < 16 := by cases t <;> decide
    simp only [h, h2, if_true]
    congr 2
    omega
  · have h2 : ¬ n < 15 := by omega
    simp only [h, h2, if_false]
    congr 2
    cases t <;> decide

/-- the one-byte empty map, else varint size + `kkkk vvvv` -/
theorem compact_map_header (k v : Spec.Thrift.TT) (n : Nat) :
    wMap .compact (ofSpec k) (ofSpec v) n = Spec.Thrift.mapHdr .compact k v n := by
  unfold wMap Spec.Thrift.mapHdr
  rw [type_codes_are_compact, type_codes_are_compact, uvarint_is_leb128]
  by_cases h : n = 0
  · subst h; simp [Spec.Thrift.leb128]
  · have : (n == 0) = false := by simpa using h
    simp only [this, Bool.false_eq_true, if_false]
    congr 2
    cases k <;> cases v <;> decide

/-! ## bytes = specification (proofs in Enc/Lemmas/ThriftSpec*.lean)

Universe `ok = tyOK ∧ valOK`: bool, signed integer kinds, string, binary, lists, sets, maps, structs, pointers, named
types at any nesting; ids positive and distinct (Go panics otherwise); well-typed values in range; nil pointers and
collections allowed everywhere. Excluded: float fields (known finding: big-endian compact doubles) and enum fields of a
kind other than int32 (known finding). -/

/-- **MAIN (compact protocol).** For every type and value of the universe, what the encoder writes is byte for byte
what the Apache compact-protocol specification prescribes: zig-zag varints, field headers with the id-delta short
form, bools folded into the type nibble, list/set headers with the short form below 15, the one-byte empty map. -/
theorem encode_compact_eq_spec (ty : Ty) (v : Val) (h : Lemmas.ThriftSpec.ok ty v = true) :
    Model.Thrift.encode .compact ty v = Spec.Thrift.encode .compact ty v :=
  Lemmas.ThriftSpec.encode_compact_eq_spec ty v h

/-- **Binary protocol, modulo the known finding.** The binary writers produce the specification's encoding with two
substitutions and nothing else: the compact type-code table instead of the binary one, and a three-byte stop field
instead of one byte (`encB code stop` is the specification's binary encoder with those two as parameters;
`encB_spec`: with the specification's table and stop byte it IS `Spec.Thrift.encode`). -/
theorem encode_binary_eq_spec_mod (s : Bool) (ty : Ty) (v : Val) (h : Lemmas.ThriftSpec.ok ty v = true) :
    Model.Thrift.encode (.binary s) ty v = Lemmas.ThriftSpec.encB Spec.Thrift.cmpCode [0, 0, 0] ty v :=
  Lemmas.ThriftSpec.encode_binary_eq_spec_mod s ty v h

theorem encB_is_the_specification (s : Bool) (ty : Ty) (v : Val) :
    Lemmas.ThriftSpec.encB Spec.Thrift.binCode [0] ty v = Spec.Thrift.encode (.binary s) ty v :=
  Lemmas.ThriftSpec.encB_spec s ty v

/-! ## every conformant compact encoding is accepted (proofs in Enc/Lemmas/ThriftAccept*.lean; 7 files)

`Conf ty v bytes` is the SET of encodings the compact specification permits for a value: any varint representation up
to 10 bytes (minimal or padded), list/set headers in short (< 15) or long form, the empty map as a varint 0, field
headers in delta short form (when 0 < id − previous ≤ 15) or long form, struct fields in ANY order, optional fields
holding their default present or absent, bool element and map key/value types announced as 1 or 2 — recursively. -/

open Lemmas.ThriftAccept in
/-- **MAIN (second half).** Every specification-conformant compact encoding of a value of the universe
(`U = ok ∧ RTS`) is accepted by `Unmarshal`, strict or not, with the same result as the canonical encoding. -/
theorem accept_unmarshal (strict : Bool) (ty : Ty) (v : Val) (h : U ty v = true) (bs : Bytes) (hc : Conf ty v bs) :
    Model.Thrift.unmarshal .compact strict ty bs = .ok (Lemmas.ThriftRoundTrip.norm ty v) :=
  Lemmas.ThriftAccept.accept_unmarshal strict ty v h bs hc

open Lemmas.ThriftAccept in
/-- the canonical encoding (= what Marshal writes) is a member of the set -/
theorem conf_marshal (ty : Ty) (v : Val) (h : U ty v = true) : Conf ty v (Model.Thrift.marshal .compact ty v) :=
  Lemmas.ThriftAccept.conf_marshal ty v h

end Enc.Props.C13
