import Enc.Model.Json.Own
import Enc.Lemmas.JsonOwn
/-!
# C10 — json memory ownership: inputs untouched, results stable, aliasing opt-in
Property theorems only (proofs in Enc/Lemmas/JsonOwn.lean).
-/
namespace Enc.Props.C10
open Enc Enc.Model.Json Enc.Model.Json.Own

/-- without zero-copy flags every decoded leaf lives in memory of its own -/
theorem no_flags_fresh (pf : PFlags) (leaf : Leaf) (lit : Bytes) (p : Prov)
    (h : leafProv ⟨false, false, false⟩ pf leaf lit = some p) : p = .fresh :=
  Lemmas.JsonOwn.no_flags_fresh pf leaf lit p h

/-- aliasing is opt-in: a leaf shares memory with the input only if the flag for its kind is set — and a string only if,
in addition, it needed no unescaping -/
theorem alias_only_with_flag (fl : CopyFlags) (pf : PFlags) (leaf : Leaf) (lit : Bytes)
    (h : leafProv fl pf leaf lit = some .input) :
    match leaf with
    | .string => fl.dontCopyString = true ∧ unquoteIsNew pf lit = some false
    | .number => fl.dontCopyNumber = true
    | .raw => fl.dontCopyRawMessage = true
    | .bytes => False :=
  Lemmas.JsonOwn.alias_only_with_flag fl pf leaf lit h

/-- …and with nothing else: provenance has only two values, the input buffer or memory made for the value (there is no
constructor for pooled or shared scratch memory; the correspondence check observes real addresses against this) -/
theorem prov_cases (p : Prov) : p = .input ∨ p = .fresh := Lemmas.JsonOwn.prov_cases p

/-- pool buffers and handed-out regions are allocated regions, and no handed-out region sits in the pool -/
abbrev Inv := Lemmas.JsonOwn.Inv

theorem inv_init : Inv St.init := Lemmas.JsonOwn.inv_init

/-- one library call keeps the invariant and leaves every handed-out region's bytes as they were -/
theorem step_inv (s : St) (op : Op) (hs : Inv s) :
    Inv (step s op) ∧ ∀ r ∈ s.out, (step s op).heap[r]? = s.heap[r]? ∧ r ∈ (step s op).out :=
  Lemmas.JsonOwn.step_inv s op hs

/-- **Results stay stable.** Whatever sequence of further Marshal / Encode calls (successful or failing) follows, every
region that was handed to a caller keeps its bytes — pooled buffers are reused, handed-out results never are. -/
theorem handed_out_stable (ops : List Op) (s : St) (hs : Inv s) :
    Inv (run s ops) ∧ ∀ r ∈ s.out, (run s ops).heap[r]? = s.heap[r]? :=
  Lemmas.JsonOwn.handed_out_stable ops s hs

/-- what Marshal hands out is the encoding, in a region of its own -/
theorem marshal_result (s : St) (data : Bytes) :
    let s' := step s (.marshal data)
    ∃ r, s'.out = r :: s.out ∧ s'.heap[r]? = some data :=
  Lemmas.JsonOwn.marshal_result s data

/-- non-vacuity: a pool history in which a buffer is reused while two results are outstanding -/
example : (run St.init [.marshal [1, 2], .encode [9, 9, 9], .marshal [3], .marshalFail, .encode [7]]).heap[1]? = some [1, 2] := by
  decide

end Enc.Props.C10
