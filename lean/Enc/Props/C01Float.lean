import Enc.Model.Json.EncFloat
import Enc.Spec.Json.StdEncFloat
import Enc.Lemmas.JsonEncFloat
/-!
# C01 (float layer) — "ES6-style float formatting"; C15 — Append is oblivious to the destination
Property theorems only (proofs in Enc/Lemmas/JsonEncFloat.lean).

TRUSTED BASE of this file: `strconv.AppendFloat(b, f, fmt, -1, bits) = b ++ digits` with `StrconvShape fmt digits`
(`'e'`: `[-]d[.d+]e(+|-)dd+`, `'f'`: `[-]d+[.d+]`), and the IEEE comparisons of `math` / the Go language, delivered to
the model as their Boolean outcomes (`FloatCmp`). Both libraries call the same strconv with the same arguments, so
the digits are a shared parameter.
-/
namespace Enc.Props.C01Float
open Enc Enc.Model.Json

/-- **MAIN.** For every destination, both formats and every digit string of the strconv shape: what encodeFloat leaves in
the buffer is the destination followed by what encoding/json writes for these digits. -/
theorem encodeFloat_eq_std (dst digits : Bytes) (fmt : FFmt) (h : StrconvShape fmt digits) :
    encodeFloatFmt dst fmt digits = dst ++ Spec.Json.stdFloat (decide (fmt = .e)) digits :=
  Lemmas.JsonEncFloat.encodeFloatFmt_eq_std dst digits fmt h

/-- the same with the only fact about the 'e' digits that is used: they have at least four bytes -/
theorem encodeFloat_eq_std_of_len (dst digits : Bytes) (fmt : FFmt) (h : fmt = .e → 4 ≤ digits.length) :
    encodeFloatFmt dst fmt digits = dst ++ Spec.Json.stdFloat (decide (fmt = .e)) digits :=
  Lemmas.JsonEncFloat.encodeFloatFmt_eq_std_of_len dst digits fmt h

/-- C15: the first `dst.length` bytes of the result are `dst`, whatever `dst` ends with, and the rest is what the
function appends to the empty destination. -/
theorem encodeFloat_oblivious (dst digits : Bytes) (fmt : FFmt) (h : StrconvShape fmt digits) :
    (encodeFloatFmt dst fmt digits).take dst.length = dst ∧
    (encodeFloatFmt dst fmt digits).drop dst.length = encodeFloatFmt [] fmt digits :=
  Lemmas.JsonEncFloat.encodeFloatFmt_oblivious dst digits fmt h

/-- the threshold test as the code writes it is the ES6 rule at the value's own width: exponent form iff the value is
non-zero and (|x| < 1e-6 or |x| ≥ 1e21); in particular 0 (for which `abs < 1e-6` holds) is positional. -/
theorem format_choice (bits : Nat) (c : FloatCmp) :
    (chooseFmt bits c = .e) ↔
      (bits = 64 ∧ Spec.Json.es6Exponential c.nonZero c.lt64 c.ge64 = true) ∨
      (bits = 32 ∧ Spec.Json.es6Exponential c.nonZero c.lt32 c.ge32 = true) :=
  Lemmas.JsonEncFloat.format_choice bits c

/-- the whole function (NaN / Inf switch, format choice, strconv, clean-up) against the whole stdlib rule -/
theorem encodeFloat_total_eq_std (dst : Bytes) (bits : Nat) (hb : bits = 32 ∨ bits = 64) (c : FloatCmp) (dF dE : Bytes)
    (hF : StrconvShape .f dF) (hE : StrconvShape .e dE) :
    encodeFloat dst bits c dF dE =
      match Spec.Json.stdEncodeFloat c.isNaN c.isInf c.nonZero
          (if bits = 64 then c.lt64 else c.lt32) (if bits = 64 then c.ge64 else c.ge32) dF dE with
      | none => .err (if c.isNaN then "unsupported:NaN" else "unsupported:inf")
      | some x => .ok (dst ++ x) :=
  Lemmas.JsonEncFloat.encodeFloat_eq_std dst bits hb c dF dE hF hE

/-- NaN and ±Inf are errors in both libraries, whatever else is passed -/
theorem nan_inf_error (dst : Bytes) (bits : Nat) (c : FloatCmp) (dF dE : Bytes) (h : c.isNaN = true ∨ c.isInf = true) :
    (∃ cls, encodeFloat dst bits c dF dE = .err cls) ∧
    ∀ nz lt ge, Spec.Json.stdEncodeFloat c.isNaN c.isInf nz lt ge dF dE = none :=
  Lemmas.JsonEncFloat.nan_inf_error dst bits c dF dE h

/-- every 'e' output of strconv is long enough for the four-byte look-back to stay inside it -/
theorem shapeE_len (digits : Bytes) (h : StrconvShape .e digits) : 4 ≤ digits.length :=
  Lemmas.JsonEncFloat.shapeE_len digits h

/-! ### non-vacuity and negative witnesses -/

-- "1e-07" after the prefix "zone-0": the zero of the exponent goes, the prefix stays
example : StrconvShape .e [0x31, 0x65, 0x2d, 0x30, 0x37] := by decide
example : encodeFloatFmt [0x7a, 0x6f, 0x6e, 0x65, 0x2d, 0x30] .e [0x31, 0x65, 0x2d, 0x30, 0x37]
    = [0x7a, 0x6f, 0x6e, 0x65, 0x2d, 0x30] ++ [0x31, 0x65, 0x2d, 0x37] := by decide
-- "-1.5e+21", "5", "-0.000001" have the strconv shapes; "1e-7", "e-07", "1." have not
example : StrconvShape .e [0x2d, 0x31, 0x2e, 0x35, 0x65, 0x2b, 0x32, 0x31] := by decide
example : StrconvShape .f [0x35] := by decide
example : StrconvShape .f [0x2d, 0x30, 0x2e, 0x30, 0x30, 0x30, 0x30, 0x30, 0x31] := by decide
example : ¬ StrconvShape .e [0x31, 0x65, 0x2d, 0x37] := by decide
example : ¬ StrconvShape .e [0x65, 0x2d, 0x30, 0x37] := by decide
example : ¬ StrconvShape .f [0x31, 0x2e] := by decide

/-- NEGATIVE WITNESS (seeded change: the `fmt == 'e'` guard dropped): destination "zone-0", value 5 — the unguarded
clean-up sees `e-05` across the boundary and rewrites the caller's bytes ("zone-5" instead of "zone-05"). -/
theorem unguarded_cleanup_rewrites_prefix :
    encodeFloatUnguarded [0x7a, 0x6f, 0x6e, 0x65, 0x2d, 0x30] .f [0x35] = [0x7a, 0x6f, 0x6e, 0x65, 0x2d, 0x35] ∧
    (encodeFloatUnguarded [0x7a, 0x6f, 0x6e, 0x65, 0x2d, 0x30] .f [0x35]).take 6 ≠ [0x7a, 0x6f, 0x6e, 0x65, 0x2d, 0x30] ∧
    encodeFloatFmt [0x7a, 0x6f, 0x6e, 0x65, 0x2d, 0x30] .f [0x35] = [0x7a, 0x6f, 0x6e, 0x65, 0x2d, 0x30, 0x35] := by
  decide

/-- NEGATIVE WITNESS (why the shape hypothesis is needed): with a too short 'e' digit string the guarded clean-up, too,
would reach into the prefix — strconv never produces one. -/
theorem short_digits_would_leak :
    encodeFloatFmt [0x65, 0x2d] .e [0x30, 0x37] ≠ [0x65, 0x2d] ++ Spec.Json.stdFloat true [0x30, 0x37] := by decide

/-- decision table, spelled out on the four interesting rows (64-bit) -/
example : chooseFmt 64 ⟨false, false, false, true, false, true, false⟩ = .f := by decide   -- ±0
example : chooseFmt 64 ⟨false, false, true, true, false, true, false⟩ = .e := by decide    -- 9.99e-7
example : chooseFmt 64 ⟨false, false, true, false, false, false, false⟩ = .f := by decide  -- 1e-6 … <1e21
example : chooseFmt 64 ⟨false, false, true, false, true, false, true⟩ = .e := by decide    -- 1e21
-- float32: only the float32 comparisons count (float32(1e-6) as a float64 is < 1e-6, as a float32 it is not)
example : chooseFmt 32 ⟨false, false, true, true, false, false, false⟩ = .f := by decide

end Enc.Props.C01Float
