import Enc.Model.ProtoRewrite
import Enc.Spec.Protobuf
import Enc.Lemmas.ProtoRewriteSpec
import Enc.Lemmas.ProtoTemplateFlat
import Enc.Lemmas.ProtoTemplateNested
import Enc.Lemmas.ProtoTemplateBridge
import Enc.Lemmas.ProtoTemplatePresCheck
import Enc.Lemmas.ProtoTemplateBridge2
import Enc.Lemmas.ProtoTemplateRulesExamples
/-!
# C19 — proto rewriters replace exactly the templated fields
Property theorems only.
-/
namespace Enc.Props.C19
open Enc Enc.Model.Proto

/-- the `seen` set of `MessageRewriter.Rewrite` always has a bit for every index it is asked about: for a rewriter of
length `n` (field numbers `0 … n-1`) it holds at least `n` bits — for EVERY n, i.e. for every field number the wire
format allows (on the unchanged tree `makeFieldset` computed `(n+1)/64` words and this failed from n = 256 on). -/
theorem fieldset_covers (n : Nat) : n ≤ seenWords n * 64 := by
  unfold seenWords fieldsetWords
  split <;> omega

/-- `makeFieldset(n)` allocates the least number of 64-bit words holding n bits -/
theorem makeFieldset_exact (n : Nat) : n ≤ fieldsetWords n * 64 ∧ fieldsetWords n * 64 < n + 64 := by
  unfold fieldsetWords; omega

/-- `Append` writes `tag, [length,] value`: the field it appends parses back to the same number, wire type and value
bytes (so untemplated fields are carried over with identical values) — stated for the length-delimited case -/
theorem append_len_layout (f : Nat) (v : Bytes) :
    appendField f 2 v = encodeVarint (BitVec.ofNat 64 (f * 8 + 2)) ++ encodeVarint (BitVec.ofNat 64 v.length) ++ v := by
  simp [appendField]

/-- a RawMessage rewriter ignores its input and a multi-rewriter of none writes nothing (a zero template value deletes
the field: it then decodes as the zero value) -/
theorem raw_ignores_input (fuel : Nat) (b i1 i2 : Bytes) : rewrite (fuel + 1) (.raw b) i1 = rewrite (fuel + 1) (.raw b) i2 := by
  simp [rewrite]
theorem multi_nil_writes_nothing (fuel : Nat) (i : Bytes) : rewrite (fuel + 2) (.multi []) i = .ok [] := by
  simp [rewrite, rewriteMulti]

/-! ## rewriters = record-level specification (proofs in Enc/Lemmas/ProtoRewriteSpec*.lean, 2.8 k lines)

Trees covered: ALL `Rw` constructors — `raw`, `multi`, `message`, `embedded`, and the two that only
`ParseRewriteTemplate` builds, `embeddedMerge` (`embddedRewriter{merge: true}`) and `replacement` — nested in any way.
`rwOK` only asks: table indices below the table length, field numbers of `embedded`/`embeddedMerge` in `1 … 2^61-1`.
`hasEmb` is true when the tree contains an `embedded` or `embeddedMerge` node. -/

open Lemmas.ProtoRewriteSpec Spec.Protobuf in
/-- **MAIN.** For every well-formed rewriter tree (`rwOK`: table indices below the table length, embedded field numbers
in range; all six constructors, `embeddedMerge` and `replacement` included) and every input on which the record-level
specification is defined (in particular every valid encoded message), the rewriter as coded — seen-set, first
occurrence rewritten (an `embddedRewriter{merge: true}` in the table slot is handed the concatenation of ALL
length-delimited occurrences of its field, a `replacement` starts from the empty input), later occurrences dropped,
untemplated fields copied through `Append`, absent templated fields appended, length prefix spliced in front of
rewritten sub-messages — returns a VALID message whose records are the specification's. `Sim false` is equality; below `embedded` rewriters
(`Sim true`) a sub-message that was copied verbatim may differ from the specification's canonical re-encoding in the
bytes of non-minimal varints only, never in its records. -/
theorem rewrite_spec (r : Rw) (inp : Bytes) (sf : Nat) (recs : List (Nat × WireVal)) (hok : rwOK r = true)
    (hsz : sizeM r * (inp.length + 1) < 2 ^ 64) (hs : specRw sf (toSpec r) inp = some recs) :
    ∃ out recs', (∀ fuel, inp.length + fuelD r ≤ fuel → rewrite fuel r inp = .ok out) ∧
      parse (out.length + 1) out = some recs' ∧ Sim (hasEmb r) recs' recs :=
  Lemmas.ProtoRewriteSpec.rewrite_spec r inp sf recs hok hsz hs

open Lemmas.ProtoRewriteSpec Spec.Protobuf in
/-- without `embedded` / `embeddedMerge` nodes (`raw`, `multi`, `message`, `replacement` in any nesting): the parsed output
IS the specification's record list -/
theorem rewrite_spec_exact (r : Rw) (inp : Bytes) (sf : Nat) (hok : rwOK r = true) (hne : hasEmb r = false)
    (hsz : sizeM r * (inp.length + 1) < 2 ^ 64) (hdef : (specRw sf (toSpec r) inp).isSome = true) :
    ∃ out, (∀ fuel, inp.length + fuelD r ≤ fuel → rewrite fuel r inp = .ok out) ∧
      parse (out.length + 1) out = specRw sf (toSpec r) inp :=
  Lemmas.ProtoRewriteSpec.rewrite_spec_exact r inp sf hok hne hsz hdef

open Lemmas.ProtoRewriteSpec Spec.Protobuf in
/-- fields the template does not mention are carried over in their original order with identical values (any entries,
`embeddedMerge` and `replacement` included) -/
theorem untemplated_fields_kept (len : Nat) (rs : List (Nat × Rw)) (inp : Bytes) (recs0 result : List (Nat × WireVal))
    (sf : Nat) (hok : entsOK len rs = true) (hv : parse (inp.length + 1) inp = some recs0)
    (hsz : (20 + sizeMEnts rs) * (inp.length + 1) < 2 ^ 64)
    (hs : specMsg sf (toSpecEnts rs) recs0 [] = some result) :
    ∃ out recs', (∀ fuel, inp.length + 2 + rs.length + fuelDEnts rs ≤ fuel →
        rewrite fuel (.message len rs) inp = .ok out) ∧
      parse (out.length + 1) out = some recs' ∧ Sim (hasEmbEnts rs) recs' result ∧
      (recs0.filter fun q => (getRw rs q.1).isNone).Sublist recs' :=
  Lemmas.ProtoRewriteSpec.rewrite_message_spec len rs inp recs0 result sf hok hv hsz hs

open Lemmas.ProtoRewriteSpec in
/-- the rewriter never panics, on any input and any rewriter tree — unconditionally, all six constructors (the seen-set
is always large enough; `mergeOccurrences` is a pure function) -/
theorem rewrite_never_panics (fuel : Nat) (r : Rw) (inp : Bytes) (e : String) : rewrite fuel r inp ≠ .panic e :=
  (Lemmas.ProtoRewriteSpec.never_panics fuel).1 r inp e

open Lemmas.ProtoRewriteSpec Spec.Protobuf in
/-- what an `embddedRewriter{merge: true}` in the table slot of field `f` is handed at the first (length-delimited)
occurrence with payload `v`, when the rest `m` of the input is a valid message with records `rest`: `v` followed by the
payloads of all later length-delimited occurrences of `f`, in order — the specification's `laterPieces` -/
theorem merge_sees_all_pieces (f : Nat) (v m : Bytes) (rest : List (Nat × WireVal)) (number len : Nat)
    (rs : List (Nat × Rw)) (hv : parse (m.length + 1) m = some rest) :
    mergeInput (.embeddedMerge number len rs) f 2 v m = v ++ laterPieces f rest :=
  Lemmas.ProtoRewriteSpec.merge_sees_all_pieces f v m rest number len rs hv

/-! ## `ParseRewriteTemplate`, `BitOr`, and the VALUE level (model: Enc/Model/ProtoTemplate.lean; specification:
Enc/Spec/ProtoTemplate.lean; proofs: Enc/Lemmas/ProtoTemplate*.lean)

`parseTemplate` mirrors `ParseRewriteTemplate` / `parseRewriteTemplate*` on the type as `proto.TypeOf` presents it (`TType`)
and the template as a generic JSON value; it builds trees `RwT` = `Rw` + the `bitOr` leaf, run by `rewriteT`.
The correspondence run (`proto.tmpltree`, `proto.tmplvalue`, harness/c19value.go) compares, on every generated template,
the tree the REAL parser builds with the model's tree, the real output with `rewriteT`, and the decoded output with
`Spec.ProtoTemplate.applyTemplate` (the full value-level specification: nested, repeated, map, BitOr).

FULL STATEMENT (checked by the correspondence run on every case): for every message type `ty`, template `j` accepted by
`parseTemplate`, rules, and input `b` with `Spec.Protobuf.decode ty b = some v`:  `rewriteT F (parseTemplate (typeOf ty) j rules) b = .ok out`
and `norm (decode ty out) = norm (applyTemplate pf ty j rules v)`, untemplated records carried over in order.
PROVED (rules = [], i.e. without `BitOr` / nested `RewriterRules`):
* `template_leaf_value` — all 15 leaf kinds (bool, (s)int32/64, uint32/64, (s)fixed32/64, float, double — relative to `pf` —, string, bytes);
* `table_rewrite_value_general` — the value-level step for ANY message type and ANY table of template rewriters (entries replaced by
  constants for the fixed input: no `Sim`; fuel-free positional reference decoder `foldG fieldD`);
* `template_rewrite_value` (= `template_rewrite_value_nested`) — the complete chain `parseTemplate` → `rewriteT` → reference decoder for
  the universe `PresN d`: singular scalars of the 15 kinds, singular sub-messages (plain or behind pointers, arriving in ANY number of
  occurrences: the merged old value is kept, `{"sub":{"a":9}}`), repeated scalars and repeated messages (`[]Sub`, `[]*Sub`; the new list is exactly the
  template's list — except that zero-valued elements are missing: recorded known finding `proto-template-repeated-zero`, visible in
  `ElemVals.skip` / `ElemMsgs.skip` / `MapVals.skip`; `elemVals_all`: without zero elements the list is the template's), maps with
  string / numeric / bool keys and scalar or message values (entries rebuilt from the template alone), nested to ANY depth `d`; the
  result is specified positionwise and recursively by `TRes`;
* `template_rewrite_value_spec` — the same chain against the independent specification `Spec.ProtoTemplate.applyTemplate`, up to the
  comparison form `norm`, for singular scalars, singular sub-messages (`Sub`, `*Sub`), repeated scalars, repeated messages (`[]Sub`, `[]*Sub`)
  and `map[string]scalar`, any depth (`PresB`; `ZeroFree` excludes
  exactly the known finding; `PFnz`: no `-0` float literal);
* `template_rewrite_value_flat`, `template_rewrite_value_partial` — the earlier flat forms (closed-form result for one member).
* `template_rewrite_value_bitor_flat` — WITH `BitOr` rules, flat messages (`Once`: a ruled field occurs at most once in the input;
  `bitor_first_occurrence_wrong`: otherwise the code ORs into the FIRST occurrence where the field's value is the LAST — new finding).
Missing for the full statement: `BitOr` / nested `RewriterRules` below the top level of nested messages, bytes-keyed maps, and the
step from `TRes` to `applyTemplate` for maps with message values or non-string keys and for longer pointer / named chains (checked by
the correspondence run).
`template_not_modified`: trivial in a value model — `parseTemplate` and `rewriteT` are pure functions of immutable lists;
that the Go code does not write to the template or input slices is checked in-process by every harness case. -/

open Lemmas.ProtoTemplate in
/-- the interpreter of template trees is `rewrite` on every tree without a `BitOr` leaf: all theorems above apply to the
trees `parseTemplate` builds when no `BitOr` rule is given -/
theorem template_tree_is_rw (fuel : Nat) (r : RwT) (r' : Rw) (inp : Bytes) (h : RwT.toRw? r = some r') :
    rewriteT fuel r inp = rewrite fuel r' inp :=
  Lemmas.ProtoTemplate.rewriteT_eq_rewrite fuel r r' inp h

open Lemmas.ProtoTemplate Lemmas.ProtoRewriteSpec Spec.Protobuf in
/-- **VALUE LEVEL, table form.** `fs` a message type whose fields are singular scalars (`flat`), `ents` a rewriter table whose
entries are input independent (`TabSem`: entry `n` always emits records that set position `I n` to `E n`, or emits nothing),
`b` ANY input the reference decoder accepts (any field order, repeated occurrences, unknown fields): the rewriter as coded
returns a message the reference decoder accepts, whose value is the input's value with exactly the templated positions
replaced (a field whose entry emits nothing reads as its zero value), every other position unchanged. -/
theorem table_rewrite_value (fs : Fields) (hfs : flat fs = true) (len : Nat) (ents : List (Nat × Rw))
    (I : Nat → Nat) (E : Nat → Option Val) (hok : entsOK len ents = true) (hne : hasEmbEnts ents = false)
    (hT : TabSem fs (toSpecEnts ents) I E) (b : Bytes) (res : Vals)
    (hsz : (20 + sizeMEnts ents) * (b.length + 1) < 2 ^ 64)
    (hdec : decode (.struct fs) b = some (.struct res)) :
    ∃ out res', (∀ fuel, b.length + fuelD (.message len ents) ≤ fuel → rewrite fuel (.message len ents) b = .ok out) ∧
      decode (.struct fs) out = some (.struct res') ∧ res'.length = fs.length ∧
      (∀ j, Untouched (toSpecEnts ents) I j → valsGet res' j = valsGet res j) ∧
      (∀ n e, (n, e) ∈ toSpecEnts ents → valsGet res' (I n) = (E n).getD (valsGet (Spec.Protobuf.zeroFields fs) (I n))) :=
  Lemmas.ProtoTemplate.message_rewrite_value fs hfs len ents I E hok hne hT b res hsz hdec

open Lemmas.ProtoTemplate Lemmas.ProtoRewriteSpec Spec.Protobuf in
/-- **leaf encoders, ALL 15 kinds** (`parseRewriteTemplateBool/Int32/Int64/Sint32/Sint64/Uint32/Uint64/Fixed32/Fixed64/Sfixed32/
Sfixed64/Float/Double/String/Bytes`; `kindOf` = the kind of a Go field type with its varint / zigzag / fixed tag options; Uint32 as
repaired by /repo 1e0f504): no denotation ⇒ the json error; zero value ⇒ no rewriter; any other value ⇒ a `raw` one-record
message that the reference decoder reads back as that value. Floats are relative to the shared parameter `pf`
(`strconv.ParseFloat` as IEEE bits; `PFok pf`: it returns values of the requested width); a float member `-0` is elided like
`0` (Go: `v == 0`) and reads back as `+0` (`floatRead`). -/
theorem template_leaf_value (pf : PF) (hpf : PFok pf) (t : Ty) (o : FieldOpt) (k : PKind) (hk : kindOf t o = some k) (f : Nat) (h0 : 0 < f)
    (h1 : f < 2 ^ 61) (j : Model.Json.GV) (hlen : ∀ s, gvString j = some s → s.length < 2 ^ 64) :
    match leafVal pf k j with
    | none => parseLeaf pf k f j = .err "json"
    | some x =>
      (parseLeaf pf k f j = .ok none ∧ x = Spec.Protobuf.zeroOf t) ∨
      (∃ b w, parseLeaf pf k f j = .ok (some (.raw b)) ∧ b.length ≤ 30 + strLen j ∧ Valid b [(f, w)] ∧
        sdec t o w = some x) :=
  Lemmas.ProtoTemplate.leaf_sem pf hpf t o k hk f h0 h1 j hlen

open Lemmas.ProtoTemplate Spec.Protobuf in
/-- **`template_rewrite_value`, flat messages, ANY number of templated scalar fields.** `fs` a Go message type whose fields
are singular scalars, `tfs` what TypeOf presents for it (`PresOK`: every named field is a singular scalar of one of the 15
kinds — `kindOf`: bool, (s)int32/64, uint32/64, (s)fixed32/64, float, double, string, bytes — known to the reference decoder under the same number;
names determine numbers), `ms` the members of the template object (distinct keys, as the json decoder delivers them). If
`ParseRewriteTemplate` accepts the template (`tree`), then on EVERY input `b` the reference decoder accepts (any field order,
repeated occurrences, unknown fields) the rewriter returns `out`, the reference decoder accepts `out`, every templated field
reads as the value its member denotes, and every other position is unchanged. -/
theorem template_rewrite_value_flat (pf : PF) (hpf : PFok pf) (fs : Fields) (hfs : flat fs = true) (tfs : TFields) (hP : PresOK fs tfs)
    (ms : Model.Json.GMs) (hnd : KeysNodup ms)
    (hstr : ∀ k jv s, GMem k jv ms → gvString jv = some s → s.length < 2 ^ 64)
    (fuel : Nat) (hfuel : gmLen ms + 4 ≤ fuel) (tree : RwT)
    (hparse : parseTemplate pf fuel (.msg tfs) (.obj ms) [] = .ok tree)
    (b : Bytes) (res : Vals) (hsz : (20 + tmplSize ms) * (b.length + 1) < 2 ^ 64)
    (hdec : decode (.struct fs) b = some (.struct res)) :
    ∃ out res', (∀ F, b.length + gmLen ms + 4 ≤ F → rewriteT F tree b = .ok out) ∧
      decode (.struct fs) out = some (.struct res') ∧ res'.length = fs.length ∧
      (∀ k jv n kind i o t, GMem k jv ms → lookupFieldByName tfs k = some (n, false, .prim kind) →
        findField fs n = some (i, o, t) → ∃ x, leafVal pf kind jv = some x ∧ valsGet res' i = x) ∧
      (∀ j, (∀ k jv n kind i o t, GMem k jv ms → lookupFieldByName tfs k = some (n, false, .prim kind) →
        findField fs n = some (i, o, t) → i ≠ j) → valsGet res' j = valsGet res j) :=
  Lemmas.ProtoTemplate.template_rewrite_value_flat pf hpf fs hfs tfs hP ms hnd hstr fuel hfuel tree hparse b res hsz hdec

open Lemmas.ProtoTemplate Spec.Protobuf in
/-- **END TO END (partial: one templated scalar field of a flat message).** The template `{k: jv}` names field `number` of
kind `kind` (as TypeOf presents it), which the reference decoder knows at position `i` with Go type `t`; `jv` denotes `x`.
Then `ParseRewriteTemplate` succeeds, and on EVERY input the reference decoder accepts the rewriter returns a message that
decodes to the input's value with position `i` replaced by `x` — nothing else changed. -/
theorem template_rewrite_value_partial (pf : PF) (hpf : PFok pf) (fs : Fields) (hfs : flat fs = true) (tfs : TFields) (k : Bytes)
    (jv : Model.Json.GV) (number i : Nat) (o : FieldOpt) (t : Ty) (kind : PKind)
    (hname : lookupFieldByName tfs k = some (number, false, .prim kind))
    (hfind : findField fs number = some (i, o, t)) (hkind : kindOf t o = some kind)
    (h0 : 0 < number) (h1 : number < 2 ^ 61) (hlen : ∀ s, gvString jv = some s → s.length < 2 ^ 32)
    (x : Val) (hx : leafVal pf kind jv = some x)
    (b : Bytes) (res : Vals) (hb : b.length < 2 ^ 24)
    (hdec : decode (.struct fs) b = some (.struct res)) (fuel : Nat) :
    ∃ tree out, parseTemplate pf (fuel + 4) (.msg tfs) (.obj (.cons k jv .nil)) [] = .ok tree ∧
      (∀ F, b.length + 8 ≤ F → rewriteT F tree b = .ok out) ∧
      decode (.struct fs) out = some (.struct (valsSet res i x)) :=
  Lemmas.ProtoTemplate.template_rewrite_value_single pf hpf fs hfs tfs k jv number i o t kind hname hfind hkind h0 h1 hlen x hx
    b res hb hdec fuel

open Lemmas.ProtoTemplate Lemmas.ProtoSpecFuel Spec.Protobuf in
/-- **VALUE LEVEL, general table form: ANY message type, ANY table of template rewriters** (`embeddedMerge`, `replacement`, `bitOr`
included). The reference decoder is the positional fold `foldG fieldD` (`hD_fieldD`; fuel-free: nested messages merge, repeated
fields append, maps insert). For a FIXED input `b` the loop hands entry `n` the payload `payloadOf … n b` (merged pieces of the first
occurrence, `[]` if absent); `A n` = what the entry returns on it. If `A n` is a valid message whose records set position `I n` to
`E n` (decoded from the initial value of the position; `none`: writes nothing), then the rewriter returns a message the reference
decoder accepts, with exactly the templated positions replaced and every other position unchanged. (Proof: every entry is replaced
by the constant `raw (A n)` — `rawify` — so the record-level theorem holds with equality.) -/
theorem table_rewrite_value_general (fs : Fields) (len : Nat) (ents : List (Nat × RwT)) (b : Bytes) (res : Vals)
    (hdec : decode (.struct fs) b = some (.struct res))
    (A : Nat → Bytes) (G0 : Nat) (hlt : ∀ p, p ∈ ents → p.1 < len) (hnd : (ents.map Prod.fst).Nodup)
    (hA : ∀ n r, (n, r) ∈ ents → ∀ G, G0 ≤ G → rewriteT G r (payloadOf b.length r n b) = .ok (A n))
    (I : Nat → Nat) (E : Nat → Option Val)
    (hsem : ∀ n r, (n, r) ∈ ents → ∃ a o t, Lemmas.ProtoRewriteSpec.Valid (A n) a ∧ findField fs n = some (I n, o, t) ∧
      ∀ vs, vs.length = fs.length → valsGet vs (I n) = valsGet (Spec.Protobuf.zeroFields fs) (I n) →
        foldG fieldD fs a vs = some (match E n with | some x => valsSet vs (I n) x | none => vs))
    (hsz : (20 + sumLen A ents) * (b.length + 1) < 2 ^ 64) :
    ∃ out res', (∀ F, b.length + G0 + ents.length + 3 ≤ F → rewriteT F (.message len ents) b = .ok out) ∧
      decode (.struct fs) out = some (.struct res') ∧ res'.length = fs.length ∧
      (∀ j, (∀ n r, (n, r) ∈ ents → I n ≠ j) → valsGet res' j = valsGet res j) ∧
      (∀ n r, (n, r) ∈ ents → valsGet res' (I n) = (E n).getD (valsGet (Spec.Protobuf.zeroFields fs) (I n))) ∧
      out.length ≤ (20 + sumLen A ents) * (b.length + 1) :=
  Lemmas.ProtoTemplate.tableT_rewrite_value fieldD fs (hD_fieldD fs) len ents b res hdec A G0 hlt hnd hA I E hsem hsz

open Lemmas.ProtoTemplate Spec.Protobuf in
/-- **`template_rewrite_value`: nested, repeated and map fields, any depth.** `fs` a Go message type of the universe `PresN d` (see
Lemmas/ProtoTemplateNestedDefs.lean: singular scalars of the 15 kinds; singular sub-messages, plain or behind pointers; repeated
scalars; repeated messages `[]Sub` / `[]*Sub`; maps with a scalar non-bytes key and a scalar or message value — all recursively, nesting depth ≤ d,
as `tfs` presents them), `ms` the template object (distinct keys in every object, as the json decoder delivers them). If
`ParseRewriteTemplate` accepts the template (`tree`), then on EVERY input `b` the reference decoder accepts — any field order,
unknown fields, a sub-message split into SEVERAL occurrences — the rewriter returns `out`, the reference decoder accepts `out`, and
`TRes`: every untemplated position is unchanged; a templated scalar reads as the value its member denotes; a templated sub-message is
the OLD (merged) sub-message with the sub-template applied, recursively (`{"sub":{"a":9}}` replaces `sub.a` and keeps the rest of
`sub`); a templated repeated field is the list of the values of the template's elements, each built from the zero value (`ElemVals`,
`ElemMsgs`; elements denoting the zero value may be missing: known finding `proto-template-repeated-zero`); a templated map is rebuilt
from the template's entries alone (`MapVals`, `mapVal`). Size and fuel bounds: `gmsSz`, `gmsFuel` (computable from the template and
`b.length`). -/
theorem template_rewrite_value_nested (pf : PF) (hpf : PFok pf) (d : Nat) (fs : Fields) (tfs : TFields) (hP : PresN d fs tfs)
    (ms : Model.Json.GMs) (hnd : KeysNodup ms) (hndd : KeysNodupMs ms) (fuel : Nat) (tree : RwT)
    (hparse : parseTemplate pf fuel (.msg tfs) (.obj ms) [] = .ok tree)
    (b : Bytes) (res : Vals) (hsz : gmsSz (b.length + 1) ms < 2 ^ 64)
    (hdec : decode (.struct fs) b = some (.struct res)) :
    ∃ out res', (∀ F, b.length + gmsFuel (b.length + 1) ms ≤ F → rewriteT F tree b = .ok out) ∧
      decode (.struct fs) out = some (.struct res') ∧ TRes pf d fs tfs ms res res' ∧ out.length ≤ gmsSz (b.length + 1) ms :=
  Lemmas.ProtoTemplate.template_rewrite_value_nested pf hpf d fs tfs hP ms hnd hndd fuel tree hparse b res hsz hdec

open Lemmas.ProtoTemplate in
/-- the universe hypothesis `PresN` is DECIDABLE: `presNCheck` walks the presented type; Lemmas/ProtoTemplatePresCheck.lean evaluates
it (`#guard`) on what the model of `proto.TypeOf` presents for protoc-style tagged Go types (varint / zigzag32 / fixed32 scalars, `*Sub`,
`[]int32`, `[]Sub`, `map[string]int32`, `map[string]*Sub`, three nesting levels, untagged fields): accepted; a `repeated fixed32` field
is REJECTED (TypeOf presents it as uint32 — the fixed-width adjustment is skipped for repeated fields — while the wire format is
fixed32: there the theorem does not apply, and the rewritten message is indeed not decodable by the reference decoder). -/
theorem template_universe_decidable (d : Nat) (fs : Fields) (tfs : TFields) (h : presNCheck d fs tfs = true) :
    PresN d fs tfs :=
  Lemmas.ProtoTemplate.presN_of_check d fs tfs h

open Lemmas.ProtoTemplate Spec.Protobuf in
/-- **`template_rewrite_value` against the independent specification `Spec.ProtoTemplate.applyTemplate`.** Universe `PresB d`
(Lemmas/ProtoTemplateBridge.lean): every field's specification-side name (`name=` of the tag, else the Go name) is a presented name
resolving to that field; singular scalars of the 15 kinds, singular sub-messages (plain `Sub` or behind one pointer `*Sub`: an absent
sub-message and one with all fields at their defaults are the same value, `normPresence`), repeated scalars, repeated messages `[]Sub` /
`[]*Sub`, maps `map[string]scalar` (entries compared after sorting by key: `canon`), any nesting depth.
`PFnz`: the template has no `-0` float literal (a `-0` is elided like `0` and reads back as `+0`: recorded behaviour). `ZeroFree`: no
element of a repeated-field template denotes the zero value — excludes EXACTLY the known finding `proto-template-repeated-zero`.
If `ParseRewriteTemplate` accepts the template and the specification assigns a result `want` to the decoded input, then on EVERY
decodable input the rewriter's output decodes to a value with the same comparison form as `want`:
`norm (decode ty out) = norm (applyTemplate pf ty j [] (decode ty b))`. -/
theorem template_rewrite_value_spec (pf : PF) (hpf : PFok pf) (hnz : PFnz pf) (d : Nat) (fs : Fields) (tfs : TFields)
    (hB : PresB d fs tfs) (ms : Model.Json.GMs) (hnd : KeysNodup ms) (hndd : KeysNodupMs ms) (hzf : ZeroFree pf d fs tfs ms)
    (fuel : Nat) (tree : RwT) (hparse : parseTemplate pf fuel (.msg tfs) (.obj ms) [] = .ok tree)
    (b : Bytes) (res : Vals) (hsz : gmsSz (b.length + 1) ms < 2 ^ 64) (hdec : decode (.struct fs) b = some (.struct res))
    (want : Val) (happ : Spec.ProtoTemplate.applyTemplate pf (.struct fs) (.obj ms) [] (.struct res) = some want) :
    ∃ out v', (∀ F, b.length + gmsFuel (b.length + 1) ms ≤ F → rewriteT F tree b = .ok out) ∧
      decode (.struct fs) out = some v' ∧
      Spec.ProtoTemplate.norm (.struct fs) v' = Spec.ProtoTemplate.norm (.struct fs) want :=
  Lemmas.ProtoTemplate.template_rewrite_value_spec pf hpf hnz d fs tfs hB ms hnd hndd hzf fuel tree hparse b res hsz hdec want happ

open Lemmas.ProtoTemplate in
/-- **template_rejects (1)**: a template naming a field the message type does not have is never accepted — whatever the
other members, the rules and the fuel (Go: "rewrite template contained an invalid field named …") -/
theorem template_rejects_unknown_field (pf : PF) (fs : TFields) (f : Nat) (ms : Model.Json.GMs) (rules : List Rules)
    (fuel : Nat) (r : RwT) (hk : keysKnown fs ms = false) : parseStruct pf fuel fs f (.obj ms) rules ≠ .ok r :=
  Lemmas.ProtoTemplate.parseStruct_unknown_rejected pf fs f ms rules fuel r hk

/-- **template_rejects (2)**: a template that is not a JSON object (or null) is never accepted; (3) a non-message type is
rejected. (A member of the wrong JSON kind / out of range: `template_leaf_value`, case `none`.) -/
theorem template_rejects_nonobject (pf : PF) (fs : TFields) (f : Nat) (j : Model.Json.GV) (rules : List Rules) (fuel : Nat)
    (r : RwT) (hj : gvObj j = none) : parseStruct pf fuel fs f j rules ≠ .ok r :=
  Lemmas.ProtoTemplate.parseStruct_nonobject_rejected pf fs f j rules fuel r hj
theorem template_rejects_nonstruct (pf : PF) (fuel : Nat) (t : TType) (j : Model.Json.GV) (rules : List Rules)
    (ht : ∀ fs, t ≠ .msg fs) : parseTemplate pf fuel t j rules = .err "nonStruct" :=
  Lemmas.ProtoTemplate.parseTemplate_nonstruct pf fuel t j rules ht

/-- **bitor_value**: `BitOr[int64]` on a plain int64 field, `BitOr[uint64]` on a plain uint64 field: the field is rewritten
to `old ||| mask`; an absent field counts as 0 -/
theorem bitor_value_int64 (mask old : BitVec 64) (f : Nat) :
    bitOrRewrite .i64 mask .int64 f (encodeVarint old) = .ok (fieldVarint f (old ||| mask)) :=
  Lemmas.ProtoTemplate.bitor_int64 mask old f
theorem bitor_value_uint64 (mask old : BitVec 64) (f : Nat) :
    bitOrRewrite .u64 mask .uint64 f (encodeVarint old) = .ok (fieldVarint f (old ||| mask)) :=
  Lemmas.ProtoTemplate.bitor_uint64 mask old f
theorem bitor_value_absent (mask : BitVec 64) (f : Nat) :
    bitOrRewrite .i64 mask .int64 f [] = .ok (fieldVarint f mask) :=
  Lemmas.ProtoTemplate.bitor_absent mask f

open Lemmas.ProtoTemplate Lemmas.ProtoRewriteSpec Spec.Protobuf in
/-- **`template_rewrite_value` WITH `BitOr` rules, flat messages** (any number of templated scalar fields of the 15 kinds, some of them
under a `BitOr[T]` rule). `BitOrOK`: the ruled field is a plain varint integer and `T` is its Go type (int64/int, uint64/uint, int32,
uint32 — the zig-zag and fixed-width variants are the known finding `proto-bitor-zigzag-fixed`, a mismatched `T` is API misuse).
`Once`: every ruled field occurs AT MOST ONCE in the input — necessary, see `bitor_first_occurrence_wrong`. Then the output decodes,
every unruled templated field reads as the value its member denotes, every ruled field as `old ||| mask` in the width of the field
(`Spec.ProtoTemplate.orInt`, `old` = its decoded value, 0 if absent), every other position is unchanged. -/
theorem template_rewrite_value_bitor_flat (pf : PF) (hpf : PFok pf) (fs : Fields) (tfs : TFields) (hP : PresOK fs tfs)
    (rules : List Rules) (ms : Model.Json.GMs) (hnd : KeysNodup ms)
    (hstr : ∀ k jv s, GMem k jv ms → gvString jv = some s → s.length < 2 ^ 64)
    (hrules : ∀ k jv, GMem k jv ms → findRule rules k = none ∨ ∃ T, findRule rules k = some (.bitOr T) ∧
      ∀ n rep kind i o t, lookupFieldByName tfs k = some (n, rep, .prim kind) → findField fs n = some (i, o, t) →
        BitOrOK kind T t)
    (fuel : Nat) (tree : RwT) (hparse : parseTemplate pf fuel (.msg tfs) (.obj ms) rules = .ok tree)
    (b : Bytes) (recs0 : List (Nat × WireVal)) (hv : Valid b recs0) (res : Vals)
    (honce : ∀ k jv n rep tt T, GMem k jv ms → findRule rules k = some (.bitOr T) →
      lookupFieldByName tfs k = some (n, rep, tt) → Once n recs0)
    (hsz : (20 + gmLen ms * (30 + tmplSize ms)) * (b.length + 1) < 2 ^ 64)
    (hdec : decode (.struct fs) b = some (.struct res)) :
    ∃ out res', (∀ F, b.length + gmLen ms + 5 ≤ F → rewriteT F tree b = .ok out) ∧
      decode (.struct fs) out = some (.struct res') ∧ res'.length = fs.length ∧
      (∀ k jv n kind i o t, GMem k jv ms → findRule rules k = none →
        lookupFieldByName tfs k = some (n, false, .prim kind) → findField fs n = some (i, o, t) →
        ∃ x, leafVal pf kind jv = some x ∧ valsGet res' i = x) ∧
      (∀ k jv n kind i o t T, GMem k jv ms → findRule rules k = some (.bitOr T) →
        lookupFieldByName tfs k = some (n, false, .prim kind) → findField fs n = some (i, o, t) →
        ∃ mask old ik, gvInt T jv = some mask ∧ t = .int ik ∧ valsGet res i = .int old ∧
          valsGet res' i = .int (Spec.ProtoTemplate.orInt ik old mask)) ∧
      (∀ j, (∀ k jv n rep tt i o t, GMem k jv ms → lookupFieldByName tfs k = some (n, rep, tt) →
        findField fs n = some (i, o, t) → i ≠ j) → valsGet res' j = valsGet res j) :=
  Lemmas.ProtoTemplate.template_rewrite_value_bitor_flat pf hpf fs tfs hP rules ms hnd hstr hrules fuel tree hparse b recs0 hv res
    honce hsz hdec

open Lemmas.ProtoTemplate Spec.Protobuf in
/-- **negative witness (NEW finding, `vh exec proto.tmplvalue "st 1 f A - 0 i64" 7b2241223a317d "rules 1 41 bitor i64" - 08040802`):
a `BitOr`-ruled scalar field that occurs more than once in the input.** `struct{A int64}`, template `{"A":1}`, rule `BitOr[int64]`,
input `08 04 08 02` (A = 4 then A = 2: the message value is A = 2, last one wins, also for `proto.Unmarshal`): the rewriter ORs the
mask into the FIRST occurrence and drops the later ones — output `08 05` (A = 5) where `old ||| mask = 3`. Model = implementation. -/
theorem bitor_first_occurrence_wrong :
    parseTemplate (fun _ _ => none) 6 (.msg exBoT) (.obj exBoMs) exBoRules = .ok exBoTree ∧
    decode (.struct exBo) [0x08, 0x04, 0x08, 0x02] = some (.struct (.cons (.int 2) .nil)) ∧
    rewriteT 10 exBoTree [0x08, 0x04, 0x08, 0x02] = .ok [0x08, 0x05] ∧
    decode (.struct exBo) [0x08, 0x05] = some (.struct (.cons (.int 5) .nil)) ∧
    Spec.ProtoTemplate.orInt .i64 2 1 = 3 :=
  Lemmas.ProtoTemplate.bitor_repeated_occurrence_wrong

/-- **negative witness (known finding `proto-bitor-zigzag-fixed`)**: on a zig-zag field the code ORs the mask into the
zig-zag IMAGE and zig-zags again; a `sint64` field holding 3 with mask 1 does not become `3 ||| 1` -/
theorem bitor_zigzag_wrong :
    ∃ (old mask : BitVec 64) (f : Nat) (out : BitVec 64),
      bitOrRewrite .i64 mask .sint64 f (encodeVarint (encodeZigZag64 old)) = .ok (fieldVarint f out) ∧
      decodeZigZag64 out ≠ old ||| mask :=
  Lemmas.ProtoTemplate.bitor_sint64_wrong

end Enc.Props.C19
