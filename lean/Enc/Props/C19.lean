import Enc.Model.ProtoRewrite
import Enc.Spec.Protobuf
import Enc.Lemmas.ProtoRewriteSpec
/-!
# C19 — proto rewriters replace exactly the templated fields
Property theorems only.
-/
namespace Enc.Props.C19
open Enc Enc.Model.Proto

/-- the `seen` set of `MessageRewriter.Rewrite` always has a bit for every index it is asked about: for a rewriter of
length `n` (field numbers `0 … n-1`) it holds at least `n` bits — for EVERY n, i.e. for every field number the wire
format allows (on the unchanged tree `makeFieldset` computed `(n+1)/64` words and this failed from n = 256 on). -/
theorem fieldset_covers (n : Nat) : n ≤ seenWords n * 64 := by
  unfold seenWords fieldsetWords
  split <;> omega

/-- `makeFieldset(n)` allocates the least number of 64-bit words holding n bits -/
theorem makeFieldset_exact (n : Nat) : n ≤ fieldsetWords n * 64 ∧ fieldsetWords n * 64 < n + 64 := by
  unfold fieldsetWords; omega

/-- `Append` writes `tag, [length,] value`: the field it appends parses back to the same number, wire type and value
bytes (so untemplated fields are carried over with identical values) — stated for the length-delimited case -/
theorem append_len_layout (f : Nat) (v : Bytes) :
    appendField f 2 v = encodeVarint (BitVec.ofNat 64 (f * 8 + 2)) ++ encodeVarint (BitVec.ofNat 64 v.length) ++ v := by
  simp [appendField]

/-- a RawMessage rewriter ignores its input and a multi-rewriter of none writes nothing (a zero template value deletes
the field: it then decodes as the zero value) -/
theorem raw_ignores_input (fuel : Nat) (b i1 i2 : Bytes) : rewrite (fuel + 1) (.raw b) i1 = rewrite (fuel + 1) (.raw b) i2 := by
  simp [rewrite]
theorem multi_nil_writes_nothing (fuel : Nat) (i : Bytes) : rewrite (fuel + 2) (.multi []) i = .ok [] := by
  simp [rewrite, rewriteMulti]

/-! ## rewriters = record-level specification (proofs in Enc/Lemmas/ProtoRewriteSpec*.lean, 2.8 k lines)

Trees covered: ALL `Rw` constructors — `raw`, `multi`, `message`, `embedded`, and the two that only
`ParseRewriteTemplate` builds, `embeddedMerge` (`embddedRewriter{merge: true}`) and `replacement` — nested in any way.
`rwOK` only asks: table indices below the table length, field numbers of `embedded`/`embeddedMerge` in `1 … 2^61-1`.
`hasEmb` is true when the tree contains an `embedded` or `embeddedMerge` node. -/

open Lemmas.ProtoRewriteSpec Spec.Protobuf in
/-- **MAIN.** For every well-formed rewriter tree (`rwOK`: table indices below the table length, embedded field numbers
in range; all six constructors, `embeddedMerge` and `replacement` included) and every input on which the record-level
specification is defined (in particular every valid encoded message), the rewriter as coded — seen-set, first
occurrence rewritten (an `embddedRewriter{merge: true}` in the table slot is handed the concatenation of ALL
length-delimited occurrences of its field, a `replacement` starts from the empty input), later occurrences dropped,
untemplated fields copied through `Append`, absent templated fields appended, length prefix spliced in front of
rewritten sub-messages — returns a VALID message whose records are the specification's. `Sim false` is equality; below `embedded` rewriters
(`Sim true`) a sub-message that was copied verbatim may differ from the specification's canonical re-encoding in the
bytes of non-minimal varints only, never in its records. -/
theorem rewrite_spec (r : Rw) (inp : Bytes) (sf : Nat) (recs : List (Nat × WireVal)) (hok : rwOK r = true)
    (hsz : sizeM r * (inp.length + 1) < 2 ^ 64) (hs : specRw sf (toSpec r) inp = some recs) :
    ∃ out recs', (∀ fuel, inp.length + fuelD r ≤ fuel → rewrite fuel r inp = .ok out) ∧
      parse (out.length + 1) out = some recs' ∧ Sim (hasEmb r) recs' recs :=
  Lemmas.ProtoRewriteSpec.rewrite_spec r inp sf recs hok hsz hs

open Lemmas.ProtoRewriteSpec Spec.Protobuf in
/-- without `embedded` / `embeddedMerge` nodes (`raw`, `multi`, `message`, `replacement` in any nesting): the parsed output
IS the specification's record list -/
theorem rewrite_spec_exact (r : Rw) (inp : Bytes) (sf : Nat) (hok : rwOK r = true) (hne : hasEmb r = false)
    (hsz : sizeM r * (inp.length + 1) < 2 ^ 64) (hdef : (specRw sf (toSpec r) inp).isSome = true) :
    ∃ out, (∀ fuel, inp.length + fuelD r ≤ fuel → rewrite fuel r inp = .ok out) ∧
      parse (out.length + 1) out = specRw sf (toSpec r) inp :=
  Lemmas.ProtoRewriteSpec.rewrite_spec_exact r inp sf hok hne hsz hdef

open Lemmas.ProtoRewriteSpec Spec.Protobuf in
/-- fields the template does not mention are carried over in their original order with identical values (any entries,
`embeddedMerge` and `replacement` included) -/
theorem untemplated_fields_kept (len : Nat) (rs : List (Nat × Rw)) (inp : Bytes) (recs0 result : List (Nat × WireVal))
    (sf : Nat) (hok : entsOK len rs = true) (hv : parse (inp.length + 1) inp = some recs0)
    (hsz : (20 + sizeMEnts rs) * (inp.length + 1) < 2 ^ 64)
    (hs : specMsg sf (toSpecEnts rs) recs0 [] = some result) :
    ∃ out recs', (∀ fuel, inp.length + 2 + rs.length + fuelDEnts rs ≤ fuel →
        rewrite fuel (.message len rs) inp = .ok out) ∧
      parse (out.length + 1) out = some recs' ∧ Sim (hasEmbEnts rs) recs' result ∧
      (recs0.filter fun q => (getRw rs q.1).isNone).Sublist recs' :=
  Lemmas.ProtoRewriteSpec.rewrite_message_spec len rs inp recs0 result sf hok hv hsz hs

open Lemmas.ProtoRewriteSpec in
/-- the rewriter never panics, on any input and any rewriter tree — unconditionally, all six constructors (the seen-set
is always large enough; `mergeOccurrences` is a pure function) -/
theorem rewrite_never_panics (fuel : Nat) (r : Rw) (inp : Bytes) (e : String) : rewrite fuel r inp ≠ .panic e :=
  (Lemmas.ProtoRewriteSpec.never_panics fuel).1 r inp e

open Lemmas.ProtoRewriteSpec Spec.Protobuf in
/-- what an `embddedRewriter{merge: true}` in the table slot of field `f` is handed at the first (length-delimited)
occurrence with payload `v`, when the rest `m` of the input is a valid message with records `rest`: `v` followed by the
payloads of all later length-delimited occurrences of `f`, in order — the specification's `laterPieces` -/
theorem merge_sees_all_pieces (f : Nat) (v m : Bytes) (rest : List (Nat × WireVal)) (number len : Nat)
    (rs : List (Nat × Rw)) (hv : parse (m.length + 1) m = some rest) :
    mergeInput (.embeddedMerge number len rs) f 2 v m = v ++ laterPieces f rest :=
  Lemmas.ProtoRewriteSpec.merge_sees_all_pieces f v m rest number len rs hv

end Enc.Props.C19
