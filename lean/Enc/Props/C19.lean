import Enc.Model.ProtoRewrite
import Enc.Spec.Protobuf
import Enc.Lemmas.ProtoRewriteSpec
import Enc.Lemmas.ProtoTemplateFlat
/-!
# C19 — proto rewriters replace exactly the templated fields
Property theorems only.
-/
namespace Enc.Props.C19
open Enc Enc.Model.Proto

/-- the `seen` set of `MessageRewriter.Rewrite` always has a bit for every index it is asked about: for a rewriter of
length `n` (field numbers `0 … n-1`) it holds at least `n` bits — for EVERY n, i.e. for every field number the wire
format allows (on the unchanged tree `makeFieldset` computed `(n+1)/64` words and this failed from n = 256 on). -/
theorem fieldset_covers (n : Nat) : n ≤ seenWords n * 64 := by
  unfold seenWords fieldsetWords
  split <;> omega

/-- `makeFieldset(n)` allocates the least number of 64-bit words holding n bits -/
theorem makeFieldset_exact (n : Nat) : n ≤ fieldsetWords n * 64 ∧ fieldsetWords n * 64 < n + 64 := by
  unfold fieldsetWords; omega

/-- `Append` writes `tag, [length,] value`: the field it appends parses back to the same number, wire type and value
bytes (so untemplated fields are carried over with identical values) — stated for the length-delimited case -/
theorem append_len_layout (f : Nat) (v : Bytes) :
    appendField f 2 v = encodeVarint (BitVec.ofNat 64 (f * 8 + 2)) ++ encodeVarint (BitVec.ofNat 64 v.length) ++ v := by
  simp [appendField]

/-- a RawMessage rewriter ignores its input and a multi-rewriter of none writes nothing (a zero template value deletes
the field: it then decodes as the zero value) -/
theorem raw_ignores_input (fuel : Nat) (b i1 i2 : Bytes) : rewrite (fuel + 1) (.raw b) i1 = rewrite (fuel + 1) (.raw b) i2 := by
  simp [rewrite]
theorem multi_nil_writes_nothing (fuel : Nat) (i : Bytes) : rewrite (fuel + 2) (.multi []) i = .ok [] := by
  simp [rewrite, rewriteMulti]

/-! ## rewriters = record-level specification (proofs in Enc/Lemmas/ProtoRewriteSpec*.lean, 2.8 k lines)

Trees covered: ALL `Rw` constructors — `raw`, `multi`, `message`, `embedded`, and the two that only
`ParseRewriteTemplate` builds, `embeddedMerge` (`embddedRewriter{merge: true}`) and `replacement` — nested in any way.
`rwOK` only asks: table indices below the table length, field numbers of `embedded`/`embeddedMerge` in `1 … 2^61-1`.
`hasEmb` is true when the tree contains an `embedded` or `embeddedMerge` node. -/

open Lemmas.ProtoRewriteSpec Spec.Protobuf in
/-- **MAIN.** For every well-formed rewriter tree (`rwOK`: table indices below the table length, embedded field numbers
in range; all six constructors, `embeddedMerge` and `replacement` included) and every input on which the record-level
specification is defined (in particular every valid encoded message), the rewriter as coded — seen-set, first
occurrence rewritten (an `embddedRewriter{merge: true}` in the table slot is handed the concatenation of ALL
length-delimited occurrences of its field, a `replacement` starts from the empty input), later occurrences dropped,
untemplated fields copied through `Append`, absent templated fields appended, length prefix spliced in front of
rewritten sub-messages — returns a VALID message whose records are the specification's. `Sim false` is equality; below `embedded` rewriters
(`Sim true`) a sub-message that was copied verbatim may differ from the specification's canonical re-encoding in the
bytes of non-minimal varints only, never in its records. -/
theorem rewrite_spec (r : Rw) (inp : Bytes) (sf : Nat) (recs : List (Nat × WireVal)) (hok : rwOK r = true)
    (hsz : sizeM r * (inp.length + 1) < 2 ^ 64) (hs : specRw sf (toSpec r) inp = some recs) :
    ∃ out recs', (∀ fuel, inp.length + fuelD r ≤ fuel → rewrite fuel r inp = .ok out) ∧
      parse (out.length + 1) out = some recs' ∧ Sim (hasEmb r) recs' recs :=
  Lemmas.ProtoRewriteSpec.rewrite_spec r inp sf recs hok hsz hs

open Lemmas.ProtoRewriteSpec Spec.Protobuf in
/-- without `embedded` / `embeddedMerge` nodes (`raw`, `multi`, `message`, `replacement` in any nesting): the parsed output
IS the specification's record list -/
theorem rewrite_spec_exact (r : Rw) (inp : Bytes) (sf : Nat) (hok : rwOK r = true) (hne : hasEmb r = false)
    (hsz : sizeM r * (inp.length + 1) < 2 ^ 64) (hdef : (specRw sf (toSpec r) inp).isSome = true) :
    ∃ out, (∀ fuel, inp.length + fuelD r ≤ fuel → rewrite fuel r inp = .ok out) ∧
      parse (out.length + 1) out = specRw sf (toSpec r) inp :=
  Lemmas.ProtoRewriteSpec.rewrite_spec_exact r inp sf hok hne hsz hdef

open Lemmas.ProtoRewriteSpec Spec.Protobuf in
/-- fields the template does not mention are carried over in their original order with identical values (any entries,
`embeddedMerge` and `replacement` included) -/
theorem untemplated_fields_kept (len : Nat) (rs : List (Nat × Rw)) (inp : Bytes) (recs0 result : List (Nat × WireVal))
    (sf : Nat) (hok : entsOK len rs = true) (hv : parse (inp.length + 1) inp = some recs0)
    (hsz : (20 + sizeMEnts rs) * (inp.length + 1) < 2 ^ 64)
    (hs : specMsg sf (toSpecEnts rs) recs0 [] = some result) :
    ∃ out recs', (∀ fuel, inp.length + 2 + rs.length + fuelDEnts rs ≤ fuel →
        rewrite fuel (.message len rs) inp = .ok out) ∧
      parse (out.length + 1) out = some recs' ∧ Sim (hasEmbEnts rs) recs' result ∧
      (recs0.filter fun q => (getRw rs q.1).isNone).Sublist recs' :=
  Lemmas.ProtoRewriteSpec.rewrite_message_spec len rs inp recs0 result sf hok hv hsz hs

open Lemmas.ProtoRewriteSpec in
/-- the rewriter never panics, on any input and any rewriter tree — unconditionally, all six constructors (the seen-set
is always large enough; `mergeOccurrences` is a pure function) -/
theorem rewrite_never_panics (fuel : Nat) (r : Rw) (inp : Bytes) (e : String) : rewrite fuel r inp ≠ .panic e :=
  (Lemmas.ProtoRewriteSpec.never_panics fuel).1 r inp e

open Lemmas.ProtoRewriteSpec Spec.Protobuf in
/-- what an `embddedRewriter{merge: true}` in the table slot of field `f` is handed at the first (length-delimited)
occurrence with payload `v`, when the rest `m` of the input is a valid message with records `rest`: `v` followed by the
payloads of all later length-delimited occurrences of `f`, in order — the specification's `laterPieces` -/
theorem merge_sees_all_pieces (f : Nat) (v m : Bytes) (rest : List (Nat × WireVal)) (number len : Nat)
    (rs : List (Nat × Rw)) (hv : parse (m.length + 1) m = some rest) :
    mergeInput (.embeddedMerge number len rs) f 2 v m = v ++ laterPieces f rest :=
  Lemmas.ProtoRewriteSpec.merge_sees_all_pieces f v m rest number len rs hv

/-! ## `ParseRewriteTemplate`, `BitOr`, and the VALUE level (model: Enc/Model/ProtoTemplate.lean; specification:
Enc/Spec/ProtoTemplate.lean; proofs: Enc/Lemmas/ProtoTemplate*.lean)

`parseTemplate` mirrors `ParseRewriteTemplate` / `parseRewriteTemplate*` on the type as `proto.TypeOf` presents it (`TType`)
and the template as a generic JSON value; it builds trees `RwT` = `Rw` + the `bitOr` leaf, run by `rewriteT`.
The correspondence run (`proto.tmpltree`, `proto.tmplvalue`, harness/c19value.go) compares, on every generated template,
the tree the REAL parser builds with the model's tree, the real output with `rewriteT`, and the decoded output with
`Spec.ProtoTemplate.applyTemplate` (the full value-level specification: nested, repeated, map, BitOr).

FULL STATEMENT (`template_rewrite_value`, checked by the correspondence run on every case, proved below for the flat
fragment): for every message type `ty`, template `j` accepted by `parseTemplate`, rules, and input `b` with
`Spec.Protobuf.decode ty b = some v`:  `rewriteT F (parseTemplate (typeOf ty) j rules) b = .ok out` and
`norm (decode ty out) = norm (applyTemplate pf ty j rules v)`, untemplated records carried over in order.
Proved: `template_rewrite_value_flat` — the complete chain `parseTemplate` → `rewriteT` → reference decoder for flat messages
with ANY number of templated scalar fields (via the table form `table_rewrite_value`, the leaf encoders `template_leaf_value`,
and the bookkeeping of `parseMembers` / `insertEnt`); `template_rewrite_value_partial` is its one-member instance with a
closed-form result. Missing for the full statement: the leaf kinds float/double/fixed/zig-zag, and the nested / repeated / map cases
(`embeddedMerge`, `replacement`), for which the record-level theorems above (`rewrite_spec`, `merge_sees_all_pieces`) hold
but the step to values is only checked by the correspondence run.
`template_not_modified`: trivial in a value model — `parseTemplate` and `rewriteT` are pure functions of immutable lists;
that the Go code does not write to the template or input slices is checked in-process by every harness case. -/

open Lemmas.ProtoTemplate in
/-- the interpreter of template trees is `rewrite` on every tree without a `BitOr` leaf: all theorems above apply to the
trees `parseTemplate` builds when no `BitOr` rule is given -/
theorem template_tree_is_rw (fuel : Nat) (r : RwT) (r' : Rw) (inp : Bytes) (h : RwT.toRw? r = some r') :
    rewriteT fuel r inp = rewrite fuel r' inp :=
  Lemmas.ProtoTemplate.rewriteT_eq_rewrite fuel r r' inp h

open Lemmas.ProtoTemplate Lemmas.ProtoRewriteSpec Spec.Protobuf in
/-- **VALUE LEVEL, table form.** `fs` a message type whose fields are singular scalars (`flat`), `ents` a rewriter table whose
entries are input independent (`TabSem`: entry `n` always emits records that set position `I n` to `E n`, or emits nothing),
`b` ANY input the reference decoder accepts (any field order, repeated occurrences, unknown fields): the rewriter as coded
returns a message the reference decoder accepts, whose value is the input's value with exactly the templated positions
replaced (a field whose entry emits nothing reads as its zero value), every other position unchanged. -/
theorem table_rewrite_value (fs : Fields) (hfs : flat fs = true) (len : Nat) (ents : List (Nat × Rw))
    (I : Nat → Nat) (E : Nat → Option Val) (hok : entsOK len ents = true) (hne : hasEmbEnts ents = false)
    (hT : TabSem fs (toSpecEnts ents) I E) (b : Bytes) (res : Vals)
    (hsz : (20 + sizeMEnts ents) * (b.length + 1) < 2 ^ 64)
    (hdec : decode (.struct fs) b = some (.struct res)) :
    ∃ out res', (∀ fuel, b.length + fuelD (.message len ents) ≤ fuel → rewrite fuel (.message len ents) b = .ok out) ∧
      decode (.struct fs) out = some (.struct res') ∧ res'.length = fs.length ∧
      (∀ j, Untouched (toSpecEnts ents) I j → valsGet res' j = valsGet res j) ∧
      (∀ n e, (n, e) ∈ toSpecEnts ents → valsGet res' (I n) = (E n).getD (valsGet (Spec.Protobuf.zeroFields fs) (I n))) :=
  Lemmas.ProtoTemplate.message_rewrite_value fs hfs len ents I E hok hne hT b res hsz hdec

open Lemmas.ProtoTemplate Lemmas.ProtoRewriteSpec Spec.Protobuf in
/-- **leaf encoders** (`parseRewriteTemplateBool/Int32/Int64/Uint32/Uint64/String/Bytes` on plain fields; Uint32 as repaired by /repo 1e0f504): no denotation ⇒ the json
error; zero value ⇒ no rewriter; any other value ⇒ a `raw` one-record message that the reference decoder reads back as
that value -/
theorem template_leaf_value (pf : PF) (t : Ty) (o : FieldOpt) (k : PKind) (hk : kindOf t o = some k) (f : Nat) (h0 : 0 < f)
    (h1 : f < 2 ^ 61) (j : Model.Json.GV) (hlen : ∀ s, gvString j = some s → s.length < 2 ^ 64) :
    match leafVal k j with
    | none => parseLeaf pf k f j = .err "json"
    | some x =>
      (parseLeaf pf k f j = .ok none ∧ x = Spec.Protobuf.zeroOf t) ∨
      (∃ b w, parseLeaf pf k f j = .ok (some (.raw b)) ∧ b.length ≤ 30 + strLen j ∧ Valid b [(f, w)] ∧
        sdec t o w = some x) :=
  Lemmas.ProtoTemplate.leaf_sem pf t o k hk f h0 h1 j hlen

open Lemmas.ProtoTemplate Spec.Protobuf in
/-- **`template_rewrite_value`, flat messages, ANY number of templated scalar fields.** `fs` a Go message type whose fields
are singular scalars, `tfs` what TypeOf presents for it (`PresOK`: every named field is a singular scalar of a proved kind —
bool, int32, int64, uint32, uint64, string, bytes, plain wire form — known to the reference decoder under the same number;
names determine numbers), `ms` the members of the template object (distinct keys, as the json decoder delivers them). If
`ParseRewriteTemplate` accepts the template (`tree`), then on EVERY input `b` the reference decoder accepts (any field order,
repeated occurrences, unknown fields) the rewriter returns `out`, the reference decoder accepts `out`, every templated field
reads as the value its member denotes, and every other position is unchanged. -/
theorem template_rewrite_value_flat (pf : PF) (fs : Fields) (hfs : flat fs = true) (tfs : TFields) (hP : PresOK fs tfs)
    (ms : Model.Json.GMs) (hnd : KeysNodup ms)
    (hstr : ∀ k jv s, GMem k jv ms → gvString jv = some s → s.length < 2 ^ 64)
    (fuel : Nat) (hfuel : gmLen ms + 4 ≤ fuel) (tree : RwT)
    (hparse : parseTemplate pf fuel (.msg tfs) (.obj ms) [] = .ok tree)
    (b : Bytes) (res : Vals) (hsz : (20 + tmplSize ms) * (b.length + 1) < 2 ^ 64)
    (hdec : decode (.struct fs) b = some (.struct res)) :
    ∃ out res', (∀ F, b.length + gmLen ms + 4 ≤ F → rewriteT F tree b = .ok out) ∧
      decode (.struct fs) out = some (.struct res') ∧ res'.length = fs.length ∧
      (∀ k jv n kind i o t, GMem k jv ms → lookupFieldByName tfs k = some (n, false, .prim kind) →
        findField fs n = some (i, o, t) → ∃ x, leafVal kind jv = some x ∧ valsGet res' i = x) ∧
      (∀ j, (∀ k jv n kind i o t, GMem k jv ms → lookupFieldByName tfs k = some (n, false, .prim kind) →
        findField fs n = some (i, o, t) → i ≠ j) → valsGet res' j = valsGet res j) :=
  Lemmas.ProtoTemplate.template_rewrite_value_flat pf fs hfs tfs hP ms hnd hstr fuel hfuel tree hparse b res hsz hdec

open Lemmas.ProtoTemplate Spec.Protobuf in
/-- **END TO END (partial: one templated scalar field of a flat message).** The template `{k: jv}` names field `number` of
kind `kind` (as TypeOf presents it), which the reference decoder knows at position `i` with Go type `t`; `jv` denotes `x`.
Then `ParseRewriteTemplate` succeeds, and on EVERY input the reference decoder accepts the rewriter returns a message that
decodes to the input's value with position `i` replaced by `x` — nothing else changed. -/
theorem template_rewrite_value_partial (pf : PF) (fs : Fields) (hfs : flat fs = true) (tfs : TFields) (k : Bytes)
    (jv : Model.Json.GV) (number i : Nat) (o : FieldOpt) (t : Ty) (kind : PKind)
    (hname : lookupFieldByName tfs k = some (number, false, .prim kind))
    (hfind : findField fs number = some (i, o, t)) (hkind : kindOf t o = some kind)
    (h0 : 0 < number) (h1 : number < 2 ^ 61) (hlen : ∀ s, gvString jv = some s → s.length < 2 ^ 32)
    (x : Val) (hx : leafVal kind jv = some x)
    (b : Bytes) (res : Vals) (hb : b.length < 2 ^ 24)
    (hdec : decode (.struct fs) b = some (.struct res)) (fuel : Nat) :
    ∃ tree out, parseTemplate pf (fuel + 4) (.msg tfs) (.obj (.cons k jv .nil)) [] = .ok tree ∧
      (∀ F, b.length + 8 ≤ F → rewriteT F tree b = .ok out) ∧
      decode (.struct fs) out = some (.struct (valsSet res i x)) :=
  Lemmas.ProtoTemplate.template_rewrite_value_single pf fs hfs tfs k jv number i o t kind hname hfind hkind h0 h1 hlen x hx
    b res hb hdec fuel

open Lemmas.ProtoTemplate in
/-- **template_rejects (1)**: a template naming a field the message type does not have is never accepted — whatever the
other members, the rules and the fuel (Go: "rewrite template contained an invalid field named …") -/
theorem template_rejects_unknown_field (pf : PF) (fs : TFields) (f : Nat) (ms : Model.Json.GMs) (rules : List Rules)
    (fuel : Nat) (r : RwT) (hk : keysKnown fs ms = false) : parseStruct pf fuel fs f (.obj ms) rules ≠ .ok r :=
  Lemmas.ProtoTemplate.parseStruct_unknown_rejected pf fs f ms rules fuel r hk

/-- **template_rejects (2)**: a template that is not a JSON object (or null) is never accepted; (3) a non-message type is
rejected. (A member of the wrong JSON kind / out of range: `template_leaf_value`, case `none`.) -/
theorem template_rejects_nonobject (pf : PF) (fs : TFields) (f : Nat) (j : Model.Json.GV) (rules : List Rules) (fuel : Nat)
    (r : RwT) (hj : gvObj j = none) : parseStruct pf fuel fs f j rules ≠ .ok r :=
  Lemmas.ProtoTemplate.parseStruct_nonobject_rejected pf fs f j rules fuel r hj
theorem template_rejects_nonstruct (pf : PF) (fuel : Nat) (t : TType) (j : Model.Json.GV) (rules : List Rules)
    (ht : ∀ fs, t ≠ .msg fs) : parseTemplate pf fuel t j rules = .err "nonStruct" :=
  Lemmas.ProtoTemplate.parseTemplate_nonstruct pf fuel t j rules ht

/-- **bitor_value**: `BitOr[int64]` on a plain int64 field, `BitOr[uint64]` on a plain uint64 field: the field is rewritten
to `old ||| mask`; an absent field counts as 0 -/
theorem bitor_value_int64 (mask old : BitVec 64) (f : Nat) :
    bitOrRewrite .i64 mask .int64 f (encodeVarint old) = .ok (fieldVarint f (old ||| mask)) :=
  Lemmas.ProtoTemplate.bitor_int64 mask old f
theorem bitor_value_uint64 (mask old : BitVec 64) (f : Nat) :
    bitOrRewrite .u64 mask .uint64 f (encodeVarint old) = .ok (fieldVarint f (old ||| mask)) :=
  Lemmas.ProtoTemplate.bitor_uint64 mask old f
theorem bitor_value_absent (mask : BitVec 64) (f : Nat) :
    bitOrRewrite .i64 mask .int64 f [] = .ok (fieldVarint f mask) :=
  Lemmas.ProtoTemplate.bitor_absent mask f

/-- **negative witness (known finding `proto-bitor-zigzag-fixed`)**: on a zig-zag field the code ORs the mask into the
zig-zag IMAGE and zig-zags again; a `sint64` field holding 3 with mask 1 does not become `3 ||| 1` -/
theorem bitor_zigzag_wrong :
    ∃ (old mask : BitVec 64) (f : Nat) (out : BitVec 64),
      bitOrRewrite .i64 mask .sint64 f (encodeVarint (encodeZigZag64 old)) = .ok (fieldVarint f out) ∧
      decodeZigZag64 out ≠ old ||| mask :=
  Lemmas.ProtoTemplate.bitor_sint64_wrong

end Enc.Props.C19
