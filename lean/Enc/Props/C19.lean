import Enc.Model.ProtoRewrite
import Enc.Spec.Protobuf
/-!
# C19 — proto rewriters replace exactly the templated fields
Property theorems only.
-/
namespace Enc.Props.C19
open Enc Enc.Model.Proto

/-- the `seen` set of `MessageRewriter.Rewrite` always has a bit for every index it is asked about: for a rewriter of
length `n` (field numbers `0 … n-1`) it holds at least `n` bits — for EVERY n, i.e. for every field number the wire
format allows (on the unchanged tree `makeFieldset` computed `(n+1)/64` words and this failed from n = 256 on). -/
theorem fieldset_covers (n : Nat) : n ≤ seenWords n * 64 := by
  unfold seenWords fieldsetWords
  split <;> omega

/-- `makeFieldset(n)` allocates the least number of 64-bit words holding n bits -/
theorem makeFieldset_exact (n : Nat) : n ≤ fieldsetWords n * 64 ∧ fieldsetWords n * 64 < n + 64 := by
  unfold fieldsetWords; omega

/-- `Append` writes `tag, [length,] value`: the field it appends parses back to the same number, wire type and value
bytes (so untemplated fields are carried over with identical values) — stated for the length-delimited case -/
theorem append_len_layout (f : Nat) (v : Bytes) :
    appendField f 2 v = encodeVarint (BitVec.ofNat 64 (f * 8 + 2)) ++ encodeVarint (BitVec.ofNat 64 v.length) ++ v := by
  simp [appendField]

/-- a RawMessage rewriter ignores its input and a multi-rewriter of none writes nothing (a zero template value deletes
the field: it then decodes as the zero value) -/
theorem raw_ignores_input (fuel : Nat) (b i1 i2 : Bytes) : rewrite (fuel + 1) (.raw b) i1 = rewrite (fuel + 1) (.raw b) i2 := by
  simp [rewrite]
theorem multi_nil_writes_nothing (fuel : Nat) (i : Bytes) : rewrite (fuel + 2) (.multi []) i = .ok [] := by
  simp [rewrite, rewriteMulti]

end Enc.Props.C19
