import Enc.Model.Thrift
import Enc.Spec.Thrift
import Enc.Lemmas.ThriftZig
import Enc.Lemmas.ThriftPrim
import Enc.Lemmas.ThriftDecode
import Enc.Lemmas.ThriftRoundTrip
import Enc.Lemmas.ThriftUnionWitness
import Enc.Lemmas.ThriftUnionZm
import Enc.Lemmas.ThriftEmbed
import Enc.Lemmas.ThriftEmbedShape
import Enc.Lemmas.ThriftEmbedSlices
/-!
# C04 — thrift: Unmarshal(Marshal(v)) == v for binary and compact protocols
Property theorems only.
-/
namespace Enc.Props.C04
open Enc Enc.Model.Thrift

/-- zig-zag (compact integers) is inverted exactly by the reader, for every integer -/
theorem unzigzag_zigzag (i : Int) : unzigzag (zigzag64 i) = i := Lemmas.ThriftZig.unzigzag_zigzag i

/-- Encoder/Decoder.Reset: the protocol-dependent behaviour of the model is a function of the protocol alone
(delta encoding and bool coalescing are derived from `Proto`, never from history) -/
theorem flags_depend_on_protocol_only (p : Proto) :
    (p.delta = match p with | .compact => true | _ => false) ∧ (p.coalesce = match p with | .compact => true | _ => false) := by
  cases p <;> exact ⟨rfl, rfl⟩

/-- integers survive both protocols: big-endian fixed width (binary) and zig-zag varint (compact), for every value of
the width -/
theorem i64_roundtrip (p : Proto) (i : Int) (h : -2^63 ≤ i ∧ i < 2^63) (rest : Bytes) :
    rI64 p (wI64 p i ++ rest) = .ok (i, rest) := Lemmas.ThriftPrim.rI64_wI64 p i h rest
theorem i32_roundtrip (p : Proto) (i : Int) (h : -2^31 ≤ i ∧ i < 2^31) (rest : Bytes) :
    rI32 p (wI32 p i ++ rest) = .ok (i, rest) := Lemmas.ThriftPrim.rI32_wI32 p i h rest
theorem i16_roundtrip (p : Proto) (i : Int) (h : -2^15 ≤ i ∧ i < 2^15) (rest : Bytes) :
    rI16 p (wI16 p i ++ rest) = .ok (i, rest) := Lemmas.ThriftPrim.rI16_wI16 p i h rest
theorem bytes_roundtrip (p : Proto) (b : Bytes) (h : b.length ≤ 2147483647) (rest : Bytes) :
    rBytes p (wBytes p b ++ rest) = .ok (b, rest) := Lemmas.ThriftPrim.rBytes_wBytes p b h rest

/-- list/set headers: short and long compact forms and the binary form are read back exactly -/
theorem list_header_roundtrip (p : Proto) (t : TType) (n : Nat) (ht : Lemmas.ThriftPrim.isReal t = true)
    (hn : n ≤ 2147483647) (rest : Bytes) : rList p (wList p t n ++ rest) = .ok ((t, n), rest) :=
  Lemmas.ThriftPrim.rList_wList p t n ht hn rest

/-- **Round trip through the decoder, partial**: `decode (encode v) = v` for every protocol and strictness, for the
fragment `Lemmas.ThriftSkip.RT` (bool, integers in range, doubles, strings, binaries, lists at any nesting, non-nil
pointers, named types). Structs, maps and sets are corresponded by the harness (and covered on the skipping side by
`Props.C08.skip_consumes_exactly`); what is missing for them is a proof about the key-deduplicating `mapPut` and the
field table. `d` is the decoder's nesting counter (Go `flags.depth()`): types nested deeper than maxDepth = 10000
containers are rejected by the decoder since the fix 9c8d6b4, hence the hypothesis `hd` (`nest ty` = number of nested
lists / sets / maps / structs of the type, defined in the model). -/
theorem decode_encode_partial (p : Proto) (strict : Bool) (ty : Ty) (v : Val) (h : Lemmas.ThriftSkip.RT ty v = true)
    (d : Nat) (fuel : Nat) (rest : Bytes) (cur : Val) (hd : d + nest ty ≤ Gen.c_thrift_maxDepth)
    (hf : Lemmas.ThriftSkip.fuelD ty v ≤ fuel) :
    decode p strict d fuel ty (encode p ty v ++ rest) cur = .ok (v, rest) :=
  Lemmas.ThriftSkip.decode_encode p strict ty v h d fuel rest cur hd hf

/-! ## the full round trip (proofs in Enc/Lemmas/ThriftRoundTrip*.lean; 9 files)

Universe `RTS`: bool, signed integers in range, doubles, strings, binaries, lists, sets, maps (keys pairwise distinct),
pointers (nil allowed), named types, and structs at any nesting with ids 1…32767 pairwise distinct, required pointer
fields non-nil, `enum` only on int32 kinds. `norm` is the value the decoder really produces: an elided field comes back
as its zero value, a written nil collection as an empty one, an elided −0.0 as +0.0, a written nil pointer as a
pointer to the zero value (the last two are the known findings). `Exact`: no such ambiguity, then `norm v = v`.

Nesting depth: types nested deeper than maxDepth = 10000 containers (lists, sets, maps, structs; `nest ty`, pointers and
named types do not count) are rejected by the decoder since the fix 9c8d6b4 (the encoder has no such limit), hence the
hypothesis `hd : nest ty ≤ Gen.c_thrift_maxDepth` of the three theorems below. It constrains the type only and is not part
of the universe predicate `RTS`. -/

/-- the depth hypothesis is satisfiable for nested types (`[]map[string]struct{ A []int32 }`: 4 containers) -/
example : nest (.slice (.map .str (.struct (.cons "A" "thrift:\"1\"" false (.slice (.int .i32)) .nil))))
    ≤ Gen.c_thrift_maxDepth := by decide

open Lemmas.ThriftRoundTrip in
/-- **MAIN.** Binary strict, binary non-strict and compact; strict and non-strict decoding; every type (nested at most
maxDepth containers deep) and value of the universe: Unmarshal(Marshal(v)) is v up to nil-versus-empty. -/
theorem unmarshal_marshal (p : Proto) (strict : Bool) (ty : Ty) (v : Val) (h : RTS ty v = true)
    (hd : nest ty ≤ Gen.c_thrift_maxDepth) :
    unmarshal p strict ty (marshal p ty v) = .ok (norm ty v) :=
  Lemmas.ThriftRoundTrip.unmarshal_marshal p strict ty v h hd

open Lemmas.ThriftRoundTrip in
theorem unmarshal_marshal_exact (p : Proto) (strict : Bool) (ty : Ty) (v : Val) (h : RTS ty v = true)
    (hd : nest ty ≤ Gen.c_thrift_maxDepth) (hx : Exact ty v) : unmarshal p strict ty (marshal p ty v) = .ok v :=
  Lemmas.ThriftRoundTrip.unmarshal_marshal_exact_partial p strict ty v h hd hx

open Lemmas.ThriftRoundTrip in
/-- the protocols decode each other's logical content to the same value: the result of the round trip does not depend
on the protocol setting nor on strictness -/
theorem protocols_agree (p₁ p₂ : Proto) (s₁ s₂ : Bool) (ty : Ty) (v : Val) (h : RTS ty v = true)
    (hd : nest ty ≤ Gen.c_thrift_maxDepth) :
    unmarshal p₁ s₁ ty (marshal p₁ ty v) = unmarshal p₂ s₂ ty (marshal p₂ ty v) := by
  rw [Lemmas.ThriftRoundTrip.unmarshal_marshal p₁ s₁ ty v h hd, Lemmas.ThriftRoundTrip.unmarshal_marshal p₂ s₂ ty v h hd]

/-! ## unions (model: Enc/Model/ThriftUnion.lean; proofs: Enc/Lemmas/ThriftUnion*.lean; witnesses: ThriftUnionWitness.lean)

A Go union is a struct whose members are ordinary fields with ids plus one interface-typed field tagged `thrift:",union"`
that holds the address of the member that is set (`.ptr (.int k)` = member at declaration position `k`). `encodeU`, `decodeU`,
`marshalU`, `unmarshalU` are the model WITH the union handling of encode.go / decode.go; on types without a union field they
are the functions of the theorems above (`marshalU_eq_marshal`, `unmarshalU_eq_unmarshal`), so those theorems keep their
full strength and the driver runs the `…U` functions for every case.

Vocabulary (`Lemmas.ThriftUnion`): `fieldAt fs vs k = some (tag, t, x)` — tag, type, value of field `k`;
`emittedU zm k tag t x = some (id, en)` — the struct encoder writes field `k` (`zm` = what `zeroMember` answers);
`othersQuiet zm k fs vs 0` — it writes no other field (every other member is nil or holds its zero value).
Tags are strings: the concrete witnesses are `#guard`s in ThriftUnionWitness.lean (the project's convention). -/

open Lemmas.ThriftSkip Lemmas.ThriftRoundTrip Lemmas.ThriftUnion in
/-- conservativity: without union fields the model with unions IS the model of the theorems above -/
theorem marshalU_eq_marshal (p : Proto) (ty : Ty) (v : Val) (h : noUnion ty = true) :
    marshalU p ty v = .ok (marshal p ty v) := Lemmas.ThriftUnion.marshalU_eq_marshal p ty v h
theorem unmarshalU_eq_unmarshal (p : Proto) (strict : Bool) (ty : Ty) (b : Bytes) (h : noUnion ty = true) :
    unmarshalU p strict ty b = unmarshal p strict ty b := Lemmas.ThriftUnion.unmarshalU_eq_unmarshal p strict ty b h

open Lemmas.ThriftSkip Lemmas.ThriftUnion in
/-- **union_bytes**: a union value with exactly member `k` emitted is written as the struct with exactly that field (header,
value, stop) — binary strict, binary non-strict and compact -/
theorem union_bytes (p : Proto) (fs : Fields) (vs : Vals) (k : Nat) (tag : String) (t : Ty) (x : Val) (id : Int)
    (en : Bool) (body : Bytes)
    (hq : othersQuiet (zeroMember fs vs) k fs vs 0 = true)
    (hk : fieldAt fs vs k = some (tag, t, x))
    (he : emittedU (zeroMember fs vs) k tag t x = some (id, en))
    (hb : fieldBodyU p en t x = .ok body) :
    encodeU p (.struct fs) (.struct vs) =
      .ok (emitFields p [{ id := id, t := typeOf t, isTrue := fieldIsTrue x, body := body }] 0 ++ wStopField p) :=
  Lemmas.ThriftUnion.union_bytes p fs vs k tag t x id en body hq hk he hb

open Lemmas.ThriftSkip Lemmas.ThriftUnion in
/-- **the member that is SET TO ITS ZERO VALUE is written** (fix fb0bd25): when the union field holds the address of member
`k`, every member holds its zero value and `k` is the only member of its Go type (`hscan` is the loop of `zeroMember`),
`zeroMember` answers `k`, and then field `k` is emitted whatever its value (anything but a nil pointer). With two members of
one Go type `zeroMember` answers −1 and nothing is written: `Witness.uB0` (finding; `Unmarshal(Marshal(u)) ≠ u` there). -/
theorem union_zero_member_written (fs : Fields) (vs : Vals) (u k : Nat) (t : Ty) (tag : String) (x : Val) (id : Int)
    (rq en : Bool) (hu : unionPos fs 0 = some u) (hF : Vals.get vs u = .ptr (.int (k : Nat))) (ht : tyAt fs k = some t)
    (hscan : zmScan t fs vs 0 = some [k]) (hp : parseTag tag = some (id, rq, en)) (hn : isNilPtr t x = false) :
    emittedU (zeroMember fs vs) k tag t x = some (id, en) := by
  rw [Lemmas.ThriftUnion.zeroMember_designated fs vs u k t hu hF ht hscan]
  exact Lemmas.ThriftUnion.emittedU_zeroMember k tag t x id rq en hp hn

open Lemmas.ThriftUnion in
/-- no member emitted (nothing set): the empty struct, no error; several emitted: `Marshal` returns the union error -/
theorem union_no_member (p : Proto) (fs : Fields) (vs : Vals)
    (hq : othersQuiet (zeroMember fs vs) fs.length fs vs 0 = true) :
    encodeU p (.struct fs) (.struct vs) = .ok (wStopField p) := Lemmas.ThriftUnion.union_no_member p fs vs hq
theorem union_several_members (p : Proto) (fs : Fields) (vs : Vals) (u : Nat) (recs : List FieldRec)
    (hu : unionPos fs 0 = some u) (hr : fieldRecsU p (zeroMember fs vs) fs vs 0 = .ok recs) (hn : 1 < recs.length) :
    encodeU p (.struct fs) (.struct vs) = .err "unionMultiple" :=
  Lemmas.ThriftUnion.union_several_members p fs vs u recs hu hr hn

open Lemmas.ThriftPrim Lemmas.ThriftSkip Lemmas.ThriftRoundTrip Lemmas.ThriftUnion in
/-- **union_round_trip** (`Unmarshal(Marshal(u))`, all three protocol settings, strict or not): a union value with exactly
one member emitted — holding its zero value or not, the empty string and zero scalars included —, the member being of the
proved universe `RTS` (scalars, strings, binaries, lists, sets, maps, nested structs, pointers, named types), comes back as the
zero value of the struct with that member (normal form) and the union field holding the member's address. By
`union_value_eq` this IS the value that was marshalled when it is a proper union value and the member is `Exact`. -/
theorem union_round_trip (p : Proto) (strict : Bool) (fs : Fields) (vs : Vals) (u k : Nat) (tag : String)
    (t : Ty) (x : Val) (id : Int) (rq en : Bool)
    (hu : unionPos fs 0 = some u)
    (hq : othersQuiet (zeroMember fs vs) k fs vs 0 = true)
    (hk : fieldAt fs vs k = some (tag, t, x))
    (he : emittedU (zeroMember fs vs) k tag t x = some (id, en))
    (hid : 1 ≤ id ∧ id ≤ 32767) (hreal : isReal (typeOf t) = true)
    (hfind : findById (fieldDescs fs) id = some { pos := k, id := id, required := rq, enum := en, ty := t })
    (hreq : ∀ fd ∈ fieldDescs fs, fd.required = true → fd.id = id)
    (hty : tyAt fs k = some t)
    (hnu : noUnion t = true) (hx : RTS t x = true) (hen : enumTyOK en t = true)
    (hd : 1 + nest t ≤ Gen.c_thrift_maxDepth) :
    ∃ bytes, marshalU p (.struct fs) (.struct vs) = .ok bytes ∧
      unmarshalU p strict (.struct fs) bytes =
        .ok (.struct (Vals.set (Vals.set (zeroFields fs) k (norm t x)) u (.ptr (.int k)))) :=
  Lemmas.ThriftUnion.union_round_trip p strict fs vs u k tag t x id rq en hu hq hk he hid hreal hfind hreq hty hnu hx hen hd

open Lemmas.ThriftUnion in
theorem union_value_eq (fs : Fields) (vs : Vals) (u k : Nat) (w : Val) (hlen : vs.length = (zeroFields fs).length)
    (hku : k ≠ u) (hk : k < vs.length) (hul : u < vs.length)
    (hothers : ∀ n, n ≠ k → n ≠ u → Vals.get vs n = Vals.get (zeroFields fs) n)
    (hkv : Vals.get vs k = w) (hF : Vals.get vs u = .ptr (.int k)) :
    Vals.set (Vals.set (zeroFields fs) k w) u (.ptr (.int k)) = vs :=
  Lemmas.ThriftUnion.union_value_eq fs vs u k w hlen hku hk hul hothers hkv hF

open Lemmas.ThriftPrim Lemmas.ThriftSkip Lemmas.ThriftRoundTrip Lemmas.ThriftUnion in
/-- **union_round_trip, closure form** (decoder level, any target value `cur`, any depth below the limit): whatever the
member's type — a member that is itself a union, or a pointer to one, included — its own value step `ValStepU` (for `RTS`
members: `Lemmas.ThriftUnion.valStepU_of_RTS`; for a union member: this theorem) lifts to the union. Nested unions to any
depth follow by iterating; `Witness.W` is a union inside a union. -/
theorem union_round_trip_gen (p : Proto) (strict : Bool) (d : Nat) (fs : Fields) (vs : Vals) (u k : Nat) (tag : String)
    (t : Ty) (x : Val) (id : Int) (rq en : Bool) (body : Bytes) (w : Val) (B : Nat)
    (hu : unionPos fs 0 = some u)
    (hq : othersQuiet (zeroMember fs vs) k fs vs 0 = true)
    (hk : fieldAt fs vs k = some (tag, t, x))
    (he : emittedU (zeroMember fs vs) k tag t x = some (id, en))
    (hb : fieldBodyU p en t x = .ok body)
    (hid : 1 ≤ id ∧ id ≤ 32767) (hreal : isReal (typeOf t) = true)
    (hfind : findById (fieldDescs fs) id = some { pos := k, id := id, required := rq, enum := en, ty := t })
    (hreq : ∀ fd ∈ fieldDescs fs, fd.required = true → fd.id = id)
    (hbool : typeOf t = .bool → wrapPtr t (.bool (fieldIsTrue x)) = w)
    (hstep : ValStepU p strict (d + 1) { pos := k, id := id, required := rq, enum := en, ty := t } body B
      (Vals.get (zeroFields fs) k) w)
    (hd : d < Gen.c_thrift_maxDepth) :
    ∃ bytes, encodeU p (.struct fs) (.struct vs) = .ok bytes ∧
      ∀ (fuel : Nat) (cur : Vals) (rest : Bytes), bytes.length + 2 + B ≤ fuel →
        decodeU p strict d fuel (.struct fs) (bytes ++ rest) (.struct cur) =
          .ok (.struct (Vals.set (Vals.set (zeroFields fs) k w) u (.ptr (.int k))), rest) :=
  Lemmas.ThriftUnion.union_round_trip_gen p strict d fs vs u k tag t x id rq en body w B hu hq hk he hb hid hreal hfind hreq
    hbool hstep hd

open Lemmas.ThriftPrim Lemmas.ThriftSkip Lemmas.ThriftRoundTrip Lemmas.ThriftUnion in
/-- **union_last_member_wins**: the wire carries several members (records the target declares, ascending ids — what an
encoder of the same fields without the union option writes; `W f` = the value record `f` decodes to from the zero value).
Every member that arrives resets the struct (`v.Set(dec.zero)`), so the result is the ZERO value of the struct with the LAST
member alone, the union field holding its address; earlier members, untagged fields and the target's previous content `cur`
are gone. One member = the ordinary case. (No member at all: the target is left untouched — `Witness`.) -/
theorem union_last_member_wins (p : Proto) (strict : Bool) (d : Nat) (fs : Fields) (u : Nat) (hu : unionPos fs 0 = some u)
    (B : Nat) (W : FieldRec → Val) (l : List FieldRec) (hne : l ≠ [])
    (hasc : l.Pairwise (fun a b => a.id < b.id)) (hpos : ∀ f ∈ l, 0 < f.id)
    (hrecs : ∀ f ∈ l, DecRecU p strict (d + 1) (fieldDescs fs) (zeroFields fs) B f (W f))
    (hreq : ∀ fd ∈ fieldDescs fs, fd.required = true → fd.id ∈ l.map (·.id))
    (hd : d < Gen.c_thrift_maxDepth) (fuel : Nat) (hf : (emitFields p l 0).length + 2 + B ≤ fuel) (cur : Vals)
    (rest : Bytes) :
    decodeU p strict d fuel (.struct fs) (emitFields p l 0 ++ (wStopField p ++ rest)) (.struct cur) =
      .ok (.struct (Vals.set (Vals.set (zeroFields fs) (posOf (fieldDescs fs) (l.getLast hne).id) (W (l.getLast hne))) u
              (.ptr (.int (posOf (fieldDescs fs) (l.getLast hne).id)))), rest) :=
  Lemmas.ThriftUnion.union_last_member_wins p strict d fs u hu B W l hne hasc hpos hrecs hreq hd fuel hf cur rest

open Lemmas.ThriftPrim Lemmas.ThriftSkip Lemmas.ThriftRoundTrip Lemmas.ThriftUnion in
/-- **union_protocols_agree**: the result of `Unmarshal(Marshal(u))` does not depend on the protocol nor on strictness -/
theorem union_protocols_agree (p₁ p₂ : Proto) (s₁ s₂ : Bool) (fs : Fields) (vs : Vals) (u k : Nat) (tag : String)
    (t : Ty) (x : Val) (id : Int) (rq en : Bool)
    (hu : unionPos fs 0 = some u)
    (hq : othersQuiet (zeroMember fs vs) k fs vs 0 = true)
    (hk : fieldAt fs vs k = some (tag, t, x))
    (he : emittedU (zeroMember fs vs) k tag t x = some (id, en))
    (hid : 1 ≤ id ∧ id ≤ 32767) (hreal : isReal (typeOf t) = true)
    (hfind : findById (fieldDescs fs) id = some { pos := k, id := id, required := rq, enum := en, ty := t })
    (hreq : ∀ fd ∈ fieldDescs fs, fd.required = true → fd.id = id)
    (hty : tyAt fs k = some t)
    (hnu : noUnion t = true) (hx : RTS t x = true) (hen : enumTyOK en t = true)
    (hd : 1 + nest t ≤ Gen.c_thrift_maxDepth) :
    (marshalU p₁ (.struct fs) (.struct vs)).bind (unmarshalU p₁ s₁ (.struct fs)) =
      (marshalU p₂ (.struct fs) (.struct vs)).bind (unmarshalU p₂ s₂ (.struct fs)) :=
  Lemmas.ThriftUnion.union_protocols_agree p₁ p₂ s₁ s₂ fs vs u k tag t x id rq en hu hq hk he hid hreal hfind hreq hty hnu hx
    hen hd

open Lemmas.ThriftSkip Lemmas.ThriftRoundTrip Lemmas.ThriftUnion in
/-- hypothesis `hfind` of the round-trip theorems from the tags: ids pairwise distinct (`idsOK`; Go panics otherwise) -/
theorem union_member_table (fs : Fields) (vs : Vals) (k : Nat) (tag : String) (t : Ty) (x : Val) (id : Int) (rq en : Bool)
    (hids : idsOK fs = true) (hk : fieldAt fs vs k = some (tag, t, x)) (hp : parseTag tag = some (id, rq, en)) :
    findById (fieldDescs fs) id = some { pos := k, id := id, required := rq, enum := en, ty := t } :=
  Lemmas.ThriftUnion.findById_member fs vs k tag t x id rq en hids hk hp

/-- non-vacuity (tags need evaluation: the full hypothesis sets are `#guard`ed in Lemmas/ThriftUnionWitness.lean): the witness
union `V = struct { A bool (1); C string (3); F any (union); B int64 (9) }` has its union field at position 2 -/
example : Lemmas.ThriftUnion.Witness.VF.length = 4 := by decide

/-! ## embedded structs (model: Enc/Model/ThriftEmbed.lean; proofs and `#guard` witnesses on the shapes of
harness/thriftemb.go: Enc/Lemmas/ThriftEmbed.lean)

`forEachStructField` flattens embedded (anonymous) struct fields, by value and by pointer; every promoted field carries an
index path. `encodeE` walks the paths as `structEncoder.encode` does (a nil embedded pointer on the way: the field is
skipped), `decodeE` as `structDecoder.decode` does (a nil embedded pointer on the way is allocated). -/

/-- **Embedding is transparent on the wire**: for every descriptor with embedded structs (any depth, value or pointer
embedding), every value and every protocol, the encoder writes exactly what the plain struct encoder (`encode`, which knows
nothing about embedding) writes for the FLAT struct type `flatFields fs` on the values gathered along the index paths —
provided no required field sits behind a nil embedded pointer (`Transparent`, a Boolean of the value). -/
theorem embedded_eq_flat (p : Proto) (fs : Fields) (vs : Vals) (h : Transparent fs vs = true) :
    encodeE p (.struct fs) (.struct vs) = encode p (.struct (flatFields fs)) (.struct (flatVals fs vs)) :=
  Lemmas.ThriftEmbed.embedded_eq_flat p fs vs h

/-- the field table (ids, order, required / enum flags, types) of a struct with embedded fields is the field table of the
flat struct; entry k is reached by the index path of the k-th flattened field instead of the position k -/
theorem embedded_field_table (fs : Fields) :
    fieldDescs (flatFields fs) = Lemmas.ThriftEmbed.descsFrom (fieldDescsE fs) 0 :=
  Lemmas.ThriftEmbed.fieldDescs_flat fs

/-- the paths emitted for one member of a struct do not depend on the members that follow, and all start with
`prefix ++ [i]` (the clipping `fieldIndex[:len:len]` read as: paths are immutable values) -/
theorem index_paths_independent (name tag : String) (emb : Bool) (t : Ty) (rest : Fields) (idx : List Nat) (i : Nat) :
    flatten (.cons name tag emb t rest) idx i = flatten (.cons name tag emb t .nil) idx i ++ flatten rest idx (i + 1) ∧
    ∀ ff ∈ flatten (.cons name tag emb t .nil) idx i, ∃ r, ff.index = idx ++ i :: r :=
  Lemmas.ThriftEmbed.index_paths_independent name tag emb t rest idx i

/-- the defect the clipping repairs, in the model of `append` with backing arrays and capacities: three levels down two
siblings share one path without it, and have their own paths with it -/
theorem unclipped_index_paths_alias (n1 t1 n2 t2 : String) (ty1 ty2 : Ty)
    (e1 : isExported n1 = true) (e2 : isExported n2 = true)
    (h1 : (tagOf t1).isSome = true) (h2 : (tagOf t2).isSome = true) :
    flattenAliased (Lemmas.ThriftEmbed.deep3 n1 t1 n2 t2 ty1 ty2) = [(n1, [0, 0, 0, 1]), (n2, [0, 0, 0, 1])] ∧
    flattenClipped (Lemmas.ThriftEmbed.deep3 n1 t1 n2 t2 ty1 ty2) = [(n1, [0, 0, 0, 0]), (n2, [0, 0, 0, 1])] :=
  Lemmas.ThriftEmbed.aliased_siblings_share_path n1 t1 n2 t2 ty1 ty2 e1 e2 h1 h2

/-- where embedding is NOT transparent: a required field behind a nil embedded pointer is not written (only the stop
field is), although the flat struct writes it — and the decoder rejects those bytes (missing required field) -/
theorem required_behind_nil_embedded_pointer_skipped (p : Proto) (n t : String) (id : Int) (he : isExported n = true)
    (ht : tagOf t = some (id, true, false)) :
    let fs := Fields.cons "R" "" true (.ptr (.struct (.cons n t false (.int .i32) .nil))) .nil
    encodeE p (.struct fs) (.struct (.cons .nil .nil)) = wStopField p ∧ Transparent fs (.cons .nil .nil) = false :=
  Lemmas.ThriftEmbed.required_behind_nil_skipped p n t id he ht

/-- **Embedding is transparent for the decoder**: decoding into the flat struct type, started on the flat value of the
target (`flatVals`: the promoted fields gathered along their index paths, zero values behind nil embedded pointers), gives
the flat value of what decoding into the struct with embedded fields gives (`mapS (flatVals fs)` maps the decoded struct,
errors and the rest of the input are the same) — for every descriptor, every well-shaped target (`LenOK`: an embedded
member holds a struct, a pointer to one, or nil; the zero value `Unmarshal` starts from is one,
`embedded_zero_target_ok`), every input, protocol, strictness, depth and fuel, provided the embedded types on the way to a
promoted field have exported names (`PathsExported`, a Boolean of the descriptor). The nil embedded pointers on the path of a
field that arrives are allocated (`setPathA`), the others stay nil (witnesses in Lemmas/ThriftEmbedShape.lean). -/
theorem embedded_decode_eq_flat (p : Proto) (strict : Bool) (d : Nat) (fs : Fields) (fuel : Nat) (b : Bytes) (vs : Vals)
    (h : Lemmas.ThriftEmbed.LenOK fs vs = true) (hx : Lemmas.ThriftEmbed.PathsExported fs = true) :
    decode p strict d fuel (.struct (flatFields fs)) b (.struct (flatVals fs vs)) =
      Lemmas.ThriftEmbed.mapS (flatVals fs) (decodeE p strict d fuel (.struct fs) b (.struct vs)) :=
  Lemmas.ThriftEmbed.embedded_decode_eq_flat p strict d fs fuel b vs h hx

/-- where the decoder is NOT transparent: a promoted field behind a nil embedded pointer to a struct type with an unexported
name cannot be stored (reflect `CanSet`; Go: "cannot set embedded field of unexported type") -/
theorem unexported_embedded_pointer_blocked (nm n t : String) (ty : Ty) (rest : Fields) (vs : Vals)
    (hn : isExported nm = false) :
    blocked (.cons nm "" true (.ptr (.struct (.cons n t false ty .nil))) rest) (.cons .nil vs) [0, 0] = true :=
  Lemmas.ThriftEmbed.unexported_embedded_pointer_blocked nm n t ty rest vs hn
theorem embedded_zero_target_ok (fs : Fields) : Lemmas.ThriftEmbed.LenOK fs (zeroFields fs) = true :=
  Lemmas.ThriftEmbed.lenOK_zeroFields fs

/-- the decoder's index walk is a lens on the paths of a descriptor: what was written at one promoted field is read back
there, and no other promoted field changes — the index paths of every descriptor are pairwise independent (neither is a
prefix of the other) -/
theorem embedded_paths_pairwise_independent (fs : Fields) : Lemmas.ThriftEmbed.PathsIndep (fieldDescsE fs) :=
  Lemmas.ThriftEmbed.pathsIndep_flatten fs

/-- **index paths in the model with backing arrays and capacities**: with the clipping `fieldIndex[:len:len]` (the code as
written) the path of every promoted field, read once the whole type has been walked, is the path it was given, for every
descriptor: no later `append` for a sibling writes into its array (without the clipping: `unclipped_index_paths_alias`) -/
theorem clipped_index_paths_never_alias (fs : Fields) :
    flattenClipped fs = (flatten fs [] 0).map (fun ff => (ff.name, ff.index)) :=
  Lemmas.ThriftEmbed.flattenClipped_eq fs

/-- **the index paths address the right values**: the flat values gathered along the index paths are the values read off
the nested value by plain recursion on the type (`gatherF`: members in order, an embedded struct contributes its own
gathered values through at most one pointer, a nil embedded pointer the zero values of its promoted fields) -/
theorem embedded_flat_values_are_the_leaves (fs : Fields) (vs : Vals) (h : Lemmas.ThriftEmbed.LenOK fs vs = true) :
    (flatVals fs vs).toList = Lemmas.ThriftEmbed.gatherF fs vs :=
  Lemmas.ThriftEmbed.flatVals_eq_gather fs vs h

/-- `unflatVals` (scatter along the index paths, allocating embedded pointers as the decoder does) is a right inverse of
`flatVals` (gather), on top of any well-shaped target -/
theorem embedded_flat_unflat (fs : Fields) (vs ws : Vals) (h : Lemmas.ThriftEmbed.LenOK fs vs = true) :
    Lemmas.ThriftEmbed.LenOK fs (unflatVals fs vs ws) = true ∧
    ∀ j ff, (fieldDescsE fs)[j]? = some ff → Vals.get (flatVals fs (unflatVals fs vs ws)) j = Vals.get ws j :=
  Lemmas.ThriftEmbed.flat_unflat fs vs ws h

/-! ## union: zero member, general characterisation (T2bZm) -/
/-! Proofs: Enc/Lemmas/ThriftUnionZm.lean. Vocabulary (all decidable, defined there independently of `zmScan`):
`isMemberAt fs k` — the field at position `k` carries an id; `anyMemberNonZero fs vs` — some member holds a non-zero value;
`sameTypeMembers ut fs pos` — positions of the members of Go type `ut`; `otherOfType ut k fs 0` — a member at a position other
than `k` has Go type `ut`; `MembersDistinct fs` — the members have pairwise different Go types; `noRequired fs`.
Tags are abstract in the examples (`String.splitOn` does not reduce in the kernel); the concrete tags are `#guard`ed in the
Lemmas file. -/

open Lemmas.ThriftUnion in
/-- the model's Go type identity is equality of type descriptors -/
theorem union_tyEq_iff_eq (a b : Ty) : tyEq a b = true ↔ a = b := Lemmas.ThriftUnion.tyEq_iff_eq a b

open Lemmas.ThriftSkip Lemmas.ThriftUnion in
/-- **the loop of `zeroMember`, characterised**: it gives up (`none`, Go `-1`) exactly when some member holds a non-zero value;
when every member is zero it answers the positions of the members whose Go type is `ut` (in increasing order). -/
theorem union_zmScan_characterisation (ut : Ty) (fs : Fields) (vs : Vals) (pos : Nat) (hlen : fs.length ≤ vs.length) :
    (zmScan ut fs vs pos = none ↔
      ∃ i tag t x, fieldAt fs vs i = some (tag, t, x) ∧ (memberId tag).isSome = true ∧ isZeroAt t x = false) ∧
    ((∀ i tag t x, fieldAt fs vs i = some (tag, t, x) → (memberId tag).isSome = true → isZeroAt t x = true) →
      zmScan ut fs vs pos = some (sameTypeMembers ut fs pos)) :=
  Lemmas.ThriftUnion.zmScan_characterisation ut fs vs pos hlen

open Lemmas.ThriftSkip Lemmas.ThriftUnion in
/-- **members of pairwise different Go types: the designated zero member is found.** -/
theorem union_zero_member_found_of_distinct (fs : Fields) (vs : Vals) (u : Nat) (k : Int) (ut : Ty)
    (hu : unionPos fs 0 = some u) (hF : Vals.get vs u = .ptr (.int k)) (hk : 0 ≤ k)
    (ht : tyAt fs k.toNat = some ut) (hm : isMemberAt fs k.toNat = true)
    (hz : anyMemberNonZero fs vs = false) (hlen : fs.length ≤ vs.length) (hd : MembersDistinct fs = true) :
    zeroMember fs vs = some k.toNat :=
  Lemmas.ThriftUnion.zeroMember_of_distinct fs vs u k ut hu hF hk ht hm hz hlen hd

open Lemmas.ThriftSkip Lemmas.ThriftUnion in
/-- **union_zero_member_written, without the scan hypothesis**: members of pairwise different Go types, every member zero,
the union field holding the address of member `k` ⇒ field `k` is emitted (anything but a nil pointer). -/
theorem union_zero_member_written_of_distinct (fs : Fields) (vs : Vals) (u k : Nat) (t : Ty) (tag : String) (x : Val)
    (id : Int) (rq en : Bool) (hu : unionPos fs 0 = some u) (hF : Vals.get vs u = .ptr (.int (k : Nat)))
    (ht : tyAt fs k = some t) (hm : isMemberAt fs k = true) (hz : anyMemberNonZero fs vs = false)
    (hlen : fs.length ≤ vs.length) (hd : MembersDistinct fs = true)
    (hp : parseTag tag = some (id, rq, en)) (hn : isNilPtr t x = false) :
    emittedU (zeroMember fs vs) k tag t x = some (id, en) :=
  Lemmas.ThriftUnion.emittedU_of_distinct fs vs u k t tag x id rq en hu hF ht hm hz hlen hd hp hn

open Lemmas.ThriftSkip Lemmas.ThriftUnion in
/-- non-vacuity: `struct { A bool (1); C string (3); F any (union) }` with `C = ""` designated -/
example (ta tc tf : String) (ha : parseTag ta = some (1, false, false)) (hc : parseTag tc = some (3, false, false))
    (hf : parseTag tf = none) (hfu : isUnionTag tf = true) :
    zeroMember (distFields ta tc tf) distVals = some 1 ∧
      emittedU (zeroMember (distFields ta tc tf) distVals) 1 tc .str (.str []) = some (3, false) := by
  obtain ⟨hu, hF, ht, hm, hz, hlen, hd⟩ := distinct_example_hyps ta tc tf ha hc hf hfu
  exact ⟨by simpa using union_zero_member_found_of_distinct _ _ 2 1 .str hu hF (by decide) ht hm hz hlen hd,
    union_zero_member_written_of_distinct _ _ 2 1 .str tc (.str []) 3 false false hu hF ht hm hz hlen hd hc rfl⟩

open Lemmas.ThriftSkip Lemmas.ThriftUnion in
/-- **exactness**: the union field designates member `k` (of Go type `ut`), every member is zero. `zeroMember` finds `k` IF AND
ONLY IF no other member has Go type `ut`; it answers −1 IF AND ONLY IF another member has it — the recorded finding
`thriftUnionZeroAmbiguous` is exactly the excluded case. -/
theorem union_zero_member_ambiguous_iff (fs : Fields) (vs : Vals) (u : Nat) (k : Int) (ut : Ty)
    (hu : unionPos fs 0 = some u) (hF : Vals.get vs u = .ptr (.int k)) (hk : 0 ≤ k)
    (ht : tyAt fs k.toNat = some ut) (hm : isMemberAt fs k.toNat = true)
    (hz : anyMemberNonZero fs vs = false) (hlen : fs.length ≤ vs.length) :
    (zeroMember fs vs = some k.toNat ↔ otherOfType ut k.toNat fs 0 = false) ∧
    (zeroMember fs vs = none ↔ otherOfType ut k.toNat fs 0 = true) :=
  ⟨Lemmas.ThriftUnion.zeroMember_ambiguous_iff fs vs u k ut hu hF hk ht hm hz hlen,
   Lemmas.ThriftUnion.zeroMember_none_iff fs vs u k ut hu hF hk ht hm hz hlen⟩

open Lemmas.ThriftSkip Lemmas.ThriftUnion in
/-- non-vacuity, both sides: `struct { A int32 (1); B int32 (2); C string (3); F any (union) }` is not `MembersDistinct`, yet
`C = ""` designated is found; `struct { A int32 (1); B int32 (2); F any (union) }` with `A = 0` designated: −1 -/
example (ta tb tc tf : String) (ha : parseTag ta = some (1, false, false)) (hb : parseTag tb = some (2, false, false))
    (hc : parseTag tc = some (3, false, false)) (hf : parseTag tf = none) (hfu : isUnionTag tf = true) :
    MembersDistinct (ambFields3 ta tb tc tf) = false ∧ zeroMember (ambFields3 ta tb tc tf) ambVals3 = some 2 :=
  Lemmas.ThriftUnion.ambiguous_iff_example ta tb tc tf ha hb hc hf hfu
open Lemmas.ThriftSkip Lemmas.ThriftUnion in
example (ta tb tf : String) (ha : parseTag ta = some (1, false, false)) (hb : parseTag tb = some (2, false, false))
    (hf : parseTag tf = none) (hfu : isUnionTag tf = true) : zeroMember (ambFields ta tb tf) ambVals = none := by
  obtain ⟨hu, hF, ht, hm, hz, hlen, ho, _⟩ := ambiguous_example_hyps ta tb tf ha hb hf hfu
  exact (union_zero_member_ambiguous_iff _ _ 2 0 (.int .i32) hu hF (by decide) ht hm hz hlen).2.2 ho

open Lemmas.ThriftSkip Lemmas.ThriftUnion in
/-- **the finding in general**: in the excluded case (another member shares the designated member's Go type; no `required`
member) `Marshal` writes the empty struct — the stop byte only: the member that was set to zero is not on the wire. -/
theorem union_ambiguous_nothing_written (p : Proto) (fs : Fields) (vs : Vals) (u k : Nat) (ut : Ty)
    (hu : unionPos fs 0 = some u) (hF : Vals.get vs u = .ptr (.int (k : Nat)))
    (ht : tyAt fs k = some ut) (hm : isMemberAt fs k = true)
    (hz : anyMemberNonZero fs vs = false) (hlen : fs.length ≤ vs.length)
    (ho : otherOfType ut k fs 0 = true) (hr : noRequired fs = true) :
    zeroMember fs vs = none ∧ encodeU p (.struct fs) (.struct vs) = .ok (wStopField p) :=
  Lemmas.ThriftUnion.union_ambiguous_nothing_written p fs vs u k ut hu hF ht hm hz hlen ho hr

open Lemmas.ThriftSkip Lemmas.ThriftUnion in
/-- **negative witness** (finding `thriftUnionZeroAmbiguous`): `struct { A int32 (1); B int32 (2); F any (union) }`,
`A = B = 0`, `F = &A`: the union field is found, another member has `A`'s type, `zeroMember` answers −1 and every protocol
writes just the stop byte. -/
theorem union_zero_member_ambiguous_witness (ta tb tf : String)
    (ha : parseTag ta = some (1, false, false)) (hb : parseTag tb = some (2, false, false))
    (hf : parseTag tf = none) (hfu : isUnionTag tf = true) (p : Proto) :
    unionPos (ambFields ta tb tf) 0 = some 2 ∧
    otherOfType (.int .i32) 0 (ambFields ta tb tf) 0 = true ∧
    zeroMember (ambFields ta tb tf) ambVals = none ∧
    encodeU p (.struct (ambFields ta tb tf)) (.struct ambVals) = .ok (wStopField p) :=
  Lemmas.ThriftUnion.zeroMember_ambiguous_witness ta tb tf ha hb hf hfu p

open Lemmas.ThriftSkip Lemmas.ThriftUnion in
/-- non-vacuity of `union_ambiguous_nothing_written` on the same witness (the general theorem gives the witness) -/
example (ta tb tf : String) (ha : parseTag ta = some (1, false, false)) (hb : parseTag tb = some (2, false, false))
    (hf : parseTag tf = none) (hfu : isUnionTag tf = true) :
    encodeU .compact (.struct (ambFields ta tb tf)) (.struct ambVals) = .ok [0] := by
  obtain ⟨hu, hF, ht, hm, hz, hlen, ho, hr⟩ := ambiguous_example_hyps ta tb tf ha hb hf hfu
  exact (union_ambiguous_nothing_written .compact _ _ 2 0 (.int .i32) hu hF ht hm hz hlen ho hr).2

end Enc.Props.C04
