import Enc.Model.Thrift
import Enc.Spec.Thrift
import Enc.Lemmas.ThriftZig
import Enc.Lemmas.ThriftPrim
import Enc.Lemmas.ThriftDecode
import Enc.Lemmas.ThriftRoundTrip
/-!
# C04 — thrift: Unmarshal(Marshal(v)) == v for binary and compact protocols
Property theorems only.
-/
namespace Enc.Props.C04
open Enc Enc.Model.Thrift

/-- zig-zag (compact integers) is inverted exactly by the reader, for every integer -/
theorem unzigzag_zigzag (i : Int) : unzigzag (zigzag64 i) = i := Lemmas.ThriftZig.unzigzag_zigzag i

/-- Encoder/Decoder.Reset: the protocol-dependent behaviour of the model is a function of the protocol alone
(delta encoding and bool coalescing are derived from `Proto`, never from history) -/
theorem flags_depend_on_protocol_only (p : Proto) :
    (p.delta = match p with | .compact => true | _ => false) ∧ (p.coalesce = match p with | .compact => true | _ => false) := by
  cases p <;> exact ⟨rfl, rfl⟩

/-- integers survive both protocols: big-endian fixed width (binary) and zig-zag varint (compact), for every value of
the width -/
theorem i64_roundtrip (p : Proto) (i : Int) (h : -2^63 ≤ i ∧ i < 2^63) (rest : Bytes) :
    rI64 p (wI64 p i ++ rest) = .ok (i, rest) := Lemmas.ThriftPrim.rI64_wI64 p i h rest
theorem i32_roundtrip (p : Proto) (i : Int) (h : -2^31 ≤ i ∧ i < 2^31) (rest : Bytes) :
    rI32 p (wI32 p i ++ rest) = .ok (i, rest) := Lemmas.ThriftPrim.rI32_wI32 p i h rest
theorem i16_roundtrip (p : Proto) (i : Int) (h : -2^15 ≤ i ∧ i < 2^15) (rest : Bytes) :
    rI16 p (wI16 p i ++ rest) = .ok (i, rest) := Lemmas.ThriftPrim.rI16_wI16 p i h rest
theorem bytes_roundtrip (p : Proto) (b : Bytes) (h : b.length ≤ 2147483647) (rest : Bytes) :
    rBytes p (wBytes p b ++ rest) = .ok (b, rest) := Lemmas.ThriftPrim.rBytes_wBytes p b h rest

/-- list/set headers: short and long compact forms and the binary form are read back exactly -/
theorem list_header_roundtrip (p : Proto) (t : TType) (n : Nat) (ht : Lemmas.ThriftPrim.isReal t = true)
    (hn : n ≤ 2147483647) (rest : Bytes) : rList p (wList p t n ++ rest) = .ok ((t, n), rest) :=
  Lemmas.ThriftPrim.rList_wList p t n ht hn rest

/-- **Round trip through the decoder, partial**: `decode (encode v) = v` for every protocol and strictness, for the
fragment `Lemmas.ThriftSkip.RT` (bool, integers in range, doubles, strings, binaries, lists at any nesting, non-nil
pointers, named types). Structs, maps and sets are corresponded by the harness (and covered on the skipping side by
`Props.C08.skip_consumes_exactly`); what is missing for them is a proof about the key-deduplicating `mapPut` and the
field table. `d` is the decoder's nesting counter (Go `flags.depth()`): types nested deeper than maxDepth = 10000
containers are rejected by the decoder since the fix 9c8d6b4, hence the hypothesis `hd` (`nest ty` = number of nested
lists / sets / maps / structs of the type, defined in the model). -/
theorem decode_encode_partial (p : Proto) (strict : Bool) (ty : Ty) (v : Val) (h : Lemmas.ThriftSkip.RT ty v = true)
    (d : Nat) (fuel : Nat) (rest : Bytes) (cur : Val) (hd : d + nest ty ≤ Gen.c_thrift_maxDepth)
    (hf : Lemmas.ThriftSkip.fuelD ty v ≤ fuel) :
    decode p strict d fuel ty (encode p ty v ++ rest) cur = .ok (v, rest) :=
  Lemmas.ThriftSkip.decode_encode p strict ty v h d fuel rest cur hd hf

/-! ## the full round trip (proofs in Enc/Lemmas/ThriftRoundTrip*.lean; 9 files)

Universe `RTS`: bool, signed integers in range, doubles, strings, binaries, lists, sets, maps (keys pairwise distinct),
pointers (nil allowed), named types, and structs at any nesting with ids 1…32767 pairwise distinct, required pointer
fields non-nil, `enum` only on int32 kinds. `norm` is the value the decoder really produces: an elided field comes back
as its zero value, a written nil collection as an empty one, an elided −0.0 as +0.0, a written nil pointer as a
pointer to the zero value (the last two are the known findings). `Exact`: no such ambiguity, then `norm v = v`.

Nesting depth: types nested deeper than maxDepth = 10000 containers (lists, sets, maps, structs; `nest ty`, pointers and
named types do not count) are rejected by the decoder since the fix 9c8d6b4 (the encoder has no such limit), hence the
hypothesis `hd : nest ty ≤ Gen.c_thrift_maxDepth` of the three theorems below. It constrains the type only and is not part
of the universe predicate `RTS`. -/

/-- the depth hypothesis is satisfiable for nested types (`[]map[string]struct{ A []int32 }`: 4 containers) -/
example : nest (.slice (.map .str (.struct (.cons "A" "thrift:\"1\"" false (.slice (.int .i32)) .nil))))
    ≤ Gen.c_thrift_maxDepth := by decide

open Lemmas.ThriftRoundTrip in
/-- **MAIN.** Binary strict, binary non-strict and compact; strict and non-strict decoding; every type (nested at most
maxDepth containers deep) and value of the universe: Unmarshal(Marshal(v)) is v up to nil-versus-empty. -/
theorem unmarshal_marshal (p : Proto) (strict : Bool) (ty : Ty) (v : Val) (h : RTS ty v = true)
    (hd : nest ty ≤ Gen.c_thrift_maxDepth) :
    unmarshal p strict ty (marshal p ty v) = .ok (norm ty v) :=
  Lemmas.ThriftRoundTrip.unmarshal_marshal p strict ty v h hd

open Lemmas.ThriftRoundTrip in
theorem unmarshal_marshal_exact (p : Proto) (strict : Bool) (ty : Ty) (v : Val) (h : RTS ty v = true)
    (hd : nest ty ≤ Gen.c_thrift_maxDepth) (hx : Exact ty v) : unmarshal p strict ty (marshal p ty v) = .ok v :=
  Lemmas.ThriftRoundTrip.unmarshal_marshal_exact_partial p strict ty v h hd hx

open Lemmas.ThriftRoundTrip in
/-- the protocols decode each other's logical content to the same value: the result of the round trip does not depend
on the protocol setting nor on strictness -/
theorem protocols_agree (p₁ p₂ : Proto) (s₁ s₂ : Bool) (ty : Ty) (v : Val) (h : RTS ty v = true)
    (hd : nest ty ≤ Gen.c_thrift_maxDepth) :
    unmarshal p₁ s₁ ty (marshal p₁ ty v) = unmarshal p₂ s₂ ty (marshal p₂ ty v) := by
  rw [Lemmas.ThriftRoundTrip.unmarshal_marshal p₁ s₁ ty v h hd, Lemmas.ThriftRoundTrip.unmarshal_marshal p₂ s₂ ty v h hd]

end Enc.Props.C04
