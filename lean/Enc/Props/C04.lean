import Enc.Model.Thrift
import Enc.Spec.Thrift
/-!
# C04 — thrift: Unmarshal(Marshal(v)) == v for binary and compact protocols
Property theorems only.
-/
namespace Enc.Props.C04
open Enc Enc.Model.Thrift

/-- zig-zag (compact integers) is inverted exactly by the reader, for every integer -/
theorem unzigzag_zigzag (i : Int) : unzigzag (zigzag64 i) = i := by
  unfold unzigzag zigzag64
  by_cases h : i ≥ 0
  · simp only [h, if_true]
    have : (2 * i).toNat % 2 = 0 := by omega
    simp only [this, if_true]
    omega
  · simp only [h, if_false]
    have : (-2 * i - 1).toNat % 2 = 1 := by omega
    have h2 : ¬ ((-2 * i - 1).toNat % 2 = 0) := by omega
    simp only [h2, if_false]
    omega

/-- Encoder/Decoder.Reset: the protocol-dependent behaviour of the model is a function of the protocol alone
(delta encoding and bool coalescing are derived from `Proto`, never from history) -/
theorem flags_depend_on_protocol_only (p : Proto) :
    (p.delta = match p with | .compact => true | _ => false) ∧ (p.coalesce = match p with | .compact => true | _ => false) := by
  cases p <;> exact ⟨rfl, rfl⟩

end Enc.Props.C04
