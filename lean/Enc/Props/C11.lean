import Enc.Model.Json.Stream
import Enc.Spec.Json.Grammar
import Enc.Lemmas.StreamStable
import Enc.Lemmas.StreamFull
import Enc.Spec.Json.StreamSpec
import Enc.Lemmas.StreamErr
import Enc.Lemmas.StreamOffsetBounds
/-!
# C11 — json.Decoder yields the same value stream however the bytes arrive
Property theorems only.
-/
namespace Enc.Props.C11
open Enc Enc.Model.Json Enc.Model.Json.Stream

/-- a `Read` never hands out more than it was asked for, and what it hands out is a prefix of the scripted data -/
theorem read_bounded (final : RErr) (r : Reader) (k : Nat) : (Stream.read final r k).1.length ≤ k := by
  unfold Stream.read
  cases r with
  | nil => simp
  | cons e rest =>
    simp only
    split
    · assumption
    · simp only [List.length_take]; omega

/-- no byte is lost or duplicated by a `Read`: data returned ++ data still queued = data queued before -/
theorem read_conserves (final : RErr) (r : Reader) (k : Nat) :
    (Stream.read final r k).1 ++ ((Stream.read final r k).2.2.map (·.data)).flatten = (r.map (·.data)).flatten := by
  unfold Stream.read
  cases r with
  | nil => simp
  | cons e rest =>
    simp only
    split
    · simp
    · simp [← List.append_assoc]

/-- **Prefix stability — the reason chunking cannot change the value stream.** `readValue` re-parses its window after every
refill with flags and fuel recomputed from the (longer) window. A value that was recognised with bytes to spare, or that is
not a number, is recognised identically — same kind, same extent — when ANY further bytes `x` are appended to the window. -/
theorem window_ok_stable (b x r : Bytes) (k : Kind) (hb : skipSpaces b = b)
    (h : parseValue (internalParseFlags b) 0 (fuelFor b) b = .ok k r) (hd : r ≠ [] ∨ k.isNum = false) :
    parseValue (internalParseFlags (b ++ x)) 0 (fuelFor (b ++ x)) (b ++ x) = .ok k (r ++ x) :=
  Lemmas.StreamStable.window_ok_stable b x r k hb h hd

/-- … and a definitive syntax error (non-empty remainder: the only errors `readValue` reports without reading more)
stays the same error whatever arrives later -/
theorem window_err_stable (b x : Bytes) (hb : skipSpaces b = b)
    (h : parseValue (internalParseFlags b) 0 (fuelFor b) b = .err false) :
    parseValue (internalParseFlags (b ++ x)) 0 (fuelFor (b ++ x)) (b ++ x) = .err false :=
  Lemmas.StreamStable.window_err_stable b x hb h

/-- the one case excluded above is real: a number that ends exactly at the end of the window may continue ("1" then
"2"), which is why `readValue` must not accept it before the reader reports EOF or an error (the defect fixed in
/repo commit "json.Decoder does not split a number at the end of its buffer") -/
example : parseNumber [0x31] = .ok .uint [] ∧ parseNumber [0x31, 0x32] = .ok .uint [] := by decide

/-- the whole-window flags are sound shortcuts: parsing does not depend on them -/
theorem flags_irrelevant (fl : PFlags) (depth f : Nat) (b : Bytes) (hq : Lemmas.JsonString.QSound fl b) :
    parseValue fl depth f b = parseValue {} depth f b :=
  Lemmas.StreamStable.parseValue_flags fl depth f b hq

/-! ## the whole Decoder loop (proofs in Enc/Lemmas/StreamFull.lean, on top of the window theorems above) -/

open Lemmas.StreamFull in
/-- **MAIN.** For every script of `Read` results without errors (any chunk sizes, zero-length reads included) ending
in io.EOF, and any buffer constants with `0 < minReadSize ≤ minBufferSize`: the values `Decode` yields, and how the
stream ends, are those of the specification applied to the concatenated bytes — RFC 8259 values (nesting ≤ 10000)
separated by white space, then EOF or an error. -/
theorem decodeAll_eq_spec {minBuf minRead : Nat} (h0 : 0 < minRead) (h1 : minRead ≤ minBuf)
    (evs : Reader) (hc : ∀ e ∈ evs, e.err = none) (limit : Nat) :
    (decodeAll minBuf minRead limit { reader := evs, final := .eof }).map erase =
      Spec.Json.specStream limit (evs.map (·.data)).flatten :=
  Lemmas.StreamFull.decodeAll_clean h0 h1 evs hc limit

open Lemmas.StreamFull in
/-- **Chunking independence**, the property as stated: two scripts with the same bytes give the same outputs
(raw value bytes, kinds and final outcome). -/
theorem chunking_independent {minBuf minRead : Nat} (h0 : 0 < minRead) (h1 : minRead ≤ minBuf)
    (evs₁ evs₂ : Reader) (hc₁ : ∀ e ∈ evs₁, e.err = none) (hc₂ : ∀ e ∈ evs₂, e.err = none)
    (heq : (evs₁.map (·.data)).flatten = (evs₂.map (·.data)).flatten) (limit : Nat) :
    decodeAll minBuf minRead limit { reader := evs₁, final := .eof } =
      decodeAll minBuf minRead limit { reader := evs₂, final := .eof } :=
  Lemmas.StreamFull.chunking_independent h0 h1 evs₁ evs₂ hc₁ hc₂ heq limit

/-! ## data delivered with io.EOF, and failing readers (proofs in Enc/Lemmas/StreamErr*.lean)

`WF final evs` is the io.Reader contract: an event that carries an error carries the terminal condition `final`, and
only `(0, final)` results follow it. -/

open Lemmas.StreamFull Lemmas.StreamErr in
/-- data delivered together with io.EOF: same outputs as the specification over the bytes -/
theorem decodeAll_eof_spec {minBuf minRead : Nat} (h0 : 0 < minRead) (h1 : minRead ≤ minBuf)
    (evs : Reader) (hw : WF .eof evs) (limit : Nat) :
    (decodeAll minBuf minRead limit { reader := evs, final := .eof }).map erase =
      Spec.Json.specStream limit (allBytes evs) :=
  Lemmas.StreamErr.decodeAll_eof_spec h0 h1 evs hw limit

open Lemmas.StreamFull Lemmas.StreamErr in
/-- **Failing reader.** When the reader fails with an error other than io.EOF, the Decoder yields values and then the
reader's error (or the syntax error the delivered bytes already contain); for EVERY continuation `more` of the
delivered bytes, the values yielded are a prefix of the values of the intended stream: nothing is lost, duplicated or
truncated (a number that ends where the delivered bytes end is withheld). -/
theorem decodeAll_failing_intended {minBuf minRead : Nat} (h0 : 0 < minRead) (h1 : minRead ≤ minBuf)
    (evs : Reader) (hw : WF .other evs) (limit : Nat) (hl : (allBytes evs).length + 1 ≤ limit) :
    ∃ vals last, decodeAll minBuf minRead limit { reader := evs, final := .other } = vals ++ [last] ∧
      (∀ v ∈ vals, isValue v = true) ∧ (last = .readerErr ∨ last = .syntax) ∧
      ∀ more, (vals.map erase) <+: Spec.Json.specStream limit (allBytes evs ++ more) ∧
        (last = .syntax → Spec.Json.specStream limit (allBytes evs ++ more) = vals.map erase ++ [.err]) :=
  Lemmas.StreamErr.decodeAll_failing_intended h0 h1 evs hw limit hl

open Lemmas.StreamErr in
/-- chunking independence with error events: same bytes, same terminal condition ⇒ same outputs -/
theorem chunking_independent_err {minBuf minRead : Nat} (h0 : 0 < minRead) (h1 : minRead ≤ minBuf) (final : RErr)
    (evs₁ evs₂ : Reader) (hw₁ : WF final evs₁) (hw₂ : WF final evs₂) (heq : allBytes evs₁ = allBytes evs₂) (limit : Nat) :
    decodeAll minBuf minRead limit { reader := evs₁, final := final } =
      decodeAll minBuf minRead limit { reader := evs₂, final := final } :=
  Lemmas.StreamErr.chunking_independent_err h0 h1 final evs₁ evs₂ hw₁ hw₂ heq limit

/-! ## InputOffset, Buffered, Parse (proofs in Enc/Lemmas/StreamOffset.lean, StreamOffsetBounds.lean)

`decodeCalls minBuf minRead limit extra s` is `Decode` called repeatedly from the decoder state `s` — each call's outcome
with the state after it, from which `InputOffset` (`St.inputOffset`) and `Buffered` (`St.buffered`) are read — until the
`extra + 1`-th call that does not return a value; with `extra = 0` it is the loop of `decodeAll` (`decodeAll_eq_calls`). -/

theorem decodeAll_eq_calls (minBuf minRead limit : Nat) (s : St) :
    decodeAll minBuf minRead limit s = (decodeCalls minBuf minRead limit 0 s).map (·.1) :=
  Lemmas.StreamOffset.decodeAll_eq_calls minBuf minRead limit s

/-- the specification stream with positions is the specification stream of the first half -/
theorem specStreamPos_values (n pos : Nat) (b : Bytes) :
    (Spec.Json.specStreamPos n pos b).map (·.1) = Spec.Json.specStream n b :=
  Lemmas.StreamOffset.specStreamPos_fst n pos b

/-- **InputOffset never decreases** over any sequence of `Decode` calls, whatever they return (values, syntax errors, EOF,
reader errors, calls on a Decoder that has already failed): the offset before the first call followed by the offsets read
after each call is a sorted list. No hypothesis: any decoder state, any script of `Read` results (errors anywhere), any
buffer constants. -/
theorem inputOffset_monotone (minBuf minRead limit extra : Nat) (s : St) :
    List.Pairwise (· ≤ ·) (s.inputOffset :: (decodeCalls minBuf minRead limit extra s).map (·.2.inputOffset)) :=
  Lemmas.StreamOffset.decodeCalls_monotone minBuf minRead limit extra s

/-- one call: the offset after any `readValue` call is at least the offset before it -/
theorem inputOffset_monotone_step (minBuf minRead fuel : Nat) (s : St) :
    s.inputOffset ≤ (readValue minBuf minRead fuel s).2.inputOffset :=
  Lemmas.StreamOffset.readValue_offset_le minBuf minRead fuel s

/-- a stream of two values read one byte at a time, two more calls after the end: offsets 4, 7, 7, 7 (after 0) -/
example : (0 :: (decodeCalls 4 2 8 2 { reader := [⟨[0x5b], none⟩, ⟨[0x31], none⟩, ⟨[0x5d], none⟩, ⟨[0x20], none⟩,
      ⟨[0x20], none⟩, ⟨[0x37], none⟩, ⟨[0x0a], none⟩], final := .eof }).map (·.2.inputOffset)) = [0, 4, 7, 7, 7, 7] := by
  decide +kernel

open Lemmas.StreamErr in
/-- **Buffered conserves the bytes.** From a fresh Decoder over ANY script of `Read` results (any chunking, zero-length
reads, errors anywhere, even bytes after errors), any terminal condition, any buffer constants: after every `Decode` call
(successful or not) the first `InputOffset` bytes of the whole input, followed by the bytes `Buffered` returns, followed by
the bytes the reader has not delivered yet, are the whole input — `Buffered` followed by the unread remainder of the reader
is exactly the unconsumed input. (Before the first call: offset 0, `Buffered` empty, nothing delivered.) -/
theorem buffered_conserves (minBuf minRead limit extra : Nat) (final : RErr) (evs : Reader) :
    ∀ p ∈ decodeCalls minBuf minRead limit extra { reader := evs, final := final },
      p.2.inputOffset ≤ (allBytes evs).length ∧
      (allBytes evs).drop p.2.inputOffset = p.2.buffered ++ allBytes p.2.reader ∧
      (allBytes evs).take p.2.inputOffset ++ p.2.buffered ++ allBytes p.2.reader = allBytes evs :=
  Lemmas.StreamOffset.decodeCalls_conserves minBuf minRead limit extra final evs

/-- the same stream with a buffer of 8 bytes: the first refill takes all 7 bytes; after the first call the offset is 5,
the two bytes `7`, `LF` are buffered and the script is exhausted; after the second call nothing is left -/
example : (decodeCalls 8 2 8 0 { reader := [⟨[0x5b], none⟩, ⟨[0x31], none⟩, ⟨[0x5d], none⟩, ⟨[0x20], none⟩,
      ⟨[0x20], none⟩, ⟨[0x37], none⟩, ⟨[0x0a], none⟩], final := .eof }).map
        (fun p => (p.2.inputOffset, p.2.buffered, p.2.reader.length)) = [(5, [0x37, 0x0a], 0), (7, [], 0), (7, [], 0)] := by
  decide +kernel

open Lemmas.StreamErr in
/-- **InputOffset lies between the end of the value just returned and the start of the next.** Script obeying the
`io.Reader` contract (`WF`: any chunking, zero-length reads, data delivered together with the terminal condition), terminal
condition io.EOF or a failure, `0 < minReadSize ≤ minBufferSize`. If the `i`-th `Decode` call returns a value then this value
is the `i`-th element of the chunking-free specification stream of the concatenated bytes, found there at `[start, stop)`,
and the offset read after the call satisfies `stop ≤ InputOffset ≤ start'`, where `start'` is the position of the next
element of the specification stream (the next value, or the place where the stream ends or fails, white space skipped) —
which exists whenever `i + 1 < limit`. -/
theorem inputOffset_bounds {minBuf minRead : Nat} (h0 : 0 < minRead) (h1 : minRead ≤ minBuf) (final : RErr)
    (evs : Reader) (hw : WF final evs) (limit i : Nat) (raw : Bytes) (k : Kind) (s' : St)
    (hcall : (decodeCalls minBuf minRead limit 0 { reader := evs, final := final })[i]? = some (.value raw k, s')) :
    ∃ start stop, (Spec.Json.specStreamPos limit 0 (allBytes evs))[i]? = some (.value raw, start, stop) ∧
      stop ≤ s'.inputOffset ∧
      (i + 1 < limit → ∃ x, (Spec.Json.specStreamPos limit 0 (allBytes evs))[i + 1]? = some x) ∧
      ∀ o' start' stop', (Spec.Json.specStreamPos limit 0 (allBytes evs))[i + 1]? = some (o', start', stop') →
        s'.inputOffset ≤ start' :=
  Lemmas.StreamOffset.decodeCalls_bounds h0 h1 final evs hw limit i raw k s' hcall

open Lemmas.StreamErr in
/-- the hypotheses are satisfiable and the bounds are not always tight: `[1]  7\n` one byte at a time, buffer of 4 bytes.
The values sit at `[0,3)` and `[5,6)`, the stream ends at 7; the offsets after the two successful calls are 4 (strictly
between 3 and 5: the second space had not been read yet) and 7. -/
example :
    WF .eof [⟨[0x5b], none⟩, ⟨[0x31], none⟩, ⟨[0x5d], none⟩, ⟨[0x20], none⟩, ⟨[0x20], none⟩, ⟨[0x37], none⟩, ⟨[0x0a], none⟩] ∧
    (decodeCalls 4 2 8 0 { reader := [⟨[0x5b], none⟩, ⟨[0x31], none⟩, ⟨[0x5d], none⟩, ⟨[0x20], none⟩,
      ⟨[0x20], none⟩, ⟨[0x37], none⟩, ⟨[0x0a], none⟩], final := .eof }).map (fun p => (p.1, p.2.inputOffset)) =
      [(.value [0x5b, 0x31, 0x5d] .array, 4), (.value [0x37] .uint, 7), (.eof, 7)] ∧
    Spec.Json.specStreamPos 8 0 [0x5b, 0x31, 0x5d, 0x20, 0x20, 0x37, 0x0a] =
      [(.value [0x5b, 0x31, 0x5d], 0, 3), (.value [0x37], 5, 6), (.eof, 7, 7)] :=
  ⟨WF.of_clean _ (by decide), by decide +kernel, by decide +kernel⟩

/-- **Parse returns as remainder exactly the bytes after the first value and its trailing white space** (syntax layer of
`Parse`: target `*RawMessage`): the model's result is the specification's — `ok rem` with `rem` = what follows the first
RFC 8259 value (nesting ≤ 10000) of the input, white space skipped on both sides; an error exactly when the input does not
begin, after white space, with such a value. On a syntax error the code returns the error together with the place where
the scanner stopped (white space skipped); the scanner model records only whether that remainder is empty, so it is not
part of the observable. -/
theorem parse_remainder (b : Bytes) :
    (match parseRem b with | .ok rem => some rem | .err => none) = Spec.Json.specParseRem b :=
  Lemmas.StreamOffset.parseRem_spec b

/-- … and `consumed ++ remainder = input`, where what was consumed is white space, one value, white space; the remainder
does not begin with white space -/
theorem parse_remainder_split {b rem : Bytes} (h : parseRem b = .ok rem) :
    ∃ lead v trail, b = lead ++ v ++ trail ++ rem ∧ (∀ c ∈ lead, Spec.Json.isWs c = true) ∧
      (∀ c ∈ trail, Spec.Json.isWs c = true) ∧ v ≠ [] ∧ Spec.Json.ws (v ++ trail ++ rem) = v ++ trail ++ rem ∧
      Spec.Json.value (3 * (v ++ trail ++ rem).length + 8) 10000 (v ++ trail ++ rem) = some (trail ++ rem) ∧
      Spec.Json.ws rem = rem :=
  Lemmas.StreamOffset.parseRem_split h

/-- ` [1] \n7 ` leaves `7 `; ` [1 ` is an error -/
example : parseRem [0x20, 0x5b, 0x31, 0x5d, 0x20, 0x0a, 0x37, 0x20] = .ok [0x37, 0x20] ∧
    parseRem [0x20, 0x5b, 0x31, 0x20] = .err := by decide +kernel

end Enc.Props.C11
