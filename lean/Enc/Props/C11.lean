import Enc.Model.Json.Stream
import Enc.Spec.Json.Grammar
import Enc.Lemmas.StreamStable
import Enc.Lemmas.StreamFull
import Enc.Spec.Json.StreamSpec
import Enc.Lemmas.StreamErr
/-!
# C11 — json.Decoder yields the same value stream however the bytes arrive
Property theorems only.
-/
namespace Enc.Props.C11
open Enc Enc.Model.Json Enc.Model.Json.Stream

/-- a `Read` never hands out more than it was asked for, and what it hands out is a prefix of the scripted data -/
theorem read_bounded (final : RErr) (r : Reader) (k : Nat) : (Stream.read final r k).1.length ≤ k := by
  unfold Stream.read
  cases r with
  | nil => simp
  | cons e rest =>
    simp only
    split
    · assumption
    · simp only [List.length_take]; omega

/-- no byte is lost or duplicated by a `Read`: data returned ++ data still queued = data queued before -/
theorem read_conserves (final : RErr) (r : Reader) (k : Nat) :
    (Stream.read final r k).1 ++ ((Stream.read final r k).2.2.map (·.data)).flatten = (r.map (·.data)).flatten := by
  unfold Stream.read
  cases r with
  | nil => simp
  | cons e rest =>
    simp only
    split
    · simp
    · simp [← List.append_assoc]

/-- **Prefix stability — the reason chunking cannot change the value stream.** `readValue` re-parses its window after every
refill with flags and fuel recomputed from the (longer) window. A value that was recognised with bytes to spare, or that is
not a number, is recognised identically — same kind, same extent — when ANY further bytes `x` are appended to the window. -/
theorem window_ok_stable (b x r : Bytes) (k : Kind) (hb : skipSpaces b = b)
    (h : parseValue (internalParseFlags b) 0 (fuelFor b) b = .ok k r) (hd : r ≠ [] ∨ k.isNum = false) :
    parseValue (internalParseFlags (b ++ x)) 0 (fuelFor (b ++ x)) (b ++ x) = .ok k (r ++ x) :=
  Lemmas.StreamStable.window_ok_stable b x r k hb h hd

/-- … and a definitive syntax error (non-empty remainder: the only errors `readValue` reports without reading more)
stays the same error whatever arrives later -/
theorem window_err_stable (b x : Bytes) (hb : skipSpaces b = b)
    (h : parseValue (internalParseFlags b) 0 (fuelFor b) b = .err false) :
    parseValue (internalParseFlags (b ++ x)) 0 (fuelFor (b ++ x)) (b ++ x) = .err false :=
  Lemmas.StreamStable.window_err_stable b x hb h

/-- the one case excluded above is real: a number that ends exactly at the end of the window may continue ("1" then
"2"), which is why `readValue` must not accept it before the reader reports EOF or an error (the defect fixed in
/repo commit "json.Decoder does not split a number at the end of its buffer") -/
example : parseNumber [0x31] = .ok .uint [] ∧ parseNumber [0x31, 0x32] = .ok .uint [] := by decide

/-- the whole-window flags are sound shortcuts: parsing does not depend on them -/
theorem flags_irrelevant (fl : PFlags) (depth f : Nat) (b : Bytes) (hq : Lemmas.JsonString.QSound fl b) :
    parseValue fl depth f b = parseValue {} depth f b :=
  Lemmas.StreamStable.parseValue_flags fl depth f b hq

/-! ## the whole Decoder loop (proofs in Enc/Lemmas/StreamFull.lean, on top of the window theorems above) -/

open Lemmas.StreamFull in
/-- **MAIN.** For every script of `Read` results without errors (any chunk sizes, zero-length reads included) ending
in io.EOF, and any buffer constants with `0 < minReadSize ≤ minBufferSize`: the values `Decode` yields, and how the
stream ends, are those of the specification applied to the concatenated bytes — RFC 8259 values (nesting ≤ 10000)
separated by white space, then EOF or an error. -/
theorem decodeAll_eq_spec {minBuf minRead : Nat} (h0 : 0 < minRead) (h1 : minRead ≤ minBuf)
    (evs : Reader) (hc : ∀ e ∈ evs, e.err = none) (limit : Nat) :
    (decodeAll minBuf minRead limit { reader := evs, final := .eof }).map erase =
      Spec.Json.specStream limit (evs.map (·.data)).flatten :=
  Lemmas.StreamFull.decodeAll_clean h0 h1 evs hc limit

open Lemmas.StreamFull in
/-- **Chunking independence**, the property as stated: two scripts with the same bytes give the same outputs
(raw value bytes, kinds and final outcome). -/
theorem chunking_independent {minBuf minRead : Nat} (h0 : 0 < minRead) (h1 : minRead ≤ minBuf)
    (evs₁ evs₂ : Reader) (hc₁ : ∀ e ∈ evs₁, e.err = none) (hc₂ : ∀ e ∈ evs₂, e.err = none)
    (heq : (evs₁.map (·.data)).flatten = (evs₂.map (·.data)).flatten) (limit : Nat) :
    decodeAll minBuf minRead limit { reader := evs₁, final := .eof } =
      decodeAll minBuf minRead limit { reader := evs₂, final := .eof } :=
  Lemmas.StreamFull.chunking_independent h0 h1 evs₁ evs₂ hc₁ hc₂ heq limit

/-! ## data delivered with io.EOF, and failing readers (proofs in Enc/Lemmas/StreamErr*.lean)

`WF final evs` is the io.Reader contract: an event that carries an error carries the terminal condition `final`, and
only `(0, final)` results follow it. -/

open Lemmas.StreamFull Lemmas.StreamErr in
/-- data delivered together with io.EOF: same outputs as the specification over the bytes -/
theorem decodeAll_eof_spec {minBuf minRead : Nat} (h0 : 0 < minRead) (h1 : minRead ≤ minBuf)
    (evs : Reader) (hw : WF .eof evs) (limit : Nat) :
    (decodeAll minBuf minRead limit { reader := evs, final := .eof }).map erase =
      Spec.Json.specStream limit (allBytes evs) :=
  Lemmas.StreamErr.decodeAll_eof_spec h0 h1 evs hw limit

open Lemmas.StreamFull Lemmas.StreamErr in
/-- **Failing reader.** When the reader fails with an error other than io.EOF, the Decoder yields values and then the
reader's error (or the syntax error the delivered bytes already contain); for EVERY continuation `more` of the
delivered bytes, the values yielded are a prefix of the values of the intended stream: nothing is lost, duplicated or
truncated (a number that ends where the delivered bytes end is withheld). -/
theorem decodeAll_failing_intended {minBuf minRead : Nat} (h0 : 0 < minRead) (h1 : minRead ≤ minBuf)
    (evs : Reader) (hw : WF .other evs) (limit : Nat) (hl : (allBytes evs).length + 1 ≤ limit) :
    ∃ vals last, decodeAll minBuf minRead limit { reader := evs, final := .other } = vals ++ [last] ∧
      (∀ v ∈ vals, isValue v = true) ∧ (last = .readerErr ∨ last = .syntax) ∧
      ∀ more, (vals.map erase) <+: Spec.Json.specStream limit (allBytes evs ++ more) ∧
        (last = .syntax → Spec.Json.specStream limit (allBytes evs ++ more) = vals.map erase ++ [.err]) :=
  Lemmas.StreamErr.decodeAll_failing_intended h0 h1 evs hw limit hl

open Lemmas.StreamErr in
/-- chunking independence with error events: same bytes, same terminal condition ⇒ same outputs -/
theorem chunking_independent_err {minBuf minRead : Nat} (h0 : 0 < minRead) (h1 : minRead ≤ minBuf) (final : RErr)
    (evs₁ evs₂ : Reader) (hw₁ : WF final evs₁) (hw₂ : WF final evs₂) (heq : allBytes evs₁ = allBytes evs₂) (limit : Nat) :
    decodeAll minBuf minRead limit { reader := evs₁, final := final } =
      decodeAll minBuf minRead limit { reader := evs₂, final := final } :=
  Lemmas.StreamErr.chunking_independent_err h0 h1 final evs₁ evs₂ hw₁ hw₂ heq limit

end Enc.Props.C11
