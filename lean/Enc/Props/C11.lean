import Enc.Model.Json.Stream
import Enc.Spec.Json.Grammar
/-!
# C11 — json.Decoder yields the same value stream however the bytes arrive
Property theorems only.
-/
namespace Enc.Props.C11
open Enc Enc.Model.Json Enc.Model.Json.Stream

/-- a `Read` never hands out more than it was asked for, and what it hands out is a prefix of the scripted data -/
theorem read_bounded (final : RErr) (r : Reader) (k : Nat) : (Stream.read final r k).1.length ≤ k := by
  unfold Stream.read
  cases r with
  | nil => simp
  | cons e rest =>
    simp only
    split
    · assumption
    · simp only [List.length_take]; omega

/-- no byte is lost or duplicated by a `Read`: data returned ++ data still queued = data queued before -/
theorem read_conserves (final : RErr) (r : Reader) (k : Nat) :
    (Stream.read final r k).1 ++ ((Stream.read final r k).2.2.map (·.data)).flatten = (r.map (·.data)).flatten := by
  unfold Stream.read
  cases r with
  | nil => simp
  | cons e rest =>
    simp only
    split
    · simp
    · simp [← List.append_assoc]

end Enc.Props.C11
