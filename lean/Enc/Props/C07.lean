import Enc.Lemmas.Proto
import Enc.Lemmas.ProtoDecode
import Enc.Lemmas.ProtoDepthSkip
import Enc.Lemmas.ProtoDeepChain
import Enc.Lemmas.ProtoScanUnmarshal
import Enc.Lemmas.ProtoScanTrunc
import Enc.Lemmas.ProtoAllocZero
/-!
# C07 — proto decoding is total and ignores unknown fields
Property theorems only (proofs in Enc/Lemmas/ProtoDecode.lean).
-/
namespace Enc.Props.C07
open Enc Enc.Model.Proto Enc.Lemmas.ProtoDecode

/-- the varint reader never panics, whatever the bytes (truncated, over-long, overflowing) -/
theorem decodeVarint_total (b : Bytes) (x : BitVec 64) (s i : Nat) :
    ∀ e, decodeVarintLoop b x s i ≠ .panic e := by
  induction b generalizing x s i with
  | nil => intro e; simp [decodeVarintLoop]
  | cons c cs ih =>
    intro e
    unfold decodeVarintLoop
    split
    · split <;> simp
    · exact ih _ _ _ e

/-- it consumes at least one byte and never more than it was given -/
theorem decodeVarint_consumes (b : Bytes) (x : BitVec 64) (s i : Nat) (v : BitVec 64) (n : Nat)
    (h : decodeVarintLoop b x s i = .ok (v, n)) : i < n ∧ n ≤ i + b.length := by
  induction b generalizing x s i with
  | nil => simp [decodeVarintLoop] at h
  | cons c cs ih =>
    unfold decodeVarintLoop at h
    split at h
    · split at h
      · simp at h
      · simp only [Res.ok.injEq, Prod.mk.injEq] at h
        simp only [List.length_cons]; omega
    · have := ih _ _ _ h
      simp only [List.length_cons]; omega

/-- **MAIN (totality).** For every message type whose codec tree contains no unsupported Go kind, and EVERY byte
string — malformed, type-mismatched, truncated at any offset, with over-long varints or absurd lengths — `Unmarshal`
returns a value or an error: the index arithmetic of the decoders (every slice expression is modelled with Go's
bounds rules) never goes out of range. -/
theorem unmarshal_ne_panic (t : Ty) (b : Bytes) (e : String) (h : Codec.Supported (codecOf t) = true) :
    unmarshal t b ≠ .panic e :=
  Lemmas.ProtoDepth.unmarshal_ne_panic t b e h

/-- the recursion always finishes within the model's budget (no input drives the decoder into unbounded descent) -/
theorem unmarshal_ne_fuel (t : Ty) (b : Bytes) : unmarshal t b ≠ .err "fuel" :=
  Lemmas.ProtoDepth.unmarshal_ne_fuel t b

/-- a decoder never claims more bytes than it was given -/
theorem decode_bound (fuel d : Nat) (c : Codec) (b : Bytes) (cur : Val) (fl : Flags) (v : Val) (n : Nat)
    (h : decode fuel d c b cur fl = .ok (v, n)) : n ≤ b.length :=
  Lemmas.ProtoDepth.decode_bound fuel d c b cur fl v n h

/-- the struct loop succeeds only at the end of its buffer: no partial consumption is ever reported as success -/
theorem decodeStruct_consumes_all (fuel d : Nat) (fs : CFields) (b : Bytes) (lenB : Nat) (vs : Vals) (fl : Flags)
    (off : Nat) (vs' : Vals) (n : Nat) (h : decodeStruct fuel d fs b lenB vs fl off = .ok (vs', n)) :
    n = off + b.length :=
  Lemmas.ProtoDepth.decodeStruct_consumes_all fuel d fs b lenB vs fl off vs' n h

/-- **MAIN (unknown fields).** A well-formed record (tag + payload of wire type 0, 1, 2 or 5; over-long varints
included) whose field number the target does not declare, placed in front of a message body, does not change what
`Unmarshal` returns — value or error. -/
theorem unmarshal_skip_front (Fs : Fields) (number : Nat) (rec body : Bytes)
    (hlk : lookupField (fieldsOf 1 Fs) number = none) (hrec : IsRecord number rec) :
    unmarshal (.struct Fs) (rec ++ body) = unmarshal (.struct Fs) body :=
  Lemmas.ProtoDepth.unmarshal_skip_front Fs number rec body hlk hrec

/-- … nor when it is inserted after any prefix of the message that decodes on its own (i.e. at a field boundary) -/
theorem unmarshal_skip_anywhere (Fs : Fields) (number : Nat) (pre rec rest : Bytes) (v1 : Val)
    (hlk : lookupField (fieldsOf 1 Fs) number = none) (hrec : IsRecord number rec)
    (hpre : unmarshal (.struct Fs) pre = .ok v1) :
    unmarshal (.struct Fs) (pre ++ (rec ++ rest)) = unmarshal (.struct Fs) (pre ++ rest) :=
  Lemmas.ProtoDepth.unmarshal_skip_anywhere Fs number pre rec rest v1 hlk hrec hpre

/-- what the encoder writes for an undeclared field is such a record (non-vacuity of `IsRecord`) -/
theorem isRecord_canonical (number : Nat) (w : Wire) (p : Bytes) (h : number < 2 ^ 61)
    (hp : IsPayload w.num p) : IsRecord number (encodeTag number w ++ p) :=
  Lemmas.ProtoDecode.isRecord_canonical number w p h hp

/-! ## the nesting limit (commit b70a382: `proto.maxDepth` = 10000, counted in the upper bits of the decode flags) -/

open Lemmas.ProtoDepth in
/-- **the limit changes nothing else.** On EVERY input the decoder with the counter either returns exactly what the
decoder without it returns — value, byte count, error or panic — or the new error. -/
theorem limit_only_adds_an_error (t : Ty) (b : Bytes) :
    unmarshal t b = unmarshalU t b ∨ unmarshal t b = .err "nestingTooDeep" :=
  Lemmas.ProtoDepth.unmarshal_eq_or_deep t b

open Lemmas.ProtoDepth in
/-- **the limit is invisible for message types at most `maxDepth` messages high** (`Codec.nesting`: messages, repeated
elements and map entries count, pointers do not): there the two decoders are the same function. This is the hypothesis
under which the round-trip and reference-decoder theorems of C03 / C12 are stated. -/
theorem limit_invisible_below (t : Ty) (b : Bytes) (h : Codec.nesting (codecOf t) ≤ Gen.c_proto_maxDepth) :
    unmarshal t b = unmarshalU t b :=
  Lemmas.ProtoDepth.unmarshal_eq_unmarshalU t b h

/-- **depth_limit.** No struct decoder runs more than `maxDepth` messages deep: entered with `maxDepth` messages already
around it, it fails before it looks at its input — whatever the fields, the bytes, the target and the other flags (so
the recursion of `Unmarshal` is at most `maxDepth` struct decoders deep on every input, for every type). -/
theorem depth_limit (fuel d : Nat) (fs : CFields) (b : Bytes) (cur : Val) (fl : Flags)
    (hd : Gen.c_proto_maxDepth ≤ d) : decode (fuel + 1) d (.struct fs) b cur fl = .err "nestingTooDeep" := by
  have : d + 1 > Gen.c_proto_maxDepth := by omega
  simp [decode, this]

/-- … and the counter is exact: one below the limit the struct decoder does run (here: on the empty body) -/
theorem depth_limit_sharp (fuel : Nat) (fs : CFields) (vs : Vals) (fl : Flags) :
    decode (fuel + 2) (Gen.c_proto_maxDepth - 1) (.struct fs) [] (.struct vs) fl = .ok (.struct vs, 0) := by
  simp [decode, decodeStruct, Res.bind, Gen.c_proto_maxDepth]

/-! ### on a recursive message type: `type R struct { Next *R; V int32 }`
(`chainC n` = its codec unrolled `n` times, `nest k inner` = `inner` wrapped `k` times as field 1 — the inputs of the
harness ops `proto.deepr` / `proto.deep`; proofs in Enc/Lemmas/ProtoDeepChain.lean) -/

open Lemmas.ProtoDepth in
/-- **deep_rejected.** The nesting limit is real: `maxDepth` wrappers around ANY bytes — `maxDepth + 1` messages — are
refused with the nesting error, however far the type is unrolled and however much budget the decoder is given … -/
theorem deep_rejected (inner : Bytes) (n fuel : Nat) (fl : Flags) (hn : Gen.c_proto_maxDepth ≤ n)
    (hlen : (nest Gen.c_proto_maxDepth inner).length < 2 ^ 64) (hf : 3 * Gen.c_proto_maxDepth + 1 ≤ fuel) :
    decode fuel 0 (chainC n) (nest Gen.c_proto_maxDepth inner) (zeroOfCodec (chainC n)) fl = .err "nestingTooDeep" :=
  Lemmas.ProtoDepth.deep_rejected inner n fuel fl hn hlen hf

open Lemmas.ProtoDepth in
/-- **max_depth_accepted.** … and sharp: `maxDepth - 1` wrappers around the empty message — `maxDepth` messages — are
accepted and consumed completely. -/
theorem max_depth_accepted (n fuel : Nat) (fl : Flags) (hn : Gen.c_proto_maxDepth - 1 ≤ n)
    (hlen : (nest (Gen.c_proto_maxDepth - 1) []).length < 2 ^ 64) (hf : 3 * Gen.c_proto_maxDepth ≤ fuel) :
    ∃ v, decode fuel 0 (chainC n) (nest (Gen.c_proto_maxDepth - 1) []) (zeroOfCodec (chainC n)) fl
      = .ok (v, (nest (Gen.c_proto_maxDepth - 1) []).length) :=
  Lemmas.ProtoDepth.max_depth_accepted n fuel fl hn hlen hf

open Lemmas.ProtoDepth in
/-- the length hypotheses are satisfiable: such inputs are a few tens of kilobytes long -/
example (inner : Bytes) (h : inner.length < 2 ^ 63) : (nest Gen.c_proto_maxDepth inner).length < 2 ^ 64 := by
  have := nest_length_le Gen.c_proto_maxDepth inner
  simp only [Gen.c_proto_maxDepth] at this ⊢
  omega


/-! ## allocation: "memory allocated stays within a constant factor of the input length"

`decodeA` / `unmarshalA` (Enc/Model/ProtoAlloc.lean) are the decoders above with one more result: the bytes requested at
the allocation sites of the package on that path (`reflect.New` behind a nil pointer, `growSlice`: capacity 0 → 10 → 20 →
40 …, `MakeMap(…, 10)` before the entry is read, the scratch entry struct, `string(v)`, `make`/`append` of `[]byte`,
`RawMessage`, `fieldError` on every error return) — counted on the error paths too. -/
section Alloc
open Lemmas.ProtoAlloc

/-- the accounting decoder IS the decoder: its first component is `decode` (so every theorem above transfers) -/
theorem decodeA_proj (fuel d : Nat) (c : Codec) (b : Bytes) (cur : Val) (fl : Flags) :
    (decodeA fuel d c b cur fl).1 = decode fuel d c b cur fl :=
  Lemmas.ProtoAlloc.decodeA_proj fuel d c b cur fl

theorem unmarshalA_proj (t : Ty) (b : Bytes) : (unmarshalA t b).1 = unmarshal t b :=
  Lemmas.ProtoAlloc.unmarshalA_proj t b

/-- **MAIN (alloc_bound).** For EVERY target type `t` there are constants `K`, `K0` — defined by recursion on the codec tree
of `t` (`Codec.K`: 1 per copied string / RawMessage byte, 2 per `[]byte` byte, and for a message the largest per-call
constant `K1` of a field decoder, paid by the field's tag byte; `Codec.K1`: pointee size behind a pointer, 14 element sizes
for an append — growth by doubling, amortised — the map header, one bucket and the scratch entry for a map entry, one
`UnmarshalFieldError` and one `fmt.Errorf` for a message) — such that for EVERY byte string `b`, `Unmarshal` into a zero
`t` allocates at most `K·len(b) + K0` bytes: on success, on every error path, truncated or hostile input alike. There is no
hypothesis on `t`: declared lengths are checked against the bytes available BEFORE anything is allocated from them. -/
theorem alloc_bound (t : Ty) (b : Bytes) :
    (unmarshalA t b).2 ≤ Codec.K (codecOf t) * b.length + Codec.K0 (codecOf t) :=
  Lemmas.ProtoAlloc.unmarshalA_bound t b

/-- the same for one decoder call into ANY target `cur` (a recycled one included): the credit `Phi c cur` is what the
slices already in the target may cost when they next grow (at most `4·len + 20` element sizes each) -/
theorem decodeA_alloc_bound (fuel d : Nat) (c : Codec) (b : Bytes) (cur : Val) (fl : Flags) :
    (decodeA fuel d c b cur fl).2 ≤ Phi c cur + Codec.K c * b.length + Codec.K1 c :=
  Lemmas.ProtoAlloc.decodeA_bound fuel d c b cur fl

/-- the amortisation behind it, as coded in `sliceDecodeFuncOf` / `growSlice`: an append into a slice of `n` elements
allocates `growAlloc n` elements (10 when empty, `2n` when `len == cap`, else nothing); the credit `pot` absorbs it at 14
elements per append -/
theorem growSlice_amortised (n : Nat) : growAlloc n + pot (n + 1) ≤ pot n + 14 := Lemmas.ProtoAlloc.grow_pot n

/-- non-vacuity / sharpness on `struct { A []struct{X int64}; M map[string]*int32 }` (`exAllocC`, element size 8, entry
size 24): 10 empty elements (20 bytes) cost one array of 10, the 11th doubles it (80 + 160); a map field of 4 bytes
whose entry is truncated has already cost the map header with 2 buckets (464), the scratch entry (24), the string (0)
and two `fieldError`s (64) when the error is found: the bound (K = 792) holds with room, and `K0 > 0` is needed. -/
example : (decodeA 100 0 exAllocC ((List.replicate 10 [0x0a, 0x00]).flatten) (zeroOfCodec exAllocC) { toplevel := true }).2 = 80
    ∧ (decodeA 100 0 exAllocC ((List.replicate 11 [0x0a, 0x00]).flatten) (zeroOfCodec exAllocC) { toplevel := true }).2 = 240
    ∧ (decodeA 100 0 exAllocC [0x12, 0x02, 0x0a, 0x05] (zeroOfCodec exAllocC) { toplevel := true }).2 = 552
    ∧ Codec.K exAllocC = 792 ∧ Codec.K1 exAllocC = 96 := by decide +kernel

end Alloc

/-! ## the wire-level API: `Parse` and `Scan` (model `Enc/Model/ProtoScan.lean`, reference `Spec.Protobuf.records`)

Every statement is for messages a Go program can hold, `len(m) < 2^63` (`GoLen`): the model computes `len(m)-n`,
`uint64(·)`, `int(l)`, `n+int(l)` with Go's wrap-around and checks every slice expression. -/
section WireAPI
open Enc.Model.ProtoScan Enc.Lemmas.ProtoScan
open Enc.Spec.Protobuf (records RawRec)
open Enc.Lemmas.ProtoWire (tyOK)

/-- **`Parse` never faults**, whatever the bytes (truncated, over-long varints, wire types 3/4/6/7, lengths ≥ 2^63 …):
all five results are returned, and an error is one of three classes -/
theorem parse_total (m : Bytes) (hm : GoLen m) :
    (∀ e, parseX m ≠ .panic e) ∧ (∀ e, parse m ≠ .panic e) ∧
    ∀ e, parse m = .err e → e = "unexpectedEof" ∨ e = "varintOverflow" ∨ e = "invalidWireType" :=
  ⟨fun e h => parse_ne_panic m hm e (by simp only [parse, h]), parse_ne_panic m hm, parse_err m hm⟩

/-- **progress and framing of `Parse`** (no allocation: the value and the remainder are windows of the input).
On success the input is `hdr ++ value ++ remainder` with a non-empty header (tag, and the length prefix of a varlen
field): the remainder is a proper suffix, the value is the contiguous sub-list at offset `hdr.length`, and
`hdr ++ value` is exactly one well-formed field with the reported number and wire type. -/
theorem parse_consumes (m : Bytes) (hm : GoLen m) (f t : Nat) (v rest : Bytes) (h : parse m = .ok (f, t, v, rest)) :
    ∃ hdr, hdr ≠ [] ∧ m = hdr ++ v ++ rest ∧ rest.length < m.length ∧ IsField f t v (hdr ++ v) := by
  obtain ⟨fld, rfl, hf⟩ := (parse_ok_iff m hm f t v rest).mp h
  obtain ⟨tg, hdr, tag, rfl, htg, _⟩ := hf.split
  have := htg.pos
  refine ⟨tg ++ hdr, ?_, by simp, by simp only [List.length_append]; omega, by simpa using hf⟩
  intro hnil; have := congrArg List.length hnil; simp only [List.length_append, List.length_nil] at this; omega

/-- conversely `Parse` succeeds on every complete field followed by anything (it looks only at the field's own bytes) -/
theorem parse_of_field (f t : Nat) (v fld rest : Bytes) (hm : GoLen (fld ++ rest)) (hf : IsField f t v fld) :
    parse (fld ++ rest) = .ok (f, t, v, rest) :=
  (parse_ok_iff _ hm f t v rest).mpr ⟨fld, rfl, hf⟩

/-- the `RawValue` accessors on what `Parse` returns (their documented domain): `Varint` yields the decoded number,
`Fixed32` / `Fixed64` never index out of range -/
theorem accessors_on_parsed (m : Bytes) (hm : GoLen m) (f t : Nat) (v rest : Bytes) (h : parse m = .ok (f, t, v, rest)) :
    (t = 0 → ∃ u, decodeVarint v = .ok (u, v.length) ∧ rawVarint v = u) ∧
    (t = 5 → ∃ x, rawFixed32 v = .ok x) ∧ (t = 1 → ∃ x, rawFixed64 v = .ok x) := by
  obtain ⟨fld, _, hf⟩ := (parse_ok_iff m hm f t v rest).mp h
  exact accessors_defined f t v fld hf

example : parse [0x12, 0x83, 0x00, 0x61, 0x62, 0x63, 0x08, 0x01] = .ok (2, 2, [0x61, 0x62, 0x63], [0x08, 0x01]) := by
  decide +kernel
/-- a declared length of 2^64−1 (`int(l)` = −1), an unknown wire type, a truncated varint, an overflowing tag -/
example : parse [0x0a, 0xff, 0xff, 0xff, 0xff, 0xff, 0xff, 0xff, 0xff, 0xff, 0x01, 0x00] = .err "unexpectedEof" := by
  decide +kernel
example : parse [0x0b] = .err "invalidWireType" ∧ parse [0x08, 0x80] = .err "unexpectedEof" := by decide +kernel
example : parse [0xff, 0xff, 0xff, 0xff, 0xff, 0xff, 0xff, 0xff, 0xff, 0x02] = .err "varintOverflow" := by decide +kernel

/-- **`Scan` never faults and always terminates**, for every callback: the result is `nil`, one of `Parse`'s three error
classes, or an error the callback itself returned (the model's loop budget `len(b)+1` is never exhausted) -/
theorem scan_total {σ : Type} (fn : Callback σ) (b : Bytes) (s : σ) (hb : GoLen b) :
    (∀ e, (scan b fn s).2 ≠ .panic e) ∧
    ((scan b fn s).2 = .ok () ∨ ∃ e, (scan b fn s).2 = .err e ∧
      (ParseErr e ∨ ∃ s' f t v s'', fn s' f t v = (s'', false, some e))) :=
  scanLoop_total fn (b.length + 1) b s hb (by omega)

/-- `Scan` with a collecting callback and a hand-written loop over `Parse` enumerate the same thing -/
theorem scan_eq_parse_loop (b : Bytes) : scanList b = parseList (b.length + 1) b := scanList_eq_fields b

/-- **MAIN (`Scan` = the reference record list).** For every byte string, `Scan` calls back, in order, with exactly
the records the reference parser reads before the first malformed position — same numbers, wire types and payload
bytes — and nothing else; it returns `nil` exactly when the reference parser accepts the whole input, and otherwise one
of `Parse`'s three errors (the records before the malformed position HAVE been handed to the callback by then). -/
theorem scan_eq_records (b : Bytes) (hb : GoLen b) :
    (scanList b).1 = (records b).1.map (fun r => (r.num, r.wire, r.payload)) ∧
    ((scanList b).2 = .ok () ↔ (records b).2 = true) ∧
    ((records b).2 = false → ∃ e, (scanList b).2 = .err e ∧ ParseErr e) := by
  obtain ⟨e, he⟩ := scanList_records b hb
  have ht := (fields_total b.length b (Nat.le_refl _) hb).2
  rw [← scanList_eq_fields] at ht
  refine ⟨by rw [he]; rfl, ?_, ?_⟩
  · rw [he]; by_cases hf : (records b).2 = true <;> simp [hf]
  · intro hf
    rcases ht with h | ⟨e', h1, h2⟩
    · rw [he] at h; simp [hf] at h
    · exact ⟨e', h1, h2⟩

/-- the reference records tile the input: each is one complete field (payload = tail of its bytes), consecutive from
offset 0, covering everything when the input is well formed -/
theorem records_tile (b : Bytes) :
    (∀ r ∈ (records b).1, IsField r.num r.wire r.payload r.raw) ∧
    ∃ tail, b = ((records b).1.map (·.raw)).flatten ++ tail ∧ ((records b).2 = true → tail = []) :=
  records_frame b

example : scanList [0x08, 0x96, 0x01, 0x12, 0x01, 0x41, 0x1b] = ([(1, 0, [0x96, 0x01]), (2, 2, [0x41])], .err "invalidWireType")
    ∧ (records [0x08, 0x96, 0x01, 0x12, 0x01, 0x41, 0x1b]).2 = false := by decide +kernel
example : scanList [0x00, 0x00, 0x85, 0x80, 0x80, 0x80, 0x10, 0x01, 0x02, 0x03, 0x04]
    = ([(0, 0, [0x00]), (0x20000000, 5, [1, 2, 3, 4])], .ok ()) := by decide +kernel

/- FULL STATEMENT (not proved): for every `t` with `Codec.Supported (codecOf t) = true` whose base is a struct type
   (maps, arrays, named types, `RawMessage` fields included), `unmarshal t b = .ok v → (scanList b).2 = .ok ()`.
   Proved below for the message types of the C12 universe `tyOK` (scalars, strings, bytes, pointers, repeated fields,
   nested messages; no maps / arrays / named types): what is missing is the fact "a map entry / array / RawMessage
   codec consumes the whole `data` window carved for it" for those codecs. -/
/-- **MAIN (`Scan` and `Unmarshal` consume the same top-level fields), partial universe.** If `Unmarshal` into a
message type accepts `b`, then `Scan` succeeds on `b`, the records it enumerates are the reference records, and their
bytes concatenated are the whole input: the struct loop of `Unmarshal` stepped through exactly these fields. -/
theorem scan_matches_unmarshal_partial (fs : Fields) (hty : tyOK (.struct fs) = true) (b : Bytes)
    (hb : GoLen b) (v : Val) (h : unmarshal (.struct fs) b = .ok v) :
    (scanList b).2 = .ok () ∧
    (scanList b).1 = (records b).1.map (fun r => (r.num, r.wire, r.payload)) ∧
    ((records b).1.map (·.raw)).flatten = b := by
  have hs := scan_of_unmarshal fs hty b hb v h
  obtain ⟨_, tail, hcov, htail⟩ := records_frame b
  have := htail (records_ok_of_scan b hb hs)
  subst this
  exact ⟨hs, (scan_eq_records b hb).1, by rw [List.append_nil] at hcov; exact hcov.symm⟩

/-- … equivalently: whenever `Scan` reports an error, `Unmarshal` rejects the input too -/
theorem unmarshal_fails_of_scan_fails (fs : Fields) (hty : tyOK (.struct fs) = true) (b : Bytes)
    (hb : GoLen b) (e : String) (h : (scanList b).2 = .err e) : ∀ v, unmarshal (.struct fs) b ≠ .ok v := by
  intro v hv
  have := scan_of_unmarshal fs hty b hb v hv
  rw [h] at this; simp at this

/-- non-vacuity, on the message type `exFs` = `struct { A int32; B []string }`: a message with an undeclared fixed32
field 3 at the end is accepted by `Unmarshal`, and `Scan` enumerates its three records -/
example : tyOK (.struct exFs) = true ∧
    outcome (unmarshal (.struct exFs) [0x08, 0x05, 0x12, 0x01, 0x41, 0x1d, 1, 2, 3, 4]) = "ok" := ⟨exFs_ty, exFs_accepts⟩
example : scanList [0x08, 0x05, 0x12, 0x01, 0x41, 0x1d, 1, 2, 3, 4]
    = ([(1, 0, [0x05]), (2, 2, [0x41]), (3, 5, [1, 2, 3, 4])], .ok ()) := by decide +kernel
/-- the exact converse is FALSE: `Scan` enumerates a fixed32 record for field 1, `Unmarshal` rejects it because the
target declares field 1 as a varint (type mismatch) -/
example : scanList [0x0d, 1, 2, 3, 4] = ([(1, 5, [1, 2, 3, 4])], .ok ())
    ∧ outcome (unmarshal (.struct exFs) [0x0d, 1, 2, 3, 4]) = "err:wireType" := ⟨by decide +kernel, exFs_mismatch⟩
/-- and the struct hypothesis is needed: a top-level scalar target reads `05` as the number 5, `Scan` as a truncated
fixed32 field with number 0 -/
example : outcome (unmarshal (.int .i64) [0x05]) = "ok" ∧ (scanList [0x05]).2 = .err "unexpectedEof" :=
  ⟨by simp only [unmarshal, codecOf]; decide +kernel, by decide +kernel⟩

/-- **MAIN (truncation).** (1) Cut anywhere, the records `Scan` enumerates from a prefix are a prefix of the records
of the whole. (2) If `Scan` succeeds on a prefix — the prefix ends at a record boundary — the enumeration of the whole is
the enumeration of the prefix followed by that of the rest. (3) For a well-formed message, `Scan` succeeds on a prefix
exactly when the prefix ends after the first `k` records for some `k`; every other cut is an error (one of `Parse`'s
three classes, by `scan_eq_records`). -/
theorem scan_truncated (p q : Bytes) (hb : GoLen (p ++ q)) :
    (scanList p).1 <+: (scanList (p ++ q)).1 ∧
    ((scanList p).2 = .ok () → scanList (p ++ q) = ((scanList p).1 ++ (scanList q).1, (scanList q).2)) ∧
    ((scanList (p ++ q)).2 = .ok () →
      ((scanList p).2 = .ok () ↔ ∃ k, p = (((records (p ++ q)).1.map (·.raw)).take k).flatten)) := by
  simp only [scanList_eq_fields]
  refine ⟨fields_prefix p.length p q (Nat.le_refl _) hb, fields_append p.length p q (Nat.le_refl _) hb, ?_⟩
  intro hw
  have := scan_cut p q hb (by rw [scanList_eq_fields]; exact hw)
  rwa [scanList_eq_fields] at this

example : (scanList [0x08, 0x05, 0x12, 0x01, 0x41]).2 = .ok ()
    ∧ (scanList [0x08, 0x05, 0x12, 0x01]).2 = .err "unexpectedEof" := by decide +kernel
example : scanList [0x08, 0x05] = ([(1, 0, [0x05])], .ok ())
    ∧ ((records [0x08, 0x05, 0x12, 0x01, 0x41]).1.map (·.raw)).take 1 = [[0x08, 0x05]] := by decide +kernel

end WireAPI

end Enc.Props.C07
