import Enc.Lemmas.Proto
/-!
# C07 — proto decoding is total and ignores unknown fields
Property theorems only.
-/
namespace Enc.Props.C07
open Enc Enc.Model.Proto

/-- the varint reader never panics, whatever the bytes (truncated, over-long, overflowing) -/
theorem decodeVarint_total (b : Bytes) (x : BitVec 64) (s i : Nat) :
    ∀ e, decodeVarintLoop b x s i ≠ .panic e := by
  induction b generalizing x s i with
  | nil => intro e; simp [decodeVarintLoop]
  | cons c cs ih =>
    intro e
    unfold decodeVarintLoop
    split
    · split <;> simp
    · exact ih _ _ _ e

/-- it consumes at least one byte and never more than it was given -/
theorem decodeVarint_consumes (b : Bytes) (x : BitVec 64) (s i : Nat) (v : BitVec 64) (n : Nat)
    (h : decodeVarintLoop b x s i = .ok (v, n)) : i < n ∧ n ≤ i + b.length := by
  induction b generalizing x s i with
  | nil => simp [decodeVarintLoop] at h
  | cons c cs ih =>
    unfold decodeVarintLoop at h
    split at h
    · split at h
      · simp at h
      · simp only [Res.ok.injEq, Prod.mk.injEq] at h
        simp only [List.length_cons]; omega
    · have := ih _ _ _ h
      simp only [List.length_cons]; omega

end Enc.Props.C07
