import Enc.Lemmas.Proto
import Enc.Lemmas.ProtoDecode
/-!
# C07 — proto decoding is total and ignores unknown fields
Property theorems only (proofs in Enc/Lemmas/ProtoDecode.lean).
-/
namespace Enc.Props.C07
open Enc Enc.Model.Proto Enc.Lemmas.ProtoDecode

/-- the varint reader never panics, whatever the bytes (truncated, over-long, overflowing) -/
theorem decodeVarint_total (b : Bytes) (x : BitVec 64) (s i : Nat) :
    ∀ e, decodeVarintLoop b x s i ≠ .panic e := by
  induction b generalizing x s i with
  | nil => intro e; simp [decodeVarintLoop]
  | cons c cs ih =>
    intro e
    unfold decodeVarintLoop
    split
    · split <;> simp
    · exact ih _ _ _ e

/-- it consumes at least one byte and never more than it was given -/
theorem decodeVarint_consumes (b : Bytes) (x : BitVec 64) (s i : Nat) (v : BitVec 64) (n : Nat)
    (h : decodeVarintLoop b x s i = .ok (v, n)) : i < n ∧ n ≤ i + b.length := by
  induction b generalizing x s i with
  | nil => simp [decodeVarintLoop] at h
  | cons c cs ih =>
    unfold decodeVarintLoop at h
    split at h
    · split at h
      · simp at h
      · simp only [Res.ok.injEq, Prod.mk.injEq] at h
        simp only [List.length_cons]; omega
    · have := ih _ _ _ h
      simp only [List.length_cons]; omega

/-- **MAIN (totality).** For every message type whose codec tree contains no unsupported Go kind, and EVERY byte
string — malformed, type-mismatched, truncated at any offset, with over-long varints or absurd lengths — `Unmarshal`
returns a value or an error: the index arithmetic of the decoders (every slice expression is modelled with Go's
bounds rules) never goes out of range. -/
theorem unmarshal_ne_panic (t : Ty) (b : Bytes) (e : String) (h : Codec.Supported (codecOf t) = true) :
    unmarshal t b ≠ .panic e :=
  Lemmas.ProtoDecode.unmarshal_ne_panic t b e h

/-- the recursion always finishes within the model's budget (no input drives the decoder into unbounded descent) -/
theorem unmarshal_ne_fuel (t : Ty) (b : Bytes) : unmarshal t b ≠ .err "fuel" :=
  Lemmas.ProtoDecode.unmarshal_ne_fuel t b

/-- a decoder never claims more bytes than it was given -/
theorem decode_bound (fuel : Nat) (c : Codec) (b : Bytes) (cur : Val) (fl : Flags) (v : Val) (n : Nat)
    (h : decode fuel c b cur fl = .ok (v, n)) : n ≤ b.length :=
  Lemmas.ProtoDecode.decode_bound fuel c b cur fl v n h

/-- the struct loop succeeds only at the end of its buffer: no partial consumption is ever reported as success -/
theorem decodeStruct_consumes_all (fuel : Nat) (fs : CFields) (b : Bytes) (lenB : Nat) (vs : Vals) (fl : Flags)
    (off : Nat) (vs' : Vals) (n : Nat) (h : decodeStruct fuel fs b lenB vs fl off = .ok (vs', n)) :
    n = off + b.length :=
  Lemmas.ProtoDecode.decodeStruct_consumes_all fuel fs b lenB vs fl off vs' n h

/-- **MAIN (unknown fields).** A well-formed record (tag + payload of wire type 0, 1, 2 or 5; over-long varints
included) whose field number the target does not declare, placed in front of a message body, does not change what
`Unmarshal` returns — value or error. -/
theorem unmarshal_skip_front (Fs : Fields) (number : Nat) (rec body : Bytes)
    (hlk : lookupField (fieldsOf 1 Fs) number = none) (hrec : IsRecord number rec) :
    unmarshal (.struct Fs) (rec ++ body) = unmarshal (.struct Fs) body :=
  Lemmas.ProtoDecode.unmarshal_skip_front Fs number rec body hlk hrec

/-- … nor when it is inserted after any prefix of the message that decodes on its own (i.e. at a field boundary) -/
theorem unmarshal_skip_anywhere (Fs : Fields) (number : Nat) (pre rec rest : Bytes) (v1 : Val)
    (hlk : lookupField (fieldsOf 1 Fs) number = none) (hrec : IsRecord number rec)
    (hpre : unmarshal (.struct Fs) pre = .ok v1) :
    unmarshal (.struct Fs) (pre ++ (rec ++ rest)) = unmarshal (.struct Fs) (pre ++ rest) :=
  Lemmas.ProtoDecode.unmarshal_skip_anywhere Fs number pre rec rest v1 hlk hrec hpre

/-- what the encoder writes for an undeclared field is such a record (non-vacuity of `IsRecord`) -/
theorem isRecord_canonical (number : Nat) (w : Wire) (p : Bytes) (h : number < 2 ^ 61)
    (hp : IsPayload w.num p) : IsRecord number (encodeTag number w ++ p) :=
  Lemmas.ProtoDecode.isRecord_canonical number w p h hp

end Enc.Props.C07
