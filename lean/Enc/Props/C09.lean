import Enc.Model.Conc.CowCache
import Enc.Lemmas.ConcCow
import Enc.Model.Conc.Pool
import Enc.Gen.Pools
import Enc.Lemmas.ConcPool
/-!
# C09 — all packages are safe and deterministic under concurrent first use
Property theorems only (proofs in Enc/Lemmas/ConcCow.lean). The model is the protocol shared by json's `cache`,
proto's `codecCache` and thrift's `encoderCache` / `decoderCache`; data races and the mutex-protected `proto.TypeOf`
cache are outside the model (race-detector stress, DESIGN.md §5 C09).  sync.Pool exclusivity (last sentence of C09) is
the second half of this file: skeletons regenerated from /repo (`Enc/Gen/Pools.lean`), `Disciplined`, `pool_exclusive`.
-/
namespace Enc.Props.C09
open Enc Enc.Model.Conc

variable {Ty Codec : Type} [DecidableEq Ty]

abbrev Good (codecOf : Ty → Codec) := Lemmas.ConcCow.Good codecOf
abbrev Inv (codecOf : Ty → Codec) := Lemmas.ConcCow.Inv codecOf

/-- the invariant — every published or snapshotted cache holds, for each type, THE codec of that type; every codec a
thread has built or is using is the codec of its own type — holds initially and is preserved by every atomic step of
every thread, hence along every interleaving -/
theorem inv_run (codecOf : Ty → Codec) (s : State Ty Codec) (sched : List Nat) (h : Inv codecOf s) :
    Inv codecOf (run codecOf s sched) :=
  Lemmas.ConcCow.inv_run codecOf s sched h

/-- **MAIN.** Any number of concurrent calls, any types (fresh or shared), any interleaving of their atomic loads and
stores, any correct cache left by earlier calls: a call that has finished used exactly the codec it would have built
running alone — lost cache updates are harmless. -/
theorem every_call_uses_its_codec (codecOf : Ty → Codec) (cache : Cache Ty Codec) (calls : List (Ty × List Ty))
    (sched : List Nat) (h : Good codecOf cache) (th : Thread Ty Codec)
    (hth : th ∈ (run codecOf (initState cache calls) sched).threads) (c : Codec) (hd : th.pc = .done c) :
    c = codecOf th.ty :=
  Lemmas.ConcCow.every_call_uses_its_codec codecOf cache calls sched h th hth c hd

/-- no half-built or foreign codec is ever visible in the shared cache -/
theorem published_cache_good (codecOf : Ty → Codec) (cache : Cache Ty Codec) (calls : List (Ty × List Ty))
    (sched : List Nat) (h : Good codecOf cache) :
    Good codecOf (run codecOf (initState cache calls) sched).cache :=
  Lemmas.ConcCow.published_cache_good codecOf cache calls sched h

/-- a step of thread i never touches another thread (no shared mutable state besides the cache pointer) -/
theorem step_other (codecOf : Ty → Codec) (s : State Ty Codec) (i j : Nat) (h : i ≠ j) :
    (step codecOf s i).threads[j]? = s.threads[j]? :=
  Lemmas.ConcCow.step_other codecOf s i j h

/-- the canonical lost update (non-vacuity): thread 0 loads, thread 1 loads, builds and publishes, thread 0 publishes its
stale snapshot — type 1 is gone from the cache, and both calls still used their own codec -/
theorem lost_update_witness :
    lookup (run (fun t : Nat => t) (initState ([] : Cache Nat Nat) [(0, []), (1, [])]) [0, 0, 1, 1, 1, 0]).cache 1 = none := by
  decide

end Enc.Props.C09

/-! ## sync.Pool exclusivity (last sentence of C09)
`Enc/Gen/Pools.lean` is regenerated from /repo's working tree on every run (tools/extract/pools.go): one skeleton per
function that obtains a pooled object or touches a field holding one. Model and discipline: Enc/Model/Conc/Pool.lean;
proofs: Enc/Lemmas/ConcPool.lean. -/
namespace Enc.Props.C09.Pool
open Enc.Model.Conc.Pool Enc.Gen.Pools Enc.Lemmas.ConcPool

/-- THE PROOF OBLIGATION A CODE CHANGE BREAKS: every regenerated skeleton is disciplined (a site that leaks on an error
path — Marshal does not Put when Append fails — is disciplined: leaking is safe) -/
theorem all_sites_disciplined : allSites.all (fun s => Disciplined numVars numFields s.2) = true := by decide

/-- **MAIN.** Any number of goroutines, each performing any sequence of calls of disciplined skeletons, any schedule:
(1) no object is owned by two goroutines; (2) no owned object is free in a pool and no pool holds an object twice;
(3) whatever a goroutine is about to use / hand to foreign code / Put / return, it owns; (4) an object a caller still
references after its call ended is still owned by that goroutine. -/
theorem pool_exclusive (nV nF : Nat) (progs : List (List PProg))
    (hD : ∀ cs ∈ progs, ∀ p ∈ cs, Disciplined nV nF p = true) (sched : List (Nat × Nat)) :
    let s := run (initState nV nF progs) sched
    (∀ (i j : Nat) (ti tj : Thread), i ≠ j → s.threads[i]? = some ti → s.threads[j]? = some tj →
        ∀ o ∈ ti.held, o ∉ tj.held) ∧
    ((∀ (i : Nat) (ti : Thread), s.threads[i]? = some ti → ∀ o ∈ ti.held, o ∉ s.free.map (·.2)) ∧
        (s.free.map (·.2)).Nodup) ∧
    (∀ (i : Nat) (ti : Thread) (c : Nat), s.threads[i]? = some ti → ∀ o ∈ aboutToTouch ti c, o ∈ ti.held) ∧
    (∀ (i : Nat) (ti : Thread), s.threads[i]? = some ti → ∀ o ∈ ti.kept, o ∈ ti.held) :=
  Lemmas.ConcPool.pool_exclusive nV nF progs hD sched

/-- the "results stable" half: an object a caller still references after its call ended is never again free and never
handed to another goroutine, however the run continues -/
theorem results_stable (nV nF : Nat) (progs : List (List PProg))
    (hD : ∀ cs ∈ progs, ∀ p ∈ cs, Disciplined nV nF p = true) (sched more : List (Nat × Nat))
    (i : Nat) (ti : Thread) (h : (run (initState nV nF progs) sched).threads[i]? = some ti) (o : Obj) (ho : o ∈ ti.kept) :
    let s' := run (initState nV nF progs) (sched ++ more)
    o ∉ s'.free.map (·.2) ∧ ∀ (j : Nat) (tj : Thread), j ≠ i → s'.threads[j]? = some tj → o ∉ tj.held :=
  Lemmas.ConcPool.results_stable nV nF progs hD sched more i ti h o ho

/-- the instance for /repo: goroutines calling any of the regenerated sites, in any order and number -/
theorem repo_pools_exclusive (progs : List (List PProg)) (hS : ∀ cs ∈ progs, ∀ p ∈ cs, p ∈ allSites.map (·.2))
    (sched : List (Nat × Nat)) (i j c : Nat) :
    let s := run (initState numVars numFields progs) sched
    touchesForeign s i j c = false ∧ touchesFree s i c = false ∧
      (i ≠ j → keptHandedTo s i j = false) ∧ keptIsFree s i = false :=
  Lemmas.ConcPool.no_violation numVars numFields progs
    (fun cs hcs p hp => by
      obtain ⟨x, hx, rfl⟩ := List.mem_map.mp (hS cs hcs p hp)
      exact List.all_eq_true.mp all_sites_disciplined x hx) sched i j c

/-- non-vacuity of the model (hand-written mini skeleton `v := P.Get(); use v; P.Put(v); return`, so that the example
does not depend on the shape of /repo's functions): goroutine 0 finishes, goroutine 1 is handed the very object
goroutine 0 returned to the pool — the pool does recycle —; nothing else is ever created -/
example :
    let p : PProg := .seqs [.ev (.get 0 (.var 0)), .ev (.use (.var 0)), .ev (.put 0 (.var 0)), .ret []]
    let s := run (initState 1 0 [[p], [p]]) (List.replicate 8 (0, 0) ++ List.replicate 3 (1, 0))
    Disciplined 1 0 p = true ∧ s.threads.map (·.held) = [[], [0]] ∧ s.free = [] ∧ s.fresh = 1 := by decide

/-- non-vacuity for a field-held object (the Tokenizer life cycle, hand-written mini skeletons): `push` acquires into
the field, `reset` releases and clears it; calling them in sequence leaves the object in the pool -/
example :
    let push : PProg := .seqs [.alts [.ev (.get 0 (.field 0)), .skip], .ev (.use (.field 0))]
    let reset : PProg := .seqs [.alts [.ev (.put 0 (.field 0)), .skip], .ev (.clear (.field 0))]
    Disciplined 0 1 push = true ∧ Disciplined 0 1 reset = true ∧
      (run (initState 0 1 [[push, reset]]) (List.replicate 20 (0, 0))).free = [(0, 0)] := by decide

/-- NEGATIVE WITNESS 1 (a seeded bug used against this project): `encoderBufferPool.Put(buf)` moved above
`enc.writer.Write(b)`. The regenerated skeleton is rejected … -/
theorem mutant_put_before_write_rejected : Disciplined 1 1 mutantEncode = false := by decide

/-- … and not for show: in this two-goroutine interleaving goroutine 0 is about to hand to the writer a buffer that it
no longer owns and that goroutine 1 owns -/
theorem mutant_put_before_write_races :
    touchesForeign (run (initState 1 1 [[mutantEncode], [mutantEncode]]) schedPutBeforeWrite) 0 1 0 = true := by decide

/-- NEGATIVE WITNESS 2: Marshal returning `buf.data` un-copied when it is large: rejected … -/
theorem mutant_return_uncopied_rejected : Disciplined 1 1 mutantMarshal = false := by decide

/-- … and the buffer the first caller still references is handed to the second caller -/
theorem mutant_return_uncopied_shared :
    keptHandedTo (run (initState 1 1 [[mutantMarshal], [mutantMarshal]]) schedReturnUncopied) 0 1 = true := by decide

end Enc.Props.C09.Pool
