import Enc.Model.Conc.CowCache
import Enc.Lemmas.ConcCow
/-!
# C09 — all packages are safe and deterministic under concurrent first use
Property theorems only (proofs in Enc/Lemmas/ConcCow.lean). The model is the protocol shared by json's `cache`,
proto's `codecCache` and thrift's `encoderCache` / `decoderCache`; data races, sync.Pool exclusivity and the
mutex-protected `proto.TypeOf` cache are outside the model (race-detector stress, DESIGN.md §5 C09).
-/
namespace Enc.Props.C09
open Enc Enc.Model.Conc

variable {Ty Codec : Type} [DecidableEq Ty]

abbrev Good (codecOf : Ty → Codec) := Lemmas.ConcCow.Good codecOf
abbrev Inv (codecOf : Ty → Codec) := Lemmas.ConcCow.Inv codecOf

/-- the invariant — every published or snapshotted cache holds, for each type, THE codec of that type; every codec a
thread has built or is using is the codec of its own type — holds initially and is preserved by every atomic step of
every thread, hence along every interleaving -/
theorem inv_run (codecOf : Ty → Codec) (s : State Ty Codec) (sched : List Nat) (h : Inv codecOf s) :
    Inv codecOf (run codecOf s sched) :=
  Lemmas.ConcCow.inv_run codecOf s sched h

/-- **MAIN.** Any number of concurrent calls, any types (fresh or shared), any interleaving of their atomic loads and
stores, any correct cache left by earlier calls: a call that has finished used exactly the codec it would have built
running alone — lost cache updates are harmless. -/
theorem every_call_uses_its_codec (codecOf : Ty → Codec) (cache : Cache Ty Codec) (calls : List (Ty × List Ty))
    (sched : List Nat) (h : Good codecOf cache) (th : Thread Ty Codec)
    (hth : th ∈ (run codecOf (initState cache calls) sched).threads) (c : Codec) (hd : th.pc = .done c) :
    c = codecOf th.ty :=
  Lemmas.ConcCow.every_call_uses_its_codec codecOf cache calls sched h th hth c hd

/-- no half-built or foreign codec is ever visible in the shared cache -/
theorem published_cache_good (codecOf : Ty → Codec) (cache : Cache Ty Codec) (calls : List (Ty × List Ty))
    (sched : List Nat) (h : Good codecOf cache) :
    Good codecOf (run codecOf (initState cache calls) sched).cache :=
  Lemmas.ConcCow.published_cache_good codecOf cache calls sched h

/-- a step of thread i never touches another thread (no shared mutable state besides the cache pointer) -/
theorem step_other (codecOf : Ty → Codec) (s : State Ty Codec) (i j : Nat) (h : i ≠ j) :
    (step codecOf s i).threads[j]? = s.threads[j]? :=
  Lemmas.ConcCow.step_other codecOf s i j h

/-- the canonical lost update (non-vacuity): thread 0 loads, thread 1 loads, builds and publishes, thread 0 publishes its
stale snapshot — type 1 is gone from the cache, and both calls still used their own codec -/
theorem lost_update_witness :
    lookup (run (fun t : Nat => t) (initState ([] : Cache Nat Nat) [(0, []), (1, [])]) [0, 0, 1, 1, 1, 0]).cache 1 = none := by
  decide

end Enc.Props.C09
