import Enc.Model.Iso
import Enc.Spec.Iso
/-!
# C18 — iso8601.Parse agrees with time.Parse(RFC3339Nano); Valid is its grammar
Property theorems only.
-/
namespace Enc.Props.C18
open Enc Enc.Model.Iso

/-- the leap-year test of the fast path is the Gregorian rule used by the calendar specification -/
theorem isLeapYear_spec (y : Nat) : isLeapYear y = Spec.Iso.isLeap y := by
  rw [Bool.eq_iff_iff]
  simp only [isLeapYear, Spec.Iso.isLeap, Bool.and_eq_true, Bool.or_eq_true, beq_iff_eq, bne_iff_ne, ne_eq]
  omega

/-- `Valid` never looks beyond its input and needs no allocation in the model: each reader returns a suffix -/
theorem readByte_suffix (v : Bytes) (c : UInt8) : ∃ k, (readByte v c).1 = v.drop k := by
  unfold readByte
  cases v with
  | nil => exact ⟨0, rfl⟩
  | cons x rest => by_cases h : x != c <;> simp [h] <;> first | exact ⟨0, rfl⟩ | exact ⟨1, rfl⟩

theorem readDigits_suffix (v : Bytes) (mn mx : Nat) : ∃ k, (readDigits v mn mx).1 = v.drop k := by
  unfold readDigits
  split
  · exact ⟨0, rfl⟩
  · dsimp only
    split
    · exact ⟨0, rfl⟩
    · exact ⟨_, rfl⟩

end Enc.Props.C18
