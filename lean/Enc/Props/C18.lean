import Enc.Model.Iso
import Enc.Spec.Iso
import Enc.Lemmas.IsoCalendar
import Enc.Lemmas.IsoValid
import Enc.Lemmas.IsoFast
/-!
# C18 — iso8601.Parse agrees with time.Parse(RFC3339Nano); Valid is its grammar
Property theorems only.
-/
namespace Enc.Props.C18
open Enc Enc.Model.Iso

/-- **Fast path = byte-wise definition.** For EVERY byte string: the word-at-a-time fast path of `Parse`
(three little-endian words, separator masks, `nonNumeric`, nibble extraction, fraction loop, `validate`,
closed-form `daysSinceEpoch` in uint64 arithmetic) falls through exactly when the input is not of the shape
`YYYY-MM-DDTHH:MM:SS[.d{1,9}]Z`, reports a range error exactly when the shape is right and a component is out of
range (month 1–12, day ≤ days of that month in that year, hour < 24, minute/second < 60), and otherwise returns the
instant of the byte-wise definition, computed with a calendar defined by recursion over years and months.
So the fast path accepts no malformed timestamp and rejects no valid one of its shape. -/
theorem parseFast_spec (s : Bytes) :
    (match parseFast s with
     | .notFast => Spec.Iso.parseZ s = none
     | .rangeErr => Spec.Iso.parseZ s = some none
     | .ok u n => Spec.Iso.parseZ s = some (some (u, n))) :=
  Lemmas.IsoFast.parseFast_spec s

/-- the closed-form day count equals the recursive calendar for every date of years 0000–9999 -/
theorem daysSinceEpoch_spec (y m d : Nat) (hy : y ≤ 9999) (hm1 : 1 ≤ m) (hm2 : m ≤ 12) (hd1 : 1 ≤ d) (hd2 : d ≤ 31) :
    (daysSinceEpoch (w64 y) (w64 m) (w64 d)).toInt = Spec.Iso.daysFromCivil y m d :=
  Lemmas.IsoCalendar.daysSinceEpoch_spec y m d hy hm1 hm2 hd1 hd2

/-- `validate` accepts exactly the in-range components -/
theorem validate_spec (y m d h mi s : Nat) :
    validate y m d h mi s =
      (decide (1 ≤ m) && decide (m ≤ 12) && decide (1 ≤ d) && decide (d ≤ Spec.Iso.daysInMonth y m) &&
        decide (h < 24) && decide (mi < 60) && decide (s < 60)) :=
  Lemmas.IsoCalendar.validate_spec y m d h mi s

/-- **Valid = its flag grammar**, for every byte string and all 32 flag subsets:
`YYYY-MM-DD[(T|space)hh:mm:ss[.d{1,9}][Z|[space](+|-)hh[:]mm]]`, each optional or alternative part allowed only by
its flag (the grammar is a non-deterministic matcher; the code is one deterministic left-to-right pass). -/
theorem valid_spec (s : Bytes) (f : VFlags) :
    valid s f = Spec.Iso.validSpec s ⟨f.space, f.missingTime, f.missingSubsecond, f.missingTimezone, f.numericTimezone⟩ :=
  Lemmas.IsoValid.valid_spec s f

/-- non-vacuity: a concrete timestamp on the success branch, one on the range-error branch -/
example : parseFast [0x32,0x30,0x30,0x36,0x2d,0x30,0x31,0x2d,0x30,0x32,0x54,0x31,0x35,0x3a,0x30,0x34,0x3a,0x30,0x35,0x5a]
    = .ok 1136214245 0 := by decide +kernel
example : parseFast [0x32,0x30,0x32,0x31,0x2d,0x30,0x32,0x2d,0x33,0x30,0x54,0x31,0x35,0x3a,0x30,0x34,0x3a,0x30,0x35,0x5a]
    = .rangeErr := by decide +kernel

/-- the leap-year test of the fast path is the Gregorian rule used by the calendar specification -/
theorem isLeapYear_spec (y : Nat) : isLeapYear y = Spec.Iso.isLeap y := by
  rw [Bool.eq_iff_iff]
  simp only [isLeapYear, Spec.Iso.isLeap, Bool.and_eq_true, Bool.or_eq_true, beq_iff_eq, bne_iff_ne, ne_eq]
  omega

/-- `Valid` never looks beyond its input and needs no allocation in the model: each reader returns a suffix -/
theorem readByte_suffix (v : Bytes) (c : UInt8) : ∃ k, (readByte v c).1 = v.drop k := by
  unfold readByte
  cases v with
  | nil => exact ⟨0, rfl⟩
  | cons x rest => by_cases h : x != c <;> simp [h] <;> first | exact ⟨0, rfl⟩ | exact ⟨1, rfl⟩

theorem readDigits_suffix (v : Bytes) (mn mx : Nat) : ∃ k, (readDigits v mn mx).1 = v.drop k := by
  unfold readDigits
  split
  · exact ⟨0, rfl⟩
  · dsimp only
    split
    · exact ⟨0, rfl⟩
    · exact ⟨_, rfl⟩

end Enc.Props.C18
