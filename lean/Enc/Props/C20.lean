import Enc.Lemmas.Ascii
/-!
# C20 — ascii predicates equal their byte-wise definitions at every length

Property theorems only. `Model.Ascii.*` mirrors the portable (purego) algorithms of
github.com/segmentio/asm/ascii that /repo/ascii wraps; `Spec.Ascii.*` are the byte-wise definitions.
No bound on the length of the inputs. (The assembly build is tied by the exhaustive sweep of the
correspondence harness, not by theorem — see DESIGN.md §5 C20.)
-/
namespace Enc.Props.C20
open Enc Enc.Model.Ascii

/-- Valid/ValidString hold exactly when all bytes are below 0x80 — every length. -/
theorem validString_spec (s : Bytes) : validString s = Spec.Ascii.valid s :=
  Lemmas.Ascii.validString_eq s

/-- ValidPrint/ValidPrintString hold exactly when all bytes lie in 0x20–0x7E — every length. -/
theorem validPrintString_spec (s : Bytes) : validPrintString s = Spec.Ascii.validPrint s :=
  Lemmas.Ascii.validPrintString_eq s

/-- the extracted `lowerCase` table maps only A–Z to a–z (all 256 entries) -/
theorem lowerCase_spec (b : UInt8) : lowerCase b = Spec.Ascii.lower b :=
  Lemmas.Ascii.lowerCase_eq b

/-- EqualFold(String): lengths equal and bytes equal after mapping only A–Z — for *all* bytes, not only ASCII. -/
theorem equalFoldString_spec (a b : Bytes) : equalFoldString a b = Spec.Ascii.equalFold a b :=
  Lemmas.Ascii.equalFoldString_eq a b

theorem hasPrefixFold_spec (s p : Bytes) : hasPrefixFold s p = Spec.Ascii.hasPrefixFold s p := by
  unfold hasPrefixFold Spec.Ascii.hasPrefixFold
  rw [equalFoldString_spec]

theorem hasSuffixFold_spec (s p : Bytes) : hasSuffixFold s p = Spec.Ascii.hasSuffixFold s p := by
  unfold hasSuffixFold Spec.Ascii.hasSuffixFold
  rw [equalFoldString_spec]

theorem validByte_spec (b : UInt8) : validByte b = Spec.Ascii.validByte b := by
  unfold validByte Spec.Ascii.validByte
  rw [Bool.eq_iff_iff]; simp only [decide_eq_true_eq]
  constructor <;> intro h
  · exact UInt8.lt_iff_toNat_lt.mpr (by have := UInt8.le_iff_toNat_le.mp h; simp at this ⊢; omega)
  · exact UInt8.le_iff_toNat_le.mpr (by have := UInt8.lt_iff_toNat_lt.mp h; simp at this ⊢; omega)

theorem validPrintByte_spec (b : UInt8) : validPrintByte b = Spec.Ascii.validPrintByte b := rfl

/-- rune predicates, for every non-negative rune (`ValidRune` is `r <= 0x7F` as coded: the model
keeps that, and the statement is restricted to code points, which are non-negative). -/
theorem validRune_spec (r : Int) (h : 0 ≤ r) : validRune r = Spec.Ascii.validRune r := by
  unfold validRune Spec.Ascii.validRune
  simp [h]; omega

theorem validPrintRune_spec (r : Int) : validPrintRune r = Spec.Ascii.validPrintRune r := rfl

/-! non-vacuity: concrete inputs crossing the 8-byte / 4-byte / tail boundaries -/
example : validString (List.replicate 13 0x41 ++ [0x80]) = false := by decide
example : validString (List.replicate 15 0x7f) = true := by decide
example : validPrintString (List.replicate 11 0x20 ++ [0x7f]) = false := by decide
example : equalFoldString [0x48, 0x65, 0x6c, 0x6c, 0x6f, 0x2c, 0x20, 0x57, 0x6f, 0x72, 0x6c, 0x64]
    [0x68, 0x45, 0x4c, 0x4c, 0x4f, 0x2c, 0x20, 0x77, 0x4f, 0x52, 0x4c, 0x44] = true := by decide +kernel
example : equalFoldString [0x40] [0x60] = false := by decide +kernel

end Enc.Props.C20
