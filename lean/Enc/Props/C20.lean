import Enc.Lemmas.Ascii
import Enc.Lemmas.AsciiAsmFold
/-!
# C20 — ascii predicates equal their byte-wise definitions at every length

Property theorems only. `Model.Ascii.*` mirrors the portable (purego) algorithms of
github.com/segmentio/asm/ascii that /repo/ascii wraps; `Spec.Ascii.*` are the byte-wise definitions.
No bound on the length of the inputs. The amd64 ASSEMBLY kernels of the default build (`valid_amd64.s`,
`valid_print_amd64.s`, `equal_fold_amd64.s`; scalar and AVX2 paths) are modelled label by label in
`Enc/Model/AsciiAsm.lean` (constants and instruction sequences pinned to the regenerated `Enc/Gen/AsmConsts.lean`);
the `asm*` theorems at the end state that they compute the same byte-wise definitions, hence the same answers as the
purego code, for every input and on CPUs with and without AVX2.
-/
namespace Enc.Props.C20
open Enc Enc.Model.Ascii

/-- Valid/ValidString hold exactly when all bytes are below 0x80 — every length. -/
theorem validString_spec (s : Bytes) : validString s = Spec.Ascii.valid s :=
  Lemmas.Ascii.validString_eq s

/-- ValidPrint/ValidPrintString hold exactly when all bytes lie in 0x20–0x7E — every length. -/
theorem validPrintString_spec (s : Bytes) : validPrintString s = Spec.Ascii.validPrint s :=
  Lemmas.Ascii.validPrintString_eq s

/-- the extracted `lowerCase` table maps only A–Z to a–z (all 256 entries) -/
theorem lowerCase_spec (b : UInt8) : lowerCase b = Spec.Ascii.lower b :=
  Lemmas.Ascii.lowerCase_eq b

/-- EqualFold(String): lengths equal and bytes equal after mapping only A–Z — for *all* bytes, not only ASCII. -/
theorem equalFoldString_spec (a b : Bytes) : equalFoldString a b = Spec.Ascii.equalFold a b :=
  Lemmas.Ascii.equalFoldString_eq a b

theorem hasPrefixFold_spec (s p : Bytes) : hasPrefixFold s p = Spec.Ascii.hasPrefixFold s p := by
  unfold hasPrefixFold Spec.Ascii.hasPrefixFold
  rw [equalFoldString_spec]

theorem hasSuffixFold_spec (s p : Bytes) : hasSuffixFold s p = Spec.Ascii.hasSuffixFold s p := by
  unfold hasSuffixFold Spec.Ascii.hasSuffixFold
  rw [equalFoldString_spec]

theorem validByte_spec (b : UInt8) : validByte b = Spec.Ascii.validByte b := by
  unfold validByte Spec.Ascii.validByte
  rw [Bool.eq_iff_iff]; simp only [decide_eq_true_eq]
  constructor <;> intro h
  · exact UInt8.lt_iff_toNat_lt.mpr (by have := UInt8.le_iff_toNat_le.mp h; simp at this ⊢; omega)
  · exact UInt8.le_iff_toNat_le.mpr (by have := UInt8.lt_iff_toNat_lt.mp h; simp at this ⊢; omega)

theorem validPrintByte_spec (b : UInt8) : validPrintByte b = Spec.Ascii.validPrintByte b := rfl

/-- rune predicates, for every non-negative rune (`ValidRune` is `r <= 0x7F` as coded: the model
keeps that, and the statement is restricted to code points, which are non-negative). -/
theorem validRune_spec (r : Int) (h : 0 ≤ r) : validRune r = Spec.Ascii.validRune r := by
  unfold validRune Spec.Ascii.validRune
  simp [h]; omega

theorem validPrintRune_spec (r : Int) : validPrintRune r = Spec.Ascii.validPrintRune r := rfl

/-! non-vacuity: concrete inputs crossing the 8-byte / 4-byte / tail boundaries -/
example : validString (List.replicate 13 0x41 ++ [0x80]) = false := by decide
example : validString (List.replicate 15 0x7f) = true := by decide
example : validPrintString (List.replicate 11 0x20 ++ [0x7f]) = false := by decide
example : equalFoldString [0x48, 0x65, 0x6c, 0x6c, 0x6f, 0x2c, 0x20, 0x57, 0x6f, 0x72, 0x6c, 0x64]
    [0x68, 0x45, 0x4c, 0x4c, 0x4f, 0x2c, 0x20, 0x77, 0x4f, 0x52, 0x4c, 0x44] = true := by decide +kernel
example : equalFoldString [0x40] [0x60] = false := by decide +kernel

/-! ## the assembly kernels (default, non-purego build) -/
section Asm
open Enc.Model.AsciiAsm

/-- valid_amd64.s: `ValidString` of the assembly build = "all bytes below 0x80", every length, with and without AVX2. -/
theorem asmValidString_spec (hasAVX2 : Bool) (s : Bytes) : asmValidString hasAVX2 s = Spec.Ascii.valid s :=
  Lemmas.AsciiAsm.asmValidString_eq hasAVX2 s

/-- valid_print_amd64.s: `ValidPrintString` of the assembly build = "all bytes in 0x20–0x7E". -/
theorem asmValidPrintString_spec (hasAVX2 : Bool) (s : Bytes) :
    asmValidPrintString hasAVX2 s = Spec.Ascii.validPrint s :=
  Lemmas.AsciiAsm.asmValidPrintString_eq hasAVX2 s

/-- equal_fold_amd64.s: `EqualFoldString` of the assembly build = equal lengths and bytes equal after mapping only A–Z
(for all bytes, not only ASCII). -/
theorem asmEqualFoldString_spec (hasAVX2 : Bool) (a b : Bytes) :
    asmEqualFoldString hasAVX2 a b = Spec.Ascii.equalFold a b :=
  Lemmas.AsciiAsm.asmEqualFoldString_eq hasAVX2 a b

/-- the same for ANY value of the feature word `cpu.X86` (only bit 8 is consulted, and both paths agree) -/
theorem asmValidString_anyCPU (cpuX86 : Nat) (s : Bytes) : Valid.entry cpuX86 s = Spec.Ascii.valid s := by
  rw [Lemmas.AsciiAsm.valid_entry, Lemmas.Ascii.valid_all]
theorem asmValidPrintString_anyCPU (cpuX86 : Nat) (s : Bytes) : ValidPrint.entry cpuX86 s = Spec.Ascii.validPrint s := by
  rw [Lemmas.AsciiAsm.print_entry, Lemmas.Ascii.print_all]
theorem asmEqualFoldString_anyCPU (cpuX86 : Nat) (a b : Bytes) : EqualFold.entry cpuX86 a b = Spec.Ascii.equalFold a b :=
  Lemmas.AsciiAsm.fold_entry cpuX86 a b

/-- "The answers are identical in the assembly and the purego builds." -/
theorem asm_eq_purego_validString (hasAVX2 : Bool) (s : Bytes) : asmValidString hasAVX2 s = validString s := by
  rw [asmValidString_spec, validString_spec]
theorem asm_eq_purego_validPrintString (hasAVX2 : Bool) (s : Bytes) :
    asmValidPrintString hasAVX2 s = validPrintString s := by
  rw [asmValidPrintString_spec, validPrintString_spec]
theorem asm_eq_purego_equalFoldString (hasAVX2 : Bool) (a b : Bytes) :
    asmEqualFoldString hasAVX2 a b = equalFoldString a b := by
  rw [asmEqualFoldString_spec, equalFoldString_spec]

/-! non-vacuity: the model really runs both paths (the AVX2 path with the overlapping tail load, 16 < length), and
rejects an offending byte that only the tail load / only the 3-byte scalar tail sees -/
example : asmValidString true (List.replicate 40 0x41 ++ [0x80]) = false := by decide +kernel
example : asmValidString false (List.replicate 18 0x41 ++ [0x80]) = false := by decide +kernel
example : asmValidString true (List.replicate 300 0x7f) = true := by decide +kernel
example : asmValidPrintString true (List.replicate 33 0x20 ++ [0x7f]) = false := by decide +kernel
example : asmValidPrintString false (List.replicate 10 0x7e ++ [0x1f]) = false := by decide +kernel
example : asmValidPrintString true (List.replicate 150 0x7e) = true := by decide +kernel
example : asmEqualFoldString true (List.replicate 20 0x41 ++ [0x5a]) (List.replicate 20 0x61 ++ [0x7a]) = true := by
  decide +kernel
example : asmEqualFoldString true (List.replicate 20 0x41 ++ [0x40]) (List.replicate 20 0x61 ++ [0x60]) = false := by
  decide +kernel
example : asmEqualFoldString false (List.replicate 20 0x41 ++ [0x5b]) (List.replicate 20 0x61 ++ [0x7b]) = false := by
  decide +kernel

end Asm

end Enc.Props.C20
