import Enc.Model.Json.Fields
import Enc.Spec.Json.Fields
import Enc.Lemmas.JsonFields
import Enc.Lemmas.JsonFieldsShadow
import Enc.Lemmas.JsonFieldsLookup
/-!
# C01 / C02 — which struct fields are serialised: json/codec.go appendStructFields against encoding/json typeFields

Model `Model.Json.Fields.segFields` (appendStructFields as written), specification `Spec.Json.Fields.stdFields`
(candidates, dominant field per name, index order). The two algorithms are NOT equivalent: the theorems say where they
agree, the witnesses document the known finding json-field-name-collision kind by kind; the shapes of the former finding
jsonAnonymousTagMismatch (repaired in json/codec.go) are now agreement examples. Correspondence with the Go code: op `json.fields` (harness/c01fields.go, Driver/JsonFields.lean).
Property theorems only; proofs in Lemmas/JsonFields*.lean.
-/
namespace Enc.Props.C01Fields
open Enc Enc.Model.Json.Fields Enc.Spec.Json.Fields

/-- MAIN: on a regular struct type tree (no Go name is `-`: every tree of Go identifiers) whose candidate fields
have pairwise distinct JSON names, segmentio serialises exactly the members encoding/json serialises: same keys, same
Go fields (index paths), same order, same omitempty / string / behind-an-embedded-pointer attributes. -/
theorem segFields_eq_stdFields (fs : Fields) (hr : regular fs = true) (hc : collisionFree fs = true) :
    (segFields fs).map Resolved.obs = stdFields fs :=
  Lemmas.JsonFields.segFields_eq_stdFields fs hr hc

/-- SHARPER: collisions are allowed as long as shadowing explains every one of them. `visible fs` are the candidates
that are not hidden by a direct field (of the same JSON name) of an enclosing struct; when THEIR names are pairwise
distinct (`shadowingOnly`: no two direct fields of one struct, no fields of two different embedded structs share a name
unless a field further out hides both), segmentio and encoding/json serialise the same members … -/
theorem segFields_eq_stdFields_of_shadowingOnly (fs : Fields) (hr : regular fs = true) (hs : shadowingOnly fs = true) :
    (segFields fs).map Resolved.obs = stdFields fs :=
  Lemmas.JsonFields.segFields_eq_stdFields_of_shadowingOnly fs hr hs

/-- … namely the unshadowed candidates, in declaration order -/
theorem stdFields_eq_visible (fs : Fields) (hs : shadowingOnly fs = true) :
    stdFields fs = (visible fs).map Cand.field :=
  Lemmas.JsonFields.stdFields_eq_visible fs ((Lemmas.JsonFields.distinct_iff _).mp hs)

/-- MAIN is the special case without any collision -/
theorem shadowingOnly_of_collisionFree (fs : Fields) (hc : collisionFree fs = true) : shadowingOnly fs = true :=
  Lemmas.JsonFields.shadowingOnly_of_collisionFree fs hc

/-- … and then every candidate field is a member, in declaration order -/
theorem stdFields_of_collisionFree (fs : Fields) (hc : collisionFree fs = true) :
    stdFields fs = (candidates fs).map Cand.field :=
  Lemmas.JsonFields.stdFields_of_nodup fs ((Lemmas.JsonFields.distinct_iff _).mp hc)

/-- the `sort.Slice` at the end of appendStructFields only restores the declaration order (no hypothesis):
the result is the in-order list of the direct fields and the unambiguous promoted subfields -/
theorem segFields_eq_flat (fs : Fields) : segFields fs = Lemmas.JsonFields.flatFields fs :=
  Lemmas.JsonFields.segFields_eq_flat fs

/-- the final sort of typeFields does nothing on a tree either: the dominant candidates in declaration order -/
theorem stdFields_eq_filter (fs : Fields) :
    stdFields fs = ((candidates fs).filter (dominant (candidates fs))).map Cand.field :=
  Lemmas.JsonFields.stdFields_eq_filter fs

/-- tag parsing: strings.Split / `parts[0]` / `len(parts) == 1` / `parts[1:]` of segmentio against strings.Cut /
tagOptions.Contains of encoding/json take the same decision for one field: skip, embed, or member with this key, this
"named by a tag" flag and these options (also for an invalid tag name, for unexported embedded fields, for `-` and `-,`) -/
theorem action_eq_role (goName tag : Bytes) (anonymous exported isStruct : Bool) (hg : goName ≠ bDash) :
    action goName tag anonymous exported isStruct
      = Lemmas.JsonFields.toAction (role goName tag anonymous exported isStruct) :=
  Lemmas.JsonFields.action_eq_role goName tag anonymous exported isStruct hg

/-! ### concrete trees (the descriptor of harness/c01fields.go in the comment) -/

def b (x : String) : Bytes := x.toList.map fun c => UInt8.ofNat c.toNat
def isExp (name : String) : Bool := (name.toList.head?.map Char.isUpper).getD false
/-- an ordinary field -/
def fld (name tag : String) (ty : Ty) (rest : Fields) : Fields := .cons (b name) (b tag) false (isExp name) ty rest
/-- an anonymous (embedded) field -/
def emb (name tag : String) (ty : Ty) (rest : Fields) : Fields := .cons (b name) (b tag) true (isExp name) ty rest
/-- a member as observed: key, index path; no options -/
def mem (key : String) (path : List Nat) : Field := ⟨b key, path, false, false, false⟩

/-- non-vacuity of MAIN: `{A:i;B"b,omitempty":i;@C:{X:i;Y"-":i};@D:*{V",string":p;@inner:{W:i}};@E"e":{X:i};u:i;@MyInt:i}`
— an embedded struct, an embedded pointer to a struct, below it an unexported embedded struct, a tagged anonymous struct
(an ordinary member), an ignored field, an unexported field, an embedded non-struct -/
def tExample : Fields :=
  fld "A" "" .leaf <| fld "B" "b,omitempty" .leaf <|
  emb "C" "" (.struct (fld "X" "" .leaf <| fld "Y" "-" .leaf .nil)) <|
  emb "D" "" (.ptrStruct (fld "V" ",string" .ptrLeaf <| emb "inner" "" (.struct (fld "W" "" .leaf .nil)) .nil)) <|
  emb "E" "e" (.struct (fld "X" "" .leaf .nil)) <| fld "u" "" .leaf <| emb "MyInt" "" .leaf .nil

example : regular tExample = true ∧ collisionFree tExample = true := by decide

example : (segFields tExample).map Resolved.obs = stdFields tExample :=
  segFields_eq_stdFields tExample (by decide) (by decide)

example : stdFields tExample =
    [mem "A" [0], ⟨b "b", [1], true, false, false⟩, mem "X" [2, 0], ⟨b "V", [3, 0], false, true, true⟩,
     ⟨b "W", [3, 1, 0], false, false, true⟩, mem "e" [4], mem "MyInt" [6]] := by
  rw [stdFields_eq_filter]; decide

/-! ### known finding json-field-name-collision, kind by kind: model ≠ specification -/

/-- `{A"x":i;B"x":i;C:i}` — duplicates at one level: segmentio emits all of them, encoding/json none -/
def tDup : Fields := fld "A" "x" .leaf <| fld "B" "x" .leaf <| fld "C" "" .leaf .nil
theorem collision_same_level :
    (segFields tDup).map Resolved.obs = [mem "x" [0], mem "x" [1], mem "C" [2]] ∧ stdFields tDup = [mem "C" [2]] := by
  rw [segFields_eq_flat, stdFields_eq_filter]; decide

/-- `{A"B":i;B:i}` — … of which one is named by a tag: both emitted / the tagged one -/
def tDupTag : Fields := fld "A" "B" .leaf <| fld "B" "" .leaf .nil
theorem collision_same_level_tagged :
    (segFields tDupTag).map Resolved.obs = [mem "B" [0], mem "B" [1]] ∧ stdFields tDupTag = [mem "B" [0]] := by
  rw [segFields_eq_flat, stdFields_eq_filter]; decide

/-- `{@A:{X:i;P"-":i};@B:{@C:{X:i}}}` — a name at different depths through different embedded structs:
segmentio drops it, encoding/json keeps the shallowest -/
def tDepth : Fields :=
  emb "A" "" (.struct (fld "X" "" .leaf <| fld "P" "-" .leaf .nil)) <|
  emb "B" "" (.struct (emb "C" "" (.struct (fld "X" "" .leaf .nil)) .nil)) .nil
theorem collision_different_depth :
    (segFields tDepth).map Resolved.obs = [] ∧ stdFields tDepth = [mem "X" [0, 0]] := by
  rw [segFields_eq_flat, stdFields_eq_filter]; decide

/-- `{@A:{@C:{X"X":i}};@B:{@D:{X:i}}}` — equal depth below the first embedding level, one of the two tagged: the flag is
cleared on promotion so segmentio drops both, encoding/json keeps the tagged one -/
def tDeepTag : Fields :=
  emb "A" "" (.struct (emb "C" "" (.struct (fld "X" "X" .leaf .nil)) .nil)) <|
  emb "B" "" (.struct (emb "D" "" (.struct (fld "X" "" .leaf .nil)) .nil)) .nil
theorem collision_tag_lost_on_promotion :
    (segFields tDeepTag).map Resolved.obs = [] ∧ stdFields tDeepTag = [mem "X" [0, 0, 0]] := by
  rw [segFields_eq_flat, stdFields_eq_filter]; decide

/-- `{@A:{X"'":i};@B:{X:i}}` — an invalid tag name is no name: both X are untagged at equal depth, both libraries
drop them (before the repair segmentio counted the first one as tagged and emitted it) -/
def tInvalidTag : Fields :=
  emb "A" "" (.struct (fld "X" "'" .leaf .nil)) <| emb "B" "" (.struct (fld "X" "" .leaf .nil)) .nil
theorem collision_invalid_tag_agreement :
    (segFields tInvalidTag).map Resolved.obs = [] ∧ stdFields tInvalidTag = [] := by
  rw [segFields_eq_flat, stdFields_eq_filter]; decide

/-- `{@A:{@B:{X:i;P"-":i};@C:{X:i;Q"-":i}};@D:{@E:{@F:{X:i}}}}` — a pair that annihilates itself no longer hides a
deeper field of the same name: segmentio emits the deeper one, encoding/json nothing -/
def tAnnihilated : Fields :=
  emb "A" "" (.struct (emb "B" "" (.struct (fld "X" "" .leaf <| fld "P" "-" .leaf .nil)) <|
                       emb "C" "" (.struct (fld "X" "" .leaf <| fld "Q" "-" .leaf .nil)) .nil)) <|
  emb "D" "" (.struct (emb "E" "" (.struct (emb "F" "" (.struct (fld "X" "" .leaf .nil)) .nil)) .nil)) .nil
theorem collision_annihilated_pair :
    (segFields tAnnihilated).map Resolved.obs = [mem "X" [1, 0, 0, 0]] ∧ stdFields tAnnihilated = [] := by
  rw [segFields_eq_flat, stdFields_eq_filter]; decide

/-- collisions on which the two libraries do agree: a direct field shadows a promoted one; at equal depth the only
tagged one wins (`{X:i;@A:{X"X":i;Y:i}}`, `{@A:{X"X":i};@B:{X:i}}`) -/
def tShadow : Fields := fld "X" "" .leaf <| emb "A" "" (.struct (fld "X" "X" .leaf <| fld "Y" "" .leaf .nil)) .nil
def tOneTagged : Fields :=
  emb "A" "" (.struct (fld "X" "X" .leaf .nil)) <| emb "B" "" (.struct (fld "X" "" .leaf .nil)) .nil
theorem collision_agreement :
    collisionFree tShadow = false ∧ (segFields tShadow).map Resolved.obs = stdFields tShadow ∧
    stdFields tShadow = [mem "X" [0], mem "Y" [1, 1]] ∧
    collisionFree tOneTagged = false ∧ (segFields tOneTagged).map Resolved.obs = stdFields tOneTagged ∧
    stdFields tOneTagged = [mem "X" [0, 0]] := by
  rw [segFields_eq_flat, segFields_eq_flat, stdFields_eq_filter, stdFields_eq_filter]; decide

/-- non-vacuity of SHARPER beyond MAIN: `tShadow` collides (X twice) and satisfies `shadowingOnly`; a deeper shadowing
`{A:i;@B:{A:i;@C:{A"A":i;D:i}};@E:*{D:i}}` does not: D is reachable through B.C and through E (and the libraries differ) -/
def tShadow2 : Fields :=
  fld "A" "" .leaf <|
  emb "B" "" (.struct (fld "A" "" .leaf <| emb "C" "" (.struct (fld "A" "A" .leaf <| fld "D" "" .leaf .nil)) .nil)) <|
  emb "E" "" (.ptrStruct (fld "D" "" .leaf .nil)) .nil
def tShadow3 : Fields :=
  fld "A" "" .leaf <|
  emb "B" "" (.struct (fld "A" "" .leaf <| emb "C" "" (.struct (fld "A" "A" .leaf <| fld "D" "" .leaf .nil)) .nil)) <|
  emb "E" "" (.ptrStruct (fld "F" "" .leaf .nil)) .nil
example : regular tShadow = true ∧ collisionFree tShadow = false ∧ shadowingOnly tShadow = true := by decide
example : regular tShadow3 = true ∧ collisionFree tShadow3 = false ∧ shadowingOnly tShadow3 = true := by decide
example : (segFields tShadow3).map Resolved.obs = stdFields tShadow3 :=
  segFields_eq_stdFields_of_shadowingOnly tShadow3 (by decide) (by decide)
example : stdFields tShadow3 = [mem "A" [0], mem "D" [1, 1, 1], ⟨b "F", [2, 0], false, false, true⟩] := by
  rw [stdFields_eq_filter]; decide
theorem shadowingOnly_fails_example :
    shadowingOnly tShadow2 = false ∧ (segFields tShadow2).map Resolved.obs = [mem "A" [0]] ∧
    stdFields tShadow2 = [mem "A" [0], ⟨b "D", [2, 0], false, false, true⟩] := by
  rw [segFields_eq_flat, stdFields_eq_filter]; decide
/-- the condition is sufficient, not necessary: `tOneTagged` violates it and the libraries agree on it -/
example : shadowingOnly tOneTagged = false := by decide

/-! ### the shapes of the former finding jsonAnonymousTagMismatch (repaired): agreement, covered by MAIN -/

/-- `{@A"'":{Y:i};L:i}` — an embedded struct with a non-empty invalid tag name is embedded by both libraries -/
def tAnonInvalid : Fields := emb "A" "'" (.struct (fld "Y" "" .leaf .nil)) <| fld "L" "" .leaf .nil
theorem anon_invalid_tag_agreement :
    collisionFree tAnonInvalid = true ∧ regular tAnonInvalid = true ∧
    (segFields tAnonInvalid).map Resolved.obs = [mem "Y" [0, 0], mem "L" [1]] ∧
    stdFields tAnonInvalid = [mem "Y" [0, 0], mem "L" [1]] := by
  rw [segFields_eq_flat, stdFields_eq_filter]; decide

/-- `{@myInt"n":i;L:i}` — an unexported embedded non-struct is ignored by both libraries, tag name or not -/
def tAnonUnexported : Fields := emb "myInt" "n" .leaf <| fld "L" "" .leaf .nil
theorem anon_unexported_tagged_agreement :
    collisionFree tAnonUnexported = true ∧ regular tAnonUnexported = true ∧
    (segFields tAnonUnexported).map Resolved.obs = [mem "L" [1]] ∧
    stdFields tAnonUnexported = [mem "L" [1]] := by
  rw [segFields_eq_flat, stdFields_eq_filter]; decide

/-! ### C02: the same field list drives decoding (constructStructType: keyset, fieldsIndex, ficaseIndex) -/

/-- under the hypotheses of SHARPER a JSON key is decoded into the same Go field by both libraries — exact match or
case-insensitive fallback, and whichever structure segmentio searches (`cpu`: the keyset, first match; otherwise the
`fieldsIndex` map, last match) -/
theorem lookupKey_eq (fs : Fields) (hr : regular fs = true) (hs : shadowingOnly fs = true) (cpu : Bool) (key : Bytes) :
    (Model.Json.Fields.lookupKey cpu (segFields fs) key).map Resolved.obs
      = Spec.Json.Fields.lookupKey (stdFields fs) key :=
  Lemmas.JsonFields.lookupKey_eq fs hr hs cpu key

/-- known finding json-field-name-collision, decoding side: with duplicate names (`{A"x":i;B"x":i;C:i}`) the key goes
to the FIRST field when the keyset is in use (≤ 32 fields, names ≤ 16 bytes, vector instructions) and to the LAST one
otherwise; encoding/json has no member of that name and ignores the key -/
theorem collision_decode_target :
    (Model.Json.Fields.lookupKey true (segFields tDup) (b "x")).map Resolved.obs = some (mem "x" [0]) ∧
    (Model.Json.Fields.lookupKey false (segFields tDup) (b "x")).map Resolved.obs = some (mem "x" [1]) ∧
    Spec.Json.Fields.lookupKey (stdFields tDup) (b "x") = none := by
  rw [segFields_eq_flat, stdFields_eq_filter]; decide

end Enc.Props.C01Fields
