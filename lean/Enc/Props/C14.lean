import Enc.Model.Json.DynNumber
import Enc.Spec.Json.DynNumber
/-!
# C14 — json flags change representation or copying, never meaning
Property theorems only. The number-kind selection (UseNumber / UseBigInt / UseInt64 / UseUint64) is decision logic and is
stated outright; the AppendFlags / copy-flag clauses are decided by the differential (see DESIGN.md §5 C14).
-/
namespace Enc.Props.C14
open Enc Enc.Model.Json

/-- the documented precedence, as a function of what is true of the literal: it is an integer literal (no fraction /
exponent), it carries a minus sign, its value fits uint64 / int64 -/
def precedence (fl : DynFlags) (isInt neg : Bool) (u : Option Nat) (i : Option Int) (lit : Bytes) : Dyn :=
  match isInt, neg, fl.useUint64, u with
  | true, false, true, some v => .u64 v
  | _, _, _, _ =>
    match isInt, fl.useInt64, i with
    | true, true, some v => .i64 v
    | _, _, _ =>
      if isInt && fl.useBigInt then .big lit
      else if fl.useNumber then .num lit
      else .f64

/-- **Decision table.** For every flag subset, every pre-parsed kind and every outcome of the two integer decoders, the two
switch statements of decodeDynamicNumber pick exactly what the documentation promises: UseUint64 wins for unsigned
integers that fit, then UseInt64 for integers that fit, then UseBigInt for integers, then UseNumber, then float64 —
and a failed narrower attempt (overflow) falls through instead of failing the decode. -/
theorem dynChoice_is_documented_precedence (fl : DynFlags) (kind : Kind) (hk : kind.isNum = true)
    (u : Option Nat) (i : Option Int) (lit : Bytes)
    (hfit : kind = .uint → u = none → i = none) :        -- an unsigned literal too large for uint64 is too large for int64
    dynChoice fl kind u i lit = precedence fl (kind != .float) (kind == .int) u i lit := by
  obtain ⟨n, b, i64, u64⟩ := fl
  cases kind <;> simp [Kind.isNum] at hk <;>
    cases n <;> cases b <;> cases i64 <;> cases u64 <;> cases u <;> cases i <;>
    first | rfl | (simp at hfit) | simp +decide [dynChoice, precedence]

/-- the flags never change a numeric value: whatever is chosen carries the decoder's value or the literal itself -/
theorem dynChoice_value (fl : DynFlags) (kind : Kind) (u : Option Nat) (i : Option Int) (lit : Bytes) :
    match dynChoice fl kind u i lit with
    | .u64 v => u = some v
    | .i64 v => i = some v
    | .big l => l = lit
    | .num l => l = lit
    | .f64 => True
    | .err => False := by
  obtain ⟨n, b, i64, u64⟩ := fl
  cases kind <;> cases n <;> cases b <;> cases i64 <;> cases u64 <;> cases u <;> cases i <;> simp [dynChoice]

/-- without any of the three conditional flags the number kind is not even consulted: UseNumber alone decides -/
theorem no_conditional_flags (useNumber : Bool) (b : Bytes) (k : Kind) (r : Bytes) (h : parseNumber b = .ok k r) :
    decodeDynamicNumber ⟨useNumber, false, false, false⟩ b = if useNumber then .num (litOf b r) else .f64 := by
  cases useNumber <;> simp [decodeDynamicNumber, h, dynChoice]

end Enc.Props.C14
