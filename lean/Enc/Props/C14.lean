import Enc.Model.Json.DynNumber
import Enc.Spec.Json.DynNumber
import Enc.Lemmas.JsonRTString
import Enc.Lemmas.JsonRTValue
import Enc.Lemmas.JsonRTInt
import Enc.Lemmas.JsonRTMap
/-!
# C14 — json flags change representation or copying, never meaning
Property theorems only. The number-kind selection (UseNumber / UseBigInt / UseInt64 / UseUint64) is decision logic and is
stated outright; the AppendFlags / copy-flag clauses are decided by the differential (see DESIGN.md §5 C14).
-/
namespace Enc.Props.C14
open Enc Enc.Model.Json

/-- the documented precedence, as a function of what is true of the literal: it is an integer literal (no fraction /
exponent), it carries a minus sign, its value fits uint64 / int64 -/
def precedence (fl : DynFlags) (isInt neg : Bool) (u : Option Nat) (i : Option Int) (lit : Bytes) : Dyn :=
  match isInt, neg, fl.useUint64, u with
  | true, false, true, some v => .u64 v
  | _, _, _, _ =>
    match isInt, fl.useInt64, i with
    | true, true, some v => .i64 v
    | _, _, _ =>
      if isInt && fl.useBigInt then .big lit
      else if fl.useNumber then .num lit
      else .f64

/-- **Decision table.** For every flag subset, every pre-parsed kind and every outcome of the two integer decoders, the two
switch statements of decodeDynamicNumber pick exactly what the documentation promises: UseUint64 wins for unsigned
integers that fit, then UseInt64 for integers that fit, then UseBigInt for integers, then UseNumber, then float64 —
and a failed narrower attempt (overflow) falls through instead of failing the decode. -/
theorem dynChoice_is_documented_precedence (fl : DynFlags) (kind : Kind) (hk : kind.isNum = true)
    (u : Option Nat) (i : Option Int) (lit : Bytes)
    (hfit : kind = .uint → u = none → i = none) :        -- an unsigned literal too large for uint64 is too large for int64
    dynChoice fl kind u i lit = precedence fl (kind != .float) (kind == .int) u i lit := by
  obtain ⟨n, b, i64, u64⟩ := fl
  cases kind <;> simp [Kind.isNum] at hk <;>
    cases n <;> cases b <;> cases i64 <;> cases u64 <;> cases u <;> cases i <;>
    first | rfl | (simp at hfit) | simp +decide [dynChoice, precedence]

/-- the flags never change a numeric value: whatever is chosen carries the decoder's value or the literal itself -/
theorem dynChoice_value (fl : DynFlags) (kind : Kind) (u : Option Nat) (i : Option Int) (lit : Bytes) :
    match dynChoice fl kind u i lit with
    | .u64 v => u = some v
    | .i64 v => i = some v
    | .big l => l = lit
    | .num l => l = lit
    | .f64 => True
    | .err => False := by
  obtain ⟨n, b, i64, u64⟩ := fl
  cases kind <;> cases n <;> cases b <;> cases i64 <;> cases u64 <;> cases u <;> cases i <;> simp [dynChoice]

/-- without any of the three conditional flags the number kind is not even consulted: UseNumber alone decides -/
theorem no_conditional_flags (useNumber : Bool) (b : Bytes) (k : Kind) (r : Bytes) (h : parseNumber b = .ok k r) :
    decodeDynamicNumber ⟨useNumber, false, false, false⟩ b = if useNumber then .num (litOf b r) else .f64 := by
  cases useNumber <;> simp [decodeDynamicNumber, h, dynChoice]


/-! ## Cross-model theorems: what the ENCODER models write, the DECODER / VALIDATOR / TOKENIZER models read back

The encoder side (`encodeString`, proved equal to encoding/json's `appendString` in C01) and the decoder side
(`parseStringUnquote` / `unmarshalString`, proved equal to encoding/json's `unquote` in C02; `valid` = RFC 8259 in C05;
`tokens` = the token specification in C17) are connected here. Proofs: Enc/Lemmas/JsonRT*.lean.
`Spec.Json.coerceUTF8 s` is Go's `string([]rune(s))`: every byte that is not part of a well-formed UTF-8 sequence
becomes U+FFFD — the only change a JSON round trip may make to a Go string. -/

/-- **String round trip (A), decoder entry point, any continuation.** For EVERY byte string `s` (valid UTF-8 or not),
both EscapeHTML settings, whatever bytes follow the literal, and any parse flags that are sound for the input (the flags
`Parse` computes always are: `Lemmas.JsonValid.internalParseFlags_qsound`): the string decoder applied to the string
encoder's output returns `s` with invalid UTF-8 replaced by U+FFFD and hands back exactly the bytes that followed. -/
theorem string_round_trip (fl : PFlags) (s : Bytes) (html : Bool) (rest : Bytes)
    (hq : Lemmas.JsonString.QSound fl (encodeString s html ++ rest)) :
    parseStringUnquote fl (encodeString s html ++ rest) = some (Spec.Json.coerceUTF8 s, rest) :=
  Lemmas.JsonRTString.parseStringUnquote_encodeString fl s html rest hq

/-- **String round trip (A), whole document**: `Unmarshal(Append(nil, s, flags), &str)` — no hypothesis. -/
theorem string_round_trip_unmarshal (s : Bytes) (html : Bool) :
    unmarshalString (encodeString s html) = some (Spec.Json.coerceUTF8 s) :=
  Lemmas.JsonRTString.roundtrip_model s html

/-- … the same statement about the standard library alone (its encoder transcription read by its decoder
transcription), which the two model = stdlib theorems (C01 `encodeString_eq`, C02 `unmarshalString_eq`) transport -/
theorem string_round_trip_std (s : Bytes) (html : Bool) :
    Spec.Json.unmarshalString (Spec.Json.appendString s html) = some (Spec.Json.coerceUTF8 s) :=
  Lemmas.JsonRTString.roundtrip_std s html

/-- EscapeHTML changes the representation only: both settings decode to the same string -/
theorem escapeHTML_changes_representation_only (s : Bytes) :
    unmarshalString (encodeString s true) = unmarshalString (encodeString s false) :=
  Lemmas.JsonRTString.escapeHTML_changes_representation_only s

/-- valid UTF-8 comes back unchanged -/
theorem string_round_trip_valid_utf8 (s : Bytes) (html : Bool) (h : Spec.Json.ValidUTF8 s) :
    unmarshalString (encodeString s html) = some s :=
  Lemmas.JsonRTString.roundtrip_valid_utf8 s html h

/-- the model's chunk-wise `appendCoerceInvalidUTF8` over a whole string is the specification's coercion -/
theorem coerce_model_eq_spec (b : Bytes) (f : Nat) (hf : b.length ≤ f) : coerceUTF8 f b = Spec.Json.coerceUTF8 b :=
  Lemmas.JsonRTUtf8.model_coerce_eq b f hf

/-- the encoder's output is valid JSON for the validator model … -/
theorem encodeString_valid (s : Bytes) (html : Bool) : valid (encodeString s html) = true :=
  Lemmas.JsonRTString.valid_encodeString s html

/-- … is accepted by the RFC 8259 `string` production with nothing consumed beyond it … -/
theorem encodeString_is_one_string (s : Bytes) (html : Bool) (rest : Bytes) :
    Spec.Json.string (encodeString s html ++ rest) = some rest := by
  rw [Lemmas.JsonEncString.encodeString_eq]; exact Lemmas.JsonRTString.string_accepts s html rest

/-- … and is ONE token for the tokenizer model (no error, text = the whole output, depth 0, index 0, not a key) -/
theorem encodeString_single_token (s : Bytes) (html : Bool) :
    (Token.tokens (encodeString s html)).2 = false ∧
    (Token.tokens (encodeString s html)).1.map (fun t => (t.delim, t.value, t.depth, t.index, t.isKey)) =
      [(0, encodeString s html, 0, 0, false)] :=
  Lemmas.JsonRTString.tokens_encodeString s html

/-- the output contains no raw control byte and, with EscapeHTML, no raw `<` `>` `&` -/
theorem encodeString_no_control_bytes (s : Bytes) (html : Bool) :
    ∀ b ∈ encodeString s html, 0x20 ≤ b ∧ (html = true → b ≠ 0x3c ∧ b ≠ 0x3e ∧ b ≠ 0x26) := by
  intro b hb
  have h := Lemmas.JsonRTString.encodeString_bytes s html b hb
  simp only [Lemmas.JsonRTString.okByte, Bool.and_eq_true, decide_eq_true_eq, Bool.not_eq_true', Bool.and_eq_false_iff,
    Bool.or_eq_false_iff, beq_eq_false_iff_ne, ne_eq] at h
  refine ⟨h.1, fun hh => ?_⟩
  rcases h.2 with h2 | h2
  · rw [hh] at h2; cases h2
  · exact ⟨h2.1.1, h2.1.2, h2.2⟩

/-- hence the decoder's input-wide fast-path flags ("no backslash", "printable ASCII") cannot change its meaning -/
theorem string_decode_flags_irrelevant (fl : PFlags) (s : Bytes) (html : Bool) (rest : Bytes)
    (hq : Lemmas.JsonString.QSound fl (encodeString s html ++ rest)) :
    parseStringUnquote fl (encodeString s html ++ rest) = parseStringUnquote {} (encodeString s html ++ rest) :=
  Lemmas.JsonRTString.decode_flags_irrelevant fl s html rest hq



/-! ## integers: what `formatInteger` / `appendInt` writes, `parseInt` / `parseUint` read back (B)

`NumEnd rest`: `rest` cannot continue a number (it is empty or starts with none of a digit, `.`, `e`, `E`) — what follows
a number in any rendering. Machine integers are `BitVec 64` as in the decoder model. -/

/-- **B (signed).** For every int64 `i`: `parseInt` applied to the encoder's text returns exactly `i` and the rest -/
theorem int_round_trip (i : Int) (h : -2 ^ 63 ≤ i ∧ i < 2 ^ 63) (rest : Bytes) (hr : Lemmas.JsonRTValue.NumEnd rest) :
    parseInt (appendInt i ++ rest) = .ok (BitVec.ofInt 64 i) rest :=
  Lemmas.JsonRTInt.parseInt_appendInt i h rest hr

/-- **B (unsigned).** For every uint64 `n`: `parseUint` applied to `formatInteger n` returns exactly `n` and the rest -/
theorem uint_round_trip (n : Nat) (h : n < 2 ^ 64) (rest : Bytes) (hr : Lemmas.JsonRTValue.NumEnd rest) :
    parseUint (formatInteger n false ++ rest) = .ok (BitVec.ofNat 64 n) rest :=
  Lemmas.JsonRTInt.parseUint_formatInteger n h rest hr

/-- out of range ⇒ error: a uint64 above MaxInt64 is refused by `parseInt`, a negative number by `parseUint` -/
theorem int_round_trip_overflow (i : Int) (h : 2 ^ 63 ≤ i ∧ i < 2 ^ 64) (rest : Bytes)
    (hr : Lemmas.JsonRTValue.NumEnd rest) : parseInt (appendInt i ++ rest) = .err :=
  Lemmas.JsonRTInt.parseInt_appendInt_overflow i h rest hr
theorem uint_round_trip_negative (i : Int) (h : -2 ^ 63 ≤ i ∧ i < 0) (rest : Bytes) :
    parseUint (appendInt i ++ rest) = .err :=
  Lemmas.JsonRTInt.parseUint_appendInt_neg i h rest

/-- **B (all ten widths).** For every integer the encoder can be given (int64 or uint64 range) and every integer
target type: `Unmarshal(Append(nil, i), &x)` stores `i` when it fits the type of `x` and returns an error otherwise -/
theorem int_round_trip_all_widths (t : ITy) (i : Int) (h : -2 ^ 63 ≤ i ∧ i < 2 ^ 64) :
    unmarshalInt t (appendInt i) =
      if Lemmas.JsonDecInt.lo t ≤ i ∧ i ≤ Lemmas.JsonDecInt.hi t then some i else none :=
  Lemmas.JsonRTInt.unmarshalInt_appendInt t i h

/-- … the same about the standard library alone (strconv's decimal text read by literalStore) -/
theorem int_round_trip_all_widths_std (t : ITy) (i : Int) (h : -2 ^ 63 ≤ i ∧ i < 2 ^ 64) :
    Spec.Json.unmarshalInt t.signed (Lemmas.JsonDecInt.lo t) (Lemmas.JsonDecInt.hi t) (Spec.Json.intString i) =
      if Lemmas.JsonDecInt.lo t ≤ i ∧ i ≤ Lemmas.JsonDecInt.hi t then some i else none := by
  rw [← Lemmas.JsonDecInt.unmarshalInt_eq, ← Lemmas.JsonEncInt.appendInt_eq i h]
  exact Lemmas.JsonRTInt.unmarshalInt_appendInt t i h

/-- the encoder's integer text is one valid JSON number for the validator model -/
theorem appendInt_valid (i : Int) (h : -2 ^ 63 ≤ i ∧ i < 2 ^ 64) : valid (appendInt i) = true :=
  Lemmas.JsonRTInt.valid_appendInt i h

/-- non-vacuity: MinInt64 round-trips through int64 and is refused by int32; MaxUint64 fits uint64 only -/
example : parseInt (appendInt (-9223372036854775808)) = .ok (BitVec.ofInt 64 (-9223372036854775808)) [] := by
  decide +kernel
example : unmarshalInt .i32 (appendInt (-9223372036854775808)) = none := by decide +kernel
example : unmarshalInt .u64 (appendInt 18446744073709551615) = some 18446744073709551615 := by decide +kernel
example : unmarshalInt .i64 (appendInt 18446744073709551615) = none := by decide +kernel

/-! ## whole values: "otherwise valid JSON" (C14) / "output is accepted by Valid" (C05) / tokens (C17)

`Spec.Json.render` is the buffer-free rendering that `Append` was proved to produce (C15 `append_eq_render`) over the value
universe `JV` (null, bool, integers, strings, []byte as base64, arrays, structs with omitempty / `,string` / skipped
fields, failing encoders). `JV` has no raw messages, so the TrustRawMessage hypothesis of the property is not needed.
The only hypothesis is the nesting depth: like encoding/json's, the validator refuses more than 10000 levels
(`Props.C05.deep_rejected`), while the encoder has no limit — so a value nested deeper renders to a text that `Valid`
rejects, for both libraries alike; `render_is_grammatical` states the unbounded fact for the RFC 8259 grammar itself. -/

open Enc.Model.Json.Buf in
/-- **C.** Every successful rendering of a value nested at most 10000 deep is valid JSON for the validator model -/
theorem render_valid (html : Bool) (v : JV) (x : Bytes) (h : Spec.Json.render html v = some x) (hd : v.depth ≤ 10000) :
    valid x = true :=
  Lemmas.JsonRTValue.valid_render html v x h hd

open Enc.Model.Json.Buf in
/-- the same for the model of `Append(nil, v, flags)` itself: no error ⇒ valid JSON -/
theorem append_output_valid (grow : Nat → Nat → Nat) (html : Bool) (v : JV) (hv : v.Ranged) (hd : v.depth ≤ 10000)
    (he : (append grow html Slice.empty v).2 = false) : valid (append grow html Slice.empty v).1 = true :=
  Lemmas.JsonRTValue.append_valid grow html v hv hd he

open Enc.Model.Json.Buf in
/-- the RFC 8259 grammar with any nesting budget `d ≥ depth v` and fuel ≥ the length reads the rendering as exactly one
value, whatever follows it among `,` `]` `}` or the end of input — no bound on the depth -/
theorem render_is_grammatical (html : Bool) (v : JV) (x : Bytes) (h : Spec.Json.render html v = some x) (f d : Nat)
    (rest : Bytes) (hf : x.length ≤ f) (hd : v.depth ≤ d) (hr : Lemmas.JsonRTValue.Term rest) :
    Spec.Json.value f d (x ++ rest) = some rest :=
  Lemmas.JsonRTValue.value_render html v x h f d rest hf hd hr

open Enc.Model.Json.Buf in
/-- **C (tokenizer).** The tokenizer model runs over a rendering without error and the token Values, concatenated, are
the rendering itself (it is already compact: `Lemmas.JsonRTValue.compact_render`) — no depth hypothesis, the tokenizer has
no nesting limit -/
theorem render_tokens_concat (html : Bool) (v : JV) (x : Bytes) (h : Spec.Json.render html v = some x) :
    (Token.tokens x).2 = false ∧ ((Token.tokens x).1.map (·.value)).flatten = x :=
  Lemmas.JsonRTValue.tokens_render html v x h

open Enc.Model.Json.Buf in
/-- … and the rendering is a valid document for the token specification of C17 -/
theorem render_has_tokens (html : Bool) (v : JV) (x : Bytes) (h : Spec.Json.render html v = some x) :
    ∃ ts, Spec.Json.tokensOf x = some ts ∧ (ts.map (·.value)).flatten = x :=
  Lemmas.JsonRTValue.tokensOf_render html v x h

open Enc.Model.Json.Buf in
/-- non-vacuity: `[{"a":"<","n":"-5"},-5,"AQI=",[]]` with a skipped field and a `,string` field -/
example : Spec.Json.render false
    (.arr (.cons (.obj (.cons [0x61] false false false (.str [0x3c]) (.cons [0x7a] true false false (.int 0)
      (.cons [0x6e] false true false (.int (-5)) .nil))))
      (.cons (.int (-5)) (.cons (.bytes (some [1, 2])) (.cons (.arr .nil) .nil))))) =
    some [0x5b, 0x7b, 0x22, 0x61, 0x22, 0x3a, 0x22, 0x3c, 0x22, 0x2c, 0x22, 0x6e, 0x22, 0x3a, 0x22, 0x2d, 0x35, 0x22, 0x7d, 0x2c,
      0x2d, 0x35, 0x2c, 0x22, 0x41, 0x51, 0x49, 0x3d, 0x22, 0x2c, 0x5b, 0x5d, 0x5d] := by decide +kernel

/-! ## SortMapKeys (D): object members are only permuted

Model: Model/Json/MapOrder.lean (`encodeMapStringString`: the entries in the runtime's iteration order — a parameter —
written as they come, or sorted by key with `sort.Sort` first). -/

open Enc.Model.Json.MapOrder in
/-- the member list written without SortMapKeys is a permutation of the member list written with it, for every
iteration order the runtime may produce -/
theorem sortMapKeys_members_perm (html : Bool) (es : Entries) :
    (Lemmas.JsonRTMap.memberTexts html es).Perm (Lemmas.JsonRTMap.memberTexts html (sortEntries es)) :=
  Lemmas.JsonRTMap.members_perm html es

open Enc.Model.Json.MapOrder in
/-- … where both outputs are `{` + those members joined by `,` + `}` -/
theorem sortMapKeys_output_shape (html sortKeys : Bool) (es : Entries) :
    encodeMapStringString html sortKeys (some es) =
      [0x7b] ++ Spec.Json.joinWith 0x2c (Lemmas.JsonRTMap.memberTexts html (if sortKeys then sortEntries es else es)) ++ [0x7d] :=
  Lemmas.JsonRTMap.encodeMap_members html sortKeys es

open Enc.Model.Json.MapOrder in
/-- same set of (key, value) entries, and with the flag the keys ascend in byte-wise order -/
theorem sortMapKeys_same_entries (es : Entries) (p : Bytes × Bytes) : p ∈ sortEntries es ↔ p ∈ es :=
  Lemmas.JsonRTMap.sortEntries_mem es p
open Enc.Model.Json.MapOrder in
theorem sortMapKeys_sorted (es : Entries) : List.Pairwise (fun p q => strLE p.1 q.1 = true) (sortEntries es) :=
  Lemmas.JsonRTMap.sortEntries_sorted es

open Enc.Model.Json.MapOrder in
/-- both outputs are valid JSON, whatever the iteration order (nil map: `null`) -/
theorem sortMapKeys_both_valid (html sortKeys : Bool) (m : Option Entries) :
    valid (encodeMapStringString html sortKeys m) = true :=
  Lemmas.JsonRTMap.encodeMap_valid html sortKeys m

open Enc.Model.Json.MapOrder in
/-- non-vacuity: {"b":"1","a":"<"} in iteration order b, a -/
example : encodeMapStringString true false (some [([0x62], [0x31]), ([0x61], [0x3c])]) =
      [0x7b, 0x22, 0x62, 0x22, 0x3a, 0x22, 0x31, 0x22, 0x2c, 0x22, 0x61, 0x22, 0x3a, 0x22, 0x5c, 0x75, 0x30, 0x30, 0x33, 0x63, 0x22, 0x7d] := by
  decide +kernel
open Enc.Model.Json.MapOrder in
example : sortEntries [([0x62], [0x31]), ([0x61], [0x3c])] = [([0x61], [0x3c]), ([0x62], [0x31])] := by
  simp [sortEntries, List.mergeSort, List.MergeSort.Internal.splitInTwo, strLE]

/-- non-vacuity: HTML characters, a control byte, U+2028, an invalid byte, a UTF-8 encoded surrogate (invalid: three
U+FFFD) and a quote, with EscapeHTML on and off -/
example : unmarshalString (encodeString [0x3c, 0x61, 0x01, 0xe2, 0x80, 0xa8, 0xff, 0xed, 0xa0, 0x80, 0x22] true)
    = some [0x3c, 0x61, 0x01, 0xe2, 0x80, 0xa8, 0xef, 0xbf, 0xbd, 0xef, 0xbf, 0xbd, 0xef, 0xbf, 0xbd, 0xef, 0xbf, 0xbd, 0x22] := by
  decide +kernel
example : Spec.Json.coerceUTF8 [0x3c, 0x61, 0x01, 0xe2, 0x80, 0xa8, 0xff, 0xed, 0xa0, 0x80, 0x22]
    = [0x3c, 0x61, 0x01, 0xe2, 0x80, 0xa8, 0xef, 0xbf, 0xbd, 0xef, 0xbf, 0xbd, 0xef, 0xbf, 0xbd, 0xef, 0xbf, 0xbd, 0x22] := by
  decide +kernel
example : Spec.Json.ValidUTF8 [0x61, 0xc3, 0xa9, 0xe2, 0x80, 0xa8, 0xf0, 0x9f, 0x98, 0x80] := by
  unfold Spec.Json.ValidUTF8; decide +kernel

end Enc.Props.C14
