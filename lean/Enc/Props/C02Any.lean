import Enc.Lemmas.JsonDecAnyTop
import Enc.Lemmas.JsonDecAnyRender
import Enc.Lemmas.JsonDecAnyInto
/-!
# C02 (value level) / C14 (last clause) — json.Unmarshal into an empty interface stores what encoding/json stores
Property theorems only. Model: `Enc/Model/Json/DecAny.lean` (decodeInterface / decodeMapStringInterface / decodeSlice /
decodeString / decodeDynamicNumber as written: two passes, re-nesting, re-parses). Specification:
`Enc/Spec/Json/DecAnySpec.lean` (the value denoted by a document, by recursion on the RFC 8259 grammar of
`Spec/Json/Grammar.lean`). Proofs: `Enc/Lemmas/JsonDecAny*.lean`.

Scope: target `var x any` holding nil (and, recursively, the `map[string]any` / `[]any` it produces); flags: every subset
of UseNumber / UseBigInt / UseInt64 / UseUint64. `strconv.ParseFloat` is a shared parameter: a float64 leaf is its
literal, and the one fact used about ParseFloat is when it reports a range error (`Spec.Json.floatOverflows`).
-/
namespace Enc.Props.C02Any
open Enc Enc.Model.Json

def noFlags' : DynFlags := ⟨false, false, false, false⟩

/-- **MAIN.** For EVERY byte string and every subset of the four dynamic-number flags, `Unmarshal(doc, &x)` (`var x any`)
as coded — skipSpaces, whole-input flags, the syntax-only pre-parse of every value followed by the type-directed second
pass over the slice cut out of the input, `d.nest` in both passes, the map built by successive assignments, the
dynamic-number switch, strconv range errors, the re-parse of the enclosing containers on an error, trailing bytes — returns
exactly what the grammar-directed specification of encoding/json's behaviour says: the same success or failure and, on
success, the same value. The only deviation is the CLASS of the error in one corner: where the specification reports an
UnmarshalTypeError (an out-of-range float64) the code may report a SyntaxError instead (exactly when the document is
nested to the limit of 10000, see `decodeAny_eq_spec_exact`: on an element error decodeSlice / decodeMapStringInterface
re-parse their input with the already nested decoder, one level too deep — finding `jsonDecAnyErrClassAtDepthLimit`). -/
theorem decodeAny_eq_spec (flags : DynFlags) (doc : Bytes) :
    unmarshalAny flags doc = Spec.Json.unmarshalAny flags doc ∨
      (unmarshalAny flags doc = .syntaxErr ∧ Spec.Json.unmarshalAny flags doc = .typeErr) :=
  Lemmas.JsonDecAny.unmarshalAny_spec flags doc

/-- **MAIN, exact form.** `unmarshalAny` IS the specification, except that an UnmarshalTypeError of the specification is
reported as a SyntaxError exactly when the document is nested to the limit — its top-level value is a container that the
RFC 8259 grammar accepts with a nesting budget of 10000 but not with 9999 (`atDepthLimit`): decodeSlice /
decodeMapStringInterface re-parse their input with the decoder that `d.nest` already moved one level down. -/
theorem decodeAny_eq_spec_exact (flags : DynFlags) (doc : Bytes) :
    unmarshalAny flags doc =
      Lemmas.JsonDecAny.withClass (!Lemmas.JsonDecAnyTop.atDepthLimit flags doc) (Spec.Json.unmarshalAny flags doc) :=
  Lemmas.JsonDecAnyTop.unmarshalAny_exact' flags doc

/-- no deviation at all below the limit (sufficient condition: at most 9999 bytes) -/
theorem decodeAny_eq_spec_of_short (flags : DynFlags) (doc : Bytes) (hs : doc.length ≤ 9999) :
    unmarshalAny flags doc = Spec.Json.unmarshalAny flags doc :=
  Lemmas.JsonDecAnyTop.unmarshalAny_eq_of_short flags doc hs

/-- … in particular success and the value stored never deviate -/
theorem decodeAny_ok_eq_spec (flags : DynFlags) (doc : Bytes) (v : GV) :
    unmarshalAny flags doc = .ok v ↔ Spec.Json.unmarshalAny flags doc = .ok v :=
  Lemmas.JsonDecAnyTop.model_ok_iff_spec_ok flags doc v

/-- **Parse** (flags, remainder returned): it succeeds exactly when a value of the grammar starts the document (after
white space) and holds no out-of-range float64; it then stores that value and returns what follows it, minus white space -/
theorem parseAny_ok_iff (flags : DynFlags) (doc : Bytes) (v : GV) (rest : Bytes) :
    parseAny flags doc = .ok v rest ↔
      ∃ r, Spec.Json.valueV flags (3 * doc.length + 8) 10000 (Spec.Json.ws doc) = some (v, false, r) ∧
        rest = Spec.Json.ws r :=
  Lemmas.JsonDecAnyTop.parseAny_ok_iff flags doc v rest

/-- the same for `decodeInterface` at any nesting depth already entered, any sufficient fuel, any remainder (this is
what the element / member decoders of typed containers call for `any`-typed slots) -/
theorem decodeInterface_eq_spec (fl : PFlags) (flags : DynFlags) (F g depth f' : Nat) (b : Bytes)
    (hd : depth ≤ Gen.c_json_maxNestingDepth) (hg : 3 * b.length ≤ g) (hF : 3 * b.length ≤ F) (hf' : 2 * b.length ≤ f')
    (hq : Lemmas.JsonString.QSound fl b) :
    Lemmas.JsonDecAny.RV fl F depth b (decodeInterface fl flags F depth g b)
      (Spec.Json.valueV flags f' (Gen.c_json_maxNestingDepth - depth) b) :=
  Lemmas.JsonDecAny.decodeInterface_spec fl flags F g depth f' b hd hg hF hf' hq

/-- **accept / reject.** A decode into `any` succeeds exactly on the documents that `encoding/json.Valid` accepts
(RFC 8259 with nesting at most 10000: `Spec.Json.validStd`, which `Props.C05.valid_eq_std` ties to `json.Valid`) and
that contain no float64 leaf out of range. -/
theorem decodeAny_ok_iff_valid (flags : DynFlags) (doc : Bytes) :
    (∃ v, unmarshalAny flags doc = .ok v) ↔
      (Spec.Json.validStd doc = true ∧ Lemmas.JsonDecAnyTop.docOverflows flags doc = false) :=
  Lemmas.JsonDecAnyTop.ok_iff_valid flags doc

/-- with UseNumber there is no float64 leaf: success ⇔ validity -/
theorem decodeAny_useNumber_ok_iff_valid (flags : DynFlags) (hn : flags.useNumber = true) (doc : Bytes) :
    (∃ v, unmarshalAny flags doc = .ok v) ↔ Spec.Json.validStd doc = true :=
  Lemmas.JsonDecAnyTop.useNumber_ok_iff_valid flags hn doc

/-- the specification reports a syntax error exactly on the invalid documents, whatever the flags -/
theorem spec_syntax_iff_invalid (flags : DynFlags) (doc : Bytes) :
    Spec.Json.unmarshalAny flags doc = .syntaxErr ↔ Spec.Json.validStd doc = false :=
  Lemmas.JsonDecAnyTop.syntax_iff_invalid flags doc

/-- **C14, last clause.** UseNumber / UseBigInt / UseInt64 / UseUint64 change only the dynamic type chosen for numbers
stored in interfaces: for two flag subsets under which the document decodes, the two values are equal once the type tags
of the number leaves are erased (same shape, same keys, same strings, the same LITERAL at every number leaf — hence the
same numeric value), and every tag is the one the documented precedence assigns to the literal (`dynKindOf`, i.e.
`dynSpec`; `Lemmas.JsonDecAnyNum.decodeDynamicNumber_eq_dynSpec` ties it to the two switches of decodeDynamicNumber). -/
theorem number_flags_change_type_only (f1 f2 : DynFlags) (doc : Bytes) (v1 v2 : GV)
    (h1 : unmarshalAny f1 doc = .ok v1) (h2 : unmarshalAny f2 doc = .ok v2) :
    Lemmas.JsonDecAnyFlags.eraseV v1 = Lemmas.JsonDecAnyFlags.eraseV v2 ∧
      Lemmas.JsonDecAnyFlags.tagsOK f1 v1 = true ∧ Lemmas.JsonDecAnyFlags.tagsOK f2 v2 = true :=
  Lemmas.JsonDecAnyTop.flags_change_type_only f1 f2 doc v1 v2 h1 h2

/-- the model of decodeDynamicNumber = the documented precedence, type AND value, on every number literal -/
theorem dynamic_number_is_documented (flags : DynFlags) (lit : Bytes) (h : Spec.Json.number lit = some []) :
    decodeDynamicNumber flags lit = Spec.Json.dynSpec flags lit :=
  Lemmas.JsonDecAnyNum.decodeDynamicNumber_eq_dynSpec flags lit h

/-- **duplicate keys: the last one wins.** The map built from the members of an object (document order, keys compared
after unquoting) gives every key the value of its LAST occurrence. -/
theorem duplicate_keys_last_wins (k : Bytes) (ms : List (Bytes × GV)) :
    (Spec.Json.mapOf ms).lookup k = Lemmas.JsonDecAnyTop.lastWins k none ms :=
  Lemmas.JsonDecAnyTop.lookup_mapOf k ms

/-- **totality.** The decode never produces a value outside the generic universe (the typed-nil branches of
decodeSlice / decodeMapStringInterface are dead; the model has no panicking operation at all), and fuel is irrelevant:
above the bound `3·|b|` the success part of the result does not depend on it. -/
theorem decodeAny_total (flags : DynFlags) (doc : Bytes) : unmarshalAny flags doc ≠ .unrep :=
  Lemmas.JsonDecAnyTop.unmarshalAny_ne_unrep flags doc

theorem decodeAny_fuel_irrelevant (fl : PFlags) (flags : DynFlags) (depth : Nat) (b : Bytes) (F g F' g' : Nat)
    (hd : depth ≤ Gen.c_json_maxNestingDepth) (hq : Lemmas.JsonString.QSound fl b)
    (hF : 3 * b.length ≤ F) (hg : 3 * b.length ≤ g) (hF' : 3 * b.length ≤ F') (hg' : 3 * b.length ≤ g') :
    Lemmas.JsonDecAny.okPart (decodeInterface fl flags F depth g b) =
        Lemmas.JsonDecAny.okPart (decodeInterface fl flags F' depth g' b) ∧
      decodeInterface fl flags F depth g b ≠ .unrep :=
  Lemmas.JsonDecAnyTop.fuel_irrelevant fl flags depth b F g F' g' hd hq hF hg hF' hg'

/-- **round trip through the encoder's specification.** For every value `v` of the `JV` universe rendered by
`Spec.Json.render` (Spec/Json/Render.lean: the text `Append`/`Marshal` must produce) that only uses the generic
constructors — null, booleans, integers, strings (ANY bytes), arrays, objects with plain fields (any names, duplicates
allowed) — and is nested at most 10000 deep, with or without HTML escaping: `Unmarshal` of the rendering into `any` with
UseNumber succeeds and stores `generic v`: integers as `Number` leaves carrying their decimal rendering, strings with
invalid UTF-8 replaced by U+FFFD (as the encoder wrote them), objects as maps where the last duplicate field wins. -/
theorem decodeAny_render (html : Bool) (v : Model.Json.Buf.JV) (text : Bytes)
    (hg : Lemmas.JsonDecAnyRender.isGeneric v = true) (hr : Spec.Json.render html v = some text)
    (hd : Lemmas.JsonDecAnyRender.depth v ≤ 10000) :
    unmarshalAny ⟨true, false, false, false⟩ text = .ok (Lemmas.JsonDecAnyRender.generic v) :=
  Lemmas.JsonDecAnyRender.unmarshal_render html v text hg hr hd

/-- non-vacuity: `{"a":[-5,"\ufffd<"]}` (html escaping on) is the rendering of a generic value with an invalid byte -/
example : Spec.Json.render true
    (.obj (.cons [0x61] false false false (.arr (.cons (.int (-5)) (.cons (.str [0xff, 0x3c]) .nil))) .nil))
    = some [0x7b, 0x22, 0x61, 0x22, 0x3a, 0x5b, 0x2d, 0x35, 0x2c, 0x22, 0x5c, 0x75, 0x66, 0x66, 0x66, 0x64,
      0x5c, 0x75, 0x30, 0x30, 0x33, 0x63, 0x22, 0x5d, 0x7d] := by decide +kernel
example : Lemmas.JsonDecAnyRender.isGeneric
    (.obj (.cons [0x61] false false false (.arr (.cons (.int (-5)) (.cons (.str [0xff, 0x3c]) .nil))) .nil)) = true := by
  decide

/-- **a target that already holds data.** `decodeInterface` with all its branches — whatever the interface holds is
overwritten as if it were nil, unless it is a non-nil pointer (here: `*any`, chains of any length), which is decoded into
through `d.parse` and kept, the document `null` resetting the interface — agrees with encoding/json's rule
(`Spec.Json.unmarshalInto`), for every byte string, flag subset and pointer chain (same caveat on the error class). -/
theorem decodeAny_into_eq_spec (flags : DynFlags) (prior : Prior) (doc : Bytes) :
    unmarshalInto flags prior doc = Spec.Json.unmarshalInto flags prior doc ∨
      (unmarshalInto flags prior doc = .syntaxErr ∧ Spec.Json.unmarshalInto flags prior doc = .typeErr) :=
  Lemmas.JsonDecAnyInto.unmarshalInto_spec flags doc prior

/-- data left by an earlier decode (a map, a slice, a string, a number, a bool — anything but a non-nil pointer) has no
influence: the result is that of a decode into a nil interface -/
theorem decodeAny_overwrites_nonpointer (flags : DynFlags) (doc : Bytes) :
    unmarshalInto flags .other doc = Lemmas.JsonDecAnyInto.liftU (unmarshalAny flags doc) :=
  Lemmas.JsonDecAnyInto.unmarshalInto_other flags doc

/-- non-vacuity: `[1]` into x = &y (y = &z): z receives the array, both pointers are kept; `null` resets x -/
example : unmarshalInto noFlags' (.ptrAny (.ptrAny .other)) [0x5b, 0x31, 0x5d]
    = .ok (.ptr (.ptr (.val (.arr (.cons (.num [0x31] .f64) .nil))))) := by decide +kernel
example : unmarshalInto noFlags' (.ptrAny (.ptrAny .other)) [0x20, 0x6e, 0x75, 0x6c, 0x6c] = .ok (.val .null) := by
  decide +kernel

/-! ### non-vacuity -/

def noFlags : DynFlags := ⟨false, false, false, false⟩
def allInt : DynFlags := ⟨false, true, true, true⟩

/-- `{"a":1,"a":[2.5,null]}`: the duplicate key keeps the last value -/
example : unmarshalAny noFlags
    [0x7b, 0x22, 0x61, 0x22, 0x3a, 0x31, 0x2c, 0x22, 0x61, 0x22, 0x3a, 0x5b, 0x32, 0x2e, 0x35, 0x2c, 0x6e, 0x75, 0x6c, 0x6c, 0x5d, 0x7d]
    = .ok (.obj (.cons [0x61] (.arr (.cons (.num [0x32, 0x2e, 0x35] .f64) (.cons .null .nil))) .nil)) := by decide +kernel
/-- `[1,-2]` with UseUint64|UseInt64|UseBigInt: uint64 and int64 leaves, same literals -/
example : unmarshalAny allInt [0x5b, 0x31, 0x2c, 0x2d, 0x32, 0x5d]
    = .ok (.arr (.cons (.num [0x31] .u64) (.cons (.num [0x2d, 0x32] .i64) .nil))) := by decide +kernel
/-- `[1e999]`: a float64 out of range is a type error; with UseNumber (`⟨true,…⟩`) it decodes -/
example : unmarshalAny noFlags [0x5b, 0x31, 0x65, 0x39, 0x39, 0x39, 0x5d] = .typeErr := by decide +kernel
example : unmarshalAny ⟨true, false, false, false⟩ [0x5b, 0x31, 0x65, 0x39, 0x39, 0x39, 0x5d]
    = .ok (.arr (.cons (.num [0x31, 0x65, 0x39, 0x39, 0x39] .num) .nil)) := by decide +kernel
/-- `[1,]` and `1 x` are syntax errors -/
example : unmarshalAny noFlags [0x5b, 0x31, 0x2c, 0x5d] = .syntaxErr := by decide +kernel
example : unmarshalAny noFlags [0x31, 0x20, 0x78] = .syntaxErr := by decide +kernel

/-- the shared parameter `floatOverflows` (strconv.ParseFloat's range error) at its boundary 2^1024 − 2^970 =
1.797693134862315807937…e308: the 19-digit literals just below and just above, `1e309`, a long mantissa with a negative
exponent, `0e999`, `1e-999` -/
example : Spec.Json.floatOverflows "1.797693134862315807e308".toUTF8.toList = false := by decide +kernel
example : Spec.Json.floatOverflows "1.797693134862315808e308".toUTF8.toList = true := by decide +kernel
example : Spec.Json.floatOverflows "-1e309".toUTF8.toList = true := by decide +kernel
example : Spec.Json.floatOverflows "1000000000000000000000000000000000000000000e280".toUTF8.toList = true := by
  decide +kernel
example : Spec.Json.floatOverflows "0e999".toUTF8.toList = false := by decide +kernel
example : Spec.Json.floatOverflows "1e-999".toUTF8.toList = false := by decide +kernel

end Enc.Props.C02Any
