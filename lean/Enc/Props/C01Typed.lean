import Enc.Lemmas.JsonEncTypedEq
import Enc.Lemmas.JsonRtTypedTop
import Enc.Lemmas.JsonRtTypedUnsortedTop
import Enc.Lemmas.JsonRtTypedUnsortedStd
import Enc.Lemmas.JsonEncTypedValid
import Enc.Lemmas.JsonDecTypedValid
import Enc.Lemmas.JsonValid
/-!
# C01 / C02 / C14 — json.Marshal of TYPED values, and the typed round trip `Unmarshal(Marshal(v)) = v`

Property theorems only. Model: `Enc/Model/Json/EncTyped.lean` (`encodeTyped` = the codec that constructCodec builds for a type
of the universe `JT` of the typed decoder, encoding direction: encodeBool, encodeInt…/encodeUint… (appendInt / formatInteger),
encodeFloat64 (Model/Json/EncFloat.lean), encodeString, encodeBytes, encodeSlice / encodeArray, the map encoders, encodePointer,
encodeStruct, encodeInterface → `Append` of the dynamic value). Specification: `Enc/Spec/Json/EncTypedSpec.lean` (encoding/json's
output by recursion on type and value) and `Enc/Spec/Json/TypedRoundTrip.lean` (`norm`, `canon`). Proofs:
`Enc/Lemmas/JsonEncTyped*.lean`, `Enc/Lemmas/JsonRtTyped*.lean` (without SortMapKeys: `Enc/Lemmas/JsonRtTypedUnsorted*.lean`). Model, specification, the package and encoding/json are compared
on every case of harness/c01typed.go (ops `json.enctyped`, `json.rttyped`).

Parameters of every statement: `sc` — strconv on the float64 a literal denotes (TRUSTED shape `ScShape`, as in Props/C01Float.lean;
shared by both libraries); `ord` — the runtime's map iteration order (`OrdPerm`: a rearrangement of the entries).
-/
namespace Enc.Props.C01Typed
open Enc Enc.Model.Json Enc.Model.Json.Typed
open Enc.Lemmas.JsonEncTyped (okE wt ScShape OrdPerm okEntries)
open Enc.Lemmas.JsonDecTypedPlain (noPP)
open Enc.Spec.Json (encSpec canon wfT norm depthV)
open Enc.Lemmas.JsonRtTypedU (MemOrd SoPerm encSpecU genericTextU soOf)

/-- **C01, typed values (MAIN).** For every type of the universe (bool, the ten integer widths, float64, string, `[]T` incl.
`[]byte`, `[n]T`, `map[string]T`, `*T`, structs, `any` holding nil / a generic value / a pointer, arbitrarily nested), every
well-typed value (`wt`: shape of the type, integers in range, map keys distinct), both EscapeHTML settings, SortMapKeys set
(as `Marshal` does) and EVERY iteration order of the runtime's maps: the encoder as coded returns an error exactly when
encoding/json does, and otherwise exactly the bytes encoding/json returns. -/
theorem encodeTyped_eq_spec (sc : Strconv) (hsc : ScShape sc) (html : Bool) (ord : MapOrd) (hord : OrdPerm ord)
    (t : JT) (v : JV) (h : wt t v = true) : okE (encodeTyped sc html true ord t v) = encSpec sc html t v :=
  Lemmas.JsonEncTyped.encodeTyped_eq_spec sc hsc html ord hord t v h

/-- … hence `Marshal` (= Append with EscapeHTML | SortMapKeys) and the output does not depend on the iteration order -/
theorem marshalTyped_eq_spec (sc : Strconv) (hsc : ScShape sc) (t : JT) (v : JV) (h : wt t v = true) :
    okE (marshalTyped sc t v) = encSpec sc true t v :=
  Lemmas.JsonEncTyped.encodeTyped_eq_spec sc hsc true id (fun _ => List.Perm.refl _) t v h

theorem encodeTyped_iteration_order (sc : Strconv) (hsc : ScShape sc) (html : Bool) (ord ord' : MapOrd) (hord : OrdPerm ord)
    (hord' : OrdPerm ord') (t : JT) (v : JV) (h : wt t v = true) :
    okE (encodeTyped sc html true ord t v) = okE (encodeTyped sc html true ord' t v) := by
  rw [encodeTyped_eq_spec sc hsc html ord hord t v h, encodeTyped_eq_spec sc hsc html ord' hord' t v h]

/-- the map encoders, SortMapKeys on or off, any iteration order: the object written has the SAME members (key text, value text),
rearranged — `l'` is a permutation of the entries. (Statement for one map; the whole tree: `encodeTyped_sort_perm` below; the
round trip of the unsorted output: `typed_round_trip_unsorted`.) -/
theorem encodeMapT_sort_perm (html sortKeys : Bool) (ord : MapOrd) (hord : OrdPerm ord) (l : List (Bytes × Bytes)) :
    ∃ l' : List (Bytes × Bytes), l'.Perm l ∧ encodeMapT html sortKeys ord (okEntries l) =
      .ok ([0x7b] ++ MapKeyOrder.joinMembers (l'.map fun p => (encodeString p.1 html, p.2)) true ++ [0x7d]) :=
  Lemmas.JsonEncTyped.encodeMapT_perm html sortKeys ord hord l

/-- **C14 / C02, THE TYPED ROUND TRIP `Unmarshal(Marshal(v), &fresh) = v`.** For every type of the universe without
pointer-to-pointer whose struct field names are valid UTF-8 and distinct (`wfT`: Go identifiers are), every CANONICAL value `v`
of the type (`canon`: well-typed, map keys valid UTF-8, float literals canonical — what strconv + the ES6 clean-up write, so that
the literal itself comes back —, interfaces hold nil or generic values as `Unmarshal` produces them) nested at most 10000 deep
(the decoder's limit), both UseNumber settings: `Marshal` as coded succeeds, and `Unmarshal` as coded, given its output and a
fresh zero target, succeeds and stores `norm v` — `v` itself up to: fresh pointer identities, no stale slice tails, invalid
UTF-8 in strings replaced by U+FFFD, and a NON-NIL pointer to a nil slice / map / interface coming back as a nil pointer (both
are written `null`). nil-vs-empty of slices and maps SURVIVES (`null` vs `[]` / `{}`); `[]byte` goes through base64. -/
theorem typed_round_trip (sc : Strconv) (hsc : ScShape sc) (c : TFlags) (t : JT) (v : JV) (hpp : noPP t = true)
    (hwf : wfT t = true) (hc : canon sc c t v = true) (hd : depthV v ≤ 10000) :
    ∃ x, marshalTyped sc t v = .ok x ∧ unmarshalTyped c t (zeroOf t) x = .ok (norm v) := by
  obtain ⟨x, hx⟩ := Lemmas.JsonRtTyped.model_ok sc hsc c true id (fun _ => List.Perm.refl _) t v hc
  exact ⟨x, hx, Lemmas.JsonRtTyped.model_round_trip sc hsc c true id (fun _ => List.Perm.refl _) t v x hpp hwf hc hd hx⟩

/-- … the same for `Append(nil, v, flags)` with SortMapKeys, both EscapeHTML settings, every iteration order of the runtime.
(`_partial`: the SortMapKeys half; the other half is `typed_round_trip_unsorted`, both together `typed_round_trip_append`.) -/
theorem typed_round_trip_append_partial (sc : Strconv) (hsc : ScShape sc) (c : TFlags) (html : Bool)
    (ord : MapOrd) (hord : OrdPerm ord) (t : JT) (v : JV) (hpp : noPP t = true) (hwf : wfT t = true)
    (hc : canon sc c t v = true) (hd : depthV v ≤ 10000) :
    ∃ x, encodeTyped sc html true ord t v = .ok x ∧ unmarshalTyped c t (zeroOf t) x = .ok (norm v) := by
  obtain ⟨x, hx⟩ := Lemmas.JsonRtTyped.model_ok sc hsc c html ord hord t v hc
  exact ⟨x, hx, Lemmas.JsonRtTyped.model_round_trip sc hsc c html ord hord t v x hpp hwf hc hd hx⟩

/-! ### WITHOUT SortMapKeys (C14: "with SortMapKeys off object members are only permuted") -/

/-- **C14, the typed round trip of the UNSORTED output.** `Append(nil, v, flags)` WITHOUT SortMapKeys, both EscapeHTML
settings, EVERY iteration order `ord` of the runtime's maps (applied at every map node, typed maps and `map[string]any` inside
interfaces): the encoder as coded succeeds, and `Unmarshal` as coded stores `norm v` into a fresh zero target — the decoder
assigns the members in document order (`Props/C02Typed.merge_map`), canonical maps have pairwise distinct keys and the map
representation is order-normalised, so the order of the members does not matter. -/
theorem typed_round_trip_unsorted (sc : Strconv) (hsc : ScShape sc) (c : TFlags) (html : Bool)
    (ord : MapOrd) (hord : OrdPerm ord) (t : JT) (v : JV) (hpp : noPP t = true) (hwf : wfT t = true)
    (hc : canon sc c t v = true) (hd : depthV v ≤ 10000) :
    ∃ x, encodeTyped sc html false ord t v = .ok x ∧ unmarshalTyped c t (zeroOf t) x = .ok (norm v) := by
  obtain ⟨x, hx⟩ := Lemmas.JsonRtTypedU.model_okU sc hsc c html false ord hord t v hc
  exact ⟨x, hx, Lemmas.JsonRtTypedU.model_round_tripU sc hsc c html false ord hord t v x hpp hwf hc hd hx⟩

/-- … hence the full statement of `typed_round_trip_append_partial`: every flag combination of `Append` -/
theorem typed_round_trip_append (sc : Strconv) (hsc : ScShape sc) (c : TFlags) (html sortKeys : Bool)
    (ord : MapOrd) (hord : OrdPerm ord) (t : JT) (v : JV) (hpp : noPP t = true) (hwf : wfT t = true)
    (hc : canon sc c t v = true) (hd : depthV v ≤ 10000) :
    ∃ x, encodeTyped sc html sortKeys ord t v = .ok x ∧ unmarshalTyped c t (zeroOf t) x = .ok (norm v) := by
  obtain ⟨x, hx⟩ := Lemmas.JsonRtTypedU.model_okU sc hsc c html sortKeys ord hord t v hc
  exact ⟨x, hx, Lemmas.JsonRtTypedU.model_round_tripU sc hsc c html sortKeys ord hord t v x hpp hwf hc hd hx⟩

/-- the same about the standard library's decoder alone and ANY rearrangement `so` of the members at every map node:
`encSpecU sc html so` is `encSpec` with `so members` in place of the sorted members (`encSpecU_stdSort`) -/
theorem typed_round_trip_std_unsorted (sc : Strconv) (c : TFlags) (html : Bool) (so : MemOrd) (hso : SoPerm so) (t : JT) (v : JV)
    (x : Bytes) (hc : canon sc c t v = true) (hwf : wfT t = true) (hd : depthV v ≤ 10000)
    (hx : encSpecU sc html so t v = some x) : Spec.Json.unmarshalTyped c t (zeroOf t) x = some (norm v) :=
  Lemmas.JsonRtTypedU.spec_round_tripU sc c html so hso t v x hc hwf hd hx

/-- what `encSpecU` is: with the sort as rearrangement it is the specification encoder itself -/
theorem encSpecU_stdSort (sc : Strconv) (html : Bool) (t : JT) (v : JV) :
    encSpecU sc html Spec.Json.MapKeys.stdSort t v = encSpec sc html t v :=
  Lemmas.JsonRtTypedU.encSpecU_stdSort sc html t v

/-- **C14, the WHOLE value tree, every well-typed value: without SortMapKeys the members are only permuted.** The output
without SortMapKeys (iteration order `ord`) is the specification's output with a REARRANGEMENT (`soOf false ord`, a permutation
of its argument) in place of the sort at every map node of the tree — same member texts, same nesting —; it is an error exactly
when the sorted output (any iteration order `ord'`) is, and the two outputs have the same length. -/
theorem encodeTyped_sort_perm_wt (sc : Strconv) (hsc : ScShape sc) (html : Bool) (ord ord' : MapOrd) (hord : OrdPerm ord)
    (hord' : OrdPerm ord') (t : JT) (v : JV) (h : wt t v = true) :
    SoPerm (soOf false ord) ∧
    okE (encodeTyped sc html false ord t v) = encSpecU sc html (soOf false ord) t v ∧
    okE (encodeTyped sc html true ord' t v) = encSpec sc html t v ∧
    (okE (encodeTyped sc html false ord t v)).map List.length = (okE (encodeTyped sc html true ord' t v)).map List.length :=
  Lemmas.JsonRtTypedU.sort_perm_wt sc hsc html ord ord' hord hord' t v h

/-- … and for canonical values nested at most 10000 deep: both outputs exist, have the same length, and encoding/json's decoder
(the specification) reads THE SAME value from both — the original up to `norm` — i.e. they have the same members at every
object -/
theorem encodeTyped_sort_perm (sc : Strconv) (hsc : ScShape sc) (c : TFlags) (html : Bool) (ord ord' : MapOrd)
    (hord : OrdPerm ord) (hord' : OrdPerm ord') (t : JT) (v : JV) (hwf : wfT t = true) (hc : canon sc c t v = true)
    (hd : depthV v ≤ 10000) :
    ∃ x y, encodeTyped sc html false ord t v = .ok x ∧ encodeTyped sc html true ord' t v = .ok y ∧
      encSpecU sc html (soOf false ord) t v = some x ∧ encSpec sc html t v = some y ∧ x.length = y.length ∧
      Spec.Json.unmarshalTyped c t (zeroOf t) x = some (norm v) ∧ Spec.Json.unmarshalTyped c t (zeroOf t) y = some (norm v) :=
  Lemmas.JsonRtTypedU.sort_perm sc hsc c html ord ord' hord hord' t v hwf hc hd

/-- two member orders: the specification's outputs fail together and have the same length -/
theorem encSpecU_length (sc : Strconv) (html : Bool) (so1 so2 : MemOrd) (h1 : SoPerm so1) (h2 : SoPerm so2) (t : JT) (v : JV) :
    (encSpecU sc html so1 t v).map List.length = (encSpecU sc html so2 t v).map List.length :=
  Lemmas.JsonRtTypedU.encSpecU_length sc html so1 so2 h1 h2 t v

/-- the same about the standard library alone: encoding/json's decoder reads `norm v` from encoding/json's encoder's output
(no hypothesis on pointers to pointers, none on strconv's shape) -/
theorem typed_round_trip_std (sc : Strconv) (c : TFlags) (html : Bool) (t : JT) (v : JV)
    (hc : canon sc c t v = true) (hwf : wfT t = true) (hd : depthV v ≤ 10000) :
    ∃ x, encSpec sc html t v = some x ∧ Spec.Json.unmarshalTyped c t (zeroOf t) x = some (norm v) := by
  obtain ⟨x, hx⟩ := Lemmas.JsonRtTyped.spec_ok sc c html v t hc
  exact ⟨x, hx, Lemmas.JsonRtTyped.spec_round_trip sc c html t v x hc hwf hd hx⟩

/-- the leaves used inside: the generic decoder reads back the content of an interface … -/
theorem generic_round_trip (sc : Strconv) (c : TFlags) (html : Bool) (g : GV) (x rest : Bytes) (f d : Nat)
    (hc : Spec.Json.canonG sc c g = true) (hx : Spec.Json.genericText sc html g = some x) (hd : Spec.Json.depthG g ≤ d)
    (hr : Lemmas.JsonDecAnyRtInt.noNumCont rest) (hf : 2 * (x.length + rest.length) ≤ f) :
    Spec.Json.valueV c.dyn f d (x ++ rest) = some (Spec.Json.normG g, false, rest) :=
  Lemmas.JsonRtTyped.rtg sc c html g x rest f d hc hx hd hr hf

/-- … and base64: `StdEncoding.Decode ∘ StdEncoding.Encode = id`, through the string literal (every byte string) -/
theorem base64_round_trip (bs : Bytes) :
    Spec.Json.b64DecodeStd (Spec.Json.unquoteLit ([0x22] ++ Buf.b64 bs ++ [0x22])) = some bs :=
  Lemmas.JsonRtTyped.b64_roundtrip bs

/-- **output is valid JSON** (canonical values nested at most 10000 deep, sorted keys; the general statement — every
well-typed value whose float texts are numbers, SortMapKeys on or off — is `encodeTyped_valid` below) -/
theorem encodeTyped_valid_partial (sc : Strconv) (hsc : ScShape sc) (c : TFlags) (html : Bool)
    (ord : MapOrd) (hord : OrdPerm ord) (t : JT) (v : JV) (x : Bytes) (hwf : wfT t = true) (hc : canon sc c t v = true)
    (hd : depthV v ≤ 10000) (hx : encodeTyped sc html true ord t v = .ok x) : valid x = true := by
  have he := encodeTyped_eq_spec sc hsc html ord hord t v (Lemmas.JsonRtTyped.canon_wt sc c v t hc)
  rw [hx] at he
  have hs := Lemmas.JsonRtTyped.spec_round_trip sc c html t v x hc hwf hd he.symm
  rw [Lemmas.JsonValid.valid_eq_validStd]
  exact Lemmas.JsonDecTypedValid.spec_ok_valid c t (zeroOf t) x _ hs

/-- **output is valid JSON, EVERY well-typed value** (pointers inside interfaces, invalid UTF-8 in strings and keys, stale slice
tails included), SortMapKeys on or off, both EscapeHTML settings, every iteration order: if the encoder as coded returns no
error and the value is nested at most 10000 deep, `Valid` accepts the output. `floatsNum sc v`: every float text that strconv +
the ES6 clean-up deliver for a float64 of the value is a number of the RFC 8259 grammar (a hypothesis on the strconv parameter
`sc`: `ScShape` constrains its digit strings only as far as the encoder's clean-up needs). -/
theorem encodeTyped_valid (sc : Strconv) (hsc : ScShape sc) (html sortKeys : Bool) (ord : MapOrd) (hord : OrdPerm ord)
    (t : JT) (v : JV) (x : Bytes) (h : wt t v = true) (hfl : Lemmas.JsonEncTypedValid.floatsNum sc v = true)
    (hd : depthV v ≤ 10000) (hx : encodeTyped sc html sortKeys ord t v = .ok x) : valid x = true :=
  Lemmas.JsonEncTypedValid.encodeTyped_valid sc hsc html sortKeys ord hord t v x h hfl hd hx

/-! ### non-vacuity / concrete behaviour (evaluated by the kernel) -/

def asc (s : String) : Bytes := s.toList.map fun ch => UInt8.ofNat ch.toNat
def c0 : TFlags := { useNumber := false, disallowUnknown := false }

/-- a strconv parameter of the trusted shape for which `0` is canonical (all floats are 0: enough for the examples) -/
def scZero : Strconv := fun _ =>
  { cmp := ⟨false, false, false, true, false, true, false⟩, digitsF := [0x30], digitsE := [0x30, 0x65, 0x2b, 0x30, 0x30] }

theorem scZero_shape : ScShape scZero := by
  intro lit
  constructor
  · show StrconvShape .f [0x30]; decide
  · show StrconvShape .e [0x30, 0x65, 0x2b, 0x30, 0x30]; decide

/-- (the maps of the kernel-evaluated examples have one entry: the kernel does not unfold core's merge sort on longer lists)
struct { A []map[string]int; B *string; Zz [2]float64; K []int (nil); S map[string]bool (empty, non-nil) } -/
def tS : JT := .strct (.cons (asc "A") (.slice (.mapS (.int .int))) (.cons (asc "B") (.ptr .str)
  (.cons (asc "Zz") (.array 2 .float) (.cons (asc "K") (.slice (.int .int)) (.cons (asc "S") (.mapS .bool) .nil)))))
def vS : JV := .strct (.cons (.slice false (.cons (.map false (.cons (asc "a<") (.int (-7)) .nil)) .nil) .nil)
  (.cons (.ptr true (.str (asc "x&y")))
  (.cons (.array (.cons (.float [0x30]) (.cons (.float [0x30]) .nil)))
  (.cons (.slice true .nil .nil) (.cons (.map false .nil) .nil)))))

example : noPP tS = true ∧ wfT tS = true ∧ canon scZero c0 tS vS = true ∧ depthV vS ≤ 10000 := by decide +kernel
example : wt tS vS = true := by decide +kernel

/-- what Marshal writes for it (reversed iteration order: same bytes), and what comes back -/
example : encodeTyped scZero true true List.reverse tS vS =
    .ok (asc "{\"A\":[{\"a\\u003c\":-7}],\"B\":\"x\\u0026y\",\"Zz\":[0,0],\"K\":null,\"S\":{}}") := by decide +kernel
example : encSpec scZero true tS vS =
    some (asc "{\"A\":[{\"a\\u003c\":-7}],\"B\":\"x\\u0026y\",\"Zz\":[0,0],\"K\":null,\"S\":{}}") := by decide +kernel
example : unmarshalTyped c0 tS (zeroOf tS)
    (asc "{\"A\":[{\"a\\u003c\":-7}],\"B\":\"x\\u0026y\",\"Zz\":[0,0],\"K\":null,\"S\":{}}") = .ok (norm vS) := by
  decide +kernel
/-- the theorem applies to it -/
example : ∃ x, marshalTyped scZero tS vS = .ok x ∧ unmarshalTyped c0 tS (zeroOf tS) x = .ok (norm vS) :=
  typed_round_trip scZero scZero_shape c0 tS vS (by decide +kernel) (by decide +kernel) (by decide +kernel) (by decide +kernel)
/-- `norm` forgets the pointer identity only -/
example : norm vS = .strct (.cons (.slice false (.cons (.map false (.cons (asc "a<") (.int (-7)) .nil)) .nil) .nil)
  (.cons (.ptr false (.str (asc "x&y")))
  (.cons (.array (.cons (.float [0x30]) (.cons (.float [0x30]) .nil)))
  (.cons (.slice true .nil .nil) (.cons (.map false .nil) .nil))))) := by decide +kernel
/-- a non-nil pointer to a nil slice is written `null` and comes back as a nil pointer (the distinction JSON cannot carry) -/
example : norm (.ptr true (.slice true .nil .nil)) = .nilptr := by decide
example : encodeTyped scZero true true id (.ptr (.slice .bool)) (.ptr true (.slice true .nil .nil)) = .ok (asc "null") := by
  decide +kernel

/-! #### without SortMapKeys: map[string]map[string]int with two entries at both levels, reversed iteration order -/
def tM : JT := .mapS (.mapS (.int .int))
def vM : JV := .map false (.cons (asc "a") (.map false (.cons (asc "x") (.int 1) (.cons (asc "y") (.int 2) .nil)))
  (.cons (asc "b") (.map false .nil) .nil))

example : noPP tM = true ∧ wfT tM = true ∧ canon scZero c0 tM vM = true ∧ depthV vM ≤ 10000 := by decide +kernel
theorem reverse_ordPerm : OrdPerm List.reverse := fun l => List.reverse_perm l
/-- the members come in the runtime's order at every level … -/
example : encodeTyped scZero true false List.reverse tM vM = .ok (asc "{\"b\":{},\"a\":{\"y\":2,\"x\":1}}") := by
  decide +kernel
/-- … and the value comes back -/
example : unmarshalTyped c0 tM (zeroOf tM) (asc "{\"b\":{},\"a\":{\"y\":2,\"x\":1}}") = .ok (norm vM) := by decide +kernel
example : ∃ x, encodeTyped scZero true false List.reverse tM vM = .ok x ∧ unmarshalTyped c0 tM (zeroOf tM) x = .ok (norm vM) :=
  typed_round_trip_unsorted scZero scZero_shape c0 true List.reverse reverse_ordPerm tM vM (by decide +kernel) (by decide +kernel)
    (by decide +kernel) (by decide +kernel)
example : SoPerm (soOf false List.reverse) := (encodeTyped_sort_perm_wt scZero scZero_shape true List.reverse id reverse_ordPerm
  (fun _ => List.Perm.refl _) tM vM (by decide +kernel)).1

example : Lemmas.JsonEncTypedValid.floatsNum scZero vS = true ∧ Lemmas.JsonEncTypedValid.floatsNum scZero vM = true := by
  decide +kernel

end Enc.Props.C01Typed
