import Enc.Lemmas.JsonEncTypedEq
import Enc.Lemmas.JsonRtTypedTop
import Enc.Lemmas.JsonDecTypedValid
import Enc.Lemmas.JsonValid
/-!
# C01 / C02 / C14 — json.Marshal of TYPED values, and the typed round trip `Unmarshal(Marshal(v)) = v`

Property theorems only. Model: `Enc/Model/Json/EncTyped.lean` (`encodeTyped` = the codec that constructCodec builds for a type
of the universe `JT` of the typed decoder, encoding direction: encodeBool, encodeInt…/encodeUint… (appendInt / formatInteger),
encodeFloat64 (Model/Json/EncFloat.lean), encodeString, encodeBytes, encodeSlice / encodeArray, the map encoders, encodePointer,
encodeStruct, encodeInterface → `Append` of the dynamic value). Specification: `Enc/Spec/Json/EncTypedSpec.lean` (encoding/json's
output by recursion on type and value) and `Enc/Spec/Json/TypedRoundTrip.lean` (`norm`, `canon`). Proofs:
`Enc/Lemmas/JsonEncTyped*.lean`, `Enc/Lemmas/JsonRtTyped*.lean`. Model, specification, the package and encoding/json are compared
on every case of harness/c01typed.go (ops `json.enctyped`, `json.rttyped`).

Parameters of every statement: `sc` — strconv on the float64 a literal denotes (TRUSTED shape `ScShape`, as in Props/C01Float.lean;
shared by both libraries); `ord` — the runtime's map iteration order (`OrdPerm`: a rearrangement of the entries).
-/
namespace Enc.Props.C01Typed
open Enc Enc.Model.Json Enc.Model.Json.Typed
open Enc.Lemmas.JsonEncTyped (okE wt ScShape OrdPerm okEntries)
open Enc.Lemmas.JsonDecTypedPlain (noPP)
open Enc.Spec.Json (encSpec canon wfT norm depthV)

/-- **C01, typed values (MAIN).** For every type of the universe (bool, the ten integer widths, float64, string, `[]T` incl.
`[]byte`, `[n]T`, `map[string]T`, `*T`, structs, `any` holding nil / a generic value / a pointer, arbitrarily nested), every
well-typed value (`wt`: shape of the type, integers in range, map keys distinct), both EscapeHTML settings, SortMapKeys set
(as `Marshal` does) and EVERY iteration order of the runtime's maps: the encoder as coded returns an error exactly when
encoding/json does, and otherwise exactly the bytes encoding/json returns. -/
theorem encodeTyped_eq_spec (sc : Strconv) (hsc : ScShape sc) (html : Bool) (ord : MapOrd) (hord : OrdPerm ord)
    (t : JT) (v : JV) (h : wt t v = true) : okE (encodeTyped sc html true ord t v) = encSpec sc html t v :=
  Lemmas.JsonEncTyped.encodeTyped_eq_spec sc hsc html ord hord t v h

/-- … hence `Marshal` (= Append with EscapeHTML | SortMapKeys) and the output does not depend on the iteration order -/
theorem marshalTyped_eq_spec (sc : Strconv) (hsc : ScShape sc) (t : JT) (v : JV) (h : wt t v = true) :
    okE (marshalTyped sc t v) = encSpec sc true t v :=
  Lemmas.JsonEncTyped.encodeTyped_eq_spec sc hsc true id (fun _ => List.Perm.refl _) t v h

theorem encodeTyped_iteration_order (sc : Strconv) (hsc : ScShape sc) (html : Bool) (ord ord' : MapOrd) (hord : OrdPerm ord)
    (hord' : OrdPerm ord') (t : JT) (v : JV) (h : wt t v = true) :
    okE (encodeTyped sc html true ord t v) = okE (encodeTyped sc html true ord' t v) := by
  rw [encodeTyped_eq_spec sc hsc html ord hord t v h, encodeTyped_eq_spec sc hsc html ord' hord' t v h]

/-- the map encoders, SortMapKeys on or off, any iteration order: the object written has the SAME members (key text, value text),
rearranged — `l'` is a permutation of the entries. (Statement for one map; the rearrangement of the whole tree, and the round
trip of the unsorted output, are not proved: see the report.) -/
theorem encodeMapT_sort_perm (html sortKeys : Bool) (ord : MapOrd) (hord : OrdPerm ord) (l : List (Bytes × Bytes)) :
    ∃ l' : List (Bytes × Bytes), l'.Perm l ∧ encodeMapT html sortKeys ord (okEntries l) =
      .ok ([0x7b] ++ MapKeyOrder.joinMembers (l'.map fun p => (encodeString p.1 html, p.2)) true ++ [0x7d]) :=
  Lemmas.JsonEncTyped.encodeMapT_perm html sortKeys ord hord l

/-- **C14 / C02, THE TYPED ROUND TRIP `Unmarshal(Marshal(v), &fresh) = v`.** For every type of the universe without
pointer-to-pointer whose struct field names are valid UTF-8 and distinct (`wfT`: Go identifiers are), every CANONICAL value `v`
of the type (`canon`: well-typed, map keys valid UTF-8, float literals canonical — what strconv + the ES6 clean-up write, so that
the literal itself comes back —, interfaces hold nil or generic values as `Unmarshal` produces them) nested at most 10000 deep
(the decoder's limit), both UseNumber settings: `Marshal` as coded succeeds, and `Unmarshal` as coded, given its output and a
fresh zero target, succeeds and stores `norm v` — `v` itself up to: fresh pointer identities, no stale slice tails, invalid
UTF-8 in strings replaced by U+FFFD, and a NON-NIL pointer to a nil slice / map / interface coming back as a nil pointer (both
are written `null`). nil-vs-empty of slices and maps SURVIVES (`null` vs `[]` / `{}`); `[]byte` goes through base64. -/
theorem typed_round_trip (sc : Strconv) (hsc : ScShape sc) (c : TFlags) (t : JT) (v : JV) (hpp : noPP t = true)
    (hwf : wfT t = true) (hc : canon sc c t v = true) (hd : depthV v ≤ 10000) :
    ∃ x, marshalTyped sc t v = .ok x ∧ unmarshalTyped c t (zeroOf t) x = .ok (norm v) := by
  obtain ⟨x, hx⟩ := Lemmas.JsonRtTyped.model_ok sc hsc c true id (fun _ => List.Perm.refl _) t v hc
  exact ⟨x, hx, Lemmas.JsonRtTyped.model_round_trip sc hsc c true id (fun _ => List.Perm.refl _) t v x hpp hwf hc hd hx⟩

/-- … the same for `Append(nil, v, flags)` with SortMapKeys, both EscapeHTML settings, every iteration order of the runtime.
`_partial`: the full statement has `sortKeys : Bool` in place of `true`; WITHOUT SortMapKeys the members of every object come in
the runtime's order — the decoder then assigns the same keys in another order, which gives the same map, but that is not proved
(the differential `json.enctyped` with sort = 0 compares those outputs as member multisets on the real code). -/
theorem typed_round_trip_append_partial (sc : Strconv) (hsc : ScShape sc) (c : TFlags) (html : Bool)
    (ord : MapOrd) (hord : OrdPerm ord) (t : JT) (v : JV) (hpp : noPP t = true) (hwf : wfT t = true)
    (hc : canon sc c t v = true) (hd : depthV v ≤ 10000) :
    ∃ x, encodeTyped sc html true ord t v = .ok x ∧ unmarshalTyped c t (zeroOf t) x = .ok (norm v) := by
  obtain ⟨x, hx⟩ := Lemmas.JsonRtTyped.model_ok sc hsc c html ord hord t v hc
  exact ⟨x, hx, Lemmas.JsonRtTyped.model_round_trip sc hsc c html ord hord t v x hpp hwf hc hd hx⟩

/-- the same about the standard library alone: encoding/json's decoder reads `norm v` from encoding/json's encoder's output
(no hypothesis on pointers to pointers, none on strconv's shape) -/
theorem typed_round_trip_std (sc : Strconv) (c : TFlags) (html : Bool) (t : JT) (v : JV)
    (hc : canon sc c t v = true) (hwf : wfT t = true) (hd : depthV v ≤ 10000) :
    ∃ x, encSpec sc html t v = some x ∧ Spec.Json.unmarshalTyped c t (zeroOf t) x = some (norm v) := by
  obtain ⟨x, hx⟩ := Lemmas.JsonRtTyped.spec_ok sc c html v t hc
  exact ⟨x, hx, Lemmas.JsonRtTyped.spec_round_trip sc c html t v x hc hwf hd hx⟩

/-- the leaves used inside: the generic decoder reads back the content of an interface … -/
theorem generic_round_trip (sc : Strconv) (c : TFlags) (html : Bool) (g : GV) (x rest : Bytes) (f d : Nat)
    (hc : Spec.Json.canonG sc c g = true) (hx : Spec.Json.genericText sc html g = some x) (hd : Spec.Json.depthG g ≤ d)
    (hr : Lemmas.JsonDecAnyRtInt.noNumCont rest) (hf : 2 * (x.length + rest.length) ≤ f) :
    Spec.Json.valueV c.dyn f d (x ++ rest) = some (Spec.Json.normG g, false, rest) :=
  Lemmas.JsonRtTyped.rtg sc c html g x rest f d hc hx hd hr hf

/-- … and base64: `StdEncoding.Decode ∘ StdEncoding.Encode = id`, through the string literal (every byte string) -/
theorem base64_round_trip (bs : Bytes) :
    Spec.Json.b64DecodeStd (Spec.Json.unquoteLit ([0x22] ++ Buf.b64 bs ++ [0x22])) = some bs :=
  Lemmas.JsonRtTyped.b64_roundtrip bs

/-- **output is valid JSON** (canonical values nested at most 10000 deep; `_partial`: the general statement is for every
well-typed value whose float texts are numbers — pointers inside interfaces, invalid UTF-8 in keys included) -/
theorem encodeTyped_valid_partial (sc : Strconv) (hsc : ScShape sc) (c : TFlags) (html : Bool)
    (ord : MapOrd) (hord : OrdPerm ord) (t : JT) (v : JV) (x : Bytes) (hwf : wfT t = true) (hc : canon sc c t v = true)
    (hd : depthV v ≤ 10000) (hx : encodeTyped sc html true ord t v = .ok x) : valid x = true := by
  have he := encodeTyped_eq_spec sc hsc html ord hord t v (Lemmas.JsonRtTyped.canon_wt sc c v t hc)
  rw [hx] at he
  have hs := Lemmas.JsonRtTyped.spec_round_trip sc c html t v x hc hwf hd he.symm
  rw [Lemmas.JsonValid.valid_eq_validStd]
  exact Lemmas.JsonDecTypedValid.spec_ok_valid c t (zeroOf t) x _ hs

/-! ### non-vacuity / concrete behaviour (evaluated by the kernel) -/

def asc (s : String) : Bytes := s.toList.map fun ch => UInt8.ofNat ch.toNat
def c0 : TFlags := { useNumber := false, disallowUnknown := false }

/-- a strconv parameter of the trusted shape for which `0` is canonical (all floats are 0: enough for the examples) -/
def scZero : Strconv := fun _ =>
  { cmp := ⟨false, false, false, true, false, true, false⟩, digitsF := [0x30], digitsE := [0x30, 0x65, 0x2b, 0x30, 0x30] }

theorem scZero_shape : ScShape scZero := by
  intro lit
  constructor
  · show StrconvShape .f [0x30]; decide
  · show StrconvShape .e [0x30, 0x65, 0x2b, 0x30, 0x30]; decide

/-- (the maps of the kernel-evaluated examples have one entry: the kernel does not unfold core's merge sort on longer lists)
struct { A []map[string]int; B *string; Zz [2]float64; K []int (nil); S map[string]bool (empty, non-nil) } -/
def tS : JT := .strct (.cons (asc "A") (.slice (.mapS (.int .int))) (.cons (asc "B") (.ptr .str)
  (.cons (asc "Zz") (.array 2 .float) (.cons (asc "K") (.slice (.int .int)) (.cons (asc "S") (.mapS .bool) .nil)))))
def vS : JV := .strct (.cons (.slice false (.cons (.map false (.cons (asc "a<") (.int (-7)) .nil)) .nil) .nil)
  (.cons (.ptr true (.str (asc "x&y")))
  (.cons (.array (.cons (.float [0x30]) (.cons (.float [0x30]) .nil)))
  (.cons (.slice true .nil .nil) (.cons (.map false .nil) .nil)))))

example : noPP tS = true ∧ wfT tS = true ∧ canon scZero c0 tS vS = true ∧ depthV vS ≤ 10000 := by decide +kernel
example : wt tS vS = true := by decide +kernel

/-- what Marshal writes for it (reversed iteration order: same bytes), and what comes back -/
example : encodeTyped scZero true true List.reverse tS vS =
    .ok (asc "{\"A\":[{\"a\\u003c\":-7}],\"B\":\"x\\u0026y\",\"Zz\":[0,0],\"K\":null,\"S\":{}}") := by decide +kernel
example : encSpec scZero true tS vS =
    some (asc "{\"A\":[{\"a\\u003c\":-7}],\"B\":\"x\\u0026y\",\"Zz\":[0,0],\"K\":null,\"S\":{}}") := by decide +kernel
example : unmarshalTyped c0 tS (zeroOf tS)
    (asc "{\"A\":[{\"a\\u003c\":-7}],\"B\":\"x\\u0026y\",\"Zz\":[0,0],\"K\":null,\"S\":{}}") = .ok (norm vS) := by
  decide +kernel
/-- the theorem applies to it -/
example : ∃ x, marshalTyped scZero tS vS = .ok x ∧ unmarshalTyped c0 tS (zeroOf tS) x = .ok (norm vS) :=
  typed_round_trip scZero scZero_shape c0 tS vS (by decide +kernel) (by decide +kernel) (by decide +kernel) (by decide +kernel)
/-- `norm` forgets the pointer identity only -/
example : norm vS = .strct (.cons (.slice false (.cons (.map false (.cons (asc "a<") (.int (-7)) .nil)) .nil) .nil)
  (.cons (.ptr false (.str (asc "x&y")))
  (.cons (.array (.cons (.float [0x30]) (.cons (.float [0x30]) .nil)))
  (.cons (.slice true .nil .nil) (.cons (.map false .nil) .nil))))) := by decide +kernel
/-- a non-nil pointer to a nil slice is written `null` and comes back as a nil pointer (the distinction JSON cannot carry) -/
example : norm (.ptr true (.slice true .nil .nil)) = .nilptr := by decide
example : encodeTyped scZero true true id (.ptr (.slice .bool)) (.ptr true (.slice true .nil .nil)) = .ok (asc "null") := by
  decide +kernel

end Enc.Props.C01Typed
