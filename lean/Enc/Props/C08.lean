import Enc.Model.Thrift
import Enc.Lemmas.Base
import Enc.Lemmas.ThriftSkip
import Enc.Lemmas.ThriftTotal
/-!
# C08 — thrift decoding is total, bounded and skips unknown fields
Property theorems only.
-/
namespace Enc.Props.C08
open Enc Enc.Model.Thrift

/-- `io.ReadFull`: exactly n bytes are consumed and nothing beyond the input is read -/
theorem readN_ok (b : Bytes) (n : Nat) (x r : Bytes) (h : readN b n = .ok (x, r)) :
    x.length = n ∧ b = x ++ r := by
  unfold readN at h
  rw [hasAtLeast_iff] at h
  split at h
  · rename_i hn
    have hn : n ≤ b.length := by simpa using hn
    simp only [Res.ok.injEq, Prod.mk.injEq] at h
    obtain ⟨rfl, rfl⟩ := h
    simp only [List.length_take, List.take_append_drop, and_true]
    omega
  · split at h <;> simp at h

/-- a fixed-width read cut short by the end of input is an unexpected-EOF class error (plain EOF only when nothing
at all was left) — never a value made of stale bytes -/
theorem readN_truncated (b : Bytes) (n : Nat) (h : b.length < n) :
    readN b n = .err (if b.isEmpty then "eof" else "unexpectedEof") := by
  unfold readN
  rw [hasAtLeast_iff]
  have : ¬ n ≤ b.length := by omega
  simp only [this, decide_false, Bool.false_eq_true, if_false]
  split <;> rfl

/-- lengths above MaxInt32 are rejected by both protocols' `ReadLength` -/
theorem rLength_bounded (p : Proto) (b r : Bytes) (n : Nat) (h : rLength p b = .ok (n, r)) : n ≤ 2147483647 := by
  cases p <;> simp only [rLength] at h
  all_goals
    cases hx : (rFixed b 4) <;> cases hy : (readUvarintGo b) <;> simp_all [Res.bind] <;>
    (try (split at h <;> simp_all <;> omega))

/-- **Unknown fields of any thrift type and nesting are skipped.** For both protocols, every supported type `ty` and
every well-formed value `v` (explicit decidable predicate `Lemmas.ThriftSkip.WF`: value shape matches the type, integers in
range, sizes ≤ MaxInt32, struct field ids distinct and in 1..32767, no enum tag on a non-int32 kind), the generic skipper
run on the wire type of `ty` consumes exactly the encoding of `v` and nothing else, whatever follows — including nested
structs with delta-encoded ids, compact bool fields that live in the header, lists, sets and maps. -/
theorem skip_consumes_exactly (p : Proto) (ty : Ty) (v : Val) (h : Lemmas.ThriftSkip.WF ty v = true)
    (fuel : Nat) (rest : Bytes) (hf : Lemmas.ThriftSkip.fuelOf ty v ≤ fuel) :
    skip p fuel (typeOf ty) (encode p ty v ++ rest) = .ok ((), rest) :=
  Lemmas.ThriftSkip.skip_encode p ty v h fuel rest hf

/-- … and the struct decoder resumes right after an undeclared field with the target's field values and the set of seen
ids unchanged ("skipped without affecting the decoded value") -/
theorem undeclared_field_has_no_effect (p : Proto) (strict : Bool) (B : Nat) (f : FieldRec) (r : List FieldRec)
    (hg : Lemmas.ThriftSkip.GoodRec p B f) (last : Int) (hl : 0 ≤ last) (hlt : last < f.id)
    (descs : List FieldDesc) (hnone : findById descs f.id = none) (fuel : Nat) (hf : B ≤ fuel)
    (vs : Vals) (num : Nat) (seen : List Int) (rest : Bytes) :
    decodeStruct p strict (fuel + 1) descs (emitFields p (f :: r) last ++ rest) vs last num seen
      = decodeStruct p strict fuel descs (emitFields p r f.id ++ rest) vs f.id (num + 1) seen :=
  Lemmas.ThriftSkip.decodeStruct_undeclared p strict B f r hg last hl hlt descs hnone fuel hf vs num seen rest

/-- non-vacuity: the well-formedness predicate is satisfiable (a list of in-range i32 values; the agent's `#eval` checks a
struct with bool, list-of-struct, enum, map-of-pointers and set in both protocols) -/
example : Lemmas.ThriftSkip.WF (.slice (.int .i32)) (.list (.cons (.int 5) (.cons (.int (-7)) .nil))) = true := by
  decide +kernel

/-! ## totality, truncation, trailing bytes (proofs in Enc/Lemmas/ThriftTotal*.lean; 7 files) -/

open Lemmas.ThriftTotal in
/-- **MAIN (totality).** For every protocol setting, every target type without an unsupported Go kind (unsigned
integers other than []byte, arrays, empty interfaces — Go panics on those while building the decoder) and EVERY byte
string, `Unmarshal` returns a value or an error. The skippers never panic on any wire type code at all. -/
theorem unmarshal_total (p : Proto) (strict : Bool) (ty : Ty) (b : Bytes) (e : String) (h : Supported ty = true) :
    unmarshal p strict ty b ≠ .panic e :=
  Lemmas.ThriftTotal.unmarshal_total p strict ty b e h

open Lemmas.ThriftTotal in
/-- no input — absurd element counts included — drives the decoder into unbounded descent -/
theorem unmarshal_ne_fuel (p : Proto) (strict : Bool) (ty : Ty) (b : Bytes) : unmarshal p strict ty b ≠ .err "fuel" :=
  Lemmas.ThriftTotal.unmarshal_ne_fuel p strict ty b

open Lemmas.ThriftTotal in
/-- **MAIN (truncation).** Whatever input `Unmarshal` accepts — not only encoder output — every proper prefix of it is
rejected with plain EOF when nothing at all is left and with an unexpected-EOF class error otherwise: never a value,
never another error class (a cut at a field boundary or one that drops a required field included). -/
theorem unmarshal_trunc (p : Proto) (strict : Bool) (ty : Ty) (b : Bytes) (v : Val)
    (h : unmarshal p strict ty b = .ok v) (k : Nat) (hk : k < b.length) :
    unmarshal p strict ty (b.take k) = .err (if k = 0 then "eof" else "unexpectedEof") :=
  Lemmas.ThriftTotal.unmarshal_trunc_strict p strict ty b v h k hk

open Lemmas.ThriftTotal in
/-- trailing bytes after a complete value are reported -/
theorem unmarshal_append_trailing (p : Proto) (strict : Bool) (ty : Ty) (b extra : Bytes) (v : Val)
    (h : unmarshal p strict ty b = .ok v) (hx : extra ≠ []) :
    unmarshal p strict ty (b ++ extra) = .err "trailing" :=
  Lemmas.ThriftTotal.unmarshal_append_trailing p strict ty b extra v h hx

end Enc.Props.C08
