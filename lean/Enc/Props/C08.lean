import Enc.Model.Thrift
import Enc.Lemmas.Base
import Enc.Lemmas.ThriftSkip
import Enc.Lemmas.ThriftTotal
import Enc.Lemmas.ThriftMismatch
import Enc.Lemmas.ThriftDepth
import Enc.Lemmas.ThriftDeltaStop
import Enc.Lemmas.ThriftStructEnd
import Enc.Lemmas.ThriftDepthExact
import Enc.Lemmas.ThriftAlloc
import Enc.Lemmas.ThriftUnionDec
import Enc.Lemmas.ThriftUnionTotal
import Enc.Lemmas.ThriftUnionWitness
import Enc.Lemmas.ThriftUnionEmbed
/-!
# C08 — thrift decoding is total, bounded and skips unknown fields
Property theorems only.
-/
namespace Enc.Props.C08
open Enc Enc.Model.Thrift

/-- `io.ReadFull`: exactly n bytes are consumed and nothing beyond the input is read -/
theorem readN_ok (b : Bytes) (n : Nat) (x r : Bytes) (h : readN b n = .ok (x, r)) :
    x.length = n ∧ b = x ++ r := by
  unfold readN at h
  rw [hasAtLeast_iff] at h
  split at h
  · rename_i hn
    have hn : n ≤ b.length := by simpa using hn
    simp only [Res.ok.injEq, Prod.mk.injEq] at h
    obtain ⟨rfl, rfl⟩ := h
    simp only [List.length_take, List.take_append_drop, and_true]
    omega
  · split at h <;> simp at h

/-- a fixed-width read cut short by the end of input is an unexpected-EOF class error (plain EOF only when nothing
at all was left) — never a value made of stale bytes -/
theorem readN_truncated (b : Bytes) (n : Nat) (h : b.length < n) :
    readN b n = .err (if b.isEmpty then "eof" else "unexpectedEof") := by
  unfold readN
  rw [hasAtLeast_iff]
  have : ¬ n ≤ b.length := by omega
  simp only [this, decide_false, Bool.false_eq_true, if_false]
  split <;> rfl

/-- lengths above MaxInt32 are rejected by both protocols' `ReadLength` -/
theorem rLength_bounded (p : Proto) (b r : Bytes) (n : Nat) (h : rLength p b = .ok (n, r)) : n ≤ 2147483647 := by
  cases p <;> simp only [rLength] at h
  all_goals
    cases hx : (rFixed b 4) <;> cases hy : (readUvarintGo b) <;> simp_all [Res.bind] <;>
    (try (split at h <;> simp_all <;> omega))

/-- **Unknown fields of any thrift type and nesting are skipped.** For both protocols, every supported type `ty` and
every well-formed value `v` (explicit decidable predicate `Lemmas.ThriftSkip.WF`: value shape matches the type, integers in
range, sizes ≤ MaxInt32, struct field ids distinct and in 1..32767, no enum tag on a non-int32 kind), the generic skipper
run on the wire type of `ty` consumes exactly the encoding of `v` and nothing else, whatever follows — including nested
structs with delta-encoded ids, compact bool fields that live in the header, lists, sets and maps. `d` is the nesting
depth the skipper is called at (`skip(r, t, depth)`); the value's own nesting must fit below the limit `maxDepth`
(beyond it the skipper answers `"maxDepth"`). -/
theorem skip_consumes_exactly (p : Proto) (ty : Ty) (v : Val) (h : Lemmas.ThriftSkip.WF ty v = true)
    (d : Nat) (fuel : Nat) (rest : Bytes) (hd : d + nest ty ≤ Gen.c_thrift_maxDepth)
    (hf : Lemmas.ThriftSkip.fuelOf ty v ≤ fuel) :
    skip p d fuel (typeOf ty) (encode p ty v ++ rest) = .ok ((), rest) :=
  Lemmas.ThriftSkip.skip_encode p ty v h d fuel rest hd hf

/-- non-vacuity: the depth hypothesis is satisfiable -/
example : 0 + nest (.slice (.int .i32)) ≤ Gen.c_thrift_maxDepth := by decide

/-- … and the struct decoder resumes right after an undeclared field with the target's field values and the set of seen
ids unchanged ("skipped without affecting the decoded value") -/
theorem undeclared_field_has_no_effect (p : Proto) (strict : Bool) (d : Nat) (B : Nat) (f : FieldRec) (r : List FieldRec)
    (hg : Lemmas.ThriftSkip.GoodRec p d B f) (last : Int) (hl : 0 ≤ last) (hlt : last < f.id)
    (descs : List FieldDesc) (hnone : findById descs f.id = none) (fuel : Nat) (hf : B ≤ fuel)
    (vs : Vals) (num : Nat) (seen : List Int) (rest : Bytes) :
    decodeStruct p strict d (fuel + 1) descs (emitFields p (f :: r) last ++ rest) vs last num seen
      = decodeStruct p strict d fuel descs (emitFields p r f.id ++ rest) vs f.id (num + 1) seen :=
  Lemmas.ThriftSkip.decodeStruct_undeclared p strict d B f r hg last hl hlt descs hnone fuel hf vs num seen rest

/-- non-vacuity: the well-formedness predicate is satisfiable (a list of in-range i32 values; the agent's `#eval` checks a
struct with bool, list-of-struct, enum, map-of-pointers and set in both protocols) -/
example : Lemmas.ThriftSkip.WF (.slice (.int .i32)) (.list (.cons (.int 5) (.cons (.int (-7)) .nil))) = true := by
  decide +kernel

/-! ## totality, truncation, trailing bytes (proofs in Enc/Lemmas/ThriftTotal*.lean; 7 files) -/

open Lemmas.ThriftTotal in
/-- **MAIN (totality).** For every protocol setting, every target type without an unsupported Go kind (unsigned
integers other than []byte, arrays, empty interfaces — Go panics on those while building the decoder) and EVERY byte
string, `Unmarshal` returns a value or an error. The skippers never panic on any wire type code at all. -/
theorem unmarshal_total (p : Proto) (strict : Bool) (ty : Ty) (b : Bytes) (e : String) (h : Supported ty = true) :
    unmarshal p strict ty b ≠ .panic e :=
  Lemmas.ThriftTotal.unmarshal_total p strict ty b e h

open Lemmas.ThriftTotal in
/-- no input — absurd element counts included — drives the decoder into unbounded descent -/
theorem unmarshal_ne_fuel (p : Proto) (strict : Bool) (ty : Ty) (b : Bytes) : unmarshal p strict ty b ≠ .err "fuel" :=
  Lemmas.ThriftTotal.unmarshal_ne_fuel p strict ty b

open Lemmas.ThriftTotal in
/-- **MAIN (truncation).** Whatever input `Unmarshal` accepts — not only encoder output — every proper prefix of it is
rejected with plain EOF when nothing at all is left and with an unexpected-EOF class error otherwise: never a value,
never another error class (a cut at a field boundary or one that drops a required field included). -/
theorem unmarshal_trunc (p : Proto) (strict : Bool) (ty : Ty) (b : Bytes) (v : Val)
    (h : unmarshal p strict ty b = .ok v) (k : Nat) (hk : k < b.length) :
    unmarshal p strict ty (b.take k) = .err (if k = 0 then "eof" else "unexpectedEof") :=
  Lemmas.ThriftTotal.unmarshal_trunc_strict p strict ty b v h k hk

open Lemmas.ThriftTotal in
/-- trailing bytes after a complete value are reported -/
theorem unmarshal_append_trailing (p : Proto) (strict : Bool) (ty : Ty) (b extra : Bytes) (v : Val)
    (h : unmarshal p strict ty b = .ok v) (hx : extra ≠ []) :
    unmarshal p strict ty (b ++ extra) = .err "trailing" :=
  Lemmas.ThriftTotal.unmarshal_append_trailing p strict ty b extra v h hx

/-! ## a value whose wire type does not match the Go type (fix d1e2b54; proofs in Enc/Lemmas/ThriftMismatch.lean) -/

/-- **A declared field that arrives with the wrong wire type is skipped (non-strict) / rejected (strict).** The analogue of
`undeclared_field_has_no_effect` for a field the target DOES declare (`findById descs f.id = some fd`) but with another
thrift type (`f.t ≠ typeOf fd.ty`), holding any well-formed value of the type it announces (`GoodRec`: the skipper
consumes its body exactly — by `skip_consumes_exactly` every well-formed value of every supported type qualifies, see
`Lemmas.ThriftSkip.goodRec_of_WF`): in non-strict mode the struct decoder resumes right after the value with the field
values `vs` unchanged — so the result is the one of the message without that field — and the id recorded as seen (Go sets
the seen bit before it compares the types: for a `required` field the wrong-typed occurrence counts as present); in
strict mode the result is a TypeMismatch error. Before the fix the non-strict decoder left the value's bytes in the
stream and parsed them as field headers. -/
theorem mismatch_skipped (p : Proto) (d : Nat) (B : Nat) (f : FieldRec) (r : List FieldRec)
    (hg : Lemmas.ThriftSkip.GoodRec p d B f) (last : Int) (hl : 0 ≤ last) (hlt : last < f.id)
    (descs : List FieldDesc) (fd : FieldDesc) (hsome : findById descs f.id = some fd) (hmis : f.t ≠ typeOf fd.ty)
    (fuel : Nat) (hf : B ≤ fuel) (vs : Vals) (num : Nat) (seen : List Int) (rest : Bytes) :
    decodeStruct p false d (fuel + 1) descs (emitFields p (f :: r) last ++ rest) vs last num seen
      = decodeStruct p false d fuel descs (emitFields p r f.id ++ rest) vs f.id (num + 1) (f.id :: seen) ∧
    decodeStruct p true d (fuel + 1) descs (emitFields p (f :: r) last ++ rest) vs last num seen
      = .err "typeMismatch" :=
  ⟨Lemmas.ThriftMismatch.decodeStruct_mismatch p d B f r hg last hl hlt descs fd hsome hmis fuel hf vs num seen rest,
   Lemmas.ThriftMismatch.decodeStruct_mismatch_strict p d B f r hg last hl hlt descs fd hsome hmis fuel hf vs num seen rest⟩

/-- … and the items of a list whose element type does not match the Go slice are skipped (`skipValues`): the input is
consumed exactly, the target keeps its value; strict mode rejects. The items live one level below the list:
`d + 1 + nest wt ≤ maxDepth`. -/
theorem mismatch_list_skipped (p : Proto) (strict : Bool) (d : Nat) (et wt : Ty) (vs : Vals)
    (hu : Lemmas.ThriftSkip.isU8 et = false) (hwu : Lemmas.ThriftSkip.isU8 wt = false)
    (hwf : Lemmas.ThriftSkip.WF (.slice wt) (.list vs) = true)
    (hmis : typeOf et ≠ typeOf wt) (hd : d + 1 + nest wt ≤ Gen.c_thrift_maxDepth)
    (fuel : Nat) (hf : Lemmas.ThriftSkip.fuelOf (.slice wt) (.list vs) ≤ fuel) (rest : Bytes) (cur : Val) :
    decode p strict d fuel (.slice et) (encode p (.slice wt) (.list vs) ++ rest) cur
      = if strict then .err "typeMismatch" else .ok (cur, rest) :=
  Lemmas.ThriftMismatch.decode_slice_mismatch p strict d et wt vs hu hwu hwf hmis hd fuel hf rest cur

/-- … the entries of a non-empty map whose key or value type does not match the Go map are skipped, the target is the
empty map Go allocated before the test … -/
theorem mismatch_map_skipped (p : Proto) (strict : Bool) (d : Nat) (kt vt wk wv : Ty) (x : Val)
    (hvt : isEmptyStruct vt = false) (hwv : isEmptyStruct wv = false)
    (hwf : Lemmas.ThriftSkip.WF (.map wk wv) x = true) (hne : Lemmas.ThriftSkip.pairsOfVal x ≠ [])
    (hmis : typeOf kt ≠ typeOf wk ∨ typeOf vt ≠ typeOf wv)
    (hd : d + 1 + max (nest wk) (nest wv) ≤ Gen.c_thrift_maxDepth)
    (fuel : Nat) (hf : Lemmas.ThriftSkip.fuelOf (.map wk wv) x ≤ fuel) (rest : Bytes) (cur : Val) :
    decode p strict d fuel (.map kt vt) (encode p (.map wk wv) x ++ rest) cur
      = if strict then .err "typeMismatch" else .ok (.map .nil, rest) :=
  Lemmas.ThriftMismatch.decode_map_mismatch p strict d kt vt wk wv x hvt hwv hwf hne hmis hd fuel hf rest cur

/-- … and the members of a non-empty set likewise -/
theorem mismatch_set_skipped (p : Proto) (strict : Bool) (d : Nat) (kt wk : Ty) (x : Val)
    (hwf : Lemmas.ThriftSkip.WF (.map wk (.struct .nil)) x = true) (hne : Lemmas.ThriftSkip.pairsOfVal x ≠ [])
    (hmis : typeOf kt ≠ typeOf wk) (hd : d + 1 + nest wk ≤ Gen.c_thrift_maxDepth)
    (fuel : Nat) (hf : Lemmas.ThriftSkip.fuelOf (.map wk (.struct .nil)) x ≤ fuel) (rest : Bytes) (cur : Val) :
    decode p strict d fuel (.map kt (.struct .nil)) (encode p (.map wk (.struct .nil)) x ++ rest) cur
      = if strict then .err "typeMismatch" else .ok (.map .nil, rest) :=
  Lemmas.ThriftMismatch.decode_set_mismatch p strict d kt wk x hwf hne hmis hd fuel hf rest cur

/-- non-vacuity: two i64 values offered to a `[]int32` -/
example : Lemmas.ThriftSkip.WF (.slice (.int .i64)) (.list (.cons (.int 5) (.cons (.int (-7)) .nil))) = true ∧
    typeOf (.int .i32) ≠ typeOf (.int .i64) ∧ 0 + 1 + nest (.int .i64) ≤ Gen.c_thrift_maxDepth := by
  decide +kernel
/-- … and a one-entry `map[string]int64` offered to a `map[string]int32` -/
example : Lemmas.ThriftSkip.WF (.map .str (.int .i64)) (.map (.cons (.str [0x6b]) (.cons (.int 7) .nil))) = true ∧
    Lemmas.ThriftSkip.pairsOfVal (.map (.cons (.str [0x6b]) (.cons (.int 7) .nil))) ≠ [] ∧
    (typeOf .str ≠ typeOf .str ∨ typeOf (.int .i32) ≠ typeOf (.int .i64)) := by
  decide +kernel

/-! ## the nesting limit (fix 9c8d6b4; proofs in Enc/Lemmas/ThriftDepth.lean) -/

/-- **Depth limit, every input.** The depth argument `d` counts the structs, lists, sets and maps the decoder is inside of;
every recursive call of the model passes `d + 1` when it enters one, and at `d ≥ maxDepth` (10000, regenerated constant)
a container is refused before a byte of it is read: by the skipper for the four container wire types, by the decoder for
a declared struct. Hence no run is ever inside more than maxDepth containers — no input can overflow the stack. -/
theorem depth_limit (p : Proto) (strict : Bool) (d fuel : Nat) (b : Bytes) (hd : Gen.c_thrift_maxDepth ≤ d) :
    (∀ t, Lemmas.ThriftDepth.isContainer t = true → skip p d (fuel + 1) t b = .err "maxDepth") ∧
    (∀ fs cur, decode p strict d (fuel + 1) (.struct fs) b cur = .err "maxDepth") :=
  ⟨fun t ht => Lemmas.ThriftDepth.skip_at_limit p d fuel t b ht hd,
   fun fs cur => Lemmas.ThriftDepth.decode_struct_at_limit p strict d fuel fs b cur hd⟩

/-- … and a declared slice at `d ≥ maxDepth` never has an element decoded: the only successful outcome is the non-strict
skipping of a list whose wire type does not match (the skipper then applies the limit to the items) -/
theorem depth_limit_slice (p : Proto) (strict : Bool) (d fuel : Nat) (et : Ty) (hu : Lemmas.ThriftSkip.isU8 et = false)
    (b : Bytes) (cur v : Val) (r : Bytes) (hd : Gen.c_thrift_maxDepth ≤ d)
    (h : decode p strict d (fuel + 1) (.slice et) b cur = .ok (v, r)) :
    strict = false ∧ v = cur ∧ ∃ lt n r0, rList p b = .ok ((lt, n), r0) ∧
      typeOf et ≠ (if lt == .true_ then TType.bool else lt) :=
  Lemmas.ThriftDepth.decode_slice_at_limit p strict d fuel et hu b cur v r hd h

/-- below the limit well-formed values of any nesting are skipped: `skip_consumes_exactly` (hypothesis
`d + nest ty ≤ maxDepth`). The limit is real and sharp — compact protocol, a struct that does not declare field 2, input
= header `0x29` (id 2, LIST) followed by nested "one element of type LIST" list headers (`0x19`): after 9999 of them the
list they announce would be container number 10001 (the struct is number 1, the 9999 lists are 2 … 10000) and `Unmarshal`
fails whatever follows … -/
theorem deep_unknown_rejected (strict : Bool) (fs : Fields) (hnone : findById (fieldDescs fs) 2 = none) (t : Bytes) :
    unmarshal .compact strict (.struct fs) (0x29 :: (List.replicate (Gen.c_thrift_maxDepth - 1) 0x19 ++ t))
      = .err "maxDepth" :=
  Lemmas.ThriftDepth.deep_unknown_rejected strict fs hnone t

/-- … while 9998 such headers around an empty list — 9999 nested lists, the innermost is container number 10000 — are
skipped and the struct is decoded: the limit is sharp -/
theorem max_depth_unknown_accepted (strict : Bool) (fs : Fields) (hnone : findById (fieldDescs fs) 2 = none)
    (noreq : (fieldDescs fs).any (fun fd => fd.required) = false) :
    unmarshal .compact strict (.struct fs)
      (0x29 :: (List.replicate (Gen.c_thrift_maxDepth - 2) 0x19 ++ [0x09, 0x00])) = .ok (zeroOf (.struct fs)) :=
  Lemmas.ThriftDepth.max_depth_unknown_accepted strict fs hnone noreq

/-- non-vacuity of the hypotheses (the empty struct; a struct with a tagged field is checked by `#guard` in the Lemmas
file: the struct-tag parser is `String.splitOn`, which the kernel does not unfold) -/
example : findById (fieldDescs .nil) 2 = none ∧ (fieldDescs .nil).any (fun fd => fd.required) = false := by decide

/-! ## only the byte 0 is the stop field (fix 7d9da57; proofs in Enc/Lemmas/ThriftDeltaStop.lean) -/

/-- **Compact protocol: a field header byte 0x10 … 0xF0 (id delta ≠ 0, type nibble 0) is rejected**, at any position of a
struct body (`last`, `num`, fields seen so far are arbitrary), by the struct skipper and by the struct decoder, strict or
not, whatever follows; and such a byte in front of a struct makes `Unmarshal` fail. Before the fix each of these fifteen
bytes ended the struct like the byte 0. -/
theorem delta_stop_rejected (strict : Bool) (d fuel : Nat) (c : UInt8) (h : Lemmas.ThriftDeltaStop.IsDeltaStop c)
    (rest : Bytes) (last : Int) (num : Nat) :
    skipStruct .compact d (fuel + 1) (c :: rest) last num = .err "deltaStop" ∧
    (∀ descs vs seen, decodeStruct .compact strict d (fuel + 1) descs (c :: rest) vs last num seen = .err "deltaStop") ∧
    (∀ fs, unmarshal .compact strict (.struct fs) (c :: rest) = .err "deltaStop") :=
  ⟨Lemmas.ThriftDeltaStop.skipStruct_delta_stop d fuel c h rest last num,
   fun descs vs seen => Lemmas.ThriftDeltaStop.decodeStruct_delta_stop strict d fuel descs c h rest vs last num seen,
   fun fs => Lemmas.ThriftDeltaStop.unmarshal_delta_stop strict fs c h rest⟩

/-- … and only the byte 0 ends a struct: among the sixteen header bytes with type nibble 0, the struct skipper stops on
the spot exactly for 0 (and the decoder returns the field values and the seen-set as they are) -/
theorem only_zero_is_stop (strict : Bool) (d fuel : Nat) (c : UInt8) (hc : c.toNat % 16 = 0) (rest : Bytes) (last : Int)
    (num : Nat) :
    (skipStruct .compact d (fuel + 1) (c :: rest) last num = .ok ((), rest) ↔ c = 0) ∧
    (∀ descs vs seen, decodeStruct .compact strict d (fuel + 1) descs (0 :: rest) vs last num seen = .ok ((vs, seen), rest)) :=
  ⟨Lemmas.ThriftDeltaStop.skipStruct_ends_iff_zero d fuel c hc rest last num,
   fun descs vs seen => Lemmas.ThriftDeltaStop.decodeStruct_stop_byte strict d fuel descs rest vs last num seen⟩

/-- **For every input: whatever struct body the compact skipper accepts ends with the byte 0** (any bytes, any nesting,
any position `last`/`num`, any fuel) — `b = x ++ 0 :: r` where `r` is what is left. Before the fix the bodies `[0x10]` …
`[0xF0]` were accepted. -/
theorem struct_ends_with_zero (fuel d : Nat) (b : Bytes) (last : Int) (num : Nat) (r : Bytes)
    (h : skipStruct .compact d fuel b last num = .ok ((), r)) : ∃ x, b = x ++ 0 :: r :=
  Lemmas.ThriftDeltaStop.skipStruct_ends_with_zero fuel d b last num r h

/-- non-vacuity: a struct with one i8 field (id 1, value 5), followed by an unrelated byte -/
example : skipStruct .compact 1 3 [0x13, 5, 0, 0xAA] 0 0 = .ok ((), [0xAA]) := by decide +kernel

example : Lemmas.ThriftDeltaStop.IsDeltaStop 0x10 ∧ Lemmas.ThriftDeltaStop.IsDeltaStop 0xF0 ∧
    ¬ Lemmas.ThriftDeltaStop.IsDeltaStop 0 ∧ ¬ Lemmas.ThriftDeltaStop.IsDeltaStop 0x15 := by decide

/-- **The skipper's depth limit, exactly.** For a well-formed value `v` (predicate `WF`, as in `skip_consumes_exactly`)
let `vdepth ty v` be the number of nested containers — lists, sets, maps, structs — actually present in its encoding
(the nesting of the VALUE: an empty list counts 1, a struct counts 1 + its deepest EMITTED field, scalars and byte
strings 0; `vdepth ty v ≤ nest ty`). Called at depth `d ≤ maxDepth`, the generic skipper consumes exactly the encoding
when `d + vdepth ty v ≤ maxDepth`, and otherwise — as soon as one element, key, value or field anywhere inside is nested
too deep, the ones before it being skipped normally — answers `"maxDepth"`: never a success, never another error. Both
protocols, any nesting, compact bool fields and delta ids included. -/
theorem depth_limit_exact (p : Proto) (ty : Ty) (v : Val) (h : Lemmas.ThriftSkip.WF ty v = true)
    (d fuel : Nat) (rest : Bytes) (hd : d ≤ Gen.c_thrift_maxDepth) (hf : Lemmas.ThriftSkip.fuelOf ty v ≤ fuel) :
    skip p d fuel (typeOf ty) (encode p ty v ++ rest) =
      if d + Lemmas.ThriftDepthExact.vdepth ty v ≤ Gen.c_thrift_maxDepth then .ok ((), rest) else .err "maxDepth" :=
  Lemmas.ThriftDepthExact.skip_exact p ty v h d fuel rest hd hf

/-- non-vacuity: `[][]int32{{5}, {}}` is well-formed and nests two containers, so it is skipped at depth 9998 and
rejected at depth 9999 (`maxDepth` = 10000) -/
example : Lemmas.ThriftSkip.WF (.slice (.slice (.int .i32)))
      (.list (.cons (.list (.cons (.int 5) .nil)) (.cons (.list .nil) .nil))) = true ∧
    Lemmas.ThriftDepthExact.vdepth (.slice (.slice (.int .i32)))
      (.list (.cons (.list (.cons (.int 5) .nil)) (.cons (.list .nil) .nil))) = 2 ∧
    9998 + 2 ≤ Gen.c_thrift_maxDepth ∧ ¬ (9999 + 2 ≤ Gen.c_thrift_maxDepth) := by decide +kernel

/-! ## allocation: "memory allocated stays within a constant factor of the bytes actually available" — FALSE as coded
(known finding `thrift-wire-size-alloc`; accounting model `Enc/Model/ThriftAlloc.lean`: `unmarshalA = (unmarshal, bytes
requested by the allocation sites that size themselves from a number read off the wire)`) -/
section Alloc
open Lemmas.ThriftAlloc Lemmas.ThriftPrim

/-- the accounting function does not change the decoder -/
theorem unmarshalA_proj (p : Proto) (strict : Bool) (t : Ty) (b : Bytes) :
    (unmarshalA p strict t b).1 = unmarshal p strict t b := rfl

/-- **the witness family.** In EVERY protocol, strict or not, a list header announcing `n` int64 — followed by anything,
also by nothing — makes `Unmarshal` into `[]int64` reserve `8·n` bytes before the first element is read
(`reflect.MakeSlice(t, int(l.Size), int(l.Size))`), for every `n` up to the wire format's cap 2^31 − 1. -/
theorem thrift_list_prealloc (p : Proto) (strict : Bool) (n : Nat) (hn : n ≤ 2147483647) (rest : Bytes) :
    8 * n ≤ (unmarshalA p strict (.slice (.int .i64)) (wList p .i64 n ++ rest)).2 :=
  Lemmas.ThriftAlloc.list_prealloc p strict n hn rest

/-- likewise the length prefix of a string / binary: `make([]byte, n)` precedes `io.ReadFull` -/
theorem thrift_bytes_prealloc (p : Proto) (strict : Bool) (n : Nat) (hn : n ≤ 2147483647) (rest : Bytes) :
    n ≤ (unmarshalA p strict .str (wLength p n ++ rest)).2 :=
  Lemmas.ThriftAlloc.bytes_prealloc p strict n hn rest

/-- **MAIN (thrift_alloc_unbounded) — the negation of the clause, as a theorem about the code as written.** For the fixed
target type `[]int64`, no bound `K·len(b) + K0` with constants below `8·(2^31 − 1)` ≈ 1.7·10^10 holds: there is a 5-byte
input (binary protocol: element type 6 = I64 in this library's numbering, big-endian count) that exceeds it. The count cap 2^31 − 1 of the wire format is the
only limit: the ratio allocated / available reaches 3.4·10^9. -/
theorem thrift_alloc_unbounded (K K0 : Nat) (h : K * 5 + K0 < 8 * 2147483647) :
    ∃ b : Bytes, b.length = 5 ∧
      K * b.length + K0 < (unmarshalA (.binary true) false (.slice (.int .i64)) b).2 :=
  Lemmas.ThriftAlloc.alloc_unbounded K K0 h

/-- in the form `∀ K, ∃ t b, alloc > K·len(b)`, for every factor the wire format lets one collection reach -/
theorem thrift_alloc_unbounded_factor (K : Nat) (h : K ≤ 3435973835) :
    ∃ (t : Ty) (b : Bytes), K * b.length < (unmarshalA (.binary true) false t b).2 := by
  obtain ⟨b, _, hb⟩ := thrift_alloc_unbounded K 0 (by omega)
  exact ⟨.slice (.int .i64), b, by omega⟩

/-- the witness is a 5-byte input, and the model's decoder rejects it after the reservation (non-vacuity) -/
example : wList (.binary true) .i64 2147483647 = [0x06, 0x7f, 0xff, 0xff, 0xff] := by decide +kernel

/- FULL STATEMENT (not proved): for every type without string / binary / list / set / map (pointers allowed), the count is
   bounded by the total size of the pointees of the type, whatever the input (`reflect.New` runs once per nil pointer).
   Proved below for the pointer-free part of that universe, where the count is 0. -/
/-- **thrift_alloc_bounded_without_prealloc (partial: pointer-free universe).** For message types built from booleans,
integers and floats (and named types / nested messages of those) NO input reaches an allocation site: the clause fails
only through collections, strings and binaries. -/
theorem thrift_alloc_bounded_without_prealloc_partial (p : Proto) (strict : Bool) (t : Ty) (b : Bytes)
    (h : flatTy t = true) : (unmarshalA p strict t b).2 = 0 :=
  Lemmas.ThriftAlloc.alloc_flat p strict t b h

example : flatTy (.struct (.cons "A" "thrift:\"1\"" false (.int .i64)
    (.cons "B" "thrift:\"2\"" false (.struct (.cons "X" "thrift:\"1\"" false .f64 .nil)) .nil))) = true := by decide

end Alloc

/-! ## the model with unions (Enc/Model/ThriftUnion.lean) — what the driver runs for `thrift.decode`

On types without a union field `decodeU` / `unmarshalU` ARE `decode` / `unmarshal`, for every input, protocol, strictness,
depth counter and fuel (`decodeU_eq_decode`): every theorem above speaks about the model the driver runs. For types WITH
union fields — nested anywhere: in lists, maps, sets, behind pointers, as members of other unions — totality, boundedness,
truncation and the trailing-bytes report are proved directly on `decodeU` / `decodeStructU` (proofs in
`Enc/Lemmas/ThriftUnionTotalPre.lean`, `ThriftUnionTotal.lean`: the `ThriftTotal*` architecture ported; the union branch
only adds "reset the struct on every accepted member, remember the last member", which changes the values handed to the
next loop iteration, not what is read). The support predicate `SupportedU` (weaker than `Supported`:
`supportedU_of_supported`) asks for supported Go kinds only where `decodeFuncStructOf` builds a decoder — at the fields that
carry a thrift id; the union interface field itself (type `any`) and untagged fields are exempt. -/
theorem decodeU_eq_decode (p : Proto) (strict : Bool) (d fuel : Nat) (ty : Ty) (b : Bytes) (cur : Val)
    (h : noUnion ty = true) : decodeU p strict d fuel ty b cur = decode p strict d fuel ty b cur :=
  Lemmas.ThriftUnion.decodeU_eq_decode p strict d fuel ty b cur h

open Lemmas.ThriftUnionTotal in
/-- **MAIN (totality, unions included).** Every protocol setting, every target type without an unsupported Go kind at a
field that is decoded — union structs anywhere inside — and EVERY byte string: `Unmarshal` returns a value or an error,
never a panic. (Earlier version: hypotheses `Supported ty` — false for every union, whose interface field has type `any` —
and `noUnion ty`.) With EMBEDDED structs the Go code used to panic on a union: see the repaired finding at the end. -/
theorem unmarshalU_total (p : Proto) (strict : Bool) (ty : Ty) (b : Bytes) (e : String) (h : SupportedU ty = true) :
    unmarshalU p strict ty b ≠ .panic e :=
  Lemmas.ThriftUnionTotal.unmarshalU_total p strict ty b e h

open Lemmas.ThriftTotal Lemmas.ThriftUnionTotal in
/-- the earlier hypothesis implies the new one -/
theorem supportedU_of_supported (ty : Ty) (h : Supported ty = true) : SupportedU ty = true :=
  Lemmas.ThriftUnionTotal.supportedU_of_supported ty h

/-- no input drives the union decoder into unbounded descent: `Unmarshal`'s budget always suffices -/
theorem unmarshalU_ne_fuel (p : Proto) (strict : Bool) (ty : Ty) (b : Bytes) : unmarshalU p strict ty b ≠ .err "fuel" :=
  Lemmas.ThriftUnionTotal.unmarshalU_ne_fuel p strict ty b

/-- **MAIN (truncation, unions included).** Whatever input `Unmarshal` accepts, every proper prefix of it is rejected:
plain EOF for the empty prefix, unexpected EOF for every other one — a cut right after a complete union member (the struct
has been reset, `lastField` is set, the stop byte is missing) included: never a half-built union, never another class. -/
theorem unmarshalU_trunc (p : Proto) (strict : Bool) (ty : Ty) (b : Bytes) (v : Val)
    (h : unmarshalU p strict ty b = .ok v) (k : Nat) (hk : k < b.length) :
    unmarshalU p strict ty (b.take k) = .err (if k = 0 then "eof" else "unexpectedEof") :=
  Lemmas.ThriftUnionTotal.unmarshalU_trunc_strict p strict ty b v h k hk

/-- trailing bytes after a complete value are reported -/
theorem unmarshalU_append_trailing (p : Proto) (strict : Bool) (ty : Ty) (b extra : Bytes) (v : Val)
    (h : unmarshalU p strict ty b = .ok v) (hx : extra ≠ []) :
    unmarshalU p strict ty (b ++ extra) = .err "trailing" :=
  Lemmas.ThriftUnionTotal.unmarshalU_append_trailing p strict ty b extra v h hx

/-- the struct loop of a union, any position: a cut inside the consumed part is an EOF-class error -/
theorem decodeStructU_trunc (p : Proto) (strict : Bool) (d fuel : Nat) (descs : List FieldDesc) (zero : Option Vals)
    (vs : Vals) (last : Int) (num : Nat) (seen : List Int) (lastF : Option Nat) (b r : Bytes) (o : StructOut)
    (h : decodeStructU p strict d fuel descs zero b vs last num seen lastF = .ok (o, r)) (k : Nat)
    (hk : k < b.length - r.length) :
    decodeStructU p strict d fuel descs zero (b.take k) vs last num seen lastF =
      .err (if k = 0 ∧ num = 0 then "eof" else "unexpectedEof") :=
  Lemmas.ThriftUnionTotal.decodeStructU_trunc h k hk

open Lemmas.ThriftPrim Lemmas.ThriftSkip Lemmas.ThriftUnion Lemmas.ThriftRoundTrip in
/-- **truncation of what `Marshal` writes for a union** (hypotheses of C04 `union_round_trip`: exactly one member emitted —
zero-valued or not — of the proved universe): the bytes are not empty, every proper prefix is rejected with the exact EOF
class, and the bytes followed by anything are rejected as `"trailing"`. The hypotheses are discharged on the witness union
`Witness.V` by the `#guard`s of `Lemmas/ThriftUnionWitness.lean`; `Lemmas/ThriftUnionTotal.lean` `#guard`s every prefix. -/
theorem union_marshal_trunc (p : Proto) (strict : Bool) (fs : Fields) (vs : Vals) (u k : Nat) (tag : String)
    (t : Ty) (x : Val) (id : Int) (rq en : Bool)
    (hu : unionPos fs 0 = some u)
    (hq : othersQuiet (zeroMember fs vs) k fs vs 0 = true)
    (hk : fieldAt fs vs k = some (tag, t, x))
    (he : emittedU (zeroMember fs vs) k tag t x = some (id, en))
    (hid : 1 ≤ id ∧ id ≤ 32767) (hreal : isReal (typeOf t) = true)
    (hfind : findById (fieldDescs fs) id = some { pos := k, id := id, required := rq, enum := en, ty := t })
    (hreq : ∀ fd ∈ fieldDescs fs, fd.required = true → fd.id = id)
    (hty : tyAt fs k = some t)
    (hnu : noUnion t = true) (hx : RTS t x = true) (hen : enumTyOK en t = true)
    (hd : 1 + nest t ≤ Gen.c_thrift_maxDepth) :
    ∃ bytes, marshalU p (.struct fs) (.struct vs) = .ok bytes ∧ 0 < bytes.length ∧
      (∀ j, j < bytes.length →
        unmarshalU p strict (.struct fs) (bytes.take j) = .err (if j = 0 then "eof" else "unexpectedEof")) ∧
      (∀ extra, extra ≠ [] → unmarshalU p strict (.struct fs) (bytes ++ extra) = .err "trailing") :=
  Lemmas.ThriftUnionTotal.union_marshal_trunc p strict fs vs u k tag t x id rq en hu hq hk he hid hreal hfind hreq hty hnu
    hx hen hd

open Lemmas.ThriftSkip in
/-- non-vacuity: a union type (`Witness.V`: bool 1, string 3, the union interface field, int64 9; abstract tags) is
`SupportedU` (it is not `Supported`: the interface field has type `any`); that `Unmarshal` accepts members of it is checked by
the `#guard`s of `Lemmas/ThriftUnionWitness.lean` -/
example (ta tc tf tb : String) (ha : parseTag ta = some (1, false, false)) (hc : parseTag tc = some (3, false, false))
    (hf : parseTag tf = none) (hb : parseTag tb = some (9, false, false)) :
    Lemmas.ThriftUnionTotal.SupportedU (.struct (.cons "A" ta false .bool (.cons "C" tc false .str
      (.cons "F" tf false .any (.cons "B" tb false (.int .i64) .nil))))) = true := by
  simp [Lemmas.ThriftUnionTotal.SupportedU, Lemmas.ThriftUnionTotal.SupportedUF, ha, hc, hf, hb, IntKind.signed]

/-! ## REPAIRED FINDING (fix 62e5e1f): a union whose interface field is promoted from an embedded POINTER struct
(model of the combination: Enc/Model/ThriftUnionEmbed.lean, `decodeUE` = the index-path decoder of Model/ThriftEmbed.lean +
the union steps of Model/ThriftUnion.lean, as written; corresponded with the Go code by the GENERATED cases
`thrift.uembdecode` at the end of the C08 runner — four shapes, three protocols, strict or not, every prefix of valid
inputs, with the Go-side oracle "the outcome is the one of the flat union": no panic, F points at the member decoded last).

Go: `type M struct{A int32 "1"; B string "2"}; type U struct{F any ",union"}; type T struct{M; *U}`; before the fix
`thrift.Unmarshal(compact, []byte{0x15, 0x0a, 0x00}, &T{})` (member A = 5) PANICKED with "reflect: indirection through nil
pointer to embedded struct": `structDecoder.decode` resets the struct on the accepted member (`v.Set(dec.zero)`: the embedded
`*U` is nil), the walk to the member allocates only what is on the MEMBER's path, and the closing
`v.FieldByIndex(dec.union).Set(lastField.Addr())` did not allocate (an earlier version of this file proved
`union_behind_nil_embedded_pointer_panics`: a panic for every input delivering a member). Now the path to the union field
is walked like the members' paths (allocating; "cannot set embedded field of unexported type" when it cannot), and: -/

open Lemmas.ThriftUnionEmbed in
/-- **union field behind a nil embedded pointer ⇒ the pointer is allocated and the union field designates the member, every
input.** The union field's index path is `j :: k :: rest` (promoted from the embedded field at top-level position `j`), no
member's path starts with `j`, the zero value of the struct holds a nil pointer at `j`. For every input, protocol, strictness,
depth, fuel, target: when the struct loop accepts a member (the last one at index path `m`), no required field is missing and
the walk is not blocked by an unexported embedded type, position `j` IS nil after the loop (the situation that used to
panic), and the result is the loop's struct with a fresh struct allocated at `j` whose union field holds the address of
member `m`. -/
theorem union_behind_nil_embedded_pointer_decodes (p : Proto) (strict : Bool) (d fuel : Nat) (fs : Fields) (j k : Nat)
    (rest : List Nat) (hup : unionPathE fs = some (j :: k :: rest)) (hj : AwayFrom (fieldDescsE fs) j)
    (hZ : Vals.get (zeroFields fs) j = .nil) (b : Bytes) (vs : Vals)
    (vs' : Vals) (seen : List Int) (m : List Nat) (r : Bytes)
    (hloop : decodeStructUE p strict (d + 1) fs (fieldDescsE fs) (some (zeroFields fs)) fuel b vs 0 0 [] none
        = .ok ((vs', seen, some m), r))
    (hreq : (fieldDescsE fs).any (fun fd => fd.required && !seen.contains fd.id) = false)
    (hdeep : tooDeep d = false) (hblk : blocked fs vs' (j :: k :: rest) = false) :
    Vals.get vs' j = .nil ∧
    decodeUE p strict d (fuel + 1) (.struct fs) b (.struct vs) =
      .ok (.struct (Vals.set vs' j (.ptr (.struct
        (setPathA (structOf (tyAtF fs j)) (zeroFields (structOf (tyAtF fs j))) (k :: rest) (pathRef m))))), r) :=
  Lemmas.ThriftUnionEmbed.union_behind_nil_embedded_pointer_decodes p strict d fuel fs j k rest hup hj hZ b vs vs' seen m r
    hloop hreq hdeep hblk

open Lemmas.ThriftUnionEmbed in
/-- **totality with embedded structs and a union**: every input, protocol, strictness, depth, fuel, target — never a panic
(`SupportedE`: supported Go kinds at the promoted members of the outer struct) -/
theorem decodeUE_total (p : Proto) (strict : Bool) (d fuel : Nat) (ty : Ty) (b : Bytes) (cur : Val) (e : String)
    (h : SupportedE ty = true) : decodeUE p strict d fuel ty b cur ≠ .panic e :=
  Lemmas.ThriftUnionEmbed.decodeUE_total p strict d fuel ty b cur h e

open Lemmas.ThriftUnionEmbed in
theorem unmarshalUE_total (p : Proto) (strict : Bool) (ty : Ty) (b : Bytes) (e : String) (h : SupportedE ty = true) :
    unmarshalUE p strict ty b ≠ .panic e :=
  Lemmas.ThriftUnionEmbed.unmarshalUE_total p strict ty b e h

open Lemmas.ThriftUnionEmbed in
/-- non-vacuity: the shape `struct{M; *U}` above satisfies the hypotheses of both theorems (names and tags abstract; the
concrete strings, and `unmarshalUE .compact _ T [0x15, 0x0a, 0x00] = ok {M{5, ""}, &U{F → A}}` — also binary protocol, also
"last of two members wins" — are `#guard`ed in Lemmas/ThriftUnionEmbed.lean) -/
example (nM nU nA nB nF te ta tb tf : String)
    (hM : isExported nM = true) (hU : isExported nU = true) (hA : isExported nA = true) (hB : isExported nB = true)
    (hF : isExported nF = true)
    (hta : tagOf ta = some (1, false, false)) (htb : tagOf tb = some (2, false, false)) (htf : tagOf tf = none)
    (hua : isUnionTag ta = false) (hub : isUnionTag tb = false) (huf : isUnionTag tf = true) :
    (unionPathE (outerPtrOf nM nU nA nB nF te ta tb tf) = some [1, 0] ∧
     AwayFrom (fieldDescsE (outerPtrOf nM nU nA nB nF te ta tb tf)) 1 ∧
     Vals.get (zeroFields (outerPtrOf nM nU nA nB nF te ta tb tf)) 1 = .nil) ∧
    SupportedE (.struct (outerPtrOf nM nU nA nB nF te ta tb tf)) = true :=
  ⟨outerPtr_hyps nM nU nA nB nF te ta tb tf hM hU hA hB hF hta htb htf hua hub huf,
   outerPtr_supported nM nU nA nB nF te ta tb tf hM hU hA hB hF hta htb htf⟩

/- NOTE (outside the universe of every model here; generated cases `thrift.uembdecode … stringer …`, oracle only): the union
   field may have a NON-EMPTY interface type (`struct{A int32 "1"; F fmt.Stringer ",union"}`; struct.go checks
   `Kind() == reflect.Interface` only). Before fix 62e5e1f the closing `Set` panicked ("reflect.Set: value of type *int32 is
   not assignable to type fmt.Stringer") as soon as a member arrived; now `Unmarshal` returns an error ("cannot set union
   field of type … to a value of type …"). The universe has the empty interface `any` only: always assignable. -/

end Enc.Props.C08
