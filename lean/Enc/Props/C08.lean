import Enc.Model.Thrift
import Enc.Lemmas.Base
import Enc.Lemmas.ThriftSkip
import Enc.Lemmas.ThriftTotal
import Enc.Lemmas.ThriftMismatch
import Enc.Lemmas.ThriftDepth
import Enc.Lemmas.ThriftDeltaStop
import Enc.Lemmas.ThriftStructEnd
import Enc.Lemmas.ThriftDepthExact
import Enc.Lemmas.ThriftAlloc
import Enc.Lemmas.ThriftUnionDec
/-!
# C08 — thrift decoding is total, bounded and skips unknown fields
Property theorems only.
-/
namespace Enc.Props.C08
open Enc Enc.Model.Thrift

/-- `io.ReadFull`: exactly n bytes are consumed and nothing beyond the input is read -/
theorem readN_ok (b : Bytes) (n : Nat) (x r : Bytes) (h : readN b n = .ok (x, r)) :
    x.length = n ∧ b = x ++ r := by
  unfold readN at h
  rw [hasAtLeast_iff] at h
  split at h
  · rename_i hn
    have hn : n ≤ b.length := by simpa using hn
    simp only [Res.ok.injEq, Prod.mk.injEq] at h
    obtain ⟨rfl, rfl⟩ := h
    simp only [List.length_take, List.take_append_drop, and_true]
    omega
  · split at h <;> simp at h

/-- a fixed-width read cut short by the end of input is an unexpected-EOF class error (plain EOF only when nothing
at all was left) — never a value made of stale bytes -/
theorem readN_truncated (b : Bytes) (n : Nat) (h : b.length < n) :
    readN b n = .err (if b.isEmpty then "eof" else "unexpectedEof") := by
  unfold readN
  rw [hasAtLeast_iff]
  have : ¬ n ≤ b.length := by omega
  simp only [this, decide_false, Bool.false_eq_true, if_false]
  split <;> rfl

/-- lengths above MaxInt32 are rejected by both protocols' `ReadLength` -/
theorem rLength_bounded (p : Proto) (b r : Bytes) (n : Nat) (h : rLength p b = .ok (n, r)) : n ≤ 2147483647 := by
  cases p <;> simp only [rLength] at h
  all_goals
    cases hx : (rFixed b 4) <;> cases hy : (readUvarintGo b) <;> simp_all [Res.bind] <;>
    (try (split at h <;> simp_all <;> omega))

/-- **Unknown fields of any thrift type and nesting are skipped.** For both protocols, every supported type `ty` and
every well-formed value `v` (explicit decidable predicate `Lemmas.ThriftSkip.WF`: value shape matches the type, integers in
range, sizes ≤ MaxInt32, struct field ids distinct and in 1..32767, no enum tag on a non-int32 kind), the generic skipper
run on the wire type of `ty` consumes exactly the encoding of `v` and nothing else, whatever follows — including nested
structs with delta-encoded ids, compact bool fields that live in the header, lists, sets and maps. `d` is the nesting
depth the skipper is called at (`skip(r, t, depth)`); the value's own nesting must fit below the limit `maxDepth`
(beyond it the skipper answers `"maxDepth"`). -/
theorem skip_consumes_exactly (p : Proto) (ty : Ty) (v : Val) (h : Lemmas.ThriftSkip.WF ty v = true)
    (d : Nat) (fuel : Nat) (rest : Bytes) (hd : d + nest ty ≤ Gen.c_thrift_maxDepth)
    (hf : Lemmas.ThriftSkip.fuelOf ty v ≤ fuel) :
    skip p d fuel (typeOf ty) (encode p ty v ++ rest) = .ok ((), rest) :=
  Lemmas.ThriftSkip.skip_encode p ty v h d fuel rest hd hf

/-- non-vacuity: the depth hypothesis is satisfiable -/
example : 0 + nest (.slice (.int .i32)) ≤ Gen.c_thrift_maxDepth := by decide

/-- … and the struct decoder resumes right after an undeclared field with the target's field values and the set of seen
ids unchanged ("skipped without affecting the decoded value") -/
theorem undeclared_field_has_no_effect (p : Proto) (strict : Bool) (d : Nat) (B : Nat) (f : FieldRec) (r : List FieldRec)
    (hg : Lemmas.ThriftSkip.GoodRec p d B f) (last : Int) (hl : 0 ≤ last) (hlt : last < f.id)
    (descs : List FieldDesc) (hnone : findById descs f.id = none) (fuel : Nat) (hf : B ≤ fuel)
    (vs : Vals) (num : Nat) (seen : List Int) (rest : Bytes) :
    decodeStruct p strict d (fuel + 1) descs (emitFields p (f :: r) last ++ rest) vs last num seen
      = decodeStruct p strict d fuel descs (emitFields p r f.id ++ rest) vs f.id (num + 1) seen :=
  Lemmas.ThriftSkip.decodeStruct_undeclared p strict d B f r hg last hl hlt descs hnone fuel hf vs num seen rest

/-- non-vacuity: the well-formedness predicate is satisfiable (a list of in-range i32 values; the agent's `#eval` checks a
struct with bool, list-of-struct, enum, map-of-pointers and set in both protocols) -/
example : Lemmas.ThriftSkip.WF (.slice (.int .i32)) (.list (.cons (.int 5) (.cons (.int (-7)) .nil))) = true := by
  decide +kernel

/-! ## totality, truncation, trailing bytes (proofs in Enc/Lemmas/ThriftTotal*.lean; 7 files) -/

open Lemmas.ThriftTotal in
/-- **MAIN (totality).** For every protocol setting, every target type without an unsupported Go kind (unsigned
integers other than []byte, arrays, empty interfaces — Go panics on those while building the decoder) and EVERY byte
string, `Unmarshal` returns a value or an error. The skippers never panic on any wire type code at all. -/
theorem unmarshal_total (p : Proto) (strict : Bool) (ty : Ty) (b : Bytes) (e : String) (h : Supported ty = true) :
    unmarshal p strict ty b ≠ .panic e :=
  Lemmas.ThriftTotal.unmarshal_total p strict ty b e h

open Lemmas.ThriftTotal in
/-- no input — absurd element counts included — drives the decoder into unbounded descent -/
theorem unmarshal_ne_fuel (p : Proto) (strict : Bool) (ty : Ty) (b : Bytes) : unmarshal p strict ty b ≠ .err "fuel" :=
  Lemmas.ThriftTotal.unmarshal_ne_fuel p strict ty b

open Lemmas.ThriftTotal in
/-- **MAIN (truncation).** Whatever input `Unmarshal` accepts — not only encoder output — every proper prefix of it is
rejected with plain EOF when nothing at all is left and with an unexpected-EOF class error otherwise: never a value,
never another error class (a cut at a field boundary or one that drops a required field included). -/
theorem unmarshal_trunc (p : Proto) (strict : Bool) (ty : Ty) (b : Bytes) (v : Val)
    (h : unmarshal p strict ty b = .ok v) (k : Nat) (hk : k < b.length) :
    unmarshal p strict ty (b.take k) = .err (if k = 0 then "eof" else "unexpectedEof") :=
  Lemmas.ThriftTotal.unmarshal_trunc_strict p strict ty b v h k hk

open Lemmas.ThriftTotal in
/-- trailing bytes after a complete value are reported -/
theorem unmarshal_append_trailing (p : Proto) (strict : Bool) (ty : Ty) (b extra : Bytes) (v : Val)
    (h : unmarshal p strict ty b = .ok v) (hx : extra ≠ []) :
    unmarshal p strict ty (b ++ extra) = .err "trailing" :=
  Lemmas.ThriftTotal.unmarshal_append_trailing p strict ty b extra v h hx

/-! ## a value whose wire type does not match the Go type (fix d1e2b54; proofs in Enc/Lemmas/ThriftMismatch.lean) -/

/-- **A declared field that arrives with the wrong wire type is skipped (non-strict) / rejected (strict).** The analogue of
`undeclared_field_has_no_effect` for a field the target DOES declare (`findById descs f.id = some fd`) but with another
thrift type (`f.t ≠ typeOf fd.ty`), holding any well-formed value of the type it announces (`GoodRec`: the skipper
consumes its body exactly — by `skip_consumes_exactly` every well-formed value of every supported type qualifies, see
`Lemmas.ThriftSkip.goodRec_of_WF`): in non-strict mode the struct decoder resumes right after the value with the field
values `vs` unchanged — so the result is the one of the message without that field — and the id recorded as seen (Go sets
the seen bit before it compares the types: for a `required` field the wrong-typed occurrence counts as present); in
strict mode the result is a TypeMismatch error. Before the fix the non-strict decoder left the value's bytes in the
stream and parsed them as field headers. -/
theorem mismatch_skipped (p : Proto) (d : Nat) (B : Nat) (f : FieldRec) (r : List FieldRec)
    (hg : Lemmas.ThriftSkip.GoodRec p d B f) (last : Int) (hl : 0 ≤ last) (hlt : last < f.id)
    (descs : List FieldDesc) (fd : FieldDesc) (hsome : findById descs f.id = some fd) (hmis : f.t ≠ typeOf fd.ty)
    (fuel : Nat) (hf : B ≤ fuel) (vs : Vals) (num : Nat) (seen : List Int) (rest : Bytes) :
    decodeStruct p false d (fuel + 1) descs (emitFields p (f :: r) last ++ rest) vs last num seen
      = decodeStruct p false d fuel descs (emitFields p r f.id ++ rest) vs f.id (num + 1) (f.id :: seen) ∧
    decodeStruct p true d (fuel + 1) descs (emitFields p (f :: r) last ++ rest) vs last num seen
      = .err "typeMismatch" :=
  ⟨Lemmas.ThriftMismatch.decodeStruct_mismatch p d B f r hg last hl hlt descs fd hsome hmis fuel hf vs num seen rest,
   Lemmas.ThriftMismatch.decodeStruct_mismatch_strict p d B f r hg last hl hlt descs fd hsome hmis fuel hf vs num seen rest⟩

/-- … and the items of a list whose element type does not match the Go slice are skipped (`skipValues`): the input is
consumed exactly, the target keeps its value; strict mode rejects. The items live one level below the list:
`d + 1 + nest wt ≤ maxDepth`. -/
theorem mismatch_list_skipped (p : Proto) (strict : Bool) (d : Nat) (et wt : Ty) (vs : Vals)
    (hu : Lemmas.ThriftSkip.isU8 et = false) (hwu : Lemmas.ThriftSkip.isU8 wt = false)
    (hwf : Lemmas.ThriftSkip.WF (.slice wt) (.list vs) = true)
    (hmis : typeOf et ≠ typeOf wt) (hd : d + 1 + nest wt ≤ Gen.c_thrift_maxDepth)
    (fuel : Nat) (hf : Lemmas.ThriftSkip.fuelOf (.slice wt) (.list vs) ≤ fuel) (rest : Bytes) (cur : Val) :
    decode p strict d fuel (.slice et) (encode p (.slice wt) (.list vs) ++ rest) cur
      = if strict then .err "typeMismatch" else .ok (cur, rest) :=
  Lemmas.ThriftMismatch.decode_slice_mismatch p strict d et wt vs hu hwu hwf hmis hd fuel hf rest cur

/-- … the entries of a non-empty map whose key or value type does not match the Go map are skipped, the target is the
empty map Go allocated before the test … -/
theorem mismatch_map_skipped (p : Proto) (strict : Bool) (d : Nat) (kt vt wk wv : Ty) (x : Val)
    (hvt : isEmptyStruct vt = false) (hwv : isEmptyStruct wv = false)
    (hwf : Lemmas.ThriftSkip.WF (.map wk wv) x = true) (hne : Lemmas.ThriftSkip.pairsOfVal x ≠ [])
    (hmis : typeOf kt ≠ typeOf wk ∨ typeOf vt ≠ typeOf wv)
    (hd : d + 1 + max (nest wk) (nest wv) ≤ Gen.c_thrift_maxDepth)
    (fuel : Nat) (hf : Lemmas.ThriftSkip.fuelOf (.map wk wv) x ≤ fuel) (rest : Bytes) (cur : Val) :
    decode p strict d fuel (.map kt vt) (encode p (.map wk wv) x ++ rest) cur
      = if strict then .err "typeMismatch" else .ok (.map .nil, rest) :=
  Lemmas.ThriftMismatch.decode_map_mismatch p strict d kt vt wk wv x hvt hwv hwf hne hmis hd fuel hf rest cur

/-- … and the members of a non-empty set likewise -/
theorem mismatch_set_skipped (p : Proto) (strict : Bool) (d : Nat) (kt wk : Ty) (x : Val)
    (hwf : Lemmas.ThriftSkip.WF (.map wk (.struct .nil)) x = true) (hne : Lemmas.ThriftSkip.pairsOfVal x ≠ [])
    (hmis : typeOf kt ≠ typeOf wk) (hd : d + 1 + nest wk ≤ Gen.c_thrift_maxDepth)
    (fuel : Nat) (hf : Lemmas.ThriftSkip.fuelOf (.map wk (.struct .nil)) x ≤ fuel) (rest : Bytes) (cur : Val) :
    decode p strict d fuel (.map kt (.struct .nil)) (encode p (.map wk (.struct .nil)) x ++ rest) cur
      = if strict then .err "typeMismatch" else .ok (.map .nil, rest) :=
  Lemmas.ThriftMismatch.decode_set_mismatch p strict d kt wk x hwf hne hmis hd fuel hf rest cur

/-- non-vacuity: two i64 values offered to a `[]int32` -/
example : Lemmas.ThriftSkip.WF (.slice (.int .i64)) (.list (.cons (.int 5) (.cons (.int (-7)) .nil))) = true ∧
    typeOf (.int .i32) ≠ typeOf (.int .i64) ∧ 0 + 1 + nest (.int .i64) ≤ Gen.c_thrift_maxDepth := by
  decide +kernel
/-- … and a one-entry `map[string]int64` offered to a `map[string]int32` -/
example : Lemmas.ThriftSkip.WF (.map .str (.int .i64)) (.map (.cons (.str [0x6b]) (.cons (.int 7) .nil))) = true ∧
    Lemmas.ThriftSkip.pairsOfVal (.map (.cons (.str [0x6b]) (.cons (.int 7) .nil))) ≠ [] ∧
    (typeOf .str ≠ typeOf .str ∨ typeOf (.int .i32) ≠ typeOf (.int .i64)) := by
  decide +kernel

/-! ## the nesting limit (fix 9c8d6b4; proofs in Enc/Lemmas/ThriftDepth.lean) -/

/-- **Depth limit, every input.** The depth argument `d` counts the structs, lists, sets and maps the decoder is inside of;
every recursive call of the model passes `d + 1` when it enters one, and at `d ≥ maxDepth` (10000, regenerated constant)
a container is refused before a byte of it is read: by the skipper for the four container wire types, by the decoder for
a declared struct. Hence no run is ever inside more than maxDepth containers — no input can overflow the stack. -/
theorem depth_limit (p : Proto) (strict : Bool) (d fuel : Nat) (b : Bytes) (hd : Gen.c_thrift_maxDepth ≤ d) :
    (∀ t, Lemmas.ThriftDepth.isContainer t = true → skip p d (fuel + 1) t b = .err "maxDepth") ∧
    (∀ fs cur, decode p strict d (fuel + 1) (.struct fs) b cur = .err "maxDepth") :=
  ⟨fun t ht => Lemmas.ThriftDepth.skip_at_limit p d fuel t b ht hd,
   fun fs cur => Lemmas.ThriftDepth.decode_struct_at_limit p strict d fuel fs b cur hd⟩

/-- … and a declared slice at `d ≥ maxDepth` never has an element decoded: the only successful outcome is the non-strict
skipping of a list whose wire type does not match (the skipper then applies the limit to the items) -/
theorem depth_limit_slice (p : Proto) (strict : Bool) (d fuel : Nat) (et : Ty) (hu : Lemmas.ThriftSkip.isU8 et = false)
    (b : Bytes) (cur v : Val) (r : Bytes) (hd : Gen.c_thrift_maxDepth ≤ d)
    (h : decode p strict d (fuel + 1) (.slice et) b cur = .ok (v, r)) :
    strict = false ∧ v = cur ∧ ∃ lt n r0, rList p b = .ok ((lt, n), r0) ∧
      typeOf et ≠ (if lt == .true_ then TType.bool else lt) :=
  Lemmas.ThriftDepth.decode_slice_at_limit p strict d fuel et hu b cur v r hd h

/-- below the limit well-formed values of any nesting are skipped: `skip_consumes_exactly` (hypothesis
`d + nest ty ≤ maxDepth`). The limit is real and sharp — compact protocol, a struct that does not declare field 2, input
= header `0x29` (id 2, LIST) followed by nested "one element of type LIST" list headers (`0x19`): after 9999 of them the
list they announce would be container number 10001 (the struct is number 1, the 9999 lists are 2 … 10000) and `Unmarshal`
fails whatever follows … -/
theorem deep_unknown_rejected (strict : Bool) (fs : Fields) (hnone : findById (fieldDescs fs) 2 = none) (t : Bytes) :
    unmarshal .compact strict (.struct fs) (0x29 :: (List.replicate (Gen.c_thrift_maxDepth - 1) 0x19 ++ t))
      = .err "maxDepth" :=
  Lemmas.ThriftDepth.deep_unknown_rejected strict fs hnone t

/-- … while 9998 such headers around an empty list — 9999 nested lists, the innermost is container number 10000 — are
skipped and the struct is decoded: the limit is sharp -/
theorem max_depth_unknown_accepted (strict : Bool) (fs : Fields) (hnone : findById (fieldDescs fs) 2 = none)
    (noreq : (fieldDescs fs).any (fun fd => fd.required) = false) :
    unmarshal .compact strict (.struct fs)
      (0x29 :: (List.replicate (Gen.c_thrift_maxDepth - 2) 0x19 ++ [0x09, 0x00])) = .ok (zeroOf (.struct fs)) :=
  Lemmas.ThriftDepth.max_depth_unknown_accepted strict fs hnone noreq

/-- non-vacuity of the hypotheses (the empty struct; a struct with a tagged field is checked by `#guard` in the Lemmas
file: the struct-tag parser is `String.splitOn`, which the kernel does not unfold) -/
example : findById (fieldDescs .nil) 2 = none ∧ (fieldDescs .nil).any (fun fd => fd.required) = false := by decide

/-! ## only the byte 0 is the stop field (fix 7d9da57; proofs in Enc/Lemmas/ThriftDeltaStop.lean) -/

/-- **Compact protocol: a field header byte 0x10 … 0xF0 (id delta ≠ 0, type nibble 0) is rejected**, at any position of a
struct body (`last`, `num`, fields seen so far are arbitrary), by the struct skipper and by the struct decoder, strict or
not, whatever follows; and such a byte in front of a struct makes `Unmarshal` fail. Before the fix each of these fifteen
bytes ended the struct like the byte 0. -/
theorem delta_stop_rejected (strict : Bool) (d fuel : Nat) (c : UInt8) (h : Lemmas.ThriftDeltaStop.IsDeltaStop c)
    (rest : Bytes) (last : Int) (num : Nat) :
    skipStruct .compact d (fuel + 1) (c :: rest) last num = .err "deltaStop" ∧
    (∀ descs vs seen, decodeStruct .compact strict d (fuel + 1) descs (c :: rest) vs last num seen = .err "deltaStop") ∧
    (∀ fs, unmarshal .compact strict (.struct fs) (c :: rest) = .err "deltaStop") :=
  ⟨Lemmas.ThriftDeltaStop.skipStruct_delta_stop d fuel c h rest last num,
   fun descs vs seen => Lemmas.ThriftDeltaStop.decodeStruct_delta_stop strict d fuel descs c h rest vs last num seen,
   fun fs => Lemmas.ThriftDeltaStop.unmarshal_delta_stop strict fs c h rest⟩

/-- … and only the byte 0 ends a struct: among the sixteen header bytes with type nibble 0, the struct skipper stops on
the spot exactly for 0 (and the decoder returns the field values and the seen-set as they are) -/
theorem only_zero_is_stop (strict : Bool) (d fuel : Nat) (c : UInt8) (hc : c.toNat % 16 = 0) (rest : Bytes) (last : Int)
    (num : Nat) :
    (skipStruct .compact d (fuel + 1) (c :: rest) last num = .ok ((), rest) ↔ c = 0) ∧
    (∀ descs vs seen, decodeStruct .compact strict d (fuel + 1) descs (0 :: rest) vs last num seen = .ok ((vs, seen), rest)) :=
  ⟨Lemmas.ThriftDeltaStop.skipStruct_ends_iff_zero d fuel c hc rest last num,
   fun descs vs seen => Lemmas.ThriftDeltaStop.decodeStruct_stop_byte strict d fuel descs rest vs last num seen⟩

/-- **For every input: whatever struct body the compact skipper accepts ends with the byte 0** (any bytes, any nesting,
any position `last`/`num`, any fuel) — `b = x ++ 0 :: r` where `r` is what is left. Before the fix the bodies `[0x10]` …
`[0xF0]` were accepted. -/
theorem struct_ends_with_zero (fuel d : Nat) (b : Bytes) (last : Int) (num : Nat) (r : Bytes)
    (h : skipStruct .compact d fuel b last num = .ok ((), r)) : ∃ x, b = x ++ 0 :: r :=
  Lemmas.ThriftDeltaStop.skipStruct_ends_with_zero fuel d b last num r h

/-- non-vacuity: a struct with one i8 field (id 1, value 5), followed by an unrelated byte -/
example : skipStruct .compact 1 3 [0x13, 5, 0, 0xAA] 0 0 = .ok ((), [0xAA]) := by decide +kernel

example : Lemmas.ThriftDeltaStop.IsDeltaStop 0x10 ∧ Lemmas.ThriftDeltaStop.IsDeltaStop 0xF0 ∧
    ¬ Lemmas.ThriftDeltaStop.IsDeltaStop 0 ∧ ¬ Lemmas.ThriftDeltaStop.IsDeltaStop 0x15 := by decide

/-- **The skipper's depth limit, exactly.** For a well-formed value `v` (predicate `WF`, as in `skip_consumes_exactly`)
let `vdepth ty v` be the number of nested containers — lists, sets, maps, structs — actually present in its encoding
(the nesting of the VALUE: an empty list counts 1, a struct counts 1 + its deepest EMITTED field, scalars and byte
strings 0; `vdepth ty v ≤ nest ty`). Called at depth `d ≤ maxDepth`, the generic skipper consumes exactly the encoding
when `d + vdepth ty v ≤ maxDepth`, and otherwise — as soon as one element, key, value or field anywhere inside is nested
too deep, the ones before it being skipped normally — answers `"maxDepth"`: never a success, never another error. Both
protocols, any nesting, compact bool fields and delta ids included. -/
theorem depth_limit_exact (p : Proto) (ty : Ty) (v : Val) (h : Lemmas.ThriftSkip.WF ty v = true)
    (d fuel : Nat) (rest : Bytes) (hd : d ≤ Gen.c_thrift_maxDepth) (hf : Lemmas.ThriftSkip.fuelOf ty v ≤ fuel) :
    skip p d fuel (typeOf ty) (encode p ty v ++ rest) =
      if d + Lemmas.ThriftDepthExact.vdepth ty v ≤ Gen.c_thrift_maxDepth then .ok ((), rest) else .err "maxDepth" :=
  Lemmas.ThriftDepthExact.skip_exact p ty v h d fuel rest hd hf

/-- non-vacuity: `[][]int32{{5}, {}}` is well-formed and nests two containers, so it is skipped at depth 9998 and
rejected at depth 9999 (`maxDepth` = 10000) -/
example : Lemmas.ThriftSkip.WF (.slice (.slice (.int .i32)))
      (.list (.cons (.list (.cons (.int 5) .nil)) (.cons (.list .nil) .nil))) = true ∧
    Lemmas.ThriftDepthExact.vdepth (.slice (.slice (.int .i32)))
      (.list (.cons (.list (.cons (.int 5) .nil)) (.cons (.list .nil) .nil))) = 2 ∧
    9998 + 2 ≤ Gen.c_thrift_maxDepth ∧ ¬ (9999 + 2 ≤ Gen.c_thrift_maxDepth) := by decide +kernel

/-! ## allocation: "memory allocated stays within a constant factor of the bytes actually available" — FALSE as coded
(known finding `thrift-wire-size-alloc`; accounting model `Enc/Model/ThriftAlloc.lean`: `unmarshalA = (unmarshal, bytes
requested by the allocation sites that size themselves from a number read off the wire)`) -/
section Alloc
open Lemmas.ThriftAlloc Lemmas.ThriftPrim

/-- the accounting function does not change the decoder -/
theorem unmarshalA_proj (p : Proto) (strict : Bool) (t : Ty) (b : Bytes) :
    (unmarshalA p strict t b).1 = unmarshal p strict t b := rfl

/-- **the witness family.** In EVERY protocol, strict or not, a list header announcing `n` int64 — followed by anything,
also by nothing — makes `Unmarshal` into `[]int64` reserve `8·n` bytes before the first element is read
(`reflect.MakeSlice(t, int(l.Size), int(l.Size))`), for every `n` up to the wire format's cap 2^31 − 1. -/
theorem thrift_list_prealloc (p : Proto) (strict : Bool) (n : Nat) (hn : n ≤ 2147483647) (rest : Bytes) :
    8 * n ≤ (unmarshalA p strict (.slice (.int .i64)) (wList p .i64 n ++ rest)).2 :=
  Lemmas.ThriftAlloc.list_prealloc p strict n hn rest

/-- likewise the length prefix of a string / binary: `make([]byte, n)` precedes `io.ReadFull` -/
theorem thrift_bytes_prealloc (p : Proto) (strict : Bool) (n : Nat) (hn : n ≤ 2147483647) (rest : Bytes) :
    n ≤ (unmarshalA p strict .str (wLength p n ++ rest)).2 :=
  Lemmas.ThriftAlloc.bytes_prealloc p strict n hn rest

/-- **MAIN (thrift_alloc_unbounded) — the negation of the clause, as a theorem about the code as written.** For the fixed
target type `[]int64`, no bound `K·len(b) + K0` with constants below `8·(2^31 − 1)` ≈ 1.7·10^10 holds: there is a 5-byte
input (binary protocol: element type 6 = I64 in this library's numbering, big-endian count) that exceeds it. The count cap 2^31 − 1 of the wire format is the
only limit: the ratio allocated / available reaches 3.4·10^9. -/
theorem thrift_alloc_unbounded (K K0 : Nat) (h : K * 5 + K0 < 8 * 2147483647) :
    ∃ b : Bytes, b.length = 5 ∧
      K * b.length + K0 < (unmarshalA (.binary true) false (.slice (.int .i64)) b).2 :=
  Lemmas.ThriftAlloc.alloc_unbounded K K0 h

/-- in the form `∀ K, ∃ t b, alloc > K·len(b)`, for every factor the wire format lets one collection reach -/
theorem thrift_alloc_unbounded_factor (K : Nat) (h : K ≤ 3435973835) :
    ∃ (t : Ty) (b : Bytes), K * b.length < (unmarshalA (.binary true) false t b).2 := by
  obtain ⟨b, _, hb⟩ := thrift_alloc_unbounded K 0 (by omega)
  exact ⟨.slice (.int .i64), b, by omega⟩

/-- the witness is a 5-byte input, and the model's decoder rejects it after the reservation (non-vacuity) -/
example : wList (.binary true) .i64 2147483647 = [0x06, 0x7f, 0xff, 0xff, 0xff] := by decide +kernel

/- FULL STATEMENT (not proved): for every type without string / binary / list / set / map (pointers allowed), the count is
   bounded by the total size of the pointees of the type, whatever the input (`reflect.New` runs once per nil pointer).
   Proved below for the pointer-free part of that universe, where the count is 0. -/
/-- **thrift_alloc_bounded_without_prealloc (partial: pointer-free universe).** For message types built from booleans,
integers and floats (and named types / nested messages of those) NO input reaches an allocation site: the clause fails
only through collections, strings and binaries. -/
theorem thrift_alloc_bounded_without_prealloc_partial (p : Proto) (strict : Bool) (t : Ty) (b : Bytes)
    (h : flatTy t = true) : (unmarshalA p strict t b).2 = 0 :=
  Lemmas.ThriftAlloc.alloc_flat p strict t b h

example : flatTy (.struct (.cons "A" "thrift:\"1\"" false (.int .i64)
    (.cons "B" "thrift:\"2\"" false (.struct (.cons "X" "thrift:\"1\"" false .f64 .nil)) .nil))) = true := by decide

end Alloc

/-! ## the model with unions (Enc/Model/ThriftUnion.lean) — what the driver runs for `thrift.decode`

On types without a union field `decodeU` / `unmarshalU` ARE `decode` / `unmarshal`, for every input, protocol, strictness,
depth counter and fuel: every theorem of this file speaks about the model the driver runs. For union types the decoder is
corresponded by the harness (truncations at every offset, mutations, several members, mismatching members: `thriftUnionSweep`
/ `thriftUnionMulti` in harness/thriftunion.go); totality and the truncation theorem are not yet proved for them. -/
theorem decodeU_eq_decode (p : Proto) (strict : Bool) (d fuel : Nat) (ty : Ty) (b : Bytes) (cur : Val)
    (h : noUnion ty = true) : decodeU p strict d fuel ty b cur = decode p strict d fuel ty b cur :=
  Lemmas.ThriftUnion.decodeU_eq_decode p strict d fuel ty b cur h

open Lemmas.ThriftTotal in
theorem unmarshalU_total (p : Proto) (strict : Bool) (ty : Ty) (b : Bytes) (e : String) (h : Supported ty = true)
    (hnu : noUnion ty = true) : unmarshalU p strict ty b ≠ .panic e := by
  rw [Lemmas.ThriftUnion.unmarshalU_eq_unmarshal p strict ty b hnu]
  exact Lemmas.ThriftTotal.unmarshal_total p strict ty b e h

end Enc.Props.C08
