import Enc.Model.Thrift
import Enc.Lemmas.Base
/-!
# C08 — thrift decoding is total, bounded and skips unknown fields
Property theorems only.
-/
namespace Enc.Props.C08
open Enc Enc.Model.Thrift

/-- `io.ReadFull`: exactly n bytes are consumed and nothing beyond the input is read -/
theorem readN_ok (b : Bytes) (n : Nat) (x r : Bytes) (h : readN b n = .ok (x, r)) :
    x.length = n ∧ b = x ++ r := by
  unfold readN at h
  rw [hasAtLeast_iff] at h
  split at h
  · rename_i hn
    have hn : n ≤ b.length := by simpa using hn
    simp only [Res.ok.injEq, Prod.mk.injEq] at h
    obtain ⟨rfl, rfl⟩ := h
    simp only [List.length_take, List.take_append_drop, and_true]
    omega
  · split at h <;> simp at h

/-- a fixed-width read cut short by the end of input is an unexpected-EOF class error (plain EOF only when nothing
at all was left) — never a value made of stale bytes -/
theorem readN_truncated (b : Bytes) (n : Nat) (h : b.length < n) :
    readN b n = .err (if b.isEmpty then "eof" else "unexpectedEof") := by
  unfold readN
  rw [hasAtLeast_iff]
  have : ¬ n ≤ b.length := by omega
  simp only [this, decide_false, Bool.false_eq_true, if_false]
  split <;> rfl

/-- lengths above MaxInt32 are rejected by both protocols' `ReadLength` -/
theorem rLength_bounded (p : Proto) (b r : Bytes) (n : Nat) (h : rLength p b = .ok (n, r)) : n ≤ 2147483647 := by
  cases p <;> simp only [rLength] at h
  all_goals
    cases hx : (rFixed b 4) <;> cases hy : (readUvarintGo b) <;> simp_all [Res.bind] <;>
    (try (split at h <;> simp_all <;> omega))

end Enc.Props.C08
