import Enc.Model.Json.CodecChoice
import Enc.Model.Json.CodecChoiceExpand
import Enc.Spec.Json.StdCodecChoice
import Enc.Lemmas.JsonCodecChoiceTerm
import Enc.Lemmas.JsonCodecChoiceStd
import Enc.Lemmas.JsonCodecChoiceFull
import Enc.Lemmas.JsonCodecChoiceCache
import Enc.Spec.Json.EmbedCycle
/-!
# C01 / C09 — codec CONSTRUCTION in json/codec.go: which encoder a Go type gets, and that the shared cache cannot change it

Model: `Enc/Model/Json/CodecChoice.lean` (`codecF` = constructCodec as written, threading `seen`; `choose`;
`constructCachedCodec`), its meaning as a tree `Enc/Model/Json/CodecChoiceExpand.lean` (`norm`, `expandD`).
Specification: `Enc/Spec/Json/StdCodecChoice.lean` (`stdD` = encoding/json's newTypeEncoder / condAddrEncoder with
run-time addressability). Correspondence: harness op `json.codecchoice` (harness/c01codec.go, ~3150 zoo values, three
cache histories each), driver `Enc/Driver/JsonCodec.lean`.

Statements only; proofs in Enc/Lemmas/JsonCodecChoice{Seen,Term,Std,Evo,Emb,Shape,Full,Cache}.lean.
-/
namespace Enc.Props.C01Codec
open Enc.Model.Json.CodecChoice Enc.Spec.Json.StdCodecChoice Enc.Spec.Json.EmbedCycle

/-! ## Termination: recursive types through `seen` -/

/-- **choose_terminates.** For EVERY environment of type definitions (mutually recursive ones included), every type and
addressability, `constructCodec(t, {}, canAddr)` returns: the fuel `fuelFor env t` of `choose` is never exhausted.
(Potential: the keys (defined type, addressability) not yet in `seen`; a definition is unfolded only after a new key
went in.) -/
theorem choose_terminates (env : Env) (t : TD) (canAddr : Bool) :
    ∃ c seen, codecF (fuelFor env t) env t canAddr [] = some (c, seen) :=
  Lemmas.JsonCodecChoiceTerm.choose_terminates env t canAddr

/-- non-vacuity: `type S struct { V T; Next *S; L []S; M map[string]S }` with `(*T).MarshalJSON` — the construction
ends with back references to the struct type of (S, addressable) -/
example :
    let env : Env := [(1, ⟨noMeths, .struct (.cons "V" false false (.ref 2) (.cons "Next" false false (.ptr (.ref 1))
                        (.cons "L" false false (.slice (.ref 1)) .nil)))⟩),
                      (2, ⟨⟨.ptr, .none, .none, .none⟩, .struct (.cons "X" false false (.prim .int) .nil)⟩)]
    (choose env (.ref 1) false).1 =
      .struct (.cons "V" (.ref 2) (.struct (.cons "X" (.prim .int) (.prim .int) .nil))
        (.cons "Next" (.ptr (.ref 1)) (.ptr (.struct (.cons "V" (.ref 2) .mjAddr
            (.cons "Next" (.ptr (.ref 1)) (.ptr (.structRef (.ref 1) true))
            (.cons "L" (.slice (.ref 1)) (.slice (.structRef (.ref 1) true)) .nil)))))
        (.cons "L" (.slice (.ref 1)) (.slice (.struct (.cons "V" (.ref 2) .mjAddr
            (.cons "Next" (.ptr (.ref 1)) (.ptr (.structRef (.ref 1) true))
            (.cons "L" (.slice (.ref 1)) (.slice (.structRef (.ref 1) true)) .nil))))) .nil))) := by
  decide +kernel

/-! ## Against encoding/json -/

/-- **The order of the marshaler checks** (all types that are not one of the special leaves, all 64 combinations of
method sets and addressability): `T.MarshalJSON`, `addressable ∧ (*T).MarshalJSON`, `T.MarshalText`,
`addressable ∧ (*T).MarshalText` as written in constructCodec selects the encoder encoding/json selects with
`addressable ∧ (*T).MarshalJSON` first (fix 7718311 is what made this true). -/
theorem marshaler_order_eq_std (env : Env) (t : TD) (canAddr : Bool) (c : Choice) (h : isOpaque t = false) :
    marshalerOverride env t canAddr c = (stdMarshal env t canAddr).getD c :=
  Lemmas.JsonCodecChoiceStd.override_eq_std env t canAddr c h

abbrev Simple := Lemmas.JsonCodecChoiceStd.Simple
abbrev KeysOK := Lemmas.JsonCodecChoiceStd.KeysOK

/-- **choose_eq_std.** For EVERY environment of type definitions (mutually recursive ones included) and every type `t`
of the universe — scalar kinds, the special types, interfaces, slices, arrays, maps, pointers, STRUCT types with
embedding (promoted fields in place, through embedded pointers too) and the `string` option, defined types of any kind
with any method sets, recursion through struct types (`seen`, back references `structRef`) and through named
slice/map/pointer/array types (`recur`) — in which no struct lies on a cycle made of EMBEDDED structs only
(`embedCycle env t = false`, a decidable certificate check for `NoEmbeddedCycle env t`, Spec/Json/EmbedCycle.lean; since
the repair of `jsonEmbeddedStructUnderConstruction` — `structType.root`, the second listing of an embedded struct type
that is under construction through a regular field — a cycle through a regular field is not excluded any more),
for both top-level addressabilities and every depth `d`: the encoder tree `constructCodec(t, {}, a)` builds, back
references resolved in the final `seen`, IS the tree of encoding/json's rule (`newTypeEncoder` / `condAddr` /
`typeFields` without the dominance rules): kind dispatch, marshaler detection on T and *T, addressability of slice
elements / array elements (inherited) / pointer targets / map values (never) / struct fields (inherited; behind an
embedded pointer always), byte slices, the five fast map paths, map keys (after fix 0a9d40c no hypothesis on the key
types is left), the `string` option on scalars and pointers to scalars.

The hypothesis is necessary: `embedded_cycle_differs` below is a type with `embedCycle = true` on which the two trees
differ (what is left of the finding `jsonEmbeddedStructUnderConstruction`: the struct types built inside a cycle of
embedded structs, with the cut where the cycle closes, are kept as THE struct types of their keys). It is sufficient
but not tight: `type T struct { *T; X int }` built for an addressable value agrees. -/
theorem choose_eq_std (env : Env) (t : TD) (a : Bool) (h : embedCycle env t = false) (d : Nat) :
    expandD d env (choose env t a).2 (choose env t a).1 = stdD d env t a :=
  Lemmas.JsonCodecChoiceFull.choose_eq_std env t a (embedCycle_sound env t h) d

/-- the same with the graph-theoretic hypothesis itself: no struct type inside `t` embeds a struct type that embeds …
embeds it again -/
theorem choose_eq_std_noEmbedCycle (env : Env) (t : TD) (a : Bool) (h : NoEmbeddedCycle env t) (d : Nat) :
    expandD d env (choose env t a).2 (choose env t a).1 = stdD d env t a :=
  Lemmas.JsonCodecChoiceFull.choose_eq_std env t a h d

/-- non-vacuity: `type S struct { E; V T; Next *S; L []S; Q *N `json:",string"` }`, `type E struct { *I; Y T }`
(embedded, with an embedded pointer inside), `(*T).MarshalJSON`, `type N int` with `(*N).MarshalText`, `type R []R`
inside: recursive through `seen` and through a named slice, and the hypothesis holds -/
example :
    let env : Env :=
      [(1, ⟨noMeths, .struct (.cons "E" true false (.ref 3) (.cons "V" false false (.ref 2)
              (.cons "Next" false false (.ptr (.ref 1)) (.cons "L" false false (.slice (.ref 1))
              (.cons "Q" false true (.ptr (.ref 4)) (.cons "R" false false (.ref 6) .nil))))))⟩),
       (2, ⟨⟨.ptr, .none, .none, .none⟩, .struct (.cons "X" false false (.prim .int) .nil)⟩),
       (3, ⟨noMeths, .struct (.cons "I" true false (.ptr (.ref 5)) (.cons "Y" false false (.ref 2) .nil))⟩),
       (4, ⟨⟨.none, .ptr, .none, .none⟩, .prim .int⟩),
       (5, ⟨noMeths, .struct (.cons "Z" false true (.prim .int) .nil)⟩),
       (6, ⟨noMeths, .slice (.ref 6)⟩)]
    embedCycle env (.ref 1) = false ∧
    stdD 3 env (.ref 1) true =
      .struct (.cons "Z" (.prim .int) (.embedPtr (.quoted (.prim .int))) (.cons "Y" (.ref 2) .mjAddr
        (.cons "V" (.ref 2) .mjAddr (.cons "Next" (.ptr (.ref 1)) (.ptr (stdD 1 env (.ref 1) true))
        (.cons "L" (.slice (.ref 1)) (.slice (stdD 1 env (.ref 1) true))
        (.cons "Q" (.ptr (.ref 4)) .mtDirect (.cons "R" (.ref 6) (.slice (.slice .cut)) .nil))))))) := by
  decide +kernel

/-- **choose_eq_std_partial** (kept from the first round; now a special case of `choose_eq_std`). For every type built
from scalar kinds, the special types, interfaces, defined types of scalar / interface / chan kind WITH ANY METHOD SETS,
and unnamed slices, arrays, maps and pointers nested arbitrarily (`Simple`): the encoder tree constructCodec builds IS
the tree of encoding/json's rule.
-/
theorem choose_eq_std_partial (env : Env) (t : TD) (a : Bool) (hs : Simple env t = true) (hk : KeysOK env t = true)
    (d : Nat) : expandD d env (choose env t a).2 (choose env t a).1 = stdD d env t a :=
  Lemmas.JsonCodecChoiceStd.choose_eq_std_simple env t a hs hk d

/-- non-vacuity: `map[K][2]*[]T` with `(*T).MarshalJSON`, `T.MarshalText` on an int-kind T and a TextMarshaler key K
satisfies the hypotheses; the element T of the slice is addressable (MarshalJSON through the address) … -/
example :
    let env : Env := [(1, ⟨⟨.ptr, .val, .none, .none⟩, .prim .int⟩), (2, ⟨⟨.none, .val, .none, .ptr⟩, .prim .string⟩)]
    let t : TD := .map (.ref 2) (.array 2 (.ptr (.slice (.ref 1))))
    Simple env t = true ∧ KeysOK env t = true ∧
      stdD 6 env t false = .map (.prim .string) (.array 2 (.ptr (.slice .mjAddr))) ∧
      -- … while directly in an array that is a map value it is not: MarshalText on the value
      stdD 6 env (.map (.ref 2) (.array 2 (.ref 1))) false = .map (.prim .string) (.array 2 .mtDirect) := by
  decide +kernel

/-- **Repaired finding** (was `embedded_under_construction_differs`, class `jsonEmbeddedStructUnderConstruction`).
`type T struct { X int; F []struct{ T } }`, marshalled through a pointer (or as a slice element): while the struct type
of (T, addressable) is under construction, the anonymous struct that embeds T used to take
`constructStructType(T, …).fields`, still empty, and segmentio wrote `{"X":1,"F":[{}]}`. Now the fields of T are listed
a second time on behalf of the embedding struct: the type satisfies the hypothesis of `choose_eq_std` and the trees are
equal — at depth 4 explicitly: -/
theorem embedded_under_construction_agrees :
    let env : Env := [(1, ⟨noMeths, .struct (.cons "X" false false (.prim .int)
        (.cons "F" false false (.slice (.struct (.cons "T" true false (.ref 1) .nil))) .nil))⟩)]
    embedCycle env (.ptr (.ref 1)) = false ∧
    expandD 4 env (choose env (.ptr (.ref 1)) true).2 (choose env (.ptr (.ref 1)) true).1
        = .ptr (.struct (.cons "X" (.prim .int) (.prim .int)
            (.cons "F" (.slice (.struct (.cons "T" true false (.ref 1) .nil)))
              (.slice (.struct (.cons "X" (.prim .int) .cut
                (.cons "F" (.slice (.struct (.cons "T" true false (.ref 1) .nil))) .cut .nil)))) .nil))) ∧
    stdD 4 env (.ptr (.ref 1)) true
        = expandD 4 env (choose env (.ptr (.ref 1)) true).2 (choose env (.ptr (.ref 1)) true).1 := by
  decide +kernel

/-- **Finding (C01), what is left of it.** A cycle of EMBEDDED structs: `type X struct { *Y; *Z }`,
`type Y struct { *X; B int }`, `type Z struct { C int }`, X marshalled as a value that is not addressable: the struct
type of (X, addressable), built while the fields of Y are listed on behalf of (X, not addressable), promotes Y's fields
cut where the cycle closes and is kept; segmentio's X has the fields C (behind three embedded pointers), B, C —
encoding/json's B, C. Model and code agree; model and specification differ: -/
theorem embedded_cycle_differs :
    let env : Env := [(1, ⟨noMeths, .struct (.cons "Y" true false (.ptr (.ref 2)) (.cons "Z" true false (.ptr (.ref 3)) .nil))⟩),
                      (2, ⟨noMeths, .struct (.cons "X" true false (.ptr (.ref 1)) (.cons "B" false false (.prim .int) .nil))⟩),
                      (3, ⟨noMeths, .struct (.cons "C" false false (.prim .int) .nil)⟩)]
    embedCycle env (.ref 1) = true ∧
    expandD 2 env (choose env (.ref 1) false).2 (choose env (.ref 1) false).1
        = .struct (.cons "C" (.prim .int) (.embedPtr (.embedPtr (.embedPtr (.prim .int))))
            (.cons "B" (.prim .int) (.embedPtr (.prim .int)) (.cons "C" (.prim .int) (.embedPtr (.prim .int)) .nil))) ∧
    stdD 2 env (.ref 1) false
        = .struct (.cons "B" (.prim .int) (.embedPtr (.prim .int)) (.cons "C" (.prim .int) (.embedPtr (.prim .int)) .nil)) := by
  decide +kernel

/-- the hypothesis of `choose_eq_std` cannot be dropped: a type with `embedCycle = true` on which the trees differ -/
theorem choose_eq_std_needs_hypothesis :
    ∃ (env : Env) (t : TD) (a : Bool) (d : Nat), embedCycle env t = true ∧
      expandD d env (choose env t a).2 (choose env t a).1 ≠ stdD d env t a :=
  ⟨[(1, ⟨noMeths, .struct (.cons "Y" true false (.ptr (.ref 2)) (.cons "Z" true false (.ptr (.ref 3)) .nil))⟩),
    (2, ⟨noMeths, .struct (.cons "X" true false (.ptr (.ref 1)) (.cons "B" false false (.prim .int) .nil))⟩),
    (3, ⟨noMeths, .struct (.cons "C" false false (.prim .int) .nil)⟩)],
    .ref 1, false, 2, by decide +kernel, by decide +kernel⟩

/-- **Repaired finding** (was `unmarshalOnly_key_differs`; fix 0a9d40c). `map[K]V` where K (struct kind) only has
`(*K).UnmarshalText`: constructMapCodec used to keep the map codec and install the unsupported-type encoder for the KEY
only, so empty and nil maps were written (`{}`, `null`) where encoding/json refuses the map type. Now the map type
itself gets the unsupported-type encoder (`kindUnsupported`), like encoding/json: model and specification agree. -/
theorem unmarshalOnly_key_agrees :
    let env : Env := [(1, ⟨⟨.none, .none, .none, .ptr⟩, .struct (.cons "X" false false (.prim .int) .nil)⟩)]
    (choose env (.map (.ref 1) (.prim .int)) false).1 = .unsupported ∧
    stdD 3 env (.map (.ref 1) (.prim .int)) false = .unsupported := by
  decide +kernel

/-! ## C09: the shared cache cannot change what a call compiles -/

abbrev GoodCache := Lemmas.JsonCodecChoiceCache.GoodCache
abbrev Reachable := Lemmas.JsonCodecChoiceCache.Reachable

/-- **cache_history_independent.** Whatever correct cache earlier calls have left (every entry = what the construction
builds for its key when it runs alone), `constructCachedCodec t cache` returns the codec it returns with the empty
cache, and leaves a correct cache: no order of first uses can change what a call compiles. (The construction itself
never reads the cache: `seen` is private to one call. Together with Props/C09 `every_call_uses_its_codec`, instantiated
with `codecOf := construct env`, this covers every interleaving of the loads and stores.) -/
theorem cache_history_independent (env : Env) (t : TD) (cache : Cache) (h : GoodCache env cache) :
    (constructCachedCodec env t cache).1 = (constructCachedCodec env t []).1 ∧
    GoodCache env (constructCachedCodec env t cache).2 :=
  Lemmas.JsonCodecChoiceCache.cache_history_independent env t cache h

/-- every cache that a sequence of calls (any types, any order) leaves behind is correct -/
theorem reachable_good (env : Env) (cache : Cache) (h : Reachable env cache) : GoodCache env cache :=
  Lemmas.JsonCodecChoiceCache.reachable_good env cache h

abbrev runCalls := Lemmas.JsonCodecChoiceCache.runCalls

/-- **calls_history_independent (C09 corollary, sequences of calls).** For any list `ts` of earlier calls (the types
whose values were marshalled before, in any order, with repetitions), the codec obtained for `t` afterwards is the
codec obtained with a cold cache. -/
theorem calls_history_independent (env : Env) (ts : List TD) (t : TD) :
    (constructCachedCodec env t (runCalls env ts [])).1 = (constructCachedCodec env t []).1 :=
  Lemmas.JsonCodecChoiceCache.calls_history_independent env ts t

/-- non-vacuity: after marshalling T (`(*T).MarshalJSON`) the cache is reachable, correct, and `[]T` still gets the
pointer-receiver method for its elements -/
example : Reachable Lemmas.JsonCodecChoiceCache.witnessEnv
    (constructCachedCodec Lemmas.JsonCodecChoiceCache.witnessEnv (.ref 1) []).2 :=
  .step [] (.ref 1) .empty

theorem good_after_T :
    (constructCachedCodec Lemmas.JsonCodecChoiceCache.witnessEnv (.slice (.ref 1))
      (constructCachedCodec Lemmas.JsonCodecChoiceCache.witnessEnv (.ref 1) []).2).1 = .slice .mjAddr :=
  Lemmas.JsonCodecChoiceCache.good_after_T

/-- **negative witness**: the variant that takes the element codec of `[]T` from the shared cache compiles `[]T`
WITHOUT the pointer-receiver MarshalJSON after T was marshalled, and with it when `[]T` comes first -/
theorem reuse_of_cached_element_codec_depends_on_history :
    (constructCachedCodecBad Lemmas.JsonCodecChoiceCache.witnessEnv (.slice (.ref 1))
        (constructCachedCodec Lemmas.JsonCodecChoiceCache.witnessEnv (.ref 1) []).2).1
      ≠ (constructCachedCodecBad Lemmas.JsonCodecChoiceCache.witnessEnv (.slice (.ref 1)) []).1 := by
  rw [Lemmas.JsonCodecChoiceCache.bad_after_T, Lemmas.JsonCodecChoiceCache.bad_alone]
  decide

end Enc.Props.C01Codec

#print axioms Enc.Props.C01Codec.choose_terminates
#print axioms Enc.Props.C01Codec.choose_eq_std
#print axioms Enc.Props.C01Codec.choose_eq_std_partial
#print axioms Enc.Props.C01Codec.marshaler_order_eq_std
#print axioms Enc.Props.C01Codec.cache_history_independent
#print axioms Enc.Props.C01Codec.calls_history_independent
#print axioms Enc.Props.C01Codec.embedded_under_construction_agrees
#print axioms Enc.Props.C01Codec.embedded_cycle_differs
#print axioms Enc.Props.C01Codec.reuse_of_cached_element_codec_depends_on_history
