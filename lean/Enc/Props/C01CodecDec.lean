import Enc.Model.Json.CodecChoiceDec
import Enc.Spec.Json.StdCodecChoiceDec
import Enc.Spec.Json.EmbedCycle
import Enc.Lemmas.JsonCodecChoiceDecTerm
import Enc.Lemmas.JsonCodecChoiceDecStd
import Enc.Lemmas.JsonCodecChoiceDecCache
import Enc.Spec.Json.DecDeviation
import Enc.Lemmas.JsonCodecChoiceDecFull
/-!
# C01 / C02 / C09 — codec CONSTRUCTION in json/codec.go, the DECODE half: which decoder a Go type gets

Model: `Enc/Model/Json/CodecChoiceDec.lean` (`codecDecF` = the decode half of constructCodec as written, threading
`seen`; `chooseDec`; `expandDecD`; `nullActM`). Specification: `Enc/Spec/Json/StdCodecChoiceDec.lean` (`stdDecD` =
encoding/json's `indirect` / `d.object` / `literalStore` rule; `nullActS`). Correspondence: harness op
`json.codecchoicedec` (harness/c01codecdec.go: ~4800 zoo values × document variants, three cache histories each), driver
`Enc/Driver/JsonCodecDec.lean`.

Statements only; proofs in Enc/Lemmas/JsonCodecChoiceDec{Seen,Term,Std,Evo,Emb,Shape,Full,Cache}.lean.
-/
namespace Enc.Props.C01CodecDec
open Enc.Model.Json.CodecChoice Enc.Spec.Json.StdCodecChoiceDec Enc.Spec.Json.EmbedCycle Enc.Spec.Json.DecDeviation

/-! ## Termination -/

/-- **chooseDec_terminates.** For every environment of type definitions (mutually recursive ones included), every type
and `canAddr`, the decode half of `constructCodec(t, {}, canAddr)` returns: the fuel `fuelForD env t` is never exhausted. -/
theorem chooseDec_terminates (env : Env) (t : TD) (canAddr : Bool) :
    ∃ c seen, codecDecF (fuelForD env t) env t canAddr [] = some (c, seen) :=
  Lemmas.JsonCodecChoiceDecTerm.chooseDec_terminates env t canAddr

/-- non-vacuity: `type S struct { V T; Next *S; L []S }` with `(*T).UnmarshalJSON` — the construction ends with back
references to the struct type of (S, addressable) -/
example :
    let env : Env := [(1, ⟨noMeths, .struct (.cons "V" false false (.ref 2) (.cons "Next" false false (.ptr (.ref 1))
                        (.cons "L" false false (.slice (.ref 1)) .nil)))⟩),
                      (2, ⟨⟨.none, .none, .ptr, .none⟩, .struct (.cons "X" false false (.prim .int) .nil)⟩)]
    (chooseDec env (.ref 1) false).1 =
      .struct (.cons "V" (.ref 2) .uj
        (.cons "Next" (.ptr (.ref 1)) (.ptr (.struct (.cons "V" (.ref 2) .uj
            (.cons "Next" (.ptr (.ref 1)) (.ptr (.structRef (.ref 1) true))
            (.cons "L" (.slice (.ref 1)) (.slice (.structRef (.ref 1) true)) .nil)))))
        (.cons "L" (.slice (.ref 1)) (.slice (.struct (.cons "V" (.ref 2) .uj
            (.cons "Next" (.ptr (.ref 1)) (.ptr (.structRef (.ref 1) true))
            (.cons "L" (.slice (.ref 1)) (.slice (.structRef (.ref 1) true)) .nil))))) .nil))) := by
  decide +kernel

/-! ## Against encoding/json -/

/-- **The order of the unmarshaler checks.** `reflect.PointerTo(t).Implements(Unmarshaler)`, then `…(TextUnmarshaler)`
as written at the end of constructCodec (no `t.Implements`, no `canAddr`) selects what encoding/json's `indirect`
finds — UnmarshalJSON before UnmarshalText on the address of the value — for every type that is not one of the special
leaves and is not an unnamed struct type, and for EVERY type as the target of a pointer (`viaPtr = true`). -/
theorem unmarshaler_order_eq_std (env : Env) (t : TD) (viaPtr : Bool) (c : DChoice) (ho : isOpaqueD t = false)
    (h : viaPtr = true ∨ ∀ fs, t ≠ .struct fs) :
    unmarshalerOverride env t c = (stdUnm env t viaPtr).getD c :=
  Lemmas.JsonCodecChoiceDecStd.unmarshaler_order_eq_std env t viaPtr c ho h

/-- non-vacuity: a defined int type with both methods on the pointer: UnmarshalJSON wins on both sides -/
example :
    let env : Env := [(1, ⟨⟨.none, .none, .ptr, .ptr⟩, .prim .int⟩)]
    isOpaqueD (.ref 1) = false ∧ unmarshalerOverride env (.ref 1) (.prim .int) = .uj ∧
      stdUnm env (.ref 1) false = some .uj := by
  decide +kernel

abbrev SimpleD := Lemmas.JsonCodecChoiceDecStd.SimpleD
abbrev KeysOKD := Lemmas.JsonCodecChoiceDecStd.KeysOKD

/-- **chooseDec_eq_std.** For EVERY environment of type definitions (mutually recursive ones included) and every type `t`
of the universe — scalar kinds, the special types, interfaces, slices, arrays, maps, pointers, STRUCT types with embedding
(promoted fields in place, through embedded pointers too) and the `string` option, defined types of any kind with any
method sets, recursion through struct types (`seen`, back references `structRef`) and through named
slice/map/pointer/array types (`recur`) — under hypotheses that exclude exactly the recorded differences that change the
decoder tree:
* `embedCycle env t = false`: no struct inside `t` lies on a cycle made of EMBEDDED structs only (class
  `jsonEmbeddedStructUnderConstruction`, what is left of it; necessity: `embedded_cycle_differs_dec`);
* `decDeviationFree env t = true` (Spec/Json/DecDeviation.lean, a decidable certificate check for `DevFree env t`): no
  slice / array element, map value or regular struct field inside `t` is an UNNAMED struct type with a promoted
  unmarshaling method (class `jsonDecPromotedUnmarshalerOfUnnamedStruct`; as the target of a pointer such a type is fine;
  necessity: `promoted_unmarshaler_unnamed_struct_differs`), and no map key type inside `t` has both `(*K).UnmarshalJSON`
  and `(*K).UnmarshalText` (class `jsonDecMapKeyPrefersUnmarshalText`; necessity: `mapKey_both_unmarshalers_differs`);
for both values of `canAddr` and every depth `d`: the decoder tree `constructCodec(t, {}, a)` builds, back references
resolved in the final `seen`, IS the tree of encoding/json's rule for a value reached through a pointer (the target of
Unmarshal): kind dispatch, unmarshaler detection on `*T` (`indirect`), byte slices and their element unmarshalers, the five
fast map paths, map keys, interfaces, struct fields with promotion, embedded pointers and the `string` option
(`quoted` / `quotedInt` around the complete decoder of the scalar or pointer-to-scalar field type).
The other decode-side classes (`jsonDecNullKeepsTextUnmarshalerContainer`, `jsonNullNestedPointer`,
`jsonDecNullNamedInterfaceHoldingPointer`) do not change the tree (`null_handling_differs`): no hypothesis about them. -/
theorem chooseDec_eq_std (env : Env) (t : TD) (a : Bool) (h : embedCycle env t = false)
    (hdev : decDeviationFree env t = true) (d : Nat) :
    expandDecD d env (chooseDec env t a).2 (chooseDec env t a).1 = stdDecD d env t true :=
  Lemmas.JsonCodecChoiceDecFull.chooseDec_eq_std env t a (embedCycle_sound env t h) (decDeviationFree_sound env t hdev)
    true rfl d

/-- the same with the graph-theoretic hypotheses themselves, and for a value reached either way (`viaPtr`): when it is
not the target of a pointer, `t` itself must not be an unnamed struct type with a promoted unmarshaling method (`posOK`) -/
theorem chooseDec_eq_std_pos (env : Env) (t : TD) (a viaPtr : Bool) (h : NoEmbeddedCycle env t) (hdev : DevFree env t)
    (hv : posOK env t viaPtr = true) (d : Nat) :
    expandDecD d env (chooseDec env t a).2 (chooseDec env t a).1 = stdDecD d env t viaPtr :=
  Lemmas.JsonCodecChoiceDecFull.chooseDec_eq_std env t a h hdev viaPtr hv d

/-- non-vacuity: `type S struct { E; V T; Next *S; L []S; Q *N `json:",string"`; R R; P *struct{ T }; M map[K]int }`,
`type E struct { *I; Y T }` (embedded, with an embedded pointer inside), `type I struct { Z int `json:",string"` }`,
`(*T).UnmarshalJSON`, `type N int` with `(*N).UnmarshalText`, `type R []R`, a string-kind key K with `(*K).UnmarshalText`,
an unnamed struct with a promoted UnmarshalJSON behind a pointer: recursive through `seen` and through a named slice, and
the hypotheses hold -/
example :
    let env : Env :=
      [(1, ⟨noMeths, .struct (.cons "E" true false (.ref 3) (.cons "V" false false (.ref 2)
              (.cons "Next" false false (.ptr (.ref 1)) (.cons "L" false false (.slice (.ref 1))
              (.cons "Q" false true (.ptr (.ref 4)) (.cons "R" false false (.ref 6)
              (.cons "P" false false (.ptr (.struct (.cons "T" true false (.ref 2) .nil)))
              (.cons "M" false false (.map (.ref 7) (.prim .int)) .nil))))))))⟩),
       (2, ⟨⟨.none, .none, .ptr, .none⟩, .struct (.cons "X" false false (.prim .int) .nil)⟩),
       (3, ⟨noMeths, .struct (.cons "I" true false (.ptr (.ref 5)) (.cons "Y" false false (.ref 2) .nil))⟩),
       (4, ⟨⟨.none, .none, .none, .ptr⟩, .prim .int⟩),
       (5, ⟨noMeths, .struct (.cons "Z" false true (.prim .int) .nil)⟩),
       (6, ⟨noMeths, .slice (.ref 6)⟩),
       (7, ⟨⟨.none, .none, .none, .ptr⟩, .prim .string⟩)]
    embedCycle env (.ref 1) = false ∧ decDeviationFree env (.ref 1) = true ∧
    stdDecD 2 env (.ref 1) true =
      .struct (.cons "Z" (.prim .int) (.embedPtr (.quoted (.prim .int))) (.cons "Y" (.ref 2) .uj
        (.cons "V" (.ref 2) .uj (.cons "Next" (.ptr (.ref 1)) (.ptr .cut)
        (.cons "L" (.slice (.ref 1)) (.slice .cut) (.cons "Q" (.ptr (.ref 4)) (.quoted (.ptr .ut))
        (.cons "R" (.ref 6) (.slice .cut)
        (.cons "P" (.ptr (.struct (.cons "T" true false (.ref 2) .nil))) (.ptr .cut)
        (.cons "M" (.map (.ref 7) (.prim .int)) (.map .ut .cut) .nil))))))))) := by
  decide +kernel

/-- the two hypotheses of `chooseDec_eq_std` cannot be dropped, and each excludes something the other does not: a type
with `decDeviationFree = false` (no embedded cycle) on which the trees differ — for each of the two classes —, and a type
with `embedCycle = true` (no other deviation) on which they differ -/
theorem chooseDec_eq_std_needs_hypotheses :
    (∃ (env : Env) (t : TD) (a : Bool) (d : Nat), embedCycle env t = false ∧ decDeviationFree env t = false ∧
      (∃ e, t = .slice e ∧ promotedUnm env e = true) ∧
      expandDecD d env (chooseDec env t a).2 (chooseDec env t a).1 ≠ stdDecD d env t true) ∧
    (∃ (env : Env) (t : TD) (a : Bool) (d : Nat), embedCycle env t = false ∧ decDeviationFree env t = false ∧
      (∃ k v, t = .map k v ∧ mapKeyBothUnm env k = true) ∧
      expandDecD d env (chooseDec env t a).2 (chooseDec env t a).1 ≠ stdDecD d env t true) ∧
    (∃ (env : Env) (t : TD) (a : Bool) (d : Nat), embedCycle env t = true ∧ decDeviationFree env t = true ∧
      expandDecD d env (chooseDec env t a).2 (chooseDec env t a).1 ≠ stdDecD d env t true) :=
  ⟨⟨[(1, ⟨⟨.none, .none, .ptr, .none⟩, .struct (.cons "X" false false (.prim .int) .nil)⟩)],
      .slice (.struct (.cons "T" true false (.ref 1) .nil)), false, 3, by decide +kernel, by decide +kernel,
      ⟨_, rfl, by decide +kernel⟩, by decide +kernel⟩,
   ⟨[(1, ⟨⟨.none, .none, .ptr, .ptr⟩, .prim .int⟩)], .map (.ref 1) (.prim .int), false, 3, by decide +kernel,
      by decide +kernel, ⟨_, _, rfl, by decide +kernel⟩, by decide +kernel⟩,
   ⟨[(1, ⟨noMeths, .struct (.cons "U4" true false (.ptr (.ref 2)) .nil)⟩),
      (2, ⟨noMeths, .struct (.cons "X4" true false (.ptr (.ref 1)) (.cons "B" false false (.prim .int)
        (.cons "F" false false (.slice (.struct (.cons "X4" true false (.ref 1) .nil))) .nil)))⟩)],
      .ptr (.ref 2), true, 4, by decide +kernel, by decide +kernel, by decide +kernel⟩⟩

/-- **chooseDec_eq_std_partial** (kept from the first round; now a special case of `chooseDec_eq_std_pos`). For every type
built from scalar kinds, the special types, interfaces, defined types of scalar / interface / chan kind WITH ANY METHOD
SETS, and unnamed slices, arrays, maps and pointers nested arbitrarily (`SimpleD`), no map key type of which has both
`(*K).UnmarshalJSON` and `(*K).UnmarshalText` (`KeysOKD`), for both values of `canAddr`, both ways of reaching the value
(`viaPtr`) and every depth: the decoder tree constructCodec builds IS the tree of encoding/json's rule.

How tight the hypotheses of `chooseDec_eq_std` are, measured on the harness zoo (driver op json.codeceqdec: the trees
compared for d ≤ 12 and both `canAddr`, and the two hypotheses evaluated, on the 2449 distinct descriptors of
`vh C02 quick 1`): 2327 satisfy both hypotheses (and agree, as proved); all 36 with `decDeviationFree = false` differ (map
keys with both methods, promoted unmarshalers of unnamed structs: the predicate is tight there); of the 86 with
`embedCycle = true` 42 differ and 44 agree (sufficient, not tight: `type T struct { *T; X int }` agrees). The shape that
differed before the repair of json/codec.go now agrees (`embedded_under_construction_agrees_dec`).
-/
theorem chooseDec_eq_std_partial (env : Env) (t : TD) (a viaPtr : Bool) (hs : SimpleD env t = true)
    (hk : KeysOKD env t = true) (d : Nat) :
    expandDecD d env (chooseDec env t a).2 (chooseDec env t a).1 = stdDecD d env t viaPtr :=
  Lemmas.JsonCodecChoiceDecStd.chooseDec_eq_std_simple env t a viaPtr hs hk d

/-- non-vacuity: `map[K][2]*[]T` with `(*T).UnmarshalJSON` and `(*T).UnmarshalText` on an int-kind T and a string-kind
key K with `(*K).UnmarshalText` satisfies the hypotheses; `map[int8][]B` with `(*B).UnmarshalText` on a uint8-kind B
decodes its byte slice element by element -/
example :
    let env : Env := [(1, ⟨⟨.none, .none, .ptr, .ptr⟩, .prim .int⟩), (2, ⟨⟨.none, .none, .none, .ptr⟩, .prim .string⟩),
                      (3, ⟨⟨.none, .none, .none, .ptr⟩, .prim .uint8⟩)]
    let t : TD := .map (.ref 2) (.array 2 (.ptr (.slice (.ref 1))))
    SimpleD env t = true ∧ KeysOKD env t = true ∧
      stdDecD 6 env t false = .map .ut (.array 2 (.ptr (.slice .uj))) ∧
      SimpleD env (.map (.prim .int8) (.slice (.ref 3))) = true ∧
      stdDecD 6 env (.map (.prim .int8) (.slice (.ref 3))) false = .map .keyInt (.slice .ut) ∧
      stdDecD 6 env (.map (.prim .float64) (.slice (.prim .uint8))) false = .unsupported := by
  decide +kernel

/-! ## Findings: model = implementation, specification = encoding/json -/

/-- **Finding `jsonDecMapKeyPrefersUnmarshalText`.** A map key type K with both `(*K).UnmarshalJSON` and
`(*K).UnmarshalText` (time.Time is one): constructMapCodec installs the TextUnmarshaler decoder, `d.object` calls
`literalStore(item, reflect.New(K), true)` whose `indirect` prefers UnmarshalJSON (called with the quoted key).
Input `{"7":7}` into `map[K]int`, K an int kind recording which method ran: segmentio key 102 (UnmarshalText),
encoding/json key 101 (UnmarshalJSON). -/
theorem mapKey_both_unmarshalers_differs :
    let env : Env := [(1, ⟨⟨.none, .none, .ptr, .ptr⟩, .prim .int⟩)]
    (chooseDec env (.map (.ref 1) (.prim .int)) false).1 = .map .ut (.prim .int) ∧
    stdDecD 3 env (.map (.ref 1) (.prim .int)) true = .map .uj (.prim .int) := by
  decide +kernel

/-- **Finding `jsonDecPromotedUnmarshalerOfUnnamedStruct`.** `[]struct{ T }` with `(*T).UnmarshalJSON`: the method is
promoted to `*struct{ T }`, so `reflect.PointerTo(t).Implements(Unmarshaler)` holds and constructCodec installs the
unmarshaler decoder for the unnamed struct; `indirect` takes the address of a value only when its type is NAMED, so
encoding/json decodes the element as a struct (field X of the embedded T is set directly). Input `[{"X":7}]`:
segmentio `[{T:{X:101}}]` (the method ran), encoding/json `[{T:{X:7}}]`. As the target of a pointer both call the method. -/
theorem promoted_unmarshaler_unnamed_struct_differs :
    let env : Env := [(1, ⟨⟨.none, .none, .ptr, .none⟩, .struct (.cons "X" false false (.prim .int) .nil)⟩)]
    let s : TD := .struct (.cons "T" true false (.ref 1) .nil)
    expandDecD 3 env (chooseDec env (.slice s) false).2 (chooseDec env (.slice s) false).1 = .slice .uj ∧
    stdDecD 3 env (.slice s) true = .slice (.struct (.cons "X" (.prim .int) (.prim .int) .nil)) ∧
    expandDecD 3 env (chooseDec env (.ptr s) true).2 (chooseDec env (.ptr s) true).1 = stdDecD 3 env (.ptr s) true := by
  decide +kernel

/-- **The repair of `jsonEmbeddedStructUnderConstruction`, decode side** (json/codec.go `structType.root`).
`type T struct { X int; F []struct{ T } }` decoded through a pointer: the anonymous struct that embeds T meets the struct
type of (T, addressable) while it is under construction for another root, and lists the fields of T a second time
(`embeddedDecF`): the decoder tree is encoding/json's — for both values of `canAddr`, to every depth up to 8 — and
`{"X":7,"F":[{"X":7}]}` stores the inner X (before the repair the inner struct had no fields). The type has no cycle of
embedded structs (`embedCycle = false`). -/
theorem embedded_under_construction_agrees_dec :
    let env : Env := [(1, ⟨noMeths, .struct (.cons "X" false false (.prim .int)
        (.cons "F" false false (.slice (.struct (.cons "T" true false (.ref 1) .nil))) .nil))⟩)]
    Enc.Spec.Json.EmbedCycle.embedCycle env (.ptr (.ref 1)) = false ∧
    (∀ d, d ≤ 8 → ∀ a : Bool,
      expandDecD d env (chooseDec env (.ptr (.ref 1)) a).2 (chooseDec env (.ptr (.ref 1)) a).1
        = stdDecD d env (.ptr (.ref 1)) true) ∧
    expandDecD 4 env (chooseDec env (.ptr (.ref 1)) true).2 (chooseDec env (.ptr (.ref 1)) true).1
        = .ptr (.struct (.cons "X" (.prim .int) (.prim .int)
            (.cons "F" (.slice (.struct (.cons "T" true false (.ref 1) .nil)))
              (.slice (.struct (.cons "X" (.prim .int) .cut
                (.cons "F" (.slice (.struct (.cons "T" true false (.ref 1) .nil))) .cut .nil)))) .nil))) := by
  decide +kernel

/-- **What still differs (class `jsonEmbeddedStructUnderConstruction`): a cycle made of EMBEDDED structs only.**
`type X4 struct { *U4 }; type U4 struct { *X4; B int; F []struct{ X4 } }` decoded into a `*U4`: the struct type of
(X4, addressable) is built while U4 is being embedded in it … for the root U4, where the cycle closes and nothing is
promoted: it has no fields, and it is kept as THE struct type of its key — the elements of F, which embed X4, get no
fields at all. encoding/json computes the fields of every struct type on its own: B and F are promoted through X4 and U4.
`{"B":7,"F":[{"B":7}]}`: segmentio leaves the element's X4 nil, encoding/json allocates X4 and U4 and stores 7.
The checker of the excluded shape says so: `embedCycle = true`. -/
theorem embedded_cycle_differs_dec :
    let env : Env := [(1, ⟨noMeths, .struct (.cons "U4" true false (.ptr (.ref 2)) .nil)⟩),
      (2, ⟨noMeths, .struct (.cons "X4" true false (.ptr (.ref 1)) (.cons "B" false false (.prim .int)
        (.cons "F" false false (.slice (.struct (.cons "X4" true false (.ref 1) .nil))) .nil)))⟩)]
    let ft : TD := .slice (.struct (.cons "X4" true false (.ref 1) .nil))
    Enc.Spec.Json.EmbedCycle.embedCycle env (.ptr (.ref 2)) = true ∧
    expandDecD 4 env (chooseDec env (.ptr (.ref 2)) true).2 (chooseDec env (.ptr (.ref 2)) true).1
        = .ptr (.struct (.cons "B" (.prim .int) (.prim .int) (.cons "F" ft (.slice (.struct .nil)) .nil))) ∧
    stdDecD 4 env (.ptr (.ref 2)) true
        = .ptr (.struct (.cons "B" (.prim .int) (.prim .int) (.cons "F" ft
            (.slice (.struct (.cons "B" (.prim .int) (.embedPtr .cut) (.cons "F" ft (.embedPtr .cut) .nil)))) .nil))) := by
  decide +kernel

/-- **Findings about `null`** (the trees agree, what the installed decoder does with `null` does not):
* `jsonDecNullKeepsTextUnmarshalerContainer`: a defined slice / map type with `(*T).UnmarshalText` — decodeTextUnmarshaler
  returns on `null` and the value stays; encoding/json does not consult a TextUnmarshaler for `null` and sets the slice /
  map to nil (input `null` into a pre-filled `T{7}`: segmentio `[7]`, encoding/json nil).
* `jsonNullNestedPointer`: decodePointer hands `null` to the target of a non-nil pointer to a pointer
  (`**int` holding &&7, input `null`: segmentio `&nil`, encoding/json `nil` — `indirect` stops at the first settable pointer).
* `jsonDecNullNamedInterfaceHoldingPointer`: decodeMaybeEmptyInterface (interface types other than `interface{}`) sets the
  interface to nil on `null` although it holds a non-nil pointer to a pointer, which encoding/json (and decodeInterface)
  enters, setting the inner pointer to nil. -/
theorem null_handling_differs :
    (nullActM .ut (.slice (.prim .int)) = .leave ∧ nullActS .ut (.slice (.prim .int)) = .zero) ∧
    (nullActM .ut (.map (.prim .string) (.prim .int)) = .leave ∧ nullActS .ut (.map (.prim .string) (.prim .int)) = .zero) ∧
    (nullActM (.ptr (.ptr (.prim .int))) (.ptr (.ptr (.prim .int))) = .ptrFwd ∧
      nullActS (.ptr (.ptr (.prim .int))) (.ptr (.ptr (.prim .int))) = .zero) ∧
    (nullActM .ifaceMaybe (.any (.ptr (.ptr (.prim .int)))) = .zero ∧
      nullActS .ifaceMaybe (.any (.ptr (.ptr (.prim .int)))) = .ifaceHeld) := by
  decide

/-- which decoders accept `null` and leave the value alone / nil it / call the method: model and specification agree on
every other node (kinds as installed by constructCodec) -/
theorem null_handling_agrees :
    (∀ k, nullActM (.prim k) (.prim k) = nullActS (.prim k) (.prim k)) ∧
    (∀ s, nullActM (.special s) (.special s) = nullActS (.special s) (.special s)) ∧
    (∀ e u, nullActM (.slice e) (.slice u) = nullActS (.slice e) (.slice u)) ∧
    (∀ u, nullActM .bytes (.slice u) = nullActS .bytes (.slice u)) ∧
    (∀ n e u, nullActM (.array n e) (.array n u) = nullActS (.array n e) (.array n u)) ∧
    (∀ k v a b, nullActM (.map k v) (.map a b) = nullActS (.map k v) (.map a b)) ∧
    (∀ fs gs, nullActM (.struct fs) (.struct gs) = nullActS (.struct fs) (.struct gs)) ∧
    (∀ u, nullActM .uj u = nullActS .uj u) ∧
    (∀ c u, nullActM (.quoted c) u = nullActS (.quoted c) u) ∧
    (∀ dyn, nullActM .iface (.any dyn) = nullActS .iface (.any dyn)) ∧
    (∀ a b, nullActM .unsupported (.map a b) = nullActS .unsupported (.map a b)) ∧
    nullActM .unsupported (.prim .chan) = nullActS .unsupported (.prim .chan) := by
  refine ⟨fun k => by cases k <;> rfl, fun s => by cases s <;> rfl, fun _ _ => rfl, fun _ => rfl, fun _ _ _ => rfl,
    fun _ _ _ _ => rfl, fun _ _ => rfl, fun _ => rfl, fun _ _ => rfl, fun _ => rfl, fun _ _ => rfl, rfl⟩

/-! ## C09: the shared cache cannot change which decoder a call compiles -/

abbrev GoodCacheD := Lemmas.JsonCodecChoiceDecCache.GoodCacheD
abbrev ReachableD := Lemmas.JsonCodecChoiceDecCache.ReachableD

/-- **cache_history_independent_dec.** Whatever correct cache earlier calls have left, `parse` compiles for a target of
type t the decoder it compiles with the empty cache, and leaves a correct cache (the construction never reads the
cache; `seen` is private to one call). -/
theorem cache_history_independent_dec (env : Env) (t : TD) (cache : DCache) (h : GoodCacheD env cache) :
    (constructCachedCodecDec env t cache).1 = (constructCachedCodecDec env t []).1 ∧
    GoodCacheD env (constructCachedCodecDec env t cache).2 :=
  Lemmas.JsonCodecChoiceDecCache.cache_history_independent env t cache h

theorem reachable_good_dec (env : Env) (cache : DCache) (h : ReachableD env cache) : GoodCacheD env cache :=
  Lemmas.JsonCodecChoiceDecCache.reachable_good env cache h

/-- non-vacuity: the cache after unmarshalling into a `[]T` is reachable -/
example : ReachableD [(1, ⟨⟨.none, .none, .ptr, .none⟩, .prim .int⟩)]
    (constructCachedCodecDec [(1, ⟨⟨.none, .none, .ptr, .none⟩, .prim .int⟩)] (.slice (.ref 1)) []).2 :=
  .step [] (.slice (.ref 1)) .empty

/-! ### the cache entry with both halves, and sequences of calls -/

abbrev GoodCache2 := Lemmas.JsonCodecChoiceDecCache.GoodCache2

/-- **cache_history_independent2** (strengthens `C01Codec.cache_history_independent` to the whole cache entry
`codec{encode, decode}`): whatever correct cache earlier calls of Marshal or Unmarshal have left, a call for type `t`
obtains the pair (encoder, decoder) that the construction builds for `t` on its own, and leaves a correct cache. -/
theorem cache_history_independent2 (env : Env) (t : TD) (cache : Cache2) (h : GoodCache2 env cache) :
    (constructCachedCodec2 env t cache).1 = (construct env t, constructDec env t) ∧
    GoodCache2 env (constructCachedCodec2 env t cache).2 :=
  Lemmas.JsonCodecChoiceDecCache.cache2_step env t cache h

/-- **calls_history_independent2 (C09 corollary in terms of sequences of calls).** For any list `ts` of earlier calls
(the types of the values marshalled or unmarshalled before, any order, repetitions allowed), the codec — encoder and
decoder — obtained for `t` afterwards equals the codec obtained with a cold cache. -/
theorem calls_history_independent2 (env : Env) (ts : List TD) (t : TD) :
    (constructCachedCodec2 env t (runCalls2 env ts [])).1 = (constructCachedCodec2 env t []).1 :=
  Lemmas.JsonCodecChoiceDecCache.calls_history_independent2 env ts t

/-- non-vacuity: after a call for T (`(*T).MarshalJSON`, `(*T).UnmarshalJSON`) and one for `*T`, `[]T` still gets the
pointer-receiver methods for its elements in both directions -/
example :
    let env : Env := [(1, ⟨⟨.ptr, .none, .ptr, .none⟩, .struct (.cons "X" false false (.prim .int) .nil)⟩)]
    (constructCachedCodec2 env (.slice (.ref 1)) (runCalls2 env [.ref 1, .ptr (.ref 1)] [])).1.1 = .slice .mjAddr := by
  decide +kernel

end Enc.Props.C01CodecDec

#print axioms Enc.Props.C01CodecDec.chooseDec_terminates
#print axioms Enc.Props.C01CodecDec.chooseDec_eq_std
#print axioms Enc.Props.C01CodecDec.chooseDec_eq_std_pos
#print axioms Enc.Props.C01CodecDec.chooseDec_eq_std_needs_hypotheses
#print axioms Enc.Props.C01CodecDec.chooseDec_eq_std_partial
#print axioms Enc.Props.C01CodecDec.unmarshaler_order_eq_std
#print axioms Enc.Props.C01CodecDec.cache_history_independent_dec
#print axioms Enc.Props.C01CodecDec.calls_history_independent2
#print axioms Enc.Props.C01CodecDec.promoted_unmarshaler_unnamed_struct_differs
#print axioms Enc.Props.C01CodecDec.null_handling_agrees
#print axioms Enc.Props.C01CodecDec.embedded_under_construction_agrees_dec
#print axioms Enc.Props.C01CodecDec.embedded_cycle_differs_dec
