import Enc.Model.Json.EncString
import Enc.Spec.Json.StdEnc
import Enc.Lemmas.JsonEncString
import Enc.Lemmas.JsonEncInt
import Enc.Lemmas.JsonStrHelpers
/-!
# C01 — json.Marshal is byte-for-byte encoding/json.Marshal
Property theorems only: the scalar layer (string escaping, integer formatting) is proved equal to an independent
transcription of encoding/json's appendString / strconv decimal; the type-shape layer (struct fields, tags, embedding,
maps, interfaces, encoder settings) is decided by the type-directed differential against encoding/json (DESIGN.md).
-/
namespace Enc.Props.C01
open Enc Enc.Model.Json

/-- the regenerated hex table is lowercase hexadecimal -/
theorem hex_table (n : Nat) (h : n < 16) : hexDigitLower n = Spec.Json.hexLower n :=
  Lemmas.JsonEncString.hex_table n h

/-- the regenerated two-digit table: entry j is the two ASCII digits of j -/
theorem two_digits_table : ∀ j : Fin 100, twoDigits j.val = [UInt8.ofNat (0x30 + j.val / 10), UInt8.ofNat (0x30 + j.val % 10)] :=
  Lemmas.JsonEncInt.two_digits_table

/-- MAIN (strings): the SWAR scan + escape loop of json/encode.go produces, for every byte string and both EscapeHTML
settings, exactly the bytes of encoding/json's appendString (escapes, U+2028/2029, invalid UTF-8 → \ufffd). -/
theorem encodeString_eq (s : Bytes) (escapeHTML : Bool) :
    encodeString s escapeHTML = Spec.Json.appendString s escapeHTML :=
  Lemmas.JsonEncString.encodeString_eq s escapeHTML

/-- the 8-bytes-at-a-time scan is the byte-wise search for the first byte that needs an escape (no false positives) -/
theorem escapeIndex_spec (s : Bytes) (html : Bool) :
    match escapeIndex s html with
    | none => ∀ c ∈ s, needsEscapeByte c html = false
    | some j => j < s.length ∧ ∀ c ∈ s.take j, needsEscapeByte c html = false :=
  Lemmas.JsonEncString.escapeIndex_spec s html

/-- MAIN (integers): the two-digits-at-a-time formatter produces the decimal representation for every 64-bit magnitude -/
theorem formatInteger_eq (n : Nat) (h : n < 2 ^ 64) (neg : Bool) :
    formatInteger n neg = (if neg then [0x2d] else []) ++ Spec.Json.decimal n :=
  Lemmas.JsonEncInt.formatInteger_eq' n h neg

theorem appendInt_eq (i : Int) (h : -2 ^ 63 ≤ i ∧ i < 2 ^ 64) : appendInt i = Spec.Json.intString i :=
  Lemmas.JsonEncInt.appendInt_eq i h

/-- non-vacuity: a string with HTML, a control byte, U+2028 and invalid UTF-8 -/
example : encodeString [0x3c, 0x61, 0x01, 0xe2, 0x80, 0xa8, 0xff, 0x22] true
    = Spec.Json.appendString [0x3c, 0x61, 0x01, 0xe2, 0x80, 0xa8, 0xff, 0x22] true := encodeString_eq _ _

/-- **Escape / AppendEscape** (json/json.go), modelled on Go slices with their destination (`Model/Json/StrHelpers.lean`:
`Escape` allocates `make([]byte, 0, len(s)+10)` and always escapes HTML; the encoder appends piecewise and may reallocate
under any growth policy): the bytes returned are exactly those encoding/json's `appendString` writes — after the
destination's own bytes for AppendEscape (the destination-side statements are in Props/C15.lean). -/
theorem escape_bytes (grow : Nat → Nat → Nat) (s : Bytes) :
    (StrHelpers.escape grow s).data = Spec.Json.appendString s true :=
  Lemmas.JsonStrHelpers.escape_eq grow s

theorem appendEscape_bytes (grow : Nat → Nat → Nat) (b : Buf.Slice) (hb : b.Wf) (s : Bytes) (html : Bool) :
    (StrHelpers.appendEscape grow b s html).data = b.data ++ Spec.Json.appendString s html :=
  (Lemmas.JsonStrHelpers.appendEscape_eq grow b hb s html).1

/-- the slice-level encoder writes what the buffer-free model `encodeString` writes (no SWAR lemma needed) -/
theorem encodeStringS_eq (grow : Nat → Nat → Nat) (b : Buf.Slice) (hb : b.Wf) (s : Bytes) (html : Bool) :
    (StrHelpers.encodeStringS grow b s html).data = b.data ++ encodeString s html :=
  (Lemmas.JsonStrHelpers.encodeStringS_ext grow b hb s html).2

example : (StrHelpers.escape (fun c n => max (2 * c) n) [0x3c, 0x61, 0x01, 0xe2, 0x80, 0xa8, 0xff, 0x22, 0x62, 0x63, 0x64]).data
    = Spec.Json.appendString [0x3c, 0x61, 0x01, 0xe2, 0x80, 0xa8, 0xff, 0x22, 0x62, 0x63, 0x64] true := escape_bytes _ _

end Enc.Props.C01
