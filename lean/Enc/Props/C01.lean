import Enc.Model.Json.EncString
import Enc.Spec.Json.StdEnc
/-!
# C01 — json.Marshal is byte-for-byte encoding/json.Marshal
Property theorems only (scalar layer; the type-shape layer is decided by the type-directed differential, see DESIGN.md).
-/
namespace Enc.Props.C01
open Enc Enc.Model.Json

/-- the regenerated hex table is lowercase hexadecimal -/
theorem hex_table (n : Nat) (h : n < 16) : hexDigitLower n = Spec.Json.hexLower n := by
  have : n = 0 ∨ n = 1 ∨ n = 2 ∨ n = 3 ∨ n = 4 ∨ n = 5 ∨ n = 6 ∨ n = 7 ∨ n = 8 ∨ n = 9 ∨ n = 10 ∨ n = 11 ∨ n = 12 ∨
      n = 13 ∨ n = 14 ∨ n = 15 := by omega
  rcases this with h | h | h | h | h | h | h | h | h | h | h | h | h | h | h | h <;> subst h <;> decide +kernel

/-- the regenerated two-digit table: entry j is the two ASCII digits of j -/
theorem two_digits_table : ∀ j : Fin 100, twoDigits j.val = [UInt8.ofNat (0x30 + j.val / 10), UInt8.ofNat (0x30 + j.val % 10)] := by
  decide +kernel

end Enc.Props.C01
