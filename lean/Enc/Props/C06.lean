import Enc.Model.Json.Cycle
import Enc.Spec.Json.Cyclic
import Enc.Lemmas.JsonCycle
/-!
# C06 — json never panics, faults, overflows the stack or hangs
Property theorems only. What a theorem can carry here is the recursion structure: the encoder's cycle detection
(this file, proofs in Enc/Lemmas/JsonCycle.lean) and the decoder's nesting limit (Props/C05 `deep_rejected`,
`parseValue_is_grammar` with its depth budget). Memory safety of the unsafe pointer arithmetic and the Go runtime's
stack growth are not expressible in the model: they are decided by the supervised type-directed sweep (DESIGN.md §5 C06).
-/
namespace Enc.Props.C06
open Enc Enc.Model.Json.Cycle

/-- **No unbounded recursion.** For EVERY finite value graph — cyclic or not, through pointers, slices or maps — the
encoder as coded (depth counter; path set from `startDetectingCyclesAfter` on) finishes within the recursion budget
`(T + |g| + 2)·(width + 2)`: it never keeps descending. -/
theorem marshal_terminates (g : Graph) (root : Nat) : marshal g root ≠ .outOfFuel :=
  Lemmas.JsonCycle.marshal_terminates g root

/-- **Exactness.** Marshal returns the cycle error exactly for cyclic values (the root is not in the least fixed point
"all children are leaves or finite") and encodes every other value: no missed cycle, no false alarm on shared
(DAG) sub-values however deep. -/
theorem marshal_eq (g : Graph) (root : Nat) :
    marshal g root = if Spec.Json.cyclicFrom g root then .cycle else .ok :=
  Lemmas.JsonCycle.marshal_eq g root

/-- the specification means what it should: cyclic iff an infinite descending path starts at the root -/
theorem cyclicFrom_iff_infinite_path (g : Graph) (root : Nat) :
    Spec.Json.cyclicFrom g root = true ↔
      ∃ p : Nat → Nat, p 0 = root ∧ ∀ i, ∃ cs, g[p i]? = some cs ∧ p (i + 1) ∈ cs :=
  Lemmas.JsonCycle.cyclicFrom_iff_infinite_path g root

/-- the same for every detection threshold and every sufficient budget (so the theorem does not depend on the value 1000) -/
theorem enc_root_eq (T : Nat) (g : Graph) (fuel root : Nat)
    (hf : (T + g.length) * ((g.map List.length).foldl max 0 + 1) + 1 ≤ fuel) :
    enc T g fuel 0 [] root = if Spec.Json.cyclicFrom g root then .cycle else .ok :=
  Lemmas.JsonCycle.enc_root_eq T g fuel root hf

/-- regression witnesses: a slice that contains itself, a two-container cycle, and a shared (not cyclic) sub-value -/
theorem self_slice_is_cycle : marshal [[0]] 0 = .cycle := by decide +kernel
theorem two_cycle_is_cycle : marshal [[1], [0]] 0 = .cycle := by decide +kernel
theorem shared_is_not_cycle : marshal [[1, 1], []] 0 = .ok := by decide +kernel
example : Spec.Json.cyclicFrom [[1], [0]] 0 = true := by decide +kernel
example : Spec.Json.cyclicFrom [[1, 1], []] 0 = false := by decide +kernel

end Enc.Props.C06
