import Enc.Lemmas.JsonDecTyped
import Enc.Lemmas.JsonDecTypedScalar
import Enc.Lemmas.JsonDecTypedValid
import Enc.Lemmas.JsonDecTypedMerge
import Enc.Lemmas.JsonDecTypedMain
import Enc.Lemmas.JsonDecTypedFold
import Enc.Lemmas.JsonDecTypedAll
/-!
# C02 — json.Unmarshal / Parse / Decoder.Decode into TYPED targets that may already hold data

Property theorems only. Model: `Enc/Model/Json/DecTyped.lean` (`decodeInto` = the codec that constructCodec builds for a
type of the universe `JT`: decodeBool, decodeInt…decodeUint64, decodeFloat64, decodeString, decodeBytes, decodeSlice,
decodeArray, decodeMap and its specialised copies, decodePointer, decodeStruct, decodeInterface, AS WRITTEN, error classes
and remainders included). Specification: `Enc/Spec/Json/DecTypedSpec.lean` (encoding/json's `d.value / array / object /
literalStore / indirect`, by recursion on the RFC 8259 grammar). Proofs: `Enc/Lemmas/JsonDecTyped*.lean`.
The model, the specification, the package and encoding/json are compared on every case of harness/c02typed.go
(op `json.dectyped`: random types × fitted documents × structure-aware mismatches × prior documents).

MAIN THEOREM (third pass; checked differentially on ~3 k / ~50 k cases per run AND proved below):

    theorem decodeTyped_eq_spec (c : TFlags) (t : JT) (hpp : noPP t = true) (cur : JV) (hplain : plain cur = true) (doc : Bytes) :
      okU (unmarshalTyped c t cur doc) = Spec.Json.unmarshalTyped c t cur doc

(every type of the universe without pointer-to-pointer, every prior content without interface-held pointers, every byte
string, both flags: same success / failure, same value). `noPP` is necessary: `null` onto a non-nil `**T` clears the inner
pointer in /repo/json and the outer one in encoding/json (known finding jsonNullNestedPointer; `null_nested_pointer_differs`).
`plain` (no interface of the prior content holds a non-nil pointer) is a restriction of the PROOF, not of the model or of the
differential test: for an interface holding a pointer only the top-level case is proved (`decodeTyped_eq_spec_anyp`).
Proof (Lemmas/JsonDecTyped{Loops,Int,Fold,All}.lean): one strong induction on the type-directed fuel over five statements —
`TOk` (decodeInto vs valueS), `SLOk / ALOk / MLOk / STOk` (sliceLoop / arrayLoop / mapLoop / structLoop vs elementsSl /
elementsAr / membersMp / membersSt) — with the relation `RelE` (same value and remainder, except that the code rejects
`01` at once while the grammar stops in front of the `1`); the integer leaf with a remainder (`decodeTyped_int_value`); the
agreement of the two case-folding key lookups for every key (`key_lookup_agrees`); fuel bounds `NB = 3·|b| + 2·sizeT t + 4`
below the model's `typedFuel`. Consequences: `decodeTyped_total` (fuel irrelevance), `decodeTyped_ok_implies_valid`.
-/
namespace Enc.Props.C02Typed
open Enc Enc.Model.Json Enc.Model.Json.Typed
open Enc.Lemmas.JsonDecTyped (okM okS okU nullNoop mapOk)
open Enc.Lemmas.JsonDecTypedScalar (scalar)

/-- **scalar targets, ANY prior content** (also priors that are not `plain`; otherwise a corollary of `decodeTyped_eq_spec`). For every byte string, both flags, every target of kind bool / int8…int64, int,
uint8…uint64, uint / float64 / string and EVERY prior content `cur` of the target: `Unmarshal` as coded (skipSpaces,
whole-input flags, the kind's decoder with its machine-integer overflow tests, width check, strconv range error,
unquoting fast and slow paths, `null`, trailing bytes, the error override) succeeds exactly when the specification of
encoding/json does, and stores the same value (the prior content survives exactly a `null`). -/
theorem decodeTyped_eq_spec_partial (c : TFlags) (t : JT) (hs : scalar t = true) (cur : JV) (doc : Bytes) :
    okU (unmarshalTyped c t cur doc) = Spec.Json.unmarshalTyped c t cur doc :=
  Lemmas.JsonDecTypedScalar.unmarshal_scalar c t hs cur doc

/-- the scalar leaves inside containers: at ANY nesting depth, with ANY remainder after the value, any prior content -/
theorem decodeTyped_bool_value (fl : PFlags) (c : TFlags) (F dp f d : Nat) (cur : JV) (b : Bytes) :
    okM (decodeInto fl c F 1 dp .bool cur b) = okS (Spec.Json.valueS c (f + 1) d .bool cur b) := by
  rw [decodeInto]; exact Lemmas.JsonDecTypedScalar.bool_value fl c F dp f d cur b

theorem decodeTyped_str_value (fl : PFlags) (c : TFlags) (F dp f d : Nat) (cur : JV) (b : Bytes)
    (hq : Lemmas.JsonString.QSound fl b) :
    okM (decodeInto fl c F 1 dp .str cur b) = okS (Spec.Json.valueS c (f + 1) d .str cur b) := by
  rw [decodeInto]; exact Lemmas.JsonDecTypedScalar.str_value fl c F dp f d cur b hq

theorem decodeTyped_float_value (fl : PFlags) (c : TFlags) (F dp f d : Nat) (cur : JV) (b : Bytes) :
    okM (decodeInto fl c F 1 dp .float cur b) = okS (Spec.Json.valueS c (f + 1) d .float cur b) := by
  rw [decodeInto]; exact Lemmas.JsonDecTypedScalar.float_value fl c F dp f d cur b

/-- **totality (partial).** The model has no panicking operation (its results are `ok | syn | ty | oth`) and is defined by
structural recursion on its fuel; for a scalar target the fuel is irrelevant as soon as it is positive.
(Containers: `decodeTyped_total` below.) -/
theorem decodeTyped_total_partial (fl : PFlags) (c : TFlags) (F g g' dp : Nat) (t : JT) (hs : scalar t = true) (cur : JV)
    (b : Bytes) : decodeInto fl c F (g + 1) dp t cur b = decodeInto fl c F (g' + 1) dp t cur b :=
  Lemmas.JsonDecTypedScalar.scalar_fuel fl c F g g' dp t hs cur b

/-- **null is a no-op** for bool, every integer width, float64, string, arrays and structs — whatever the target holds,
at any depth, in the code … -/
theorem null_is_noop (fl : PFlags) (c : TFlags) (F g dp : Nat) (t : JT) (cur : JV) (rest : Bytes) (ht : nullNoop t = true) :
    decodeInto fl c F (g + 2) dp t cur (nullLit ++ rest) = .ok cur rest :=
  Lemmas.JsonDecTyped.model_null_noop fl c F g dp t cur rest ht

/-- … and in the specification -/
theorem null_is_noop_spec (c : TFlags) (f d : Nat) (t : JT) (cur : JV) (rest : Bytes) (ht : nullNoop t = true) :
    Spec.Json.valueS c (f + 1) d t cur (nullLit ++ rest) = some (cur, false, rest) :=
  Lemmas.JsonDecTypedScalar.spec_null_noop c f d t cur rest ht

/-- `null` makes a slice and a map nil, and a pointer nil unless it is a non-nil pointer to a pointer -/
theorem null_slice_is_nil (fl : PFlags) (c : TFlags) (F g dp : Nat) (e : JT) (cur : JV) (rest : Bytes) :
    decodeInto fl c F (g + 2) dp (.slice e) cur (nullLit ++ rest) = .ok (.slice true .nil .nil) rest :=
  Lemmas.JsonDecTyped.model_null_slice fl c F g dp e cur rest

theorem null_map_is_nil (fl : PFlags) (c : TFlags) (F g dp : Nat) (e : JT) (cur : JV) (rest : Bytes) :
    decodeInto fl c F (g + 2) dp (.mapS e) cur (nullLit ++ rest) = .ok (.map true .nil) rest :=
  Lemmas.JsonDecTyped.model_null_map fl c F g dp e cur rest

theorem null_pointer_is_nil (fl : PFlags) (c : TFlags) (F g dp : Nat) (e : JT) (cur : JV) (rest : Bytes)
    (h : e.isPtr = false ∨ cur = .nilptr) :
    decodeInto fl c F (g + 2) dp (.ptr e) cur (nullLit ++ rest) = .ok .nilptr rest :=
  Lemmas.JsonDecTyped.model_null_ptr fl c F g dp e cur rest h

/-- **merge semantics, pointers.** A non-nil pointer is REUSED (same identity bit, the pointee is decoded into); a nil
pointer is allocated and its pointee decoded from the zero value -/
theorem merge_pointer_reused (fl : PFlags) (c : TFlags) (F g dp : Nat) (e : JT) (old : Bool) (v : JV) (b : Bytes)
    (hn : hasPrefix b nullLit = false) :
    decodeInto fl c F (g + 2) dp (.ptr e) (.ptr old v) b = mapOk (JV.ptr old) (decodeInto fl c F g dp e v b) :=
  Lemmas.JsonDecTyped.model_ptr_reused fl c F g dp e old v b hn

theorem merge_pointer_allocated (fl : PFlags) (c : TFlags) (F g dp : Nat) (e : JT) (b : Bytes)
    (hn : hasPrefix b nullLit = false) :
    decodeInto fl c F (g + 2) dp (.ptr e) .nilptr b = mapOk (JV.ptr false) (decodeInto fl c F g dp e (zeroOf e) b) :=
  Lemmas.JsonDecTyped.model_ptr_alloc fl c F g dp e b hn

/-- **merge semantics, slices.** The slice is reset: the result depends on the backing array only (the visible elements
followed by what earlier decodes left behind them), not on the old length nor on nil-ness -/
theorem merge_slice_reset (fl : PFlags) (c : TFlags) (F g dp : Nat) (e : JT) (n : Bool) (vs st : JVs) (b : Bytes) :
    decodeInto fl c F g dp (.slice e) (.slice n vs st) b =
      decodeInto fl c F g dp (.slice e) (.slice false (vs.append st) .nil) b :=
  Lemmas.JsonDecTyped.model_slice_reset fl c F g dp e n vs st b

/-- **the known deviation, as a theorem about the code**: `null` onto a non-nil `**T` is handed to the inner pointer -/
theorem null_nested_pointer_kept (fl : PFlags) (c : TFlags) (F g dp : Nat) (e : JT) (old : Bool) (v : JV) (rest : Bytes) :
    decodeInto fl c F (g + 2) dp (.ptr (.ptr e)) (.ptr old v) (nullLit ++ rest) =
      mapOk (JV.ptr old) (decodeInto fl c F g dp (.ptr e) v (nullLit ++ rest)) :=
  Lemmas.JsonDecTyped.model_null_ptrptr fl c F g dp e old v rest

/-! ### non-vacuity / concrete behaviour (evaluated by the kernel) -/

def c0 : TFlags := { useNumber := false, disallowUnknown := false }
def asc (s : String) : Bytes := s.toList.map fun ch => UInt8.ofNat ch.toNat

/-- the finding: model (= /repo/json) keeps the outer pointer, the specification (= encoding/json) clears it -/
theorem null_nested_pointer_differs :
    unmarshalTyped c0 (.ptr (.ptr (.int .int))) (.ptr true (.ptr true (.int 5))) [0x6e, 0x75, 0x6c, 0x6c] = .ok (.ptr true .nilptr) ∧
    Spec.Json.unmarshalTyped c0 (.ptr (.ptr (.int .int))) (.ptr true (.ptr true (.int 5))) [0x6e, 0x75, 0x6c, 0x6c] = some .nilptr := by
  constructor <;> decide +kernel

/-- an int8 target holding 5: `-128` is stored, `128` fails (both sides), `null` keeps the 5 -/
example : okU (unmarshalTyped c0 (.int .i8) (.int 5) [0x2d, 0x31, 0x32, 0x38]) = some (.int (-128)) := by decide +kernel
example : Spec.Json.unmarshalTyped c0 (.int .i8) (.int 5) [0x31, 0x32, 0x38] = none := by decide +kernel
example : okU (unmarshalTyped c0 (.int .i8) (.int 5) [0x20, 0x6e, 0x75, 0x6c, 0x6c]) = some (.int 5) := by decide +kernel

/-- a map is merged: `{"b":2}` into map[string]int{"a":1} -/
example :
    okU (unmarshalTyped c0 (.mapS (.int .int)) (.map false (.cons [0x61] (.int 1) .nil))
      [0x7b, 0x22, 0x62, 0x22, 0x3a, 0x32, 0x7d]) =
      some (.map false (.cons [0x61] (.int 1) (.cons [0x62] (.int 2) .nil))) := by decide +kernel
example :
    Spec.Json.unmarshalTyped c0 (.mapS (.int .int)) (.map false (.cons [0x61] (.int 1) .nil))
      [0x7b, 0x22, 0x62, 0x22, 0x3a, 0x32, 0x7d] =
      some (.map false (.cons [0x61] (.int 1) (.cons [0x62] (.int 2) .nil))) := by decide +kernel

/-- a slice is reset over its backing array: `[null]` into []int{1,2,3} gives [1] and keeps 2, 3 behind it -/
example :
    okU (unmarshalTyped c0 (.slice (.int .int)) (.slice false (.cons (.int 1) (.cons (.int 2) (.cons (.int 3) .nil))) .nil)
      [0x5b, 0x6e, 0x75, 0x6c, 0x6c, 0x5d]) =
      some (.slice false (.cons (.int 1) .nil) (.cons (.int 2) (.cons (.int 3) .nil))) := by decide +kernel

/-! ### added in the second pass -/

open Enc.Lemmas.JsonDecTypedPlain (plain RelE RP)

/-- **the specification only accepts what the grammar accepts**: every production of the typed specification, for every
type, prior content and fuel, matches exactly the text matched by the RFC 8259 production (same fuel, same budget) -/
theorem spec_matches_grammar (c : TFlags) (f d : Nat) (t : JT) (cur : JV) (b : Bytes) (x : JV × Bool × Bytes)
    (h : Spec.Json.valueS c f d t cur b = some x) : Spec.Json.value f d b = some x.2.2 :=
  Lemmas.JsonDecTypedSpecU.valueS_proj c h

/-- **success implies validity** (specification of encoding/json, every type of the universe, every prior content) -/
theorem decodeTyped_ok_implies_valid_spec (c : TFlags) (t : JT) (cur : JV) (doc : Bytes) (v : JV)
    (h : Spec.Json.unmarshalTyped c t cur doc = some v) : Spec.Json.validStd doc = true :=
  Lemmas.JsonDecTypedValid.spec_ok_valid c t cur doc v h

/-- **success implies validity** (the code; scalar kinds with ANY prior content — all kinds: `decodeTyped_ok_implies_valid`).
The converse fails only by type mismatches: `decodeTyped_eq_spec_partial` + the specification's `bad` flag. -/
theorem decodeTyped_ok_implies_valid_partial (c : TFlags) (t : JT) (hs : scalar t = true) (cur : JV) (doc : Bytes) (v : JV)
    (h : unmarshalTyped c t cur doc = .ok v) : Spec.Json.validStd doc = true := by
  have e := decodeTyped_eq_spec_partial c t hs cur doc
  rw [h] at e
  exact decodeTyped_ok_implies_valid_spec c t cur doc v e.symm

/-- **`any`** (an interface holding nil or a non-pointer value), value level: any depth, any remainder, both flags -/
theorem decodeTyped_eq_spec_any_value (fl : PFlags) (c : TFlags) (F g dp f' : Nat) (cur : JV) (b : Bytes)
    (hc : ∀ t o v, cur ≠ .anyp t o v) (hdp : dp ≤ Gen.c_json_maxNestingDepth) (hg : 3 * b.length ≤ g)
    (hF : 3 * b.length ≤ F) (hf : 2 * b.length ≤ f' + 1) (hq : Lemmas.JsonString.QSound fl b) :
    RelE (decodeInto fl c F (g + 2) dp .any cur b)
      (Spec.Json.valueS c (f' + 1) (Gen.c_json_maxNestingDepth - dp) .any cur b) :=
  Lemmas.JsonDecTypedMain.any_step fl c F g dp f' cur b hc hdp hg hF hf hq

/-- **`any`**, whole documents -/
theorem decodeTyped_eq_spec_any (c : TFlags) (cur : JV) (hc : ∀ t o v, cur ≠ .anyp t o v) (doc : Bytes) :
    okU (unmarshalTyped c .any cur doc) = Spec.Json.unmarshalTyped c .any cur doc :=
  Lemmas.JsonDecTypedMain.unmarshal_any c cur hc doc

/-- **pointer** (to a non-pointer type), under the induction hypothesis for the pointee type: `null` → nil, a non-nil
pointer reused, a nil pointer allocated — same success part as the specification -/
theorem decodeTyped_eq_spec_ptr (fl : PFlags) (c : TFlags) (F g dp f' : Nat) (e : JT) (cur : JV) (b : Bytes)
    (ih : ∀ cur', plain cur' = true →
      RelE (decodeInto fl c F g dp e cur' b) (Spec.Json.valueS c f' (Gen.c_json_maxNestingDepth - dp) e cur' b))
    (he : e.isPtr = false) (hcur : plain cur = true) :
    RelE (decodeInto fl c F (g + 2) dp (.ptr e) cur b)
      (Spec.Json.valueS c (f' + 1) (Gen.c_json_maxNestingDepth - dp) (.ptr e) cur b) :=
  Lemmas.JsonDecTypedMain.ptr_step fl c F dp f' e cur b ih (fun _ => he) hcur

/-- … instantiated: `*any`, whole documents, every prior content without interface-held pointers -/
theorem decodeTyped_eq_spec_ptr_any (c : TFlags) (cur : JV) (hcur : plain cur = true) (doc : Bytes) :
    okU (unmarshalTyped c (.ptr .any) cur doc) = Spec.Json.unmarshalTyped c (.ptr .any) cur doc :=
  Lemmas.JsonDecTypedMain.unmarshal_ptr_any c cur hcur doc

/-- **merge_map.** If the member loop of decodeMap (all five copies) succeeds on a map `m`, then its result is `m` with
the document's (key, value) pairs assigned in order — every other entry of `m` is kept — and on any other initial map the
same pairs are assigned (a nil map = the empty one: allocated). -/
theorem merge_map (fl : PFlags) (c : TFlags) (F g dp : Nat) (e : JT) (input : Bytes) (m : JMs) (b : Bytes) (i : Nat)
    (m' : JMs) (r : Bytes) (h : Typed.mapLoop fl c F g dp e input m b i = .ok m' r) :
    ∃ kvs, m' = Lemmas.JsonDecTypedMerge.ins kvs m ∧
      ∀ m0, Typed.mapLoop fl c F g dp e input m0 b i = .ok (Lemmas.JsonDecTypedMerge.ins kvs m0) r :=
  Lemmas.JsonDecTypedMerge.mapLoop_merge fl c F g dp e input m b i m' r h

/-- non-vacuity: `{"b":2,"c":3}` (after the brace) into {"a":1} -/
example : Typed.mapLoop {} c0 100 50 1 (.int .int) [] (.cons [0x61] (.int 1) .nil)
    [0x22, 0x62, 0x22, 0x3a, 0x32, 0x2c, 0x22, 0x63, 0x22, 0x3a, 0x33, 0x7d] 0 =
    .ok (.cons [0x61] (.int 1) (.cons [0x62] (.int 2) (.cons [0x63] (.int 3) .nil))) [] := by decide +kernel

example : okU (unmarshalTyped c0 (.ptr .any) (.ptr true (.anyv (.bool true))) [0x5b, 0x31, 0x5d]) =
    some (.ptr true (.anyv (.arr (.cons (.num [0x31] .f64) .nil)))) := by decide +kernel

/-! ### third pass: containers — the combined theorem -/

open Enc.Lemmas.JsonDecTypedPlain (noPP NB)

/-- **MAIN.** For every type of the universe (bool, the ten integer widths, float64, string, `[]T` incl. `[]byte`, `[n]T`,
`map[string]T`, `*T`, structs, `any`, arbitrarily nested) without pointer-to-pointer, EVERY prior content of the target in
which no interface holds a non-nil pointer, every byte string and both flags: `Unmarshal` as coded — skipSpaces, the codec
that constructCodec builds (decodeBytes / decodeSlice with the reused backing array, decodeArray, the five map loops with
their merge, decodePointer with reuse / allocation, decodeStruct with duplicate / unknown / case-folded keys and
DisallowUnknownFields, decodeInterface), the nesting counter, every error path — succeeds exactly when the specification of
encoding/json does, and leaves the same content in the target. -/
theorem decodeTyped_eq_spec (c : TFlags) (t : JT) (hpp : noPP t = true) (cur : JV) (hplain : plain cur = true) (doc : Bytes) :
    okU (unmarshalTyped c t cur doc) = Spec.Json.unmarshalTyped c t cur doc :=
  Lemmas.JsonDecTypedAll.unmarshal_eq c t hpp cur hplain doc

/-- the value-level statement behind it: at any nesting depth within the limit, with any remainder, for any fuels above the
bounds (`RelE`: same value and remainder, or the code fails at once where the grammar stops in front of a digit) -/
theorem decodeTyped_eq_spec_value (fl : PFlags) (c : TFlags) (F g dp f' : Nat) (t : JT) (cur : JV) (b : Bytes)
    (hdp : dp ≤ Gen.c_json_maxNestingDepth) (hpp : noPP t = true) (hcur : plain cur = true) (hg : NB b t ≤ g)
    (hf : NB b t ≤ f') (hF : 3 * b.length ≤ F) (hq : Lemmas.JsonString.QSound fl b) :
    RelE (decodeInto fl c F g dp t cur b) (Spec.Json.valueS c f' (Gen.c_json_maxNestingDepth - dp) t cur b) :=
  Lemmas.JsonDecTypedAll.decodeInto_spec fl c F g dp f' t cur b hdp hpp hcur hg hf hF hq

/-- **totality / fuel irrelevance, all kinds.** The model has no panicking operation (its results are `ok | syn | ty | oth`,
`UR` likewise) and is defined by structural recursion on its fuel; with ANY type-directed fuel `g ≥ NB = 3·|doc| + 2·sizeT t + 4`
and any scanner fuel `F ≥ 3·|doc|` the outcome for a whole document is the specification's — hence the same as with the
fuels `typedFuel` / `anyFuel` that `unmarshalTyped` uses (`decodeTyped_eq_spec`): the fuel never runs out. -/
theorem decodeTyped_total (c : TFlags) (t : JT) (hpp : noPP t = true) (cur : JV) (hplain : plain cur = true) (doc : Bytes)
    (g F : Nat) (hg : NB (Spec.Json.ws doc) t ≤ g) (hF : 3 * (Spec.Json.ws doc).length ≤ F) :
    Lemmas.JsonDecTypedScalar.fin (okM (decodeInto (internalParseFlags doc) c F g 0 t cur (Spec.Json.ws doc))) =
      okU (unmarshalTyped c t cur doc) := by
  rw [decodeTyped_eq_spec c t hpp cur hplain doc]
  exact Lemmas.JsonDecTypedAll.fuel_irrelevant c t hpp cur hplain doc g F hg hF

/-- **fuel irrelevance at the value level, all kinds**: inside any document, at any nesting depth within the limit, with any
remainder — two type-directed fuels above the bound `NB` give the same value and remainder (or both fail) -/
theorem decodeTyped_total_value (fl : PFlags) (c : TFlags) (F : Nat) (t : JT) (hpp : noPP t = true) (g g' dp : Nat) (cur : JV)
    (b : Bytes) (hdp : dp ≤ Gen.c_json_maxNestingDepth) (hcur : plain cur = true) (hg : NB b t ≤ g) (hg' : NB b t ≤ g')
    (hF : 3 * b.length ≤ F) (hq : Lemmas.JsonString.QSound fl b) :
    okM (decodeInto fl c F g dp t cur b) = okM (decodeInto fl c F g' dp t cur b) :=
  Lemmas.JsonDecTypedAll.fuel_value fl c F t hpp g g' dp cur b hdp hcur hg hg' hF hq

/-- **success implies validity** (the CODE, every type, every prior content as above): what `Unmarshal` accepts is a valid
JSON text (RFC 8259, nesting ≤ 10000) -/
theorem decodeTyped_ok_implies_valid (c : TFlags) (t : JT) (hpp : noPP t = true) (cur : JV) (hplain : plain cur = true)
    (doc : Bytes) (v : JV) (h : unmarshalTyped c t cur doc = .ok v) : Spec.Json.validStd doc = true := by
  have e := decodeTyped_eq_spec c t hpp cur hplain doc
  rw [h] at e
  exact decodeTyped_ok_implies_valid_spec c t cur doc v e.symm

/-- **the integer leaf inside containers** (any remainder, every prior): same value and remainder as the specification,
except `01…` (rejected at once / the grammar stops in front of the `1`) -/
theorem decodeTyped_int_value (fl : PFlags) (c : TFlags) (F dp f d : Nat) (w : ITy) (cur : JV) (b : Bytes)
    (hcur : plain cur = true) :
    RelE (decodeInt fl F dp w cur b) (Spec.Json.valueS c (f + 1) d (.int w) cur b) :=
  Lemmas.JsonDecTypedInt.int_value fl c F dp f d w cur b hcur

/-- **the key lookups agree**: decodeStruct's "exact name, else first field with the same `appendFoldedName` image" and
encoding/json's "exact name, else first field equal under `foldName`" pick the same field — for EVERY key (also non-ASCII,
also invalid UTF-8) and every field list -/
theorem key_lookup_agrees (fs : JFs) (key : Bytes) : fieldIndex fs key = Spec.Json.fieldOf fs key :=
  Lemmas.JsonDecTypedFold.fieldIndex_eq fs key

/-! non-vacuity: a struct with a slice of maps and a pointer, a prior content with data in every position, a document with a
merged map, an appended element, a case-folded key, a `null` and an unknown key -/

def tS : JT := .strct (.cons (asc "a") (.slice (.mapS (.int .int))) (.cons (asc "b") (.ptr .str) .nil))
def curS : JV := .strct (.cons (.slice false (.cons (.map false (.cons (asc "k") (.int 7) .nil)) .nil) .nil)
  (.cons (.ptr true (.str (asc "x"))) .nil))
def docS : Bytes := asc "{\"a\":[{\"x\":1},{\"y\":2}],\"B\":null,\"zz\":[1,{}]} "

example : noPP tS = true := by decide
example : plain curS = true := by decide
def resS : JV := .strct (.cons (.slice false (.cons (.map false (.cons (asc "k") (.int 7) (.cons (asc "x") (.int 1) .nil)))
        (.cons (.map false (.cons (asc "y") (.int 2) .nil)) .nil)) .nil)
      (.cons .nilptr .nil))
example : unmarshalTyped c0 tS curS docS = .ok resS := by decide +kernel
example : Spec.Json.unmarshalTyped c0 tS curS docS = okU (unmarshalTyped c0 tS curS docS) :=
  (decodeTyped_eq_spec c0 tS (by decide) curS (by decide) docS).symm
example : NB (Spec.Json.ws docS) tS ≤ 200 ∧ 3 * (Spec.Json.ws docS).length ≤ 150 := by decide
example : Spec.Json.validStd docS = true :=
  decodeTyped_ok_implies_valid c0 tS (by decide) curS (by decide) docS resS (by decide +kernel)
example : fieldIndex (.cons (asc "Key") .bool (.cons (asc "key") .str .nil)) (asc "KEY") = some (0, .bool) := by decide +kernel
example : decodeInt {} 0 0 .i8 (.int 5) (asc "01,") = .syn ∧
    Spec.Json.valueS c0 1 0 (.int .i8) (.int 5) (asc "01,") = some (.int 0, false, asc "1,") := by
  constructor <;> decide +kernel

/-! ### an interface holding a non-nil pointer -/

/-- **`any` holding a non-nil `*T`** (value level, under the hypothesis for the pointee, input at a value position): `null`
makes the interface nil unless `T` is a pointer type, anything else is decoded INTO the pointee and the interface keeps the
pointer — same value as the specification, same remainder up to leading white space (`RelW`) -/
theorem decodeTyped_eq_spec_anyp_step (fl : PFlags) (c : TFlags) (F g dp f : Nat) (t : JT) (old : Bool) (v : JV) (b : Bytes)
    (hws : Spec.Json.ws b = b)
    (ih : RelE (decodeInto fl c F g dp t v b) (Spec.Json.valueS c f (Gen.c_json_maxNestingDepth - dp) t v b)) :
    Lemmas.JsonDecTypedAll.RelW (decodeInto fl c F (g + 2) dp .any (.anyp t old v) b)
      (Spec.Json.valueS c (f + 1) (Gen.c_json_maxNestingDepth - dp) .any (.anyp t old v) b) :=
  Lemmas.JsonDecTypedAll.anyp_step fl c F g dp f t old v b hws ih

/-- … whole documents: `var x any = &T{…}; Unmarshal(doc, &x)` for every `T` without pointer-to-pointer and every content of
the `T` without further interface-held pointers.
NOT PROVED: an interface holding a pointer NESTED inside the prior content (`plain` fails below the top level). The model and
the specification cover it and agree on every generated case; the proof would need (1) the loops' hypothesis "input at a value
position" (decodeInterface calls `d.parse`, which skips white space first), (2) `RelW` instead of `RelE` through all four loops,
(3) a fuel measure on the CONTENT (the pointee type comes from the value, not from the type) together with the invariant that
decoding never enlarges it. -/
theorem decodeTyped_eq_spec_anyp (c : TFlags) (t : JT) (hpp : noPP t = true) (old : Bool) (v : JV) (hv : plain v = true)
    (doc : Bytes) :
    okU (unmarshalTyped c .any (.anyp t old v) doc) = Spec.Json.unmarshalTyped c .any (.anyp t old v) doc :=
  Lemmas.JsonDecTypedAll.unmarshal_anyp c t hpp old v hv doc

/-- non-vacuity: an interface holding a pointer to the struct above; the same document is decoded into the struct -/
example : unmarshalTyped c0 .any (.anyp tS true curS) docS = .ok (.anyp tS true resS) := by decide +kernel
example : unmarshalTyped c0 .any (.anyp tS true curS) (asc " null ") = .ok (.anyv .null) := by decide +kernel

/-! ### sequences of calls into the same target -/

/-- **a sequence of `Unmarshal` calls into the same target** (the C02 clause "also when the target already holds data",
iterated): the code and the specification end with the same content, or fail at the same call — for every type without
pointer-to-pointer, every initial content without interface-held pointers (in particular the zero value), every list of
byte strings. (What a successful call stores is again such a content: `unmarshal_plain`.) -/
theorem decodeTyped_seq_eq_spec (c : TFlags) (t : JT) (hpp : noPP t = true) (cur : JV) (hplain : plain cur = true)
    (docs : List Bytes) :
    Lemmas.JsonDecTypedAll.seqObs (unmarshalSeq c t cur docs 0) = Spec.Json.unmarshalSeq c t cur docs 0 :=
  Lemmas.JsonDecTypedAll.unmarshalSeq_eq c t hpp docs cur 0 hplain

/-- non-vacuity: three documents into the zero struct — the second merges into the map left by the first and shortens the
slice (the second map stays behind it in the backing array), the third fails -/
example : Lemmas.JsonDecTypedAll.seqObs (unmarshalSeq c0 tS (zeroOf tS)
    [asc "{\"a\":[{\"x\":1},{\"y\":2}],\"b\":\"s\"}", asc "{\"a\":[{\"z\":3}]}", asc "{\"a\":1}"] 0) = .inr 2 := by
  decide +kernel
example : Lemmas.JsonDecTypedAll.seqObs (unmarshalSeq c0 tS (zeroOf tS)
    [asc "{\"a\":[{\"x\":1},{\"y\":2}],\"b\":\"s\"}", asc "{\"a\":[{\"z\":3}]}"] 0) =
    .inl (.strct (.cons (.slice false (.cons (.map false (.cons (asc "x") (.int 1) (.cons (asc "z") (.int 3) .nil))) .nil)
        (.cons (.map false (.cons (asc "y") (.int 2) .nil)) .nil))
      (.cons (.ptr true (.str (asc "s"))) .nil))) := by
  decide +kernel

end Enc.Props.C02Typed
