import Enc.Model.Json.MapKeyOrder
import Enc.Spec.Json.MapKeys
import Enc.Lemmas.JsonMapKeyOrder
import Enc.Lemmas.JsonMapKeyPadded
/-!
# C01 (map key layer) — the members of a map are written in encoding/json's order, with encoding/json's key texts

encoding/json sorts the members of a map by the TEXT of the key (`resolveKeyName`: the string, the MarshalText text, or
strconv's decimal text of an integer key), byte-wise. json/codec.go `constructMapCodec` installs per key kind a comparator
on the KEYS (`intStringsAreSorted` / `uintStringsAreSorted` on the widened 64-bit value, Go string `<`), and the keys are
written by segmentio's own integer formatter. Property statements only; proofs in Lemmas/JsonMapKeyOrder.lean.
-/
namespace Enc.Props.C01MapKeys
open Enc Enc.Model.Json Enc.Model.Json.MapKeyOrder
open Enc.Spec.Json (decimal intString)
open Enc.Spec.Json.MapKeys (lexLT stdMapObject intKs keyNameOf keyDecoderOf)

/-- Go's `<` on strings is the lexicographic order of the bytes (core's order on `List UInt8`) -/
theorem strLT_eq_lex (a b : Bytes) : strLT a b = lexLT a b := Lemmas.JsonMapKeyOrder.strLT_eq_lex a b

/-- MAIN (comparators): for ALL pairs of uint64 keys the comparator as written is the byte-wise order of the decimal texts … -/
theorem uintStringsAreSorted_eq (a b : BitVec 64) :
    uintStringsAreSorted a b = lexLT (decimal a.toNat) (decimal b.toNat) :=
  Lemmas.JsonMapKeyOrder.uintStringsAreSorted_eq a b

/-- … and for ALL pairs of int64 keys (two's complement words) of the signed decimal texts (`-` sorts before the digits) -/
theorem intStringsAreSorted_eq (a b : BitVec 64) :
    intStringsAreSorted a b = lexLT (intString a.toInt) (intString b.toInt) :=
  Lemmas.JsonMapKeyOrder.intStringsAreSorted_eq a b

/-- the comparator of each integer kind is a strict total order on the widened keys: irreflexive, transitive, and total on
distinct keys (distinct numbers have distinct decimal texts) — so "the sorted order" exists and is unique -/
theorem intLess_irrefl (signed : Bool) (a : BitVec 64) : intLess signed a a = false :=
  Lemmas.JsonMapKeyOrder.intLess_irrefl signed a
theorem intLess_trans (signed : Bool) (a b c : BitVec 64)
    (h1 : intLess signed a b = true) (h2 : intLess signed b c = true) : intLess signed a c = true :=
  Lemmas.JsonMapKeyOrder.intLess_trans signed a b c h1 h2
theorem intLess_total (signed : Bool) (a b : BitVec 64) (h : a ≠ b) :
    intLess signed a b = true ∨ intLess signed b a = true := by
  rcases Lemmas.JsonMapKeyOrder.intLess_trichotomy signed a b with h1 | h1 | h1
  · exact .inl h1
  · exact absurd h1 h
  · exact .inr h1

/-- the same for Go's string `<` (string kinds, MarshalText keys) -/
theorem strLT_strict_total :
    (∀ a, strLT a a = false) ∧ (∀ a b c, strLT a b = true → strLT b c = true → strLT a c = true) ∧
    (∀ a b, a ≠ b → strLT a b = true ∨ strLT b a = true) :=
  ⟨Lemmas.JsonMapKeyOrder.strLT_irrefl, Lemmas.JsonMapKeyOrder.strLT_trans, fun a b h => by
    rcases Lemmas.JsonMapKeyOrder.strLT_trichotomy a b with h1 | h1 | h1
    · exact .inl h1
    · exact absurd h1 h
    · exact .inr h1⟩

/-- whatever `sort.Slice` (pdqsort, unstable) does: ANY rearrangement of the entries of a map (distinct keys) in which the
keys strictly ascend for the comparator is the list `sortBy` computes -/
theorem sort_result_unique (signed : Bool) (es out : List (BitVec 64 × Bytes)) (hp : out.Perm es)
    (hnd : (es.map (·.1)).Nodup) (hs : List.Pairwise (fun p q => intLess signed p.1 q.1 = true) out) :
    out = sortBy (fun p q => intLess signed p.1 q.1) es :=
  Lemmas.JsonMapKeyOrder.sortBy_unique (Lemmas.JsonMapKeyOrder.intLess_strictTotal signed) es out hp hnd hs

/-- `sortBy` does return such a rearrangement -/
theorem sortBy_sorted (signed : Bool) (es : List (BitVec 64 × Bytes)) (hnd : (es.map (·.1)).Nodup) :
    (sortBy (fun p q => intLess signed p.1 q.1) es).Perm es ∧
    List.Pairwise (fun p q => intLess signed p.1 q.1 = true) (sortBy (fun p q => intLess signed p.1 q.1) es) :=
  ⟨Lemmas.JsonMapKeyOrder.sortBy_perm es,
   Lemmas.JsonMapKeyOrder.sortBy_sorted (Lemmas.JsonMapKeyOrder.intLess_strictTotal signed) es hnd⟩

/-- MAIN (integer-keyed maps): for every iteration order of the runtime, the object json.Marshal writes — members sorted
with the comparator, keys written by `formatInteger` inside quotes — is byte for byte the object encoding/json writes
for the same entries (key names = strconv texts, sorted as texts, written by appendString) -/
theorem encodeIntKeyMap_eq_std (signed html : Bool) (es : List (BitVec 64 × Bytes)) :
    encodeIntKeyMap signed html es = stdMapObject html (es.map fun p => (intKs (keyInt signed p.1), p.2)) :=
  Lemmas.JsonMapKeyOrder.encodeIntKeyMap_eq_std signed html es

/-- … so the output does not depend on the iteration order -/
theorem encodeIntKeyMap_iteration_order (signed html : Bool) (es es' : List (BitVec 64 × Bytes)) (hp : es.Perm es')
    (hnd : (es.map (·.1)).Nodup) : encodeIntKeyMap signed html es = encodeIntKeyMap signed html es' := by
  unfold encodeIntKeyMap
  rw [Lemmas.JsonMapKeyOrder.sortBy_iteration_order (Lemmas.JsonMapKeyOrder.intLess_strictTotal signed) es es' hp hnd]

/-- MAIN (string kinds, MarshalText keys; key name = the string / the text) -/
theorem encodeStrKeyMap_eq_std (html : Bool) (es : List (Bytes × Bytes)) :
    encodeStrKeyMap html es = stdMapObject html es :=
  Lemmas.JsonMapKeyOrder.encodeStrKeyMap_eq_std html es

/-- which comparator / key text constructMapCodec installs, per key kind and text methods = resolveKeyName (encoding) and
the key decoder of decode.go `object` (decoding); holds for all 16 combinations since repair 0a9d40c -/
theorem sortKeysOf_eq_std (t : KeyType) : sortKeysOf t = keyNameOf t := Lemmas.JsonMapKeyOrder.sortKeysOf_eq_std t
theorem decodeKeysOf_eq_std (t : KeyType) : decodeKeysOf t = keyDecoderOf t := Lemmas.JsonMapKeyOrder.decodeKeysOf_eq_std t

/-- NEGATIVE WITNESS (seeded bug C01e): the zero-padding comparator in uint64 arithmetic puts 2 before 10^19 (2·10^19
wraps around to 1553255926290448384 ≤ 10^19), the texts sort the other way round -/
theorem padded_comparator_wrong :
    Padded.uintStringsAreSorted 2#64 10000000000000000000#64 = true ∧
    uintStringsAreSorted 2#64 10000000000000000000#64 = false ∧
    lexLT (decimal 2) (decimal 10000000000000000000) = false := by
  refine ⟨by decide +kernel, by decide +kernel, by decide +kernel⟩

/-- … and that is the ONLY way it goes wrong: whenever the zero-padded product does not wrap around 2^64 (n = number of
decimal digits) the arithmetic comparator IS the order of the texts … -/
theorem padded_uint_eq (a b : BitVec 64)
    (hov1 : (decimal a.toNat).length < (decimal b.toNat).length →
      a.toNat * 10 ^ ((decimal b.toNat).length - (decimal a.toNat).length) < 2 ^ 64)
    (hov2 : (decimal b.toNat).length < (decimal a.toNat).length →
      b.toNat * 10 ^ ((decimal a.toNat).length - (decimal b.toNat).length) < 2 ^ 64) :
    Padded.uintStringsAreSorted a b = uintStringsAreSorted a b :=
  Lemmas.JsonMapKeyPadded.padded_uint_eq a b hov1 hov2

/-- … in particular for all keys below 10^19 … -/
theorem padded_uint_eq_small (a b : BitVec 64) (ha : a.toNat < 10 ^ 19) (hb : b.toNat < 10 ^ 19) :
    Padded.uintStringsAreSorted a b = uintStringsAreSorted a b :=
  Lemmas.JsonMapKeyPadded.padded_uint_eq_small a b ha hb

/-- … and for ALL pairs of int64 keys (magnitudes ≤ 2^63 < 10^19): the seeded defect is confined to uint64 / uint /
uintptr keys of 20 digits, as its description says -/
theorem padded_int_eq (a b : BitVec 64) : Padded.intStringsAreSorted a b = intStringsAreSorted a b :=
  Lemmas.JsonMapKeyPadded.padded_int_eq a b

/-- non-vacuity of the no-wrap hypotheses: 25 against 2500 -/
example : Padded.uintStringsAreSorted 25#64 2500#64 = uintStringsAreSorted 25#64 2500#64 :=
  padded_uint_eq_small _ _ (by decide) (by decide)

/-- non-vacuity / concrete order: "-1" < "-10" < "10" < "2" byte-wise; uint8 key 200 stored in a word with garbage above -/
example : [(BitVec.ofInt 64 (-1), [0x31]), (BitVec.ofInt 64 (-10), [0x32]), (10#64, [0x33]), (2#64, [0x34])]
    = sortBy (fun p q => intLess true p.1 q.1)
        [(2#64, [0x34]), (BitVec.ofInt 64 (-10), [0x32]), (10#64, [0x33]), (BitVec.ofInt 64 (-1), ([0x31] : Bytes))] :=
  sort_result_unique true _ _ (by decide) (by decide) (by decide +kernel)
example : widen .uint8 0xabcdc8#64 = 200#64 ∧ widen .int8 0xc8#64 = BitVec.ofInt 64 (-56) := by decide
example : encodeIntKeyMap false true [(2#64, [0x31]), (10000000000000000000#64, [0x32])]
    = stdMapObject true [(decimal 2, [0x31]), (decimal 10000000000000000000, [0x32])] :=
  encodeIntKeyMap_eq_std false true _

end Enc.Props.C01MapKeys
