import Enc.Model.Json.Inlined
import Enc.Spec.Json.DirectIface
import Enc.Lemmas.JsonInlined
/-!
# C01 (value passing layer) — `inlined(t)` is Go's rule for "the interface data word IS the value"
so `Marshal(any)` and the generic map encoder read every value at the right address. Statements only.
-/
namespace Enc.Props.C01Inlined
open Enc.Model.Json.Inlined Enc.Spec.Json.DirectIface

/-- MAIN: for every type shape (arbitrary nesting of structs and arrays) the recursion of json/codec.go `inlined` answers
what cmd/compile's `IsDirectIface` / reflect's `!IfaceIndir()` answers -/
theorem inlined_eq (t : Ty) : inlined t = isDirectIface t := Lemmas.JsonInlined.inlined_eq t

/-- NEGATIVE WITNESS: the rule before repair 2834bcc (channels, functions, unsafe.Pointer missing) on `struct{ C chan T }` -/
theorem noChan_wrong : NoChan.inlined (.struct (.cons .chan .nil)) = false ∧
    isDirectIface (.struct (.cons .chan .nil)) = true := by decide

/-- non-vacuity: [1]struct{ F struct{ M map… } } is direct; a second (zero-size) field or a second element makes it indirect -/
example : inlined (.array 1 (.struct (.cons (.struct (.cons .map .nil)) .nil))) = true ∧
    inlined (.struct (.cons (.struct .nil) (.cons .ptr .nil))) = false ∧ inlined (.array 2 .ptr) = false ∧
    inlined (.array 0 .ptr) = false := by decide

end Enc.Props.C01Inlined
