import Enc.Lemmas.JsonValid
/-!
# C05 — json.Valid and every syntax-only path accept exactly RFC 8259 JSON
Property theorems only (lemmas: Enc/Lemmas/Json*.lean).
-/
namespace Enc.Props.C05
open Enc Enc.Model.Json

/-- **Main theorem.** For EVERY byte string, the model of `json.Valid` (skipSpaces, whole-input flags, the recursive
descent with its word-at-a-time quote search and flag-guarded early return, trailing white space) accepts exactly the
RFC 8259 language defined by the independent recogniser `Spec.Json.validRFC` — no bound on length or nesting. -/
theorem valid_eq_RFC8259 (b : Bytes) : valid b = Spec.Json.validRFC b :=
  Lemmas.JsonValid.valid_eq_validRFC b

/-- … and hence what `encoding/json.Valid` accepts, for every input no deeper than the standard library's nesting limit
(stated with the sufficient condition `length ≤ 10000`). -/
theorem valid_eq_std_partial (b : Bytes) (hb : b.length ≤ 10000) : valid b = Spec.Json.validStd b :=
  Lemmas.JsonValid.valid_eq_validStd b hb

/- The full statement "Valid = encoding/json.Valid for every byte string" is FALSE on the unchanged tree (known finding
json-no-depth-limit): the two specifications differ beyond 10000 levels and the code follows `validRFC`
(`#eval` on 10001 nested brackets: valid = validRFC = true, validStd = false; the harness replays that witness on the
real code and on encoding/json in every run: op json.validdepth 10001). -/

/-- the word-at-a-time search finds the FIRST closing-quote candidate exactly like a byte-wise scan -/
theorem findQuote_is_indexByte (b : Bytes) : findQuote b = (indexByte (b.drop 1) 0x22).map (· + 2) :=
  Lemmas.JsonScan.findQuote_spec b

/-- every recursive-descent entry used by the syntax-only consumers (RawMessage, MarshalJSON output, skipped values,
Decoder framing) recognises exactly a grammar `value`, for any flags that are sound for the input and enough fuel -/
theorem parseValue_is_grammar (fl : PFlags) (f f' d : Nat) (b : Bytes)
    (hf : 3 * b.length ≤ f) (hf' : 2 * b.length ≤ f') (hd : b.length ≤ d) (hq : Lemmas.JsonString.QSound fl b) :
    Lemmas.JsonString.toOpt (parseValue fl f b) = Spec.Json.value f' d b :=
  Lemmas.JsonValue.parseValue_toOpt fl f f' d b hf hf' hd hq

/-- `skipSpaces` (with its `b[0] <= 0x20` shortcut) removes exactly RFC 8259 white space -/
theorem skipSpaces_eq_ws (b : Bytes) : skipSpaces b = Spec.Json.ws b := Lemmas.JsonWs.skipSpaces_eq_ws b

/-- non-vacuity -/
example : valid [0x5b, 0x31, 0x2c, 0x22, 0x61, 0x22, 0x5d] = true := by decide +kernel
example : valid [0x5b, 0x31, 0x20, 0x32, 0x5d] = false := by decide +kernel

end Enc.Props.C05
