import Enc.Lemmas.JsonValid
/-!
# C05 — json.Valid and every syntax-only path accept exactly RFC 8259 JSON nested at most 10000 deep (= encoding/json)
Property theorems only (lemmas: Enc/Lemmas/Json*.lean).
-/
namespace Enc.Props.C05
open Enc Enc.Model.Json

/-- **Main theorem.** For EVERY byte string, the model of `json.Valid` (skipSpaces, whole-input flags, the recursive
descent with its word-at-a-time quote search, flag-guarded early return and nesting counter, trailing white space)
accepts exactly what `encoding/json.Valid` accepts: the RFC 8259 language with nesting depth at most 10000, as defined
by the independent recogniser `Spec.Json.validStd` — no bound on length or nesting. -/
theorem valid_eq_std (b : Bytes) : valid b = Spec.Json.validStd b :=
  Lemmas.JsonValid.valid_eq_validStd b

/-- … and hence exactly the unlimited RFC 8259 language `Spec.Json.validRFC` wherever the nesting limit cannot be hit
(stated with the sufficient condition `length ≤ 10000`: 10001 levels need more than 10000 bytes). Beyond the limit the
two languages differ and `Valid` follows `encoding/json` (see `deep_rejected` below). -/
theorem valid_eq_RFC8259_of_short (b : Bytes) (hb : b.length ≤ 10000) : valid b = Spec.Json.validRFC b :=
  Lemmas.JsonValid.valid_eq_validRFC_of_short b hb

/-- the word-at-a-time search finds the FIRST closing-quote candidate exactly like a byte-wise scan -/
theorem findQuote_is_indexByte (b : Bytes) : findQuote b = (indexByte (b.drop 1) 0x22).map (· + 2) :=
  Lemmas.JsonScan.findQuote_spec b

/-- every recursive-descent entry used by the syntax-only consumers (RawMessage, MarshalJSON output, skipped values,
Decoder framing) recognises exactly a grammar `value` within the remaining nesting budget `10000 - depth`, for any flags
that are sound for the input, enough fuel, and any nesting depth `depth ≤ 10000` already entered -/
theorem parseValue_is_grammar (fl : PFlags) (depth f f' : Nat) (b : Bytes)
    (hd : depth ≤ Gen.c_json_maxNestingDepth) (hf : 3 * b.length ≤ f) (hf' : 2 * b.length ≤ f')
    (hq : Lemmas.JsonString.QSound fl b) :
    Lemmas.JsonString.toOpt (parseValue fl depth f b) = Spec.Json.value f' (Gen.c_json_maxNestingDepth - depth) b :=
  Lemmas.JsonValue.parseValue_toOpt fl depth f f' b hd hf hf' hq

/-- `skipSpaces` (with its `b[0] <= 0x20` shortcut) removes exactly RFC 8259 white space -/
theorem skipSpaces_eq_ws (b : Bytes) : skipSpaces b = Spec.Json.ws b := Lemmas.JsonWs.skipSpaces_eq_ws b

/-- non-vacuity -/
example : valid [0x5b, 0x31, 0x2c, 0x22, 0x61, 0x22, 0x5d] = true := by decide +kernel
example : valid [0x5b, 0x31, 0x20, 0x32, 0x5d] = false := by decide +kernel

/-- the nesting limit is real and sharp: a document that starts with 10001 opening brackets is rejected whatever
follows (in particular 10001 properly nested arrays, which RFC 8259 allows) … -/
theorem deep_rejected (t : Bytes) : valid (List.replicate 10001 0x5b ++ t) = false :=
  Lemmas.JsonValid.valid_too_deep t

/-- … while 10000 nested arrays are accepted -/
theorem max_depth_accepted : valid (List.replicate 10000 0x5b ++ List.replicate 10000 0x5d) = true :=
  Lemmas.JsonValid.valid_max_depth

end Enc.Props.C05
