import Enc.Lemmas.Proto
import Enc.Spec.Protobuf
import Enc.Lemmas.ProtoVarint
/-!
# C12 — proto bytes are standard protobuf wire format, both ways
Property theorems only.
-/
namespace Enc.Props.C12
open Enc Enc.Model.Proto

/-- sint32/sint64: the zig-zag transform is a bijection (so a reference decoder recovers the value) -/
theorem zigzag_decode_encode (v : BitVec 64) : decodeZigZag64 (encodeZigZag64 v) = v :=
  Lemmas.Proto.zigzag_roundtrip v

/-- wire-type numbers (regenerated from /repo/proto/proto.go) are the protobuf ones: VARINT 0, I64 1, LEN 2, I32 5 -/
theorem wire_numbers : Wire.varint.num = 0 ∧ Wire.fixed64.num = 1 ∧ Wire.varlen.num = 2 ∧ Wire.fixed32.num = 5 := by
  decide

/-- a tag is `field_number << 3 | wire_type` -/
theorem tag_layout (n : Nat) (w : Wire) (h : n < 2 ^ 29) :
    (tagWord n w).toNat = n * 8 + w.num ∧ (tagWord n w).toNat / 8 = n ∧ (tagWord n w).toNat % 8 = w.num := by
  have hw : w.num < 8 := by cases w <;> decide
  have : n * 8 + w.num < 2 ^ 64 := by omega
  simp only [tagWord, BitVec.toNat_ofNat, Nat.mod_eq_of_lt this]
  refine ⟨trivial, ?_, ?_⟩ <;> omega

/-- every varint the encoder writes (tags, lengths, values) is the canonical base-128 varint of the specification -/
theorem varint_is_leb128 (v : BitVec 64) : encodeVarint v = Spec.Protobuf.leb128 v.toNat :=
  Lemmas.ProtoVarint.encodeVarint_eq_leb128 v

/-- sint32/sint64 fields: the zig-zag image written is the specification's, for every int64 -/
theorem zigzag_is_spec (i : Int) (h1 : -(2:Int)^63 ≤ i) (h2 : i < (2:Int)^63) :
    (encodeZigZag64 (BitVec.ofInt 64 i)).toNat = Spec.Protobuf.zigzag i :=
  Lemmas.ProtoVarint.zigzag_spec i h1 h2

/-- the decoder reads back every varint the encoder writes, whatever follows it -/
theorem varint_roundtrip (v : BitVec 64) (rest : Bytes) :
    decodeVarint (encodeVarint v ++ rest) = .ok (v, sizeOfVarint v) :=
  Lemmas.ProtoVarint.decode_encode_varint v rest

end Enc.Props.C12
