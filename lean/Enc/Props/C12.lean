import Enc.Lemmas.Proto
import Enc.Spec.Protobuf
/-!
# C12 — proto bytes are standard protobuf wire format, both ways
Property theorems only.
-/
namespace Enc.Props.C12
open Enc Enc.Model.Proto

/-- sint32/sint64: the zig-zag transform is a bijection (so a reference decoder recovers the value) -/
theorem zigzag_decode_encode (v : BitVec 64) : decodeZigZag64 (encodeZigZag64 v) = v :=
  Lemmas.Proto.zigzag_roundtrip v

/-- wire-type numbers (regenerated from /repo/proto/proto.go) are the protobuf ones: VARINT 0, I64 1, LEN 2, I32 5 -/
theorem wire_numbers : Wire.varint.num = 0 ∧ Wire.fixed64.num = 1 ∧ Wire.varlen.num = 2 ∧ Wire.fixed32.num = 5 := by
  decide

/-- a tag is `field_number << 3 | wire_type` -/
theorem tag_layout (n : Nat) (w : Wire) (h : n < 2 ^ 29) :
    (tagWord n w).toNat = n * 8 + w.num ∧ (tagWord n w).toNat / 8 = n ∧ (tagWord n w).toNat % 8 = w.num := by
  have hw : w.num < 8 := by cases w <;> decide
  have : n * 8 + w.num < 2 ^ 64 := by omega
  simp only [tagWord, BitVec.toNat_ofNat, Nat.mod_eq_of_lt this]
  refine ⟨trivial, ?_, ?_⟩ <;> omega

end Enc.Props.C12
