import Enc.Lemmas.Proto
import Enc.Spec.Protobuf
import Enc.Lemmas.ProtoVarint
import Enc.Lemmas.ProtoWireVal
import Enc.Lemmas.ProtoLiberal
import Enc.Lemmas.ProtoMap
import Enc.Lemmas.ProtoLiberalMap
import Enc.Lemmas.ProtoDepth
import Enc.Lemmas.ProtoNamedMain
import Enc.Lemmas.ProtoArray
import Enc.Lemmas.ProtoPtrsMain
import Enc.Lemmas.ProtoMsgRoundTrip
/-!
# C12 — proto bytes are standard protobuf wire format, both ways
Property theorems only.
-/
namespace Enc.Props.C12
open Enc Enc.Model.Proto

/-- sint32/sint64: the zig-zag transform is a bijection (so a reference decoder recovers the value) -/
theorem zigzag_decode_encode (v : BitVec 64) : decodeZigZag64 (encodeZigZag64 v) = v :=
  Lemmas.Proto.zigzag_roundtrip v

/-- wire-type numbers (regenerated from /repo/proto/proto.go) are the protobuf ones: VARINT 0, I64 1, LEN 2, I32 5 -/
theorem wire_numbers : Wire.varint.num = 0 ∧ Wire.fixed64.num = 1 ∧ Wire.varlen.num = 2 ∧ Wire.fixed32.num = 5 := by
  decide

/-- a tag is `field_number << 3 | wire_type` -/
theorem tag_layout (n : Nat) (w : Wire) (h : n < 2 ^ 29) :
    (tagWord n w).toNat = n * 8 + w.num ∧ (tagWord n w).toNat / 8 = n ∧ (tagWord n w).toNat % 8 = w.num := by
  have hw : w.num < 8 := by cases w <;> decide
  have : n * 8 + w.num < 2 ^ 64 := by omega
  simp only [tagWord, BitVec.toNat_ofNat, Nat.mod_eq_of_lt this]
  refine ⟨trivial, ?_, ?_⟩ <;> omega

/-- every varint the encoder writes (tags, lengths, values) is the canonical base-128 varint of the specification -/
theorem varint_is_leb128 (v : BitVec 64) : encodeVarint v = Spec.Protobuf.leb128 v.toNat :=
  Lemmas.ProtoVarint.encodeVarint_eq_leb128 v

/-- sint32/sint64 fields: the zig-zag image written is the specification's, for every int64 -/
theorem zigzag_is_spec (i : Int) (h1 : -(2:Int)^63 ≤ i) (h2 : i < (2:Int)^63) :
    (encodeZigZag64 (BitVec.ofInt 64 i)).toNat = Spec.Protobuf.zigzag i :=
  Lemmas.ProtoVarint.zigzag_spec i h1 h2

/-- the decoder reads back every varint the encoder writes, whatever follows it -/
theorem varint_roundtrip (v : BitVec 64) (rest : Bytes) :
    decodeVarint (encodeVarint v ++ rest) = .ok (v, sizeOfVarint v) :=
  Lemmas.ProtoVarint.decode_encode_varint v rest

/-! ## the reference decoder reads what Marshal writes (proofs in Enc/Lemmas/ProtoWire*.lean, 2.6 k lines)

Universe `tyOK`: messages whose fields are bool, all integer kinds (plain, zigzag32/64, fixed32/64 on uint32/uint64, sfixed32/64 on int32/int64),
float32/64, string, []byte, byte arrays `[N]byte` (one LEN record of N bytes; the all-zero array is the default and is
elided), nested messages, pointers to those scalars, to byte arrays and to messages, and repeated fields of
scalars, []byte, byte arrays and messages; field numbers 1…65535, pairwise distinct. `hasType`: value shapes and ranges.
`tagAgree` (model and specification read the struct tag alike) is proved for untagged fields (`tagAgree_empty`) and is
a decidable hypothesis for tagged ones. Maps: `tyOKM` below; defined (named) types: `tyOK2`/`tyOKM2`; repeated pointers `[]*T`
and pointer chains `**T`: `tyOK3`/`tyOKM3` at the end.
Outside the universe: `*[]T` and the shapes of the known findings; user-defined types (RawMessage, Message / custom
implementers): `tyOK4`/`tyOKM4` at the end. -/

open Lemmas.ProtoWire in
/-- **MAIN (bytes).** What `Marshal` writes for a message is exactly the concatenation of the reference encodings of its
records: non-repeated fields in declaration order, then one record per element of each repeated field. -/
theorem struct_bytes (fs : Fields) (vs : Vals) (fl : Flags)
    (hty : tyOK (.struct fs) = true) (hv : hasTypes fs vs = true) (hz : fl.zigzag = false)
    (hlen : (encode (.struct (fieldsOf 1 fs)) (.struct vs) fl).length < 2 ^ 64) :
    encode (.struct (fieldsOf 1 fs)) (.struct vs) fl = encRecs (allRecords fl.wantzero fs vs) :=
  Lemmas.ProtoWire.struct_bytes fs vs fl hty hv hz hlen

open Lemmas.ProtoWire in
/-- **MAIN (reference decodes to the same values), scalar messages**: literal equality -/
theorem reference_decodes_marshal (fs : Fields) (v : Val)
    (hty : tyOK (.struct fs) = true) (hpl : plainTy (.struct fs) = true)
    (hv : hasType (.struct fs) v = true) (hlen : (marshal (.struct fs) v).length < 2 ^ 64) :
    Spec.Protobuf.decode (.struct fs) (marshal (.struct fs) v) = some v :=
  Lemmas.ProtoWire.decode_marshal_scalar fs v hty hpl hv hlen

open Lemmas.ProtoWire in
/-- … and with optional (`*T`) and repeated (`[]T`) fields, up to the canonical form (nil ≡ empty); `noEmptyPtr`
excludes exactly the known finding "a pointer whose pointee encodes to zero bytes comes back nil" -/
theorem reference_decodes_marshal_partial (fs : Fields) (v : Val)
    (hty : tyOK (.struct fs) = true) (hv : hasType (.struct fs) v = true)
    (hne : noEmptyPtr (.struct fs) v = true) (hlen : (marshal (.struct fs) v).length < 2 ^ 64) :
    (Spec.Protobuf.decode (.struct fs) (marshal (.struct fs) v)).map (Spec.Protobuf.canonical (.struct fs))
      = some (Spec.Protobuf.canonical (.struct fs) v) :=
  Lemmas.ProtoWire.decode_marshal_partial fs v hty hv hne hlen

/-! ## … and conversely: every encoding the reference accepts (proofs in Enc/Lemmas/ProtoLiberal*.lean, 2.2 k lines)

Since commit b70a382 `Unmarshal` refuses messages nested more than `proto.maxDepth` = 10000 deep, which the reference
decoder (like the wire format) does not. Inputs decoded against a finite message type cannot nest deeper than the type, so
the theorems carry the decidable hypothesis `hdep` on the TYPE (at most 10000 messages high, `Codec.nesting`; see
`Props.C07.limit_invisible_below`, and `Props.C07.limit_only_adds_an_error` for what happens without it) and stay
statements about EVERY byte string. -/

open Lemmas.ProtoWire in
/-- **MAIN (both ways, second half).** For every message type of the universe and EVERY byte string the reference
decoder accepts — fields in any order, non-minimal varints in tags, lengths and values, a later occurrence of a scalar
overriding an earlier one, repeated fields accumulating, embedded messages split into several occurrences and merged,
unknown fields — `Unmarshal` returns literally the same value. -/
theorem unmarshal_of_reference_decode (fs : Fields) (hty : tyOK (.struct fs) = true) (b : Bytes) (v : Val)
    (hdep : Codec.nesting (codecOf (.struct fs)) ≤ Gen.c_proto_maxDepth)
    (h : Spec.Protobuf.decode (.struct fs) b = some v) : unmarshal (.struct fs) b = .ok v := by
  rw [Lemmas.ProtoDepth.unmarshal_eq_unmarshalU _ _ hdep]
  exact Lemmas.ProtoLiberal.unmarshal_of_decode fs hty b v h

open Lemmas.ProtoWire Lemmas.ProtoLiberal in
/-- exact characterisation of where the two decoders differ: only on inputs containing a record with field number 0
(which the Go decoder skips as an unknown field and protobuf forbids); everywhere else they accept the same inputs
with the same values and reject the same inputs. `hna` (new with byte arrays in `tyOK`; it holds for every type of the
former universe): no `[N]byte` in the type — `Unmarshal` accepts a chunk LONGER than N and keeps its first N bytes, the
reference accepts exactly N bytes (`Lemmas.ProtoArray.long_array_differs`: `0a 03 01 02 03` on `struct{H [2]byte}`). The
other direction, `unmarshal_of_reference_decode`, needs no such hypothesis. -/
theorem unmarshal_iff_reference_decode (fs : Fields) (hty : tyOK (.struct fs) = true)
    (hna : noArr (.struct fs) = true) (b : Bytes) (v : Val)
    (hdep : Codec.nesting (codecOf (.struct fs)) ≤ Gen.c_proto_maxDepth)
    (hz : ¬ ZeroNum fs b) : unmarshal (.struct fs) b = .ok v ↔ Spec.Protobuf.decode (.struct fs) b = some v := by
  rw [Lemmas.ProtoDepth.unmarshal_eq_unmarshalU _ _ hdep]
  exact Lemmas.ProtoLiberal.unmarshal_iff_decode fs hty hna b v hz

/-! ## map fields (proofs in Enc/Lemmas/ProtoMap*.lean): universe `tyOKM` = `tyOK` + `map[K]V` fields -/

open Lemmas.ProtoWire Lemmas.ProtoMap in
/-- **bytes, with maps.** A map field is written as one length-delimited record per entry, each holding the key as
field 1 and the value as field 2 (`allRecordsM`), which is the protobuf wire format of `map<K,V>`. -/
theorem struct_bytes_maps (fs : Fields) (vs : Vals) (fl : Flags)
    (hty : tyOKM (.struct fs) = true) (hv : hasTypesM fs vs = true) (hz : fl.zigzag = false)
    (hlen : (encode (.struct (fieldsOf 1 fs)) (.struct vs) fl).length < 2 ^ 64) :
    encode (.struct (fieldsOf 1 fs)) (.struct vs) fl = encRecs (allRecordsM fl.wantzero fs vs) :=
  Lemmas.ProtoMap.struct_bytesM fs vs fl hty hv hz hlen

open Lemmas.ProtoWire Lemmas.ProtoMap in
/-- **reference decodes what Marshal writes, with maps**, up to the canonical form; `valOKM` excludes the known
findings (pointer to empty encoding, empty-map marker) and asks for distinct keys -/
theorem reference_decodes_marshal_maps_partial (fs : Fields) (v : Val)
    (hty : tyOKM (.struct fs) = true) (hv : hasTypeM (.struct fs) v = true) (hne : valOKM (.struct fs) v = true)
    (hlen : (marshal (.struct fs) v).length < 2 ^ 64) :
    (Spec.Protobuf.decode (.struct fs) (marshal (.struct fs) v)).map (Spec.Protobuf.canonical (.struct fs))
      = some (Spec.Protobuf.canonical (.struct fs) v) :=
  Lemmas.ProtoMap.decode_marshal_map_partial fs v hty hv hne hlen

open Lemmas.ProtoWire Lemmas.ProtoMap Lemmas.ProtoLiberalMap in
/-- **both ways, second half, with maps.** For every message type of `tyOKM` and EVERY byte string the reference decoder
accepts — map entries with key and value in any order, missing or repeated, unknown fields inside an entry, message
values split in several occurrences, duplicate keys (first position kept, last value wins), non-minimal varints —
`Unmarshal` returns literally the same value, provided the input has no ZERO-LENGTH map entry at any depth
(`noEmptyEntry`). The exclusion is necessary: `Lemmas.ProtoLiberalMap.Findings.empty_entry_differs` (`0a 00` on
`map[string]int32`: the reference reads `{"": 0}`, this decoder reads the library's own empty-map marker) — the decode
side of the known finding proto-empty-map-marker. -/
theorem unmarshal_of_reference_decode_maps_partial (fs : Fields) (hty : tyOKM (.struct fs) = true) (b : Bytes) (v : Val)
    (hne : noEmptyEntry (.struct fs) b = true) (hdep : Codec.nesting (codecOf (.struct fs)) ≤ Gen.c_proto_maxDepth)
    (h : Spec.Protobuf.decode (.struct fs) b = some v) : unmarshal (.struct fs) b = .ok v := by
  rw [Lemmas.ProtoDepth.unmarshal_eq_unmarshalU _ _ hdep]
  exact Lemmas.ProtoLiberalMap.unmarshal_of_decode_map_partial fs hty b v hne h

open Lemmas.ProtoWire Lemmas.ProtoMap Lemmas.ProtoLiberalMap in
/-- … and without any exclusion: everything the reference accepts, `Unmarshal` accepts, with a value of the same
message / pointer skeleton (`sh`) -/
theorem unmarshal_accepts_reference_decode_maps (fs : Fields) (hty : tyOKM (.struct fs) = true) (b : Bytes) (v : Val)
    (hdep : Codec.nesting (codecOf (.struct fs)) ≤ Gen.c_proto_maxDepth)
    (h : Spec.Protobuf.decode (.struct fs) b = some v) :
    ∃ v', unmarshal (.struct fs) b = .ok v' ∧ sh v v' = true := by
  rw [Lemmas.ProtoDepth.unmarshal_eq_unmarshalU _ _ hdep]
  exact Lemmas.ProtoLiberalMap.unmarshal_accepts_of_decode_map fs hty b v h

open Lemmas.ProtoMap in
/-- `hdep` is satisfiable (together with the other hypotheses: the example message type with map fields of C03) -/
example : Codec.nesting (codecOf (.struct Lemmas.ProtoMap.Findings.exMFields)) ≤ Gen.c_proto_maxDepth := by
  have : codecOf (.struct Lemmas.ProtoMap.Findings.exMFields) = .struct (fieldsOf 1 Lemmas.ProtoMap.Findings.exMFields) := by
    simp [codecOf]
  rw [this, Lemmas.ProtoMap.Findings.exM_codec]; decide

/-! ## message types that use defined ("named") Go types (proofs in Enc/Lemmas/ProtoNamed*.lean)

Universes `tyOK2 ⊇ tyOK`, `tyOKM2 ⊇ tyOKM`: see Props/C03. The record lists are those of the erased type:
`allRecords2 wz fs vs = allRecords wz (eraseFields fs) vs`. -/

open Lemmas.ProtoWire Lemmas.ProtoNamed in
/-- bytes -/
theorem struct_bytes_named (fs : Fields) (vs : Vals) (fl : Flags)
    (hty : tyOK2 (.struct fs) = true) (hv : hasTypes2 fs vs = true) (hz : fl.zigzag = false)
    (hlen : (encode (.struct (fieldsOf 1 fs)) (.struct vs) fl).length < 2 ^ 64) :
    encode (.struct (fieldsOf 1 fs)) (.struct vs) fl = encRecs (allRecords2 fl.wantzero fs vs) :=
  Lemmas.ProtoNamed.struct_bytes_named fs vs fl hty hv hz hlen

open Lemmas.ProtoWire Lemmas.ProtoNamed in
/-- bytes, with maps -/
theorem struct_bytes_maps_named (fs : Fields) (vs : Vals) (fl : Flags)
    (hty : tyOKM2 (.struct fs) = true) (hv : hasTypesM2 fs vs = true) (hz : fl.zigzag = false)
    (hlen : (encode (.struct (fieldsOf 1 fs)) (.struct vs) fl).length < 2 ^ 64) :
    encode (.struct (fieldsOf 1 fs)) (.struct vs) fl = encRecs (allRecordsM2 fl.wantzero fs vs) :=
  Lemmas.ProtoNamed.struct_bytes_maps_named fs vs fl hty hv hz hlen

open Lemmas.ProtoNamed in
/-- the reference decodes to the same values, scalar messages: literal equality -/
theorem reference_decodes_marshal_named (fs : Fields) (v : Val)
    (hty : tyOK2 (.struct fs) = true) (hpl : plainTy2 (.struct fs) = true)
    (hv : hasType2 (.struct fs) v = true) (hlen : (marshal (.struct fs) v).length < 2 ^ 64) :
    Spec.Protobuf.decode (.struct fs) (marshal (.struct fs) v) = some v :=
  Lemmas.ProtoNamed.reference_decodes_marshal_named fs v hty hpl hv hlen

open Lemmas.ProtoNamed in
/-- … with optional and repeated fields -/
theorem reference_decodes_marshal_partial_named (fs : Fields) (v : Val)
    (hty : tyOK2 (.struct fs) = true) (hv : hasType2 (.struct fs) v = true)
    (hne : noEmptyPtr2 (.struct fs) v = true) (hlen : (marshal (.struct fs) v).length < 2 ^ 64) :
    (Spec.Protobuf.decode (.struct fs) (marshal (.struct fs) v)).map (Spec.Protobuf.canonical (.struct fs))
      = some (Spec.Protobuf.canonical (.struct fs) v) :=
  Lemmas.ProtoNamed.reference_decodes_marshal_partial_named fs v hty hv hne hlen

open Lemmas.ProtoNamed in
/-- … and with maps -/
theorem reference_decodes_marshal_maps_partial_named (fs : Fields) (v : Val)
    (hty : tyOKM2 (.struct fs) = true) (hv : hasTypeM2 (.struct fs) v = true) (hne : valOKM2 (.struct fs) v = true)
    (hlen : (marshal (.struct fs) v).length < 2 ^ 64) :
    (Spec.Protobuf.decode (.struct fs) (marshal (.struct fs) v)).map (Spec.Protobuf.canonical (.struct fs))
      = some (Spec.Protobuf.canonical (.struct fs) v) :=
  Lemmas.ProtoNamed.reference_decodes_marshal_maps_partial_named fs v hty hv hne hlen

open Lemmas.ProtoNamed in
/-- both ways, second half: every byte string the reference accepts -/
theorem unmarshal_of_reference_decode_named (fs : Fields) (hty : tyOK2 (.struct fs) = true) (b : Bytes) (v : Val)
    (hdep : Codec.nesting (codecOf (.struct fs)) ≤ Gen.c_proto_maxDepth)
    (h : Spec.Protobuf.decode (.struct fs) b = some v) : unmarshal (.struct fs) b = .ok v :=
  Lemmas.ProtoNamed.unmarshal_of_reference_decode_named fs hty b v hdep h

open Lemmas.ProtoLiberal Lemmas.ProtoNamed in
/-- … and the exact characterisation of the difference -/
theorem unmarshal_iff_reference_decode_named (fs : Fields) (hty : tyOK2 (.struct fs) = true)
    (hna : noArr2 (.struct fs) = true) (b : Bytes) (v : Val)
    (hdep : Codec.nesting (codecOf (.struct fs)) ≤ Gen.c_proto_maxDepth)
    (hz : ¬ ZeroNum (eraseFields fs) b) :
    unmarshal (.struct fs) b = .ok v ↔ Spec.Protobuf.decode (.struct fs) b = some v :=
  Lemmas.ProtoNamed.unmarshal_iff_reference_decode_named fs hty hna b v hdep hz

open Lemmas.ProtoNamed in
/-- … with maps -/
theorem unmarshal_of_reference_decode_maps_partial_named (fs : Fields) (hty : tyOKM2 (.struct fs) = true) (b : Bytes)
    (v : Val) (hne : noEmptyEntry2 (.struct fs) b = true)
    (hdep : Codec.nesting (codecOf (.struct fs)) ≤ Gen.c_proto_maxDepth)
    (h : Spec.Protobuf.decode (.struct fs) b = some v) : unmarshal (.struct fs) b = .ok v :=
  Lemmas.ProtoNamed.unmarshal_of_reference_decode_maps_partial_named fs hty b v hne hdep h

open Lemmas.ProtoLiberalMap Lemmas.ProtoNamed in
theorem unmarshal_accepts_reference_decode_maps_named (fs : Fields) (hty : tyOKM2 (.struct fs) = true) (b : Bytes)
    (v : Val) (hdep : Codec.nesting (codecOf (.struct fs)) ≤ Gen.c_proto_maxDepth)
    (h : Spec.Protobuf.decode (.struct fs) b = some v) :
    ∃ v', unmarshal (.struct fs) b = .ok v' ∧ sh v v' = true :=
  Lemmas.ProtoNamed.unmarshal_accepts_reference_decode_maps_named fs hty b v hdep h

open Lemmas.ProtoNamed in
/-- non-vacuity: the example type of C03 built from defined types -/
example : tyOKM2 (.struct exNFields) = true
    ∧ Codec.nesting (codecOf (.struct exNFields)) ≤ Gen.c_proto_maxDepth := ⟨exN_hyps.1, exN_hyps.2.2.2.2⟩

/-! ## byte arrays: non-vacuity of the theorems above on types with `[N]byte` fields, and the witness for `hna` -/

open Lemmas.ProtoWire Lemmas.ProtoArray in
example : tyOK (.struct exPlain) = true ∧ hasTypes exPlain exPlainV = true :=
  ⟨exPlain_ty, by simpa [hasType] using exPlain_val⟩

open Lemmas.ProtoWire Lemmas.ProtoArray in
/-- `unmarshal_of_reference_decode` on `struct{H [2]byte}` and the input `0a 82 00 01 02` (non-minimal length) -/
example : unmarshal (.struct arr2) [0x0a, 0x82, 0x00, 1, 2] = .ok (.struct (.cons (.str [1, 2]) .nil)) :=
  unmarshal_of_reference_decode arr2 arr2_ty _ _ (by rw [arr2_codec]; decide) arr2_exact_ref

open Lemmas.ProtoWire Lemmas.ProtoLiberal Lemmas.ProtoArray in
/-- without `hna` the equivalence is FALSE: `Unmarshal` accepts `0a 03 01 02 03` for `struct{H [2]byte}` (keeping `01 02`),
the reference does not, and the input contains no record with field number 0 -/
theorem iff_needs_noArr :
    ¬ ∀ (fs : Fields), tyOK (.struct fs) = true → Codec.nesting (codecOf (.struct fs)) ≤ Gen.c_proto_maxDepth →
      ∀ (b : Bytes) (v : Val), ¬ ZeroNum fs b →
        (unmarshal (.struct fs) b = .ok v ↔ Spec.Protobuf.decode (.struct fs) b = some v) := by
  intro h
  have hdep : Codec.nesting (codecOf (.struct arr2)) ≤ Gen.c_proto_maxDepth := by rw [arr2_codec]; decide
  have := (h arr2 arr2_ty hdep _ _ (long_not_zeroNum _ rfl)).mp
    (by rw [Lemmas.ProtoDepth.unmarshal_eq_unmarshalU _ _ hdep]; exact long_model)
  rw [long_ref] at this
  cases this

/-! ## repeated pointers `[]*T` and pointer chains `**T` (proofs in Enc/Lemmas/ProtoPtrs*.lean)

Universes `tyOK3 ⊇ tyOK2`, `tyOKM3 ⊇ tyOKM2`: see Props/C03. The record lists are those of the reduced type on the reduced
value (`allRecords3 wz fs vs = allRecords wz (rfields fs) (rvals fs vs)`: a `[]*T` denotes one record per pointee, a `**T` the
record of its pointee), `ptrsOK3` excludes nil elements and chains ending in nil. In the liberal direction there is nothing to
exclude: whatever the reference decoder accepts for a `[]*T` / `**T` field (it wraps what it reads in the pointers of the
type), `Unmarshal` returns the same value. -/

open Lemmas.ProtoWire Lemmas.ProtoPtrs in
/-- bytes -/
theorem struct_bytes_ptrs (fs : Fields) (vs : Vals) (fl : Flags)
    (hty : tyOK3 (.struct fs) = true) (hp : ptrsOKs3 fs vs = true) (hv : hasTypes3 fs vs = true)
    (hz : fl.zigzag = false) (hlen : (encode (.struct (fieldsOf 1 fs)) (.struct vs) fl).length < 2 ^ 64) :
    encode (.struct (fieldsOf 1 fs)) (.struct vs) fl = encRecs (allRecords3 fl.wantzero fs vs) :=
  Lemmas.ProtoPtrs.struct_bytes_ptrs fs vs fl hty hp hv hz hlen

open Lemmas.ProtoWire Lemmas.ProtoPtrs in
/-- bytes, with maps -/
theorem struct_bytes_maps_ptrs (fs : Fields) (vs : Vals) (fl : Flags)
    (hty : tyOKM3 (.struct fs) = true) (hp : ptrsOKs3 fs vs = true) (hv : hasTypesM3 fs vs = true)
    (hz : fl.zigzag = false) (hlen : (encode (.struct (fieldsOf 1 fs)) (.struct vs) fl).length < 2 ^ 64) :
    encode (.struct (fieldsOf 1 fs)) (.struct vs) fl = encRecs (allRecordsM3 fl.wantzero fs vs) :=
  Lemmas.ProtoPtrs.struct_bytes_maps_ptrs fs vs fl hty hp hv hz hlen

open Lemmas.ProtoPtrs in
/-- the reference decodes to the same values (up to the canonical form) -/
theorem reference_decodes_marshal_partial_ptrs (fs : Fields) (v : Val)
    (hty : tyOK3 (.struct fs) = true) (hp : ptrsOK3 (.struct fs) v = true) (hv : hasType3 (.struct fs) v = true)
    (hne : noEmptyPtr3 (.struct fs) v = true) (hlen : (marshal (.struct fs) v).length < 2 ^ 64) :
    (Spec.Protobuf.decode (.struct fs) (marshal (.struct fs) v)).map (Spec.Protobuf.canonical (.struct fs))
      = some (Spec.Protobuf.canonical (.struct fs) v) :=
  Lemmas.ProtoPtrs.reference_decodes_marshal_partial_ptrs fs v hty hp hv hne hlen

open Lemmas.ProtoPtrs in
/-- … and with maps -/
theorem reference_decodes_marshal_maps_partial_ptrs (fs : Fields) (v : Val)
    (hty : tyOKM3 (.struct fs) = true) (hp : ptrsOK3 (.struct fs) v = true) (hv : hasTypeM3 (.struct fs) v = true)
    (hne : valOKM3 (.struct fs) v = true) (hlen : (marshal (.struct fs) v).length < 2 ^ 64) :
    (Spec.Protobuf.decode (.struct fs) (marshal (.struct fs) v)).map (Spec.Protobuf.canonical (.struct fs))
      = some (Spec.Protobuf.canonical (.struct fs) v) :=
  Lemmas.ProtoPtrs.reference_decodes_marshal_maps_partial_ptrs fs v hty hp hv hne hlen

open Lemmas.ProtoPtrs in
/-- both ways, second half: every byte string the reference accepts -/
theorem unmarshal_of_reference_decode_ptrs (fs : Fields) (hty : tyOK3 (.struct fs) = true) (b : Bytes) (v : Val)
    (hdep : Codec.nesting (codecOf (.struct fs)) ≤ Gen.c_proto_maxDepth)
    (h : Spec.Protobuf.decode (.struct fs) b = some v) : unmarshal (.struct fs) b = .ok v :=
  Lemmas.ProtoPtrs.unmarshal_of_reference_decode_ptrs fs hty b v hdep h

open Lemmas.ProtoLiberal Lemmas.ProtoPtrs in
/-- … and the exact characterisation of the difference -/
theorem unmarshal_iff_reference_decode_ptrs (fs : Fields) (hty : tyOK3 (.struct fs) = true)
    (hna : noArr3 (.struct fs) = true) (b : Bytes) (v : Val)
    (hdep : Codec.nesting (codecOf (.struct fs)) ≤ Gen.c_proto_maxDepth)
    (hz : ¬ ZeroNum (rfields fs) b) :
    unmarshal (.struct fs) b = .ok v ↔ Spec.Protobuf.decode (.struct fs) b = some v :=
  Lemmas.ProtoPtrs.unmarshal_iff_reference_decode_ptrs fs hty hna b v hdep hz

open Lemmas.ProtoPtrs in
/-- … with maps -/
theorem unmarshal_of_reference_decode_maps_partial_ptrs (fs : Fields) (hty : tyOKM3 (.struct fs) = true) (b : Bytes)
    (v : Val) (hne : noEmptyEntry3 (.struct fs) b = true)
    (hdep : Codec.nesting (codecOf (.struct fs)) ≤ Gen.c_proto_maxDepth)
    (h : Spec.Protobuf.decode (.struct fs) b = some v) : unmarshal (.struct fs) b = .ok v :=
  Lemmas.ProtoPtrs.unmarshal_of_reference_decode_maps_partial_ptrs fs hty b v hne hdep h

open Lemmas.ProtoLiberalMap Lemmas.ProtoPtrs in
theorem unmarshal_accepts_reference_decode_maps_ptrs (fs : Fields) (hty : tyOKM3 (.struct fs) = true) (b : Bytes)
    (v : Val) (hdep : Codec.nesting (codecOf (.struct fs)) ≤ Gen.c_proto_maxDepth)
    (h : Spec.Protobuf.decode (.struct fs) b = some v) :
    ∃ v', unmarshal (.struct fs) b = .ok v' ∧ sh v v' = true :=
  Lemmas.ProtoPtrs.unmarshal_accepts_reference_decode_maps_ptrs fs hty b v hdep h

open Lemmas.ProtoPtrs in
/-- non-vacuity: the example types of C03 (`exPFields`: `[]*Item`, `**Item`, `map[string]*Item`, `[]*int32`, `***int64`,
`map[int32]**Item`, `[]**Item`; `exQFields`: `struct{ L []*int32; P **int32 }`) -/
example : tyOKM3 (.struct exPFields) = true ∧ ptrsOKs3 exPFields exPVals = true ∧ hasTypesM3 exPFields exPVals = true
    ∧ Codec.nesting (codecOf (.struct exPFields)) ≤ Gen.c_proto_maxDepth :=
  ⟨exP_hyps.1, by simpa only [ptrsOK3, ptrsOKs3, Lemmas.ProtoNamed.erase, ptrsOK] using exP_hyps.2.1,
   by simpa only [hasTypeM3, hasTypesM3, rty_struct, rval_struct, Lemmas.ProtoMap.hasTypeM] using exP_hyps.2.2.1, exP_hyps.2.2.2.2.2⟩

open Lemmas.ProtoPtrs in
/-- `unmarshal_of_reference_decode_ptrs` on `struct{ L []*int32; P **int32 }` and the input `10 85 00 08 03` (fields out
of order, non-minimal varint): `{L: {&3}, P: &&5}` -/
example : unmarshal (.struct exQFields) [0x10, 0x85, 0x00, 0x08, 0x03]
    = .ok (.struct (Vals.ofList [.list (Vals.ofList [.ptr (.int 3)]), .ptr (.ptr (.int 5))])) :=
  unmarshal_of_reference_decode_ptrs exQFields exQ_hyps.1 _ _ exQ_hyps.2.2.2.2.2 exQ_ref

/-! ## user-defined types (proto.Message implementers, gogo-style custom types, RawMessage) as OPAQUE leaves

Universes `tyOK4 ⊇ tyOK3`, `tyOKM4 ⊇ tyOKM3` and the model with the user's methods as parameters: see Props/C03. On the wire a user
value is ONE length-delimited record whose payload is what the user's `Marshal` wrote — exactly a protobuf `bytes` field (or an
embedded message, if the user's bytes are one), which is how the reference decoder reads it (`Spec.Protobuf`: a
`.named "RawMessage" _` leaf is a byte sequence). The record lists are those of the relabelled type on the normalised value
(`allRecords4 wz fs vs = allRecords3 wz (obFields fs) (ovFields fs vs)`). Proofs: Enc/Lemmas/ProtoOpaque*.lean (translation),
ProtoMsgRoundTrip.lean (the user's methods on top). -/

open Lemmas.ProtoWire Lemmas.ProtoOpaque in
/-- bytes, payload level -/
theorem struct_bytes_opaque (fs : Fields) (vs : Vals) (fl : Flags)
    (hty : tyOK4 (.struct fs) = true) (hp : ptrsOKs4 fs vs = true) (hv : hasTypes4 fs vs = true)
    (hz : fl.zigzag = false) (hlen : (encode (.struct (fieldsOf 1 fs)) (.struct vs) fl).length < 2 ^ 64) :
    encode (.struct (fieldsOf 1 fs)) (.struct vs) fl = encRecs (allRecords4 fl.wantzero fs vs) :=
  Lemmas.ProtoOpaque.struct_bytes_opaque fs vs fl hty hp hv hz hlen

open Lemmas.ProtoWire Lemmas.ProtoOpaque in
/-- bytes, with maps -/
theorem struct_bytes_maps_opaque (fs : Fields) (vs : Vals) (fl : Flags)
    (hty : tyOKM4 (.struct fs) = true) (hp : ptrsOKs4 fs vs = true) (hv : hasTypesM4 fs vs = true)
    (hz : fl.zigzag = false) (hlen : (encode (.struct (fieldsOf 1 fs)) (.struct vs) fl).length < 2 ^ 64) :
    encode (.struct (fieldsOf 1 fs)) (.struct vs) fl = encRecs (allRecordsM4 fl.wantzero fs vs) :=
  Lemmas.ProtoOpaque.struct_bytes_maps_opaque fs vs fl hty hp hv hz hlen

open Lemmas.ProtoOpaque in
/-- the field is ONE LEN record whose payload is the leaf's bytes — for a user type of ANY underlying kind `u`, any payload
(the empty one included: `0a 00`, never elided) -/
theorem opaque_field_record (u : Ty) (p : Bytes) (fl : Flags) :
    encode (.struct (fieldsOf 1 (leafF u))) (.struct (.cons (.str p) .nil)) fl
        = encodeTag 1 .varlen ++ encodeVarint (BitVec.ofNat 64 p.length) ++ p
    ∧ encode (.struct (fieldsOf 1 (leafF u))) (.struct (.cons .nil .nil)) fl = encodeTag 1 .varlen ++ [0] :=
  ⟨Lemmas.ProtoOpaque.opaque_field_record u p fl, Lemmas.ProtoOpaque.opaque_nil_field_record u fl⟩

open Lemmas.ProtoWire Lemmas.ProtoOpaque Lemmas.ProtoMsg in
/-- **bytes with the user's methods**: under the `Marshal` contract, what `Marshal` writes for a message with user types is
the concatenation of the reference encodings of the records of its payload-level value (`absFs`: every user value replaced by
what its `Marshal` wrote) -/
theorem struct_bytes_opaque_user (ops : UserOps) (fs : Fields) (us : Vals)
    (hc : LeavesOKFs ops (fieldsOf 1 fs) us) (hty : tyOKM4 (.struct fs) = true)
    (hp : ptrsOKs4 fs (absFs ops (fieldsOf 1 fs) us) = true)
    (hv : hasTypesM4 fs (absFs ops (fieldsOf 1 fs) us) = true)
    (hlen : (marshal (.struct fs) (.struct (absFs ops (fieldsOf 1 fs) us))).length < 2 ^ 64) :
    marshalUsr ops (.struct fs) (.struct us) = .ok (encRecs (allRecordsM4 false fs (absFs ops (fieldsOf 1 fs) us))) :=
  Lemmas.ProtoMsg.struct_bytes_usr ops fs us hc hty hp hv hlen

open Lemmas.ProtoOpaque in
/-- the reference decoder reads what Marshal writes: it sees a bytes field with the leaf's payload (payload level; comparison
by `canonical (ob t)`, which treats a leaf as the byte string it is — see Props/C03) -/
theorem reference_decodes_marshal_partial_opaque (fs : Fields) (v : Val)
    (hty : tyOK4 (.struct fs) = true) (hp : ptrsOK4 (.struct fs) v = true) (hv : hasType4 (.struct fs) v = true)
    (hne : noEmptyPtr4 (.struct fs) v = true) (hlen : (marshal (.struct fs) v).length < 2 ^ 64) :
    (Spec.Protobuf.decode (.struct fs) (marshal (.struct fs) v)).map (Spec.Protobuf.canonical (ob (.struct fs)))
      = some (Spec.Protobuf.canonical (ob (.struct fs)) (ov (.struct fs) v)) :=
  Lemmas.ProtoOpaque.reference_decodes_marshal_partial_opaque_ob fs v hty hp hv hne hlen

open Lemmas.ProtoOpaque in
/-- … with maps -/
theorem reference_decodes_marshal_maps_partial_opaque (fs : Fields) (v : Val)
    (hty : tyOKM4 (.struct fs) = true) (hp : ptrsOK4 (.struct fs) v = true) (hv : hasTypeM4 (.struct fs) v = true)
    (hne : valOKM4 (.struct fs) v = true) (hlen : (marshal (.struct fs) v).length < 2 ^ 64) :
    (Spec.Protobuf.decode (.struct fs) (marshal (.struct fs) v)).map (Spec.Protobuf.canonical (ob (.struct fs)))
      = some (Spec.Protobuf.canonical (ob (.struct fs)) (ov (.struct fs) v)) :=
  Lemmas.ProtoOpaque.reference_decodes_marshal_maps_partial_opaque_ob fs v hty hp hv hne hlen

open Lemmas.ProtoOpaque in
/-- … in the comparison form of the other C12 theorems, for leaves of scalar / bytes kind (`opaquePlain`; RawMessage is one) -/
theorem reference_decodes_marshal_maps_partial_opaque_plain (fs : Fields) (v : Val)
    (hty : tyOKM4 (.struct fs) = true) (hpl : opaquePlain (.struct fs) = true)
    (hp : ptrsOK4 (.struct fs) v = true) (hv : hasTypeM4 (.struct fs) v = true)
    (hne : valOKM4 (.struct fs) v = true) (hlen : (marshal (.struct fs) v).length < 2 ^ 64) :
    (Spec.Protobuf.decode (.struct fs) (marshal (.struct fs) v)).map (Spec.Protobuf.canonical (.struct fs))
      = some (Spec.Protobuf.canonical (.struct fs) v) :=
  Lemmas.ProtoOpaque.reference_decodes_marshal_maps_partial_opaque fs v hty hpl hp hv hne hlen

open Lemmas.ProtoOpaque Lemmas.ProtoMsg in
/-- **the reference decoder reads what `Marshal` writes with the user's methods**: every user value as a bytes field holding
what its `Marshal` wrote -/
theorem reference_decodes_marshal_opaque (ops : UserOps) (fs : Fields) (u : Val)
    (hc : LeavesOK ops (codecOf (.struct fs)) u) (hty : tyOKM4 (.struct fs) = true)
    (hp : ptrsOK4 (.struct fs) (absV ops (codecOf (.struct fs)) u) = true)
    (hv : hasTypeM4 (.struct fs) (absV ops (codecOf (.struct fs)) u) = true)
    (hne : valOKM4 (.struct fs) (absV ops (codecOf (.struct fs)) u) = true)
    (hlen : (marshal (.struct fs) (absV ops (codecOf (.struct fs)) u)).length < 2 ^ 64) :
    ∃ b, marshalUsr ops (.struct fs) u = .ok b
      ∧ (Spec.Protobuf.decode (.struct fs) b).map (Spec.Protobuf.canonical (ob (.struct fs)))
          = some (Spec.Protobuf.canonical (ob (.struct fs)) (ov (.struct fs) (absV ops (codecOf (.struct fs)) u))) :=
  Lemmas.ProtoMsg.reference_decodes_marshal_usr ops fs u hc hty hp hv hne hlen

open Lemmas.ProtoOpaque in
/-- both ways, second half: every byte string the reference accepts for a message type with user types, `Unmarshal` (payload
level) reads alike -/
theorem unmarshal_of_reference_decode_opaque (fs : Fields) (hty : tyOK4 (.struct fs) = true) (b : Bytes) (v : Val)
    (hdep : Codec.nesting (codecOf (.struct fs)) ≤ Gen.c_proto_maxDepth)
    (h : Spec.Protobuf.decode (.struct fs) b = some v) : unmarshal (.struct fs) b = .ok v :=
  Lemmas.ProtoOpaque.unmarshal_of_reference_decode_opaque fs hty b v hdep h

open Lemmas.ProtoLiberal Lemmas.ProtoOpaque Lemmas.ProtoPtrs in
/-- … and the exact characterisation of the difference -/
theorem unmarshal_iff_reference_decode_opaque (fs : Fields) (hty : tyOK4 (.struct fs) = true)
    (hna : noArr4 (.struct fs) = true) (b : Bytes) (v : Val)
    (hdep : Codec.nesting (codecOf (.struct fs)) ≤ Gen.c_proto_maxDepth)
    (hz : ¬ ZeroNum (rfields (obFields fs)) b) :
    unmarshal (.struct fs) b = .ok v ↔ Spec.Protobuf.decode (.struct fs) b = some v :=
  Lemmas.ProtoOpaque.unmarshal_iff_reference_decode_opaque fs hty hna b v hdep hz

open Lemmas.ProtoOpaque in
/-- … with maps -/
theorem unmarshal_of_reference_decode_maps_partial_opaque (fs : Fields) (hty : tyOKM4 (.struct fs) = true) (b : Bytes)
    (v : Val) (hne : noEmptyEntry4 (.struct fs) b = true)
    (hdep : Codec.nesting (codecOf (.struct fs)) ≤ Gen.c_proto_maxDepth)
    (h : Spec.Protobuf.decode (.struct fs) b = some v) : unmarshal (.struct fs) b = .ok v :=
  Lemmas.ProtoOpaque.unmarshal_of_reference_decode_maps_partial_opaque fs hty b v hne hdep h

open Lemmas.ProtoOpaque in
/-- non-vacuity: the example type of C03 with user types in every admissible position (`exOFields`, struct-kind `ZRec`
included), and `struct{ R RawMessage; L []RawMessage; LP []*RawMessage; A int32 }` for the `opaquePlain` form -/
example : tyOKM4 (.struct exOFields) = true
    ∧ ptrsOK4 (.struct exOFields) (.struct exOVals) = true
    ∧ hasTypeM4 (.struct exOFields) (.struct exOVals) = true
    ∧ valOKM4 (.struct exOFields) (.struct exOVals) = true
    ∧ (marshal (.struct exOFields) (.struct exOVals)).length < 2 ^ 64
    ∧ Codec.nesting (codecOf (.struct exOFields)) ≤ Gen.c_proto_maxDepth := exO_hyps

open Lemmas.ProtoOpaque in
example : tyOK4 (.struct exQOFields) = true ∧ opaquePlain (.struct exQOFields) = true := ⟨exQO_ty, exQO_plain⟩

end Enc.Props.C12
