import Enc.Lemmas.JsonRawEmit
/-!
# C14 / C01 / C05 — raw JSON re-emitted by the encoder: RawMessage values and the output of MarshalJSON methods

Property theorems only. Model: `Enc/Model/Json/RawEmit.lean` (`encodeRawMessage`, `encodeJSONMarshaler`,
`appendCompactEscapeHTML` as written). Specification: `Enc/Spec/Json/Compact.lean` (encoding/json's
`compact(dst, src, escape)`: error unless `Valid`; otherwise the token texts of the document, concatenated — with `escape`,
the HTML escape map applied to every byte). Proofs: `Enc/Lemmas/JsonRawEmit*.lean`.
-/
namespace Enc.Props.C14Raw
open Enc Enc.Model.Json Enc.Model.Json.RawEmit

/-- **(a) MAIN.** For EVERY byte string and every subset of the AppendFlags without TrustRawMessage, a RawMessage value is
re-emitted exactly as encoding/json does: an error iff the bytes are not valid JSON (`Spec.Json.compact` is `none` exactly
then, see `compact_error_iff_invalid`), and otherwise the document minus insignificant white space — with EscapeHTML the
escape map applied to it. Leading and trailing white space, empty input, `null`, nesting beyond 10000 included. -/
theorem rawEmit_eq_std (fl : AFlags) (raw : Bytes) (ht : fl.trustRawMessage = false) :
    encodeRawMessage fl (some raw) = Spec.Json.compact fl.escapeHTML raw :=
  Lemmas.JsonRawEmit.rawEmit_eq_compact fl raw ht

/-- **(a), MarshalJSON.** The bytes returned by a MarshalJSON method are treated the same way under EVERY flag subset
(TrustRawMessage is not consulted). -/
theorem marshaler_eq_std (fl : AFlags) (j : Bytes) :
    encodeJSONMarshaler fl false j = Spec.Json.compact fl.escapeHTML j :=
  Lemmas.JsonRawEmit.marshaler_eq_compact fl j

/-- the error case is exactly "`json.Valid` rejects" (= `encoding/json.Valid` rejects, `Props.C05.valid_eq_std`) -/
theorem compact_error_iff_invalid (e : Bool) (raw : Bytes) : Spec.Json.compact e raw = none ↔ valid raw = false :=
  Lemmas.JsonRawEmit.compact_none_iff e raw

/-- nil RawMessage / nil pointer receiver: `null`, under every flag subset -/
theorem nil_is_null (fl : AFlags) (j : Bytes) :
    encodeRawMessage fl none = some [0x6e, 0x75, 0x6c, 0x6c] ∧ encodeJSONMarshaler fl true j = some [0x6e, 0x75, 0x6c, 0x6c] :=
  ⟨rfl, rfl⟩

/-- **(b)** With TrustRawMessage and a raw message that IS valid JSON: no error, the output is valid JSON and decodes
(every subset of the decoder's number flags; specification and model) to what the default flags' output decodes to; with
EscapeHTML it even equals the default output, without it is the raw message itself, byte for byte. -/
theorem rawEmit_trusted (fl : AFlags) (raw : Bytes) (ht : fl.trustRawMessage = true) (hv : valid raw = true) :
    ∃ out dflt, encodeRawMessage fl (some raw) = some out ∧
      encodeRawMessage Lemmas.JsonRawEmit.defaultFlags (some raw) = some dflt ∧
      valid out = true ∧
      (∀ dyn, Spec.Json.unmarshalAny dyn out = Spec.Json.unmarshalAny dyn dflt) ∧
      (∀ dyn v, unmarshalAny dyn out = .ok v ↔ unmarshalAny dyn dflt = .ok v) ∧
      (fl.escapeHTML = true → out = dflt) ∧ (fl.escapeHTML = false → out = raw) :=
  Lemmas.JsonRawEmit.trusted_meaning fl raw ht hv

/-- **(c)** compaction (with or without escaping) preserves validity and meaning: for valid `raw` the result is valid JSON
and `Unmarshal` into `any` — specification, and the model of /repo's decoder — gives the same result as on `raw`. -/
theorem compact_preserves_meaning (e : Bool) (raw : Bytes) (hv : valid raw = true) :
    ∃ c, Spec.Json.compact e raw = some c ∧ valid c = true ∧
      (∀ dyn, Spec.Json.unmarshalAny dyn c = Spec.Json.unmarshalAny dyn raw) ∧
      (∀ dyn v, unmarshalAny dyn c = .ok v ↔ unmarshalAny dyn raw = .ok v) :=
  Lemmas.JsonRawEmit.compact_meaning e raw hv

/-- **(d)** EscapeHTML only changes the representation: the escaped output is the escape map applied to the unescaped one,
and both decode to the same value. -/
theorem escape_only_representation (raw : Bytes) (hv : valid raw = true) :
    ∃ c0 c1, Spec.Json.compact false raw = some c0 ∧ Spec.Json.compact true raw = some c1 ∧
      c1 = Spec.Json.escapeHTML c0 ∧
      (∀ dyn, Spec.Json.unmarshalAny dyn c1 = Spec.Json.unmarshalAny dyn c0) ∧
      (∀ dyn v, unmarshalAny dyn c1 = .ok v ↔ unmarshalAny dyn c0 = .ok v) :=
  Lemmas.JsonRawEmit.escape_meaning raw hv

/-- **(e) totality.** `appendCompactEscapeHTML` is a structural loop over its input (no fuel, no partial operation: the
model has no panic outcome at all); as written — indices `start`/`i`, `flush`, the two-byte look-ahead, the bytes skipped
after a U+2028/9 conversion — it computes the eager three-state scanner `K`, for EVERY input, valid or not … -/
theorem ace_is_scanner (src : Bytes) (e : Bool) :
    appendCompactEscapeHTML src e = Lemmas.JsonRawEmitLoop.K e .out 0 src :=
  Lemmas.JsonRawEmitLoop.ace_eq_K src e

/-- … which without EscapeHTML removes the white space outside string literals and nothing else (`TokConcat.compact`,
the function of `Props.C17.concat_values_eq_compact`) — again for every input … -/
theorem ace_noescape_is_compact (src : Bytes) : appendCompactEscapeHTML src false = Lemmas.TokConcat.compact src :=
  Lemmas.JsonRawEmitLoop.ace_false_eq_strip src

/-- … and the validating parse never runs out of fuel: any extra fuel gives the same verdict and the same span. -/
theorem validation_fuel_irrelevant (raw : Bytes) (k : Nat) :
    Lemmas.JsonString.toOpt (parseValue {} 0 (fuelFor (Spec.Json.ws raw) + k) (Spec.Json.ws raw)) =
      Lemmas.JsonString.toOpt (parseValue {} 0 (fuelFor (Spec.Json.ws raw)) (Spec.Json.ws raw)) :=
  Lemmas.JsonRawEmit.validate_fuel raw k

/-- `tokensOf`, the specification of the Tokenizer (C17), is defined on every document that `Valid` accepts -/
theorem tokensOf_total_on_valid (b : Bytes) (h : Spec.Json.validStd b = true) : ∃ ts, Spec.Json.tokensOf b = some ts :=
  Lemmas.JsonRawEmitTok.tokensOf_of_validStd b h

/-! ### non-vacuity -/

def s (x : String) : Bytes := x.toUTF8.toList
def fl0 : AFlags := {}
def flE : AFlags := { escapeHTML := true }
def flT : AFlags := { trustRawMessage := true }
def flTE : AFlags := { escapeHTML := true, trustRawMessage := true }

/-- `"dir\\"` (a string ENDING IN AN ESCAPED BACKSLASH) inside an array with white space everywhere: the closing quote is
found, the white space after it is removed — ` [ "dir\\" , "a\"b" ] ` ↦ `["dir\\","a\"b"]` -/
example : encodeRawMessage fl0 (some (s " [ \"dir\\\\\" , \"a\\\"b\" ] ")) = some (s "[\"dir\\\\\",\"a\\\"b\"]") := by
  decide +kernel
example : Spec.Json.compact false (s " [ \"dir\\\\\" , \"a\\\"b\" ] ") = some (s "[\"dir\\\\\",\"a\\\"b\"]") := by
  decide +kernel
example : valid (s " [ \"dir\\\\\" , \"a\\\"b\" ] ") = true := by decide +kernel
/-- `<`, `>`, `&` and U+2028 inside a string, tab / CR / LF outside: escaped only with EscapeHTML -/
example : encodeRawMessage flE (some (s "{\t\"<k>\" :\r\n\"a&\u2028\" }")) =
    some (s "{\"\\u003ck\\u003e\":\"a\\u0026\\u2028\"}") := by decide +kernel
example : Spec.Json.compact true (s "{\t\"<k>\" :\r\n\"a&\u2028\" }") =
    some (s "{\"\\u003ck\\u003e\":\"a\\u0026\\u2028\"}") := by decide +kernel
example : encodeRawMessage fl0 (some (s "{\t\"<k>\" :\r\n\"a&\u2028\" }")) = some (s "{\"<k>\":\"a&\u2028\"}") := by
  decide +kernel
/-- E2 80 split by another byte, and E2 80 at the end of a string, are left alone -/
example : encodeRawMessage flE (some ([0x22, 0xe2, 0x80, 0x41, 0xe2, 0x80, 0x22])) =
    some [0x22, 0xe2, 0x80, 0x41, 0xe2, 0x80, 0x22] := by decide +kernel
/-- U+2028 OUTSIDE a string, trailing garbage, truncation, the empty message: errors -/
example : encodeRawMessage flE (some ([0x5b, 0xe2, 0x80, 0xa8, 0x5d])) = none := by decide +kernel
example : encodeRawMessage fl0 (some (s "\"dir\\\\\" x")) = none := by decide +kernel
example : encodeRawMessage fl0 (some (s "\"dir\\\"")) = none := by decide +kernel
example : encodeRawMessage fl0 (some []) = none := by decide +kernel
example : encodeJSONMarshaler flT false (s "[1,]") = none := by decide +kernel
/-- TrustRawMessage: copied verbatim without EscapeHTML, compacted and escaped with it -/
example : encodeRawMessage flT (some (s " [ \"<\" ] ")) = some (s " [ \"<\" ] ") := by decide +kernel
example : encodeRawMessage flTE (some (s " [ \"<\" ] ")) = some (s "[\"\\u003c\"]") := by decide +kernel
/-- the hypotheses of (b), (c), (d) hold for such documents -/
example : valid (s "{\t\"<k>\" :\r\n\"a&\u2028\" }") = true := by decide +kernel
/-- a surrogate escape directly in front of a replaced byte: `"\ud800<"` decodes to U+FFFD `<` before and after -/
example : Spec.Json.unmarshalAny ⟨false, false, false, false⟩ (s "\"\\ud800<\"") =
    Spec.Json.unmarshalAny ⟨false, false, false, false⟩ (s "\"\\ud800\\u003c\"") := by decide +kernel

end Enc.Props.C14Raw
