import Enc.Model.Json.DecScalar
import Enc.Spec.Json.StdDec
/-!
# C02 — json.Unmarshal stores what encoding/json.Unmarshal stores
Property theorems only (scalar layer; the type-shape layer is decided by the type-directed differential, see DESIGN.md).
-/
namespace Enc.Props.C02
open Enc Enc.Model.Json

/-- the former overflow test `next := value*10 + x; next < value` missed these wrap-arounds (fixed in /repo):
the literal 25000000000000000000 is rejected for int64 and 30000000000000000000 for uint64 -/
theorem wrap_witness_int : parseInt [0x32,0x35,0x30,0x30,0x30,0x30,0x30,0x30,0x30,0x30,0x30,0x30,0x30,0x30,0x30,0x30,0x30,0x30,0x30,0x30] = .err := by
  decide +kernel
theorem wrap_witness_uint : parseUint [0x33,0x30,0x30,0x30,0x30,0x30,0x30,0x30,0x30,0x30,0x30,0x30,0x30,0x30,0x30,0x30,0x30,0x30,0x30,0x30] = .err := by
  decide +kernel

end Enc.Props.C02
