import Enc.Model.Json.DecScalar
import Enc.Spec.Json.StdDec
import Enc.Lemmas.JsonDecInt
import Enc.Lemmas.JsonDecString
/-!
# C02 — json.Unmarshal stores what encoding/json.Unmarshal stores
Property theorems only (scalar layer; the type-shape layer is decided by the type-directed differential, see DESIGN.md).
Proofs in Enc/Lemmas/JsonDecInt.lean and Enc/Lemmas/JsonDecString.lean.
-/
namespace Enc.Props.C02
open Enc Enc.Model.Json

/-- range of an integer target type -/
abbrev lo := Lemmas.JsonDecInt.lo
abbrev hi := Lemmas.JsonDecInt.hi

/-- **MAIN (integers).** For every byte string and each of the ten integer target types, the model of
`Unmarshal(doc, &x)` — skipSpaces, parseInt / parseUint with their machine-integer overflow tests exactly as coded, the
width check of decodeInt8…decodeUint64, trailing white space — stores the value, or returns an error, exactly as the
transcription of encoding/json's literalStore says: the document is `ws number ws` of RFC 8259 without fraction or
exponent (and without a sign for unsigned targets) whose mathematical value lies in the range of the type; `null`
leaves the variable alone. No bound on the number of digits. -/
theorem unmarshalInt_eq (t : ITy) (doc : Bytes) :
    unmarshalInt t doc = Spec.Json.unmarshalInt t.signed (lo t) (hi t) doc :=
  Lemmas.JsonDecInt.unmarshalInt_eq t doc

/-- **MAIN (strings).** For every byte string, `Unmarshal(doc, &s)` as coded — parseString with its word-at-a-time
quote search and the flag-guarded fast path, then the chunk-wise unescaping loop with `\u` escapes, UTF-16 surrogate
pairs and UTF-8 coercion — stores exactly what encoding/json's rune-by-rune `unquoteBytes` stores, and fails on exactly
the same documents. -/
theorem unmarshalString_eq (doc : Bytes) : unmarshalString doc = Spec.Json.unmarshalString doc :=
  Lemmas.JsonDecString.unmarshalString_eq doc

/-- the former overflow test `next := value*10 + x; next < value` missed these wrap-arounds (fixed in /repo):
the literal 25000000000000000000 is rejected for int64 and 30000000000000000000 for uint64 -/
theorem wrap_witness_int : parseInt [0x32,0x35,0x30,0x30,0x30,0x30,0x30,0x30,0x30,0x30,0x30,0x30,0x30,0x30,0x30,0x30,0x30,0x30,0x30,0x30] = .err := by
  decide +kernel
theorem wrap_witness_uint : parseUint [0x33,0x30,0x30,0x30,0x30,0x30,0x30,0x30,0x30,0x30,0x30,0x30,0x30,0x30,0x30,0x30,0x30,0x30,0x30,0x30] = .err := by
  decide +kernel

/-- non-vacuity: -128 fits int8, 128 does not; a surrogate pair becomes one 4-byte rune -/
example : unmarshalInt .i8 [0x20, 0x2d, 0x31, 0x32, 0x38, 0x0a] = some (-128) := by decide +kernel
example : unmarshalInt .i8 [0x31, 0x32, 0x38] = none := by decide +kernel
example : unmarshalString [0x22, 0x5c, 0x75, 0x64, 0x38, 0x33, 0x64, 0x5c, 0x75, 0x64, 0x65, 0x30, 0x30, 0x22]
    = some [0xf0, 0x9f, 0x98, 0x80] := by decide +kernel

end Enc.Props.C02
