import Enc.Model.Json.OmitEmpty
import Enc.Spec.Json.OmitEmpty
import Enc.Lemmas.JsonOmitEmpty
/-!
# C01 (struct field layer) — `omitempty` drops exactly the fields encoding/json drops

json/codec.go `emptyFuncOf` picks a predicate on the field's memory from the field type; encoding/json's `isEmptyValue`
is the documented table (false, 0, nil pointer, nil interface, empty array / slice / map / string; −0.0 is 0, NaN is not;
a struct — time.Time included — is never empty; an array only when its LENGTH is 0). Statements only.
-/
namespace Enc.Props.C01Omit
open Enc Enc.Model.Json.OmitEmpty
open Enc.Lemmas.JsonOmitEmpty (WellFormed)

/-- MAIN: for every field type (kind, array length, identity with []byte / RawMessage — which only slice types can have)
and every combination of the value facts, the predicate chosen by emptyFuncOf is encoding/json's isEmptyValue -/
theorem isEmpty_eq_std (t : FieldType) (f : Facts) (h : WellFormed t) :
    isEmpty t f = Spec.Json.OmitEmpty.isEmptyValue t.kind f :=
  Lemmas.JsonOmitEmpty.isEmpty_eq_std t f h

/-- … hence the fate of the field (omitted / written / error of its value encoder) is the same -/
theorem fieldOutcome_eq_std (t : FieldType) (f : Facts) (h : WellFormed t) :
    fieldOutcome t f = Spec.Json.OmitEmpty.fieldOutcome t.kind f :=
  Lemmas.JsonOmitEmpty.fieldOutcome_eq_std t f h

/-- the facts of −0.0: equal to zero, bits not zero -/
def negZero : Facts := { floatEqZero := true, floatBitsZero := false }

/-- NEGATIVE WITNESS (seeded bug: float predicates on the bit pattern): −0.0 is kept, encoding/json omits it -/
theorem bits_variant_wrong :
    Bits.isEmpty ⟨.float64, false⟩ negZero = false ∧ Spec.Json.OmitEmpty.isEmptyValue .float64 negZero = true ∧
    isEmpty ⟨.float64, false⟩ negZero = true := by decide

/-- exactly that: the bits variant is right iff for float fields "bits zero" and "== 0" coincide -/
theorem bits_variant_iff (t : FieldType) (f : Facts) (h : WellFormed t) :
    Bits.isEmpty t f = Spec.Json.OmitEmpty.isEmptyValue t.kind f ↔
      ((t.kind = .float32 ∨ t.kind = .float64) → f.floatBitsZero = f.floatEqZero) :=
  Lemmas.JsonOmitEmpty.bits_isEmpty_eq_std_iff t f h

/-- link to the buffer model of C15 (Model/Json/Buf.lean): its `JV.isEmpty` is this table at the Go types of its values -/
theorem jv_isEmpty_eq (v : Enc.Model.Json.Buf.JV) :
    v.isEmpty = isEmpty (typeOfJV v) (factsOfJV v) ∧ WellFormed (typeOfJV v) :=
  ⟨Lemmas.JsonOmitEmpty.jv_isEmpty_eq v, Lemmas.JsonOmitEmpty.jv_wellFormed v⟩

/-- non-vacuity: [0]T empty, [1]T not; typed nil in an interface not empty; RawMessage by length -/
example : isEmpty ⟨.array 0, false⟩ {} = true ∧ isEmpty ⟨.array 1, false⟩ {} = false ∧
    isEmpty ⟨.iface, false⟩ { ifaceTypNil := false, ptrNil := true } = false ∧
    isEmpty ⟨.slice, true⟩ { len := 0 } = true ∧ isEmpty ⟨.struct, false⟩ {} = false := by decide
example : WellFormed ⟨.slice, true⟩ := fun _ => rfl

end Enc.Props.C01Omit
