import Enc.Model.Json.Buf
import Enc.Spec.Json.Render
/-!
# C15 — json.Append is oblivious to the destination's length and capacity
Property theorems only.
-/
namespace Enc.Props.C15
open Enc Enc.Model.Json.Buf

/-- Go's `append` on a well-formed slice: the contents become `data ++ xs` whatever the capacity and growth policy -/
theorem append_data (grow : Nat → Nat → Nat) (s : Slice) (hs : s.Wf) (xs : Bytes) :
    (s.append grow xs).data = s.data ++ xs ∧ (s.append grow xs).Wf := by
  unfold Slice.append Slice.data Slice.Wf Slice.cap writeAt at *
  simp only
  split
  · constructor
    · simp only [List.take_append, List.length_take, List.length_append]
      have h1 : min s.len s.arr.length = s.len := by omega
      simp [h1]
      apply List.take_of_length_le; simp; omega
    · simp only [List.length_append, List.length_take, List.length_drop]; omega
  · constructor
    · simp only [List.take_append, List.length_take, List.length_append]
      have h1 : min s.len s.arr.length = s.len := by omega
      simp [h1]
      apply List.take_of_length_le; simp; omega
    · simp only [List.length_append, List.length_take, List.length_replicate]; omega

end Enc.Props.C15
