import Enc.Model.Json.Buf
import Enc.Spec.Json.Render
import Enc.Lemmas.JsonBuf
import Enc.Lemmas.JsonEncFloat
import Enc.Model.Json.StrHelpers
import Enc.Spec.Json.StrHelpers
import Enc.Lemmas.JsonStrHelpers
/-!
# C15 — json.Append is oblivious to the destination's length and capacity
Property theorems only (proofs in Enc/Lemmas/JsonBuf.lean).
-/
namespace Enc.Props.C15
open Enc Enc.Model.Json.Buf

/-- Go's `append` on a well-formed slice: the contents become `data ++ xs` whatever the capacity and growth policy -/
theorem append_data (grow : Nat → Nat → Nat) (s : Slice) (hs : s.Wf) (xs : Bytes) :
    (s.append grow xs).data = s.data ++ xs ∧ (s.append grow xs).Wf :=
  Lemmas.JsonBuf.append_data grow s hs xs

/-- **MAIN.** For every destination slice (any prefix, any capacity), every growth policy of the Go runtime, both
EscapeHTML settings and every value of the modelled universe: Append returns the destination's bytes followed by the
buffer-free rendering of the value; when the value cannot be encoded it returns an error and the result still begins
with the destination's bytes. (`Ranged`: integer leaves are int64 values, as they are in Go.) -/
theorem append_eq_render (grow : Nat → Nat → Nat) (html : Bool) (s : Slice) (hs : s.Wf) (v : JV) (hv : v.Ranged) :
    match Spec.Json.render html v with
    | some x => append grow html s v = (s.data ++ x, false)
    | none   => (append grow html s v).2 = true ∧ s.data <+: (append grow html s v).1 :=
  Lemmas.JsonBuf.append_eq_render grow html s hs v hv

/-- the property as stated: same error as `Append(nil, …)`, remainder equal to what `Append(nil, …)` returns, prefix kept
even on error — for every value (no range hypothesis needed) -/
theorem append_oblivious (grow : Nat → Nat → Nat) (html : Bool) (s : Slice) (hs : s.Wf) (v : JV) :
    (append grow html s v).2 = (append grow html Slice.empty v).2 ∧
    ((append grow html s v).2 = false → (append grow html s v).1 = s.data ++ (append grow html Slice.empty v).1) ∧
    s.data <+: (append grow html s v).1 :=
  Lemmas.JsonBuf.append_oblivious_all grow html s hs v

/-- the runtime's amortised growth policy is unobservable -/
theorem grow_irrelevant (g1 g2 : Nat → Nat → Nat) (html : Bool) (s : Slice) (hs : s.Wf) (v : JV) :
    (append g1 html s v).2 = (append g2 html s v).2 ∧
    ((append g1 html s v).2 = false → (append g1 html s v).1 = (append g2 html s v).1) :=
  Lemmas.JsonBuf.grow_irrelevant_all g1 g2 html s hs v

/-- the base64 length arithmetic of encodeBytes: `EncodedLen(len(v))` is the length actually written -/
theorem b64_length (v : Bytes) : (b64 v).length = b64Len v.length := Lemmas.JsonBuf.b64_length v

/-- float leaves (the `JV` universe has none): encodeFloat keeps the destination's bytes whatever they end with — its
`e-0d` clean-up indexes the whole buffer from the end but, guarded by `fmt == 'e'` and strconv's shape, never reaches
the caller's bytes; the appended part is what is appended to the empty destination (Props/C01Float.lean). -/
theorem encodeFloat_oblivious (dst digits : Bytes) (fmt : Model.Json.FFmt) (h : Model.Json.StrconvShape fmt digits) :
    (Model.Json.encodeFloatFmt dst fmt digits).take dst.length = dst ∧
    (Model.Json.encodeFloatFmt dst fmt digits).drop dst.length = Model.Json.encodeFloatFmt [] fmt digits :=
  Lemmas.JsonEncFloat.encodeFloatFmt_oblivious dst digits fmt h

/-! ## the Append-style string helpers: AppendEscape, AppendUnescape, RawValue.AppendUnquote (and Escape, Unescape, Unquote)

Model: `Model/Json/StrHelpers.lean` — the helpers and what they call (`encodeString`, `parseStringUnquote` with its scratch
slice, `appendRune`'s four-byte over-append, `appendCoerceInvalidUTF8`) on the `Slice` model, every `append` possibly
reallocating under an arbitrary growth policy. In each theorem `b` is any destination (any prefix, any spare capacity),
`grow` any growth policy; "prefix cells" = the first `len(b)` cells of the backing array the result lives in. -/
section StrHelpers
open Enc.Model.Json Enc.Model.Json.StrHelpers

/-- **AppendEscape** returns the destination's bytes followed by exactly encoding/json's `appendString` of the string;
the result is a well-formed slice and the cells below `len(b)` are the destination's. -/
theorem appendEscape_eq (grow : Nat → Nat → Nat) (b : Slice) (hb : b.Wf) (s : Bytes) (html : Bool) :
    (appendEscape grow b s html).data = b.data ++ Spec.Json.appendString s html ∧
    (appendEscape grow b s html).Wf ∧
    (appendEscape grow b s html).arr.take b.len = b.arr.take b.len :=
  Lemmas.JsonStrHelpers.appendEscape_eq grow b hb s html

/-- … the remainder is what the call with a nil destination returns, under any two growth policies -/
theorem appendEscape_oblivious (g1 g2 : Nat → Nat → Nat) (b : Slice) (hb : b.Wf) (s : Bytes) (html : Bool) :
    (appendEscape g1 b s html).data = b.data ++ (appendEscape g2 Slice.empty s html).data :=
  Lemmas.JsonStrHelpers.appendEscape_oblivious g1 g2 b hb s html

/-- **AppendUnescape**, for EVERY input and all parse flags: the result is the destination's bytes followed by what
`decodeString` left in the scratch string, which is what the buffer-free decoder model stores (`unescapeText`): the content
of the literal the input starts with — the error of decodeString is dropped, so for `null…`, for input that is not a
string literal, or malformed, NOTHING is appended and the destination is returned as it was; trailing bytes after the
literal are ignored. Prefix cells untouched. -/
theorem appendUnescape_eq (grow : Nat → Nat → Nat) (fl : PFlags) (b : Slice) (hb : b.Wf) (s : Bytes) :
    (appendUnescape grow fl b s).data = b.data ++ unescapeText fl s ∧
    (appendUnescape grow fl b s).Wf ∧
    (appendUnescape grow fl b s).arr.take b.len = b.arr.take b.len :=
  Lemmas.JsonStrHelpers.appendUnescape_eq grow fl b hb s

/-- the scratch string does not depend on any buffer or growth policy -/
theorem decodeStringBuf_eq (grow : Nat → Nat → Nat) (fl : PFlags) (s : Bytes) :
    decodeStringBuf grow fl s = unescapeText fl s :=
  Lemmas.JsonStrHelpers.decodeStringBuf_eq grow fl s

/-- … and with flags that are sound for the input (the zero flags always are) it is encoding/json's `unquote` of the string
literal recognised by the RFC 8259 grammar at the start of the input, empty when there is none -/
theorem unescapeText_std (fl : PFlags) (s : Bytes) (hq : Lemmas.JsonString.QSound fl s) :
    unescapeText fl s = Spec.Json.unescapeStd s :=
  Lemmas.JsonStrHelpers.unescapeText_std fl s hq

theorem appendUnescape_eq_std (grow : Nat → Nat → Nat) (b : Slice) (hb : b.Wf) (s : Bytes) :
    (appendUnescape grow {} b s).data = b.data ++ Spec.Json.unescapeStd s :=
  Lemmas.JsonStrHelpers.appendUnescape_eq_std grow b hb s

theorem appendUnescape_oblivious (g1 g2 : Nat → Nat → Nat) (fl : PFlags) (b : Slice) (hb : b.Wf) (s : Bytes) :
    (appendUnescape g1 fl b s).data = b.data ++ (appendUnescape g2 fl Slice.empty s).data :=
  Lemmas.JsonStrHelpers.appendUnescape_oblivious g1 g2 fl b hb s

/-- **RawValue.AppendUnquote** (after fix 0d659f8): when the receiver is exactly one JSON string literal the result is the
destination's bytes followed by its content (encoding/json's `unquote`), once, prefix cells untouched — although a literal
with escapes or non-ASCII bytes is unquoted straight into the destination, `appendRune` over-appending four bytes each
time; any other receiver (malformed literal, trailing bytes, not a string) panics. -/
theorem appendUnquote_eq (grow : Nat → Nat → Nat) (v : Bytes) (b : Slice) (hb : b.Wf) :
    match Spec.Json.unquoteTok v with
    | some u => ∃ r, appendUnquote grow v (some b) = .ok r ∧ r.Wf ∧ r.data = b.data ++ u ∧
        r.arr.take b.len = b.arr.take b.len
    | none => ∃ c, appendUnquote grow v (some b) = .panic c :=
  Lemmas.JsonStrHelpers.appendUnquote_eq grow v b hb

/-- Unquote (nil destination) -/
theorem unquote_eq (grow : Nat → Nat → Nat) (v : Bytes) :
    match Spec.Json.unquoteTok v with
    | some u => ∃ r, unquote grow v = .ok r ∧ r.data = u
    | none => ∃ c, unquote grow v = .panic c :=
  Lemmas.JsonStrHelpers.unquote_eq grow v

/-- same panic as with a nil destination; otherwise the remainder is what the call with a nil destination returns -/
theorem appendUnquote_oblivious (g1 g2 : Nat → Nat → Nat) (v : Bytes) (b : Slice) (hb : b.Wf) :
    match unquote g2 v with
    | .ok r0 => ∃ r, appendUnquote g1 v (some b) = .ok r ∧ r.data = b.data ++ r0.data
    | .panic _ => ∃ c, appendUnquote g1 v (some b) = .panic c
    | .err _ => False :=
  Lemmas.JsonStrHelpers.appendUnquote_oblivious g1 g2 v b hb

/-- the unquoter with a scratch slice (what AppendUnquote and the rejected variant below build on): same error and
remainder as the buffer-free model; the content either as a sub-slice of the input or appended to the scratch slice -/
theorem parseStringUnquote_scratch (grow : Nat → Nat → Nat) (fl : PFlags) (v : Bytes) (b : Option Slice)
    (hb : Lemmas.JsonStrHelpers.OptWf b) :
    match parseStringUnquote fl v with
    | none => parseStringUnquoteB (sliceOps grow) fl v b = .err
    | some (u, rest) =>
      parseStringUnquoteB (sliceOps grow) fl v b = .plain u rest ∨
      ∃ r, parseStringUnquoteB (sliceOps grow) fl v b = .appended r rest ∧ r.Wf ∧
        r.data = Lemmas.JsonStrHelpers.optData b ++ u :=
  Lemmas.JsonStrHelpers.psuB_spec grow fl v b hb

/-- **Escape / Unescape round trip** (via C14 `string_round_trip`): for every byte string and any growth policies,
`Unescape(Escape(s))` is `s` with invalid UTF-8 replaced by U+FFFD -/
theorem escape_unescape_round_trip (g1 g2 : Nat → Nat → Nat) (s : Bytes) :
    (unescape g1 (escape g2 s).data).data = Spec.Json.coerceUTF8 s :=
  Lemmas.JsonStrHelpers.escape_unescape g1 g2 s

/-- `"café"` -/
def cafeU : Bytes := [0x22, 0x63, 0x61, 0x66, 0x5c, 0x75, 0x30, 0x30, 0x65, 0x39, 0x22]
/-- an empty destination with five spare bytes that hold 0xEE from an earlier use -/
def stale5 : Slice := ⟨[0xEE, 0xEE, 0xEE, 0xEE, 0xEE], 0⟩

/-- **Negative witness** for the rejected variant of AppendUnescape that hands `b[len(b):]` to the unquoter as its scratch
slice and returns `b[:len(b)+n]` "in place" when the text fits: fitting is not being in place. For `"café"` (5 bytes
unescaped) and exactly 5 spare bytes, `appendRune` appends 3+4 > 5 bytes, the scratch slice moves, and the variant
returns `caf` followed by two stale bytes of the destination — under every growth policy; the code as written returns
`café`. With the é written as UTF-8 in the literal (no `\u`, no over-append) the variant happens to be right. -/
theorem appendUnescape_in_place_witness (grow : Nat → Nat → Nat) :
    appendUnescapeInPlace grow {} stale5 cafeU = [0x63, 0x61, 0x66, 0xEE, 0xEE] ∧
    (appendUnescape grow {} stale5 cafeU).data = [0x63, 0x61, 0x66, 0xc3, 0xa9] := by
  constructor
  · rfl
  · rw [appendUnescape_eq_std grow stale5 (by simp [stale5, Slice.Wf])]
    decide +kernel

/-- (Go's doubling growth policy; the outcome above does not depend on it) -/
theorem appendUnescape_in_place_utf8_literal :
    appendUnescapeInPlace (fun c n => max (2 * c) n) {} stale5 [0x22, 0x63, 0x61, 0x66, 0xc3, 0xa9, 0x22]
      = [0x63, 0x61, 0x66, 0xc3, 0xa9] := by decide +kernel

/-- non-vacuity: a destination with a two-byte prefix and one spare byte; HTML, invalid UTF-8; a surrogate pair;
a malformed token -/
example : (appendEscape (fun _ n => n) ⟨[1, 2, 0xEE], 2⟩ [0x3c, 0xff] true).data
    = [1, 2] ++ Spec.Json.appendString [0x3c, 0xff] true :=
  (appendEscape_eq _ _ (by simp [Slice.Wf]) _ _).1
example : Spec.Json.unescapeStd cafeU = [0x63, 0x61, 0x66, 0xc3, 0xa9] := by decide +kernel
example : Spec.Json.unescapeStd [0x22, 0x61, 0x22, 0x78] = [0x61] ∧ Spec.Json.unescapeStd [0x22, 0x61] = [] := by decide +kernel
example : Spec.Json.unquoteTok [0x22, 0x5c, 0x75, 0x64, 0x38, 0x33, 0x64, 0x5c, 0x75, 0x64, 0x65, 0x30, 0x30, 0x22]
    = some [0xf0, 0x9f, 0x98, 0x80] := by decide +kernel
example : Spec.Json.unquoteTok [0x22, 0x61, 0x22, 0x78] = none ∧ Spec.Json.unquoteTok [0x22, 0x5c, 0x78, 0x22] = none := by
  decide +kernel
example : (match appendUnquote (fun _ n => n) cafeU (some ⟨[7, 0xEE, 0xEE, 0xEE, 0xEE, 0xEE], 1⟩) with
    | .ok r => r.data | _ => []) = [7, 0x63, 0x61, 0x66, 0xc3, 0xa9] := by decide +kernel

end StrHelpers

end Enc.Props.C15
