import Enc.Model.Json.Buf
import Enc.Spec.Json.Render
import Enc.Lemmas.JsonBuf
import Enc.Lemmas.JsonEncFloat
/-!
# C15 — json.Append is oblivious to the destination's length and capacity
Property theorems only (proofs in Enc/Lemmas/JsonBuf.lean).
-/
namespace Enc.Props.C15
open Enc Enc.Model.Json.Buf

/-- Go's `append` on a well-formed slice: the contents become `data ++ xs` whatever the capacity and growth policy -/
theorem append_data (grow : Nat → Nat → Nat) (s : Slice) (hs : s.Wf) (xs : Bytes) :
    (s.append grow xs).data = s.data ++ xs ∧ (s.append grow xs).Wf :=
  Lemmas.JsonBuf.append_data grow s hs xs

/-- **MAIN.** For every destination slice (any prefix, any capacity), every growth policy of the Go runtime, both
EscapeHTML settings and every value of the modelled universe: Append returns the destination's bytes followed by the
buffer-free rendering of the value; when the value cannot be encoded it returns an error and the result still begins
with the destination's bytes. (`Ranged`: integer leaves are int64 values, as they are in Go.) -/
theorem append_eq_render (grow : Nat → Nat → Nat) (html : Bool) (s : Slice) (hs : s.Wf) (v : JV) (hv : v.Ranged) :
    match Spec.Json.render html v with
    | some x => append grow html s v = (s.data ++ x, false)
    | none   => (append grow html s v).2 = true ∧ s.data <+: (append grow html s v).1 :=
  Lemmas.JsonBuf.append_eq_render grow html s hs v hv

/-- the property as stated: same error as `Append(nil, …)`, remainder equal to what `Append(nil, …)` returns, prefix kept
even on error — for every value (no range hypothesis needed) -/
theorem append_oblivious (grow : Nat → Nat → Nat) (html : Bool) (s : Slice) (hs : s.Wf) (v : JV) :
    (append grow html s v).2 = (append grow html Slice.empty v).2 ∧
    ((append grow html s v).2 = false → (append grow html s v).1 = s.data ++ (append grow html Slice.empty v).1) ∧
    s.data <+: (append grow html s v).1 :=
  Lemmas.JsonBuf.append_oblivious_all grow html s hs v

/-- the runtime's amortised growth policy is unobservable -/
theorem grow_irrelevant (g1 g2 : Nat → Nat → Nat) (html : Bool) (s : Slice) (hs : s.Wf) (v : JV) :
    (append g1 html s v).2 = (append g2 html s v).2 ∧
    ((append g1 html s v).2 = false → (append g1 html s v).1 = (append g2 html s v).1) :=
  Lemmas.JsonBuf.grow_irrelevant_all g1 g2 html s hs v

/-- the base64 length arithmetic of encodeBytes: `EncodedLen(len(v))` is the length actually written -/
theorem b64_length (v : Bytes) : (b64 v).length = b64Len v.length := Lemmas.JsonBuf.b64_length v

/-- float leaves (the `JV` universe has none): encodeFloat keeps the destination's bytes whatever they end with — its
`e-0d` clean-up indexes the whole buffer from the end but, guarded by `fmt == 'e'` and strconv's shape, never reaches
the caller's bytes; the appended part is what is appended to the empty destination (Props/C01Float.lean). -/
theorem encodeFloat_oblivious (dst digits : Bytes) (fmt : Model.Json.FFmt) (h : Model.Json.StrconvShape fmt digits) :
    (Model.Json.encodeFloatFmt dst fmt digits).take dst.length = dst ∧
    (Model.Json.encodeFloatFmt dst fmt digits).drop dst.length = Model.Json.encodeFloatFmt [] fmt digits :=
  Lemmas.JsonEncFloat.encodeFloatFmt_oblivious dst digits fmt h

end Enc.Props.C15
