import Enc.Lemmas.Proto
import Enc.Model.ProtoTo
/-!
# C16 — proto.MarshalTo honours the caller's buffer for every size
Property theorems only. `encodeTo … avail` is the model of the buffer-checked encoders (Enc/Model/ProtoTo.lean).
-/
namespace Enc.Props.C16
open Enc Enc.Model.Proto

/-- the varint primitive checks before it writes: for EVERY available length -/
theorem encodeVarintTo_spec (avail : Nat) (v : BitVec 64) :
    encodeVarintTo avail v = if sizeOfVarint v ≤ avail then .ok (encodeVarint v) else .err "shortBuffer" := by
  unfold encodeVarintTo short
  by_cases h : avail < sizeOfVarint v
  · simp [h]
  · simp [h]

/-- the encoding that MarshalTo writes when it succeeds has exactly Size(v) bytes -/
theorem marshal_len (t : Ty) (v : Val) : (marshal t v).length = marshalSize t v :=
  Lemmas.Proto.size_eq _ _ _

end Enc.Props.C16
