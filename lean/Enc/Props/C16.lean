import Enc.Lemmas.Proto
import Enc.Model.ProtoTo
import Enc.Lemmas.ProtoTo
/-!
# C16 — proto.MarshalTo honours the caller's buffer for every size
Property theorems only. `encodeTo … avail` is the model of the buffer-checked encoders (Enc/Model/ProtoTo.lean).
-/
namespace Enc.Props.C16
open Enc Enc.Model.Proto

/-- the varint primitive checks before it writes: for EVERY available length -/
theorem encodeVarintTo_spec (avail : Nat) (v : BitVec 64) :
    encodeVarintTo avail v = if sizeOfVarint v ≤ avail then .ok (encodeVarint v) else .err "shortBuffer" := by
  unfold encodeVarintTo short
  by_cases h : avail < sizeOfVarint v
  · simp [h]
  · simp [h]

/-- the encoding that MarshalTo writes when it succeeds has exactly Size(v) bytes -/
theorem marshal_len (t : Ty) (v : Val) : (marshal t v).length = marshalSize t v :=
  Lemmas.Proto.size_eq _ _ _

/-- **Main theorem of C16.** For every codec tree (message type), value, flag combination and EVERY buffer length
`avail`: the buffer-checked encoder succeeds exactly when `avail ≥ Size`, then writes exactly the bytes of `Marshal`;
otherwise it returns `io.ErrShortBuffer` — and it never panics. -/
theorem encodeTo_spec (c : Codec) (v : Val) (fl : Flags) (avail : Nat) :
    encodeTo c v fl avail = if size c v fl ≤ avail then .ok (encode c v fl) else .err "shortBuffer" :=
  Lemmas.ProtoTo.encodeTo_spec c v fl avail

/-- MarshalTo(b, v) with len(b) ≥ Size(v): the encoding of Marshal(v), of exactly Size(v) bytes -/
theorem marshalTo_enough (t : Ty) (v : Val) (avail : Nat) (h : marshalSize t v ≤ avail) :
    marshalTo t v avail = .ok (marshal t v) ∧ (marshal t v).length = marshalSize t v := by
  refine ⟨?_, Lemmas.Proto.size_eq _ _ _⟩
  unfold marshalTo marshal
  rw [Lemmas.ProtoTo.encodeTo_spec]
  simp only [marshalSize] at h
  simp [h]

/-- every shorter buffer — every length from 0 to Size(v)-1 — gives io.ErrShortBuffer (an error, not a panic) -/
theorem marshalTo_short (t : Ty) (v : Val) (avail : Nat) (h : avail < marshalSize t v) :
    marshalTo t v avail = .err "shortBuffer" := by
  unfold marshalTo
  rw [Lemmas.ProtoTo.encodeTo_spec]
  simp only [marshalSize] at h
  have : ¬ size (codecOf t) v { toplevel := true, inline := true } ≤ avail := by omega
  simp [this]

/-- non-vacuity: a value with Size 6, tried with 5 and 6 bytes -/
example : (encodeTo (.struct (.cons 1 false false false .int32 (.cons 2 false true false (.slice .bool 2 .varint false) .nil)))
    (.struct (.cons (.int 5) (.cons (.list (.cons (.bool false) (.cons (.bool true) .nil))) .nil))) {} 5 = .err "shortBuffer")
  ∧ (encodeTo (.struct (.cons 1 false false false .int32 (.cons 2 false true false (.slice .bool 2 .varint false) .nil)))
    (.struct (.cons (.int 5) (.cons (.list (.cons (.bool false) (.cons (.bool true) .nil))) .nil))) {} 6
      = .ok [0x08, 0x05, 0x10, 0x00, 0x10, 0x01]) := by
  rw [Lemmas.ProtoTo.encodeTo_spec, Lemmas.ProtoTo.encodeTo_spec]
  decide +kernel

end Enc.Props.C16
