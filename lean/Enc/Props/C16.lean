import Enc.Lemmas.Proto
import Enc.Model.ProtoTo
import Enc.Lemmas.ProtoTo
import Enc.Lemmas.ProtoMsgMain
/-!
# C16 — proto.MarshalTo honours the caller's buffer for every size
Property theorems only. `encodeTo … avail` is the model of the buffer-checked encoders (Enc/Model/ProtoTo.lean).
-/
namespace Enc.Props.C16
open Enc Enc.Model.Proto

/-- the varint primitive checks before it writes: for EVERY available length -/
theorem encodeVarintTo_spec (avail : Nat) (v : BitVec 64) :
    encodeVarintTo avail v = if sizeOfVarint v ≤ avail then .ok (encodeVarint v) else .err "shortBuffer" := by
  unfold encodeVarintTo short
  by_cases h : avail < sizeOfVarint v
  · simp [h]
  · simp [h]

/-- the encoding that MarshalTo writes when it succeeds has exactly Size(v) bytes -/
theorem marshal_len (t : Ty) (v : Val) : (marshal t v).length = marshalSize t v :=
  Lemmas.Proto.size_eq _ _ _

/-- **Main theorem of C16.** For every codec tree (message type), value, flag combination and EVERY buffer length
`avail`: the buffer-checked encoder succeeds exactly when `avail ≥ Size`, then writes exactly the bytes of `Marshal`;
otherwise it returns `io.ErrShortBuffer` — and it never panics. -/
theorem encodeTo_spec (c : Codec) (v : Val) (fl : Flags) (avail : Nat) :
    encodeTo c v fl avail = if size c v fl ≤ avail then .ok (encode c v fl) else .err "shortBuffer" :=
  Lemmas.ProtoTo.encodeTo_spec c v fl avail

/-- MarshalTo(b, v) with len(b) ≥ Size(v): the encoding of Marshal(v), of exactly Size(v) bytes -/
theorem marshalTo_enough (t : Ty) (v : Val) (avail : Nat) (h : marshalSize t v ≤ avail) :
    marshalTo t v avail = .ok (marshal t v) ∧ (marshal t v).length = marshalSize t v := by
  refine ⟨?_, Lemmas.Proto.size_eq _ _ _⟩
  unfold marshalTo marshal
  rw [Lemmas.ProtoTo.encodeTo_spec]
  simp only [marshalSize] at h
  simp [h]

/-- every shorter buffer — every length from 0 to Size(v)-1 — gives io.ErrShortBuffer (an error, not a panic) -/
theorem marshalTo_short (t : Ty) (v : Val) (avail : Nat) (h : avail < marshalSize t v) :
    marshalTo t v avail = .err "shortBuffer" := by
  unfold marshalTo
  rw [Lemmas.ProtoTo.encodeTo_spec]
  simp only [marshalSize] at h
  have : ¬ size (codecOf t) v { toplevel := true, inline := true } ≤ avail := by omega
  simp [this]

/-- non-vacuity: a value with Size 6, tried with 5 and 6 bytes -/
example : (encodeTo (.struct (.cons 1 false false false .int32 (.cons 2 false true false (.slice .bool 2 .varint false) .nil)))
    (.struct (.cons (.int 5) (.cons (.list (.cons (.bool false) (.cons (.bool true) .nil))) .nil))) {} 5 = .err "shortBuffer")
  ∧ (encodeTo (.struct (.cons 1 false false false .int32 (.cons 2 false true false (.slice .bool 2 .varint false) .nil)))
    (.struct (.cons (.int 5) (.cons (.list (.cons (.bool false) (.cons (.bool true) .nil))) .nil))) {} 6
      = .ok [0x08, 0x05, 0x10, 0x00, 0x10, 0x01]) := by
  rw [Lemmas.ProtoTo.encodeTo_spec, Lemmas.ProtoTo.encodeTo_spec]
  decide +kernel

/-! ## … with user-defined types (proto.Message implementers, gogo-style custom types) in the message

`Model.ProtoMsg`: `encodeToUsr ops` is the buffer-checked encoder with the user's methods as parameters (`ops : UserOps`;
messageEncodeFuncOf / customEncodeFuncOf at the opaque leaves `Codec.message`). USER CONTRACT `LeavesOK ops c v`: at every user
value inside `v`, `Marshal` succeeds and fills exactly `Size()` bytes. `absV ops c v` is `v` with every user value replaced by
the bytes it marshals to. Proofs in Enc/Lemmas/ProtoMsg{Link,Main}.lean. -/

open Lemmas.ProtoMsg in
/-- **MarshalTo honours the buffer with opaque fields.** Under the user contract, for every codec tree, value, flags and
EVERY buffer length: success exactly when `avail ≥ Size`, then exactly the bytes of `Marshal` (the payload-level encoding
with each user value's own bytes in place); otherwise `io.ErrShortBuffer` — before any user method is asked to write, and
never a panic. -/
theorem marshalTo_opaque (ops : UserOps) (c : Codec) (v : Val) (fl : Flags) (avail : Nat) (h : LeavesOK ops c v) :
    encodeToUsr ops c v fl avail
      = if sizeUsr ops c v fl ≤ avail then .ok (encode c (absV ops c v) fl) else .err "shortBuffer" :=
  Lemmas.ProtoMsg.encodeToUsr_spec ops c v fl avail h

open Lemmas.ProtoMsg in
/-- … at the entry point, enough room: the result of `Marshal(v)` -/
theorem marshalTo_opaque_enough (ops : UserOps) (t : Ty) (v : Val) (avail : Nat) (h : LeavesOK ops (codecOf t) v)
    (ha : marshalSizeUsr ops t v ≤ avail) : marshalToUsr ops t v avail = marshalUsr ops t v :=
  Lemmas.ProtoMsg.marshalToUsr_enough ops t v avail h ha

open Lemmas.ProtoMsg in
/-- … every shorter buffer: io.ErrShortBuffer -/
theorem marshalTo_opaque_short (ops : UserOps) (t : Ty) (v : Val) (avail : Nat) (h : LeavesOK ops (codecOf t) v)
    (ha : avail < marshalSizeUsr ops t v) : marshalToUsr ops t v avail = .err "shortBuffer" :=
  Lemmas.ProtoMsg.marshalToUsr_short ops t v avail h ha

open Lemmas.ProtoMsg in
/-- non-vacuity: `struct{ A int32; U T; P *T; L []T; M map[string]T }` with a user type `T` whose `Marshal` writes its state
REVERSED (`revOps`); Size 25, tried with 24 and 25 bytes; and RawMessage (`rawOps`, identity on bytes) satisfies the contract
at every value of every type -/
example : LeavesOK revOps exUC exUV
    ∧ encodeToUsr revOps exUC exUV {} 24 = .err "shortBuffer"
    ∧ encodeToUsr revOps exUC exUV {} 25
        = .ok [0x08, 7, 0x12, 3, 3, 2, 1, 0x1a, 2, 5, 4, 0x22, 1, 6, 0x22, 0, 0x2a, 7, 0x0a, 1, 0x6b, 0x12, 2, 9, 8]
    ∧ ∀ c v, LeavesOK rawOps c v :=
  ⟨exU_ok, by decide +kernel, by decide +kernel, leavesOK_rawOps⟩

end Enc.Props.C16
