import Enc.Spec.Json.Grammar
/-!
Specification of the token stream of a valid JSON document: a grammar-directed walk that DEFINES
depth (number of enclosing containers), index (position of the element / member within its parent) and the
key/value role, independently of the tokenizer's stack machine.
-/
namespace Enc.Spec.Json
open Enc

structure STok where
  delim : UInt8
  value : Bytes
  depth : Nat
  index : Nat
  isKey : Bool
  deriving Repr

/-- a scalar starting at `b` (string / number / literal) and the rest -/
def scalar (b : Bytes) : Option (Bytes × Bytes) :=
  match b with
  | [] => none
  | c :: _ =>
    let r := if c == 0x22 then string b
             else if c == 0x6e then lit [0x6e, 0x75, 0x6c, 0x6c] b
             else if c == 0x74 then lit [0x74, 0x72, 0x75, 0x65] b
             else if c == 0x66 then lit [0x66, 0x61, 0x6c, 0x73, 0x65] b
             else number b
    r.map fun rest => (b.take (b.length - rest.length), rest)

mutual
/-- tokens of one value located at (depth, index) -/
def tokValue : Nat → Nat → Nat → Bytes → Option (List STok × Bytes)
  | 0, _, _, _ => none
  | fuel + 1, depth, index, b =>
    match b with
    | [] => none
    | c :: r =>
      if c == 0x5b then
        (tokElems fuel (depth + 1) 0 (ws r)).map fun (ts, rest) =>
          ({ delim := 0x5b, value := [0x5b], depth := depth, index := index, isKey := false } :: ts
             ++ [{ delim := 0x5d, value := [0x5d], depth := depth, index := index, isKey := false }], rest)
      else if c == 0x7b then
        (tokMembers fuel (depth + 1) 0 (ws r)).map fun (ts, rest) =>
          ({ delim := 0x7b, value := [0x7b], depth := depth, index := index, isKey := false } :: ts
             ++ [{ delim := 0x7d, value := [0x7d], depth := depth, index := index, isKey := false }], rest)
      else (scalar b).map fun (v, rest) => ([{ delim := 0, value := v, depth := depth, index := index, isKey := false }], rest)
/-- elements of an array whose contents are at `depth`; `i` = index of the next element; stops after "]" -/
def tokElems : Nat → Nat → Nat → Bytes → Option (List STok × Bytes)
  | 0, _, _, _ => none
  | fuel + 1, depth, i, b =>
    match b with
    | [] => none
    | c :: r =>
      if c == 0x5d && i == 0 then some ([], r)
      else
        (tokValue fuel depth i b).bind fun (ts, rest) =>
          match ws rest with
          | 0x5d :: r2 => some (ts, r2)
          | 0x2c :: r2 =>
            (match ws r2 with
             | 0x5d :: _ => none                                   -- trailing comma
             | _ =>
              (tokElems fuel depth (i + 1) (ws r2)).bind fun (ts2, rest2) =>
                some (ts ++ [{ delim := 0x2c, value := [0x2c], depth := depth, index := i, isKey := false }] ++ ts2, rest2))
          | _ => none
def tokMembers : Nat → Nat → Nat → Bytes → Option (List STok × Bytes)
  | 0, _, _, _ => none
  | fuel + 1, depth, i, b =>
    match b with
    | [] => none
    | c :: r =>
      if c == 0x7d && i == 0 then some ([], r)
      else
        (string b).bind fun afterKey =>
          let key := b.take (b.length - afterKey.length)
          match ws afterKey with
          | 0x3a :: r1 =>
            (tokValue fuel depth i (ws r1)).bind fun (ts, rest) =>
              let head := [{ delim := 0, value := key, depth := depth, index := i, isKey := true : STok },
                           { delim := 0x3a, value := [0x3a], depth := depth, index := i, isKey := false }] ++ ts
              match ws rest with
              | 0x7d :: r2 => some (head, r2)
              | 0x2c :: r2 =>
                (match ws r2 with
                 | 0x7d :: _ => none
                 | _ =>
                  (tokMembers fuel depth (i + 1) (ws r2)).bind fun (ts2, rest2) =>
                    some (head ++ [{ delim := 0x2c, value := [0x2c], depth := depth, index := i, isKey := false }] ++ ts2, rest2))
              | _ => none
          | _ => none
end

/-- token stream of a valid document (none if the document is not valid JSON) -/
def tokensOf (b : Bytes) : Option (List STok) :=
  (tokValue (3 * b.length + 8) 0 0 (ws b)).bind fun (ts, rest) => if (ws rest).isEmpty then some ts else none

end Enc.Spec.Json
