import Enc.Base.Bytes
/-!
# strconv.ParseFloat(lit, 64): the one fact about it that decides success or failure of a JSON decode

`strconv.ParseFloat` is a *shared parameter*: /repo/json (decodeFloat64) and encoding/json (convertNumber) both call it
on the number literal, so the float64 VALUE is never modelled — a float64 leaf is represented by its literal. What does
matter for "fails exactly when encoding/json fails" is its error: for a literal of the RFC 8259 `number` syntax the only
error is `ErrRange`, returned when the correctly rounded result is ±Inf, i.e. (round-to-nearest-even, the largest finite
float64 having an odd mantissa) exactly when

    |value of the literal| ≥ 2^1024 − 2^970        (the midpoint between MaxFloat64 and 2^1024).

Underflow is not an error (the result is ±0). `floatOverflows` decides that inequality exactly, in integer arithmetic:
the literal is `[-] I [. F] [(e|E) [+|-] X]`, its absolute value is `D · 10^(±X − |F|)` with `D` the number written
`I F`. The two shortcuts only avoid computing astronomically large powers: `10^311 > 2^1024`, and a number with
fewer than `k` digits is below `10^k`.
(Deviation not modelled: strconv stops accumulating exponent digits beyond 10000, which matters only for documents with
more than 10000 fraction digits and a matching 5-digit exponent.)
-/
namespace Enc.Spec.Json
open Enc

/-- 2^1024 − 2^970 -/
def floatLimit : Nat := 2 ^ 1024 - 2 ^ 970

def fDigit (c : UInt8) : Bool := 0x30 ≤ c && c ≤ 0x39
def fNat (ds : Bytes) : Nat := ds.foldl (fun a c => a * 10 + (c.toNat - 0x30)) 0
def fSpan : Bytes → Bytes × Bytes
  | [] => ([], [])
  | c :: r => if fDigit c then let (a, b) := fSpan r; (c :: a, b) else ([], c :: r)

/-- `strconv.ParseFloat(lit, 64)` returns ErrRange (lit an RFC 8259 number literal) -/
def floatOverflows (lit : Bytes) : Bool :=
  let b := match lit with | 0x2d :: r => r | _ => lit
  let (ip, r1) := fSpan b
  let (fp, r2) : Bytes × Bytes := match r1 with | 0x2e :: r => fSpan r | _ => ([], r1)
  let (neg, xs) : Bool × Bytes :=
    match r2 with
    | c :: r => if c == 0x65 || c == 0x45 then
        (match r with | 0x2d :: r' => (true, (fSpan r').1) | 0x2b :: r' => (false, (fSpan r').1) | _ => (false, (fSpan r).1))
      else (false, [])
    | [] => (false, [])
  let d := fNat (ip ++ fp)
  let x : Int := if neg then -(fNat xs : Int) else (fNat xs : Int)
  let e10 : Int := x - (fp.length : Int)
  if d == 0 then false
  else if 0 ≤ e10 then
    if 310 < e10 then true else decide (floatLimit ≤ d * 10 ^ e10.toNat)
  else
    let k := (-e10).toNat
    if (ip.length + fp.length) < k then false else decide (floatLimit * 10 ^ k ≤ d)

end Enc.Spec.Json
