import Enc.Model.Json.OmitEmpty
/-!
# encoding/json `isEmptyValue` (go1.23 encoding/json/encode.go) — the table `omitempty` is documented with

"false, 0, a nil pointer, a nil interface value, and any empty array, slice, map, or string":

    Array, Map, Slice, String                           → v.Len() == 0
    Bool, Int*, Uint*, Uintptr, Float*, Interface, Ptr  → v.IsZero()       (reflect: !Bool / Int()==0 / Uint()==0 /
                                                                            Float()==0 / IsNil)
    everything else (struct — time.Time included —, complex, chan, func, unsafe.Pointer) → false

Only the types of the facts (`Kind`, `Facts`, `Outcome`) are shared with the model; the identity of the field type with
[]byte / RawMessage plays no role here.
-/
namespace Enc.Spec.Json.OmitEmpty
open Enc.Model.Json.OmitEmpty (Kind Facts Outcome)

def isNumericWord : Kind → Bool
  | .int | .int8 | .int16 | .int32 | .int64 | .uint | .uint8 | .uint16 | .uint32 | .uint64 | .uintptr => true
  | _ => false

def isFloat : Kind → Bool
  | .float32 | .float64 => true
  | _ => false

def hasLen : Kind → Option (Facts → Nat)
  | .array n => some fun _ => n
  | .map | .slice | .string => some fun f => f.len
  | _ => none

def isEmptyValue (k : Kind) (f : Facts) : Bool :=
  match hasLen k with
  | some len => len f == 0
  | none =>
    if k = .bool then !f.boolVal
    else if isNumericWord k then f.wordZero
    else if isFloat k then f.floatEqZero
    else if k = .iface then f.ifaceTypNil
    else if k = .ptr then f.ptrNil
    else false

/-- structEncoder.encode: `if f.omitEmpty && isEmptyValue(fv) { continue }`, else the field's encoder runs -/
def fieldOutcome (k : Kind) (f : Facts) : Outcome :=
  if isEmptyValue k f then .omitted else if f.encFails then .error else .written

end Enc.Spec.Json.OmitEmpty
