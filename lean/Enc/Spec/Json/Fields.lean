import Enc.Model.Json.Fields
/-!
# Specification: the struct fields encoding/json serialises (encoding/json/encode.go typeFields, dominantField; Go 1.23)

Stated declaratively over the same type trees (only the tree types and the observable record `Field` are shared with
the model):

* the CANDIDATES are the fields reachable from the root through embedded structs: an unexported non-embedded field is
  not a candidate; an embedded field of an unexported non-struct type is not a candidate; a field whose whole tag is `-`
  is not a candidate; an embedded struct (or pointer to struct) WITHOUT a valid tag name is not a candidate itself, its
  own candidates are, one level deeper; everything else is a candidate, named by its tag name when that is non-empty and
  valid (then it is "tagged"), otherwise by its Go name (untagged) — a tag `-,` names the key `-`;
* per JSON name the DOMINANT candidate is serialised: the one of least depth, and among several of least depth the only
  tagged one; when neither singles out one candidate, none of that name is serialised;
* the members appear in the order of their index sequences (lexicographic).
-/
namespace Enc.Spec.Json.Fields
open Enc Enc.Model.Json.Fields

/-- `strings.Cut(tag, ",")`: the tag name, and the options when there is a comma -/
def cutComma : Bytes → Bytes × Option Bytes
  | [] => ([], none)
  | c :: r =>
    if c = 0x2c then ([], some r)
    else let (a, b) := cutComma r; (c :: a, b)

/-- tagOptions.Contains: one of the comma-separated options is `o` -/
def hasOptFrom (o : Bytes) : Bytes → Bytes → Bool
  | cur, [] => decide (cur.reverse = o)
  | cur, c :: r => if c = 0x2c then decide (cur.reverse = o) || hasOptFrom o [] r else hasOptFrom o (c :: cur) r

def hasOpt (opts : Option Bytes) (o : Bytes) : Bool :=
  match opts with
  | none => false
  | some s => hasOptFrom o [] s

/-- encoding/json isValidTag on ASCII: letters, digits and the punctuation other than quote, backslash, comma … -/
def validTagChar (c : UInt8) : Bool :=
  (0x30 ≤ c && c ≤ 0x39) || (0x41 ≤ c && c ≤ 0x5a) || (0x61 ≤ c && c ≤ 0x7a) ||
  -- space ! # $ % &  ( ) * + - . /  : ; < = > ? @  [ ] ^ _  { | } ~
  c = 0x20 || c = 0x21 || (0x23 ≤ c && c ≤ 0x26) || (0x28 ≤ c && c ≤ 0x2b) || (0x2d ≤ c && c ≤ 0x2f) ||
  (0x3a ≤ c && c ≤ 0x40) || c = 0x5b || (0x5d ≤ c && c ≤ 0x5f) || (0x7b ≤ c && c ≤ 0x7e)

def validTagName (s : Bytes) : Bool := !s.isEmpty && s.all validTagChar

/-- a candidate field: JSON name, index sequence (its length is the depth), named by a tag?, options -/
structure Cand where
  name : Bytes
  path : List Nat
  tagged : Bool
  omitempty : Bool
  quoted : Bool
  viaPtr : Bool
  deriving DecidableEq, Repr

def Cand.depth (c : Cand) : Nat := c.path.length
def Cand.field (c : Cand) : Field := ⟨c.name, c.path, c.omitempty, c.quoted, c.viaPtr⟩

/-- how one struct field enters the candidate set -/
inductive Role where
  | ignored
  | embedded                                                 -- explored one level deeper
  | candidate (name : Bytes) (tagged omitempty stringOpt : Bool)
  deriving DecidableEq, Repr

def role (goName tag : Bytes) (anonymous exported isStruct : Bool) : Role :=
  if !anonymous && !exported then .ignored
  else if anonymous && !exported && !isStruct then .ignored
  else if tag = [0x2d] then .ignored
  else
    let (n, opts) := cutComma tag
    let tagged := validTagName n
    if anonymous && isStruct && !tagged then .embedded
    else .candidate (if tagged then n else goName) tagged (hasOpt opts bOmitempty) (hasOpt opts bString)

mutual
/-- candidates of the struct whose fields from position `i` on are given, index sequences relative to that struct -/
def cands : Fields → Nat → List Cand
  | .nil, _ => []
  | .cons goName tag anonymous exported ty rest, i =>
    (match role goName tag anonymous exported ty.isStruct with
     | .ignored => []
     | .embedded => (candsOf ty).map fun c => { c with path := i :: c.path, viaPtr := ty.isPtr || c.viaPtr }
     | .candidate name tagged omitempty stringOpt =>
       [⟨name, [i], tagged, omitempty, stringOpt && ty.isScalar, false⟩])
    ++ cands rest (i + 1)
def candsOf : Ty → List Cand
  | .struct fs => cands fs 0
  | .ptrStruct fs => cands fs 0
  | _ => []
end

/-- `c` beats `d`: shallower, or equally deep and the only one of the two named by a tag -/
def beats (c d : Cand) : Bool :=
  decide (c.depth < d.depth) || (c.depth == d.depth && c.tagged && !d.tagged)

/-- `c` is serialised: it beats every other candidate of its name -/
def dominant (all : List Cand) (c : Cand) : Bool :=
  all.all fun d => d.path == c.path || d.name != c.name || beats c d

/-- slices.Compare on index sequences, as "not greater" -/
def pathLE : List Nat → List Nat → Bool
  | [], _ => true
  | _ :: _, [] => false
  | a :: p, b :: q => a < b || (a == b && pathLE p q)

def candidates (fs : Fields) : List Cand := cands fs 0

/-- the members of the JSON object encoding/json writes for a struct of this type, in output order -/
def stdFields (fs : Fields) : List Field :=
  (((candidates fs).filter (dominant (candidates fs))).mergeSort fun a b => pathLE a.path b.path).map Cand.field

/-- the JSON names of all candidates (the known finding json-field-name-collision needs two equal ones) -/
def candidateNames (fs : Fields) : List Bytes := (candidates fs).map (·.name)

/-- pairwise distinct -/
def distinct : List Bytes → Bool
  | [] => true
  | n :: r => !r.contains n && distinct r

/-- no two candidates share a JSON name -/
def collisionFree (fs : Fields) : Bool := distinct (candidateNames fs)

/-! ### the hypotheses of the agreement theorems (Props/C01Fields.lean) -/

mutual
/-- the part of the tree that takes part in the resolution is regular: no Go name is `-` (true of every Go
identifier; the model, like the code, tests the NAME against `-` where encoding/json tests the tag) -/
def regular : Fields → Bool
  | .nil => true
  | .cons goName tag anonymous exported ty rest =>
    goName != bDash &&
      (match role goName tag anonymous exported ty.isStruct with
       | .embedded => regularTy ty
       | _ => true) && regular rest
def regularTy : Ty → Bool
  | .struct fs => regular fs
  | .ptrStruct fs => regular fs
  | _ => true
end

/-! ### Go's shadowing rule alone: a sharper agreement condition -/

/-- the JSON names of the candidates that are direct fields of the struct (depth 1) -/
def directNames : Fields → List Bytes
  | .nil => []
  | .cons goName tag anonymous exported ty rest =>
    (match role goName tag anonymous exported ty.isStruct with
     | .candidate name _ _ _ => [name]
     | _ => []) ++ directNames rest

mutual
/-- the candidates that are not shadowed: a field of an embedded struct is hidden by a direct field of the same JSON
name of the embedding struct (at any enclosing level); `dn` = the direct names of the struct being listed -/
def visibleFrom (dn : List Bytes) : Fields → Nat → List Cand
  | .nil, _ => []
  | .cons goName tag anonymous exported ty rest, i =>
    (match role goName tag anonymous exported ty.isStruct with
     | .ignored => []
     | .embedded => ((visibleOf ty).filter fun c => !dn.contains c.name).map fun c =>
         { c with path := i :: c.path, viaPtr := ty.isPtr || c.viaPtr }
     | .candidate name tagged omitempty stringOpt =>
       [⟨name, [i], tagged, omitempty, stringOpt && ty.isScalar, false⟩])
    ++ visibleFrom dn rest (i + 1)
def visibleOf : Ty → List Cand
  | .struct fs => visibleFrom (directNames fs) fs 0
  | .ptrStruct fs => visibleFrom (directNames fs) fs 0
  | _ => []
end

def visible (fs : Fields) : List Cand := visibleFrom (directNames fs) fs 0

/-- after shadowing no two candidates share a JSON name: every remaining collision would be between fields that do
not hide one another (two direct fields of one struct, or fields of two different embedded structs) -/
def shadowingOnly (fs : Fields) : Bool := distinct ((visible fs).map (·.name))

/-! ### decoding: the member a JSON key denotes (encoding/json decode.go object: byExactName, then byFoldedName) -/

/-- foldName on ASCII -/
def foldAscii (s : Bytes) : Bytes := s.map fun c => if 0x61 ≤ c && c ≤ 0x7a then c - 0x20 else c

def lookupKey (fs : List Field) (key : Bytes) : Option Field :=
  match fs.find? fun f => f.name == key with
  | some f => some f
  | none => fs.find? fun f => foldAscii f.name == foldAscii key

end Enc.Spec.Json.Fields
