import Enc.Base.Utf8
/-!
What `encoding/json` (go1.23) writes for strings and integers — the specification side for C01's scalar layer.
`appendString`: bytes in the safe set are copied; `"` `\` → backslash forms; \b \f \n \r \t short forms; other control
bytes and, with escapeHTML, `<` `>` `&` → \u00XX; invalid UTF-8 → �; U+2028 / U+2029 →   /  .
-/
namespace Enc.Spec.Json
open Enc

def hexLower (n : Nat) : UInt8 := if n < 10 then UInt8.ofNat (0x30 + n) else UInt8.ofNat (0x61 + n - 10)

def safe (c : UInt8) (escapeHTML : Bool) : Bool :=
  0x20 ≤ c && c < 0x80 && c != 0x22 && c != 0x5c && !(escapeHTML && (c == 0x3c || c == 0x3e || c == 0x26))

def appendChars (escapeHTML : Bool) : Nat → Bytes → Bytes
  | 0, _ => []
  | fuel + 1, s =>
    match s with
    | [] => []
    | c :: rest =>
      if c < 0x80 then
        if safe c escapeHTML then c :: appendChars escapeHTML fuel rest
        else
          let esc : Bytes :=
            if c == 0x5c || c == 0x22 then [0x5c, c]
            else if c == 0x08 then [0x5c, 0x62] else if c == 0x0c then [0x5c, 0x66]
            else if c == 0x0a then [0x5c, 0x6e] else if c == 0x0d then [0x5c, 0x72] else if c == 0x09 then [0x5c, 0x74]
            else [0x5c, 0x75, 0x30, 0x30, hexLower (c.toNat / 16), hexLower (c.toNat % 16)]
          esc ++ appendChars escapeHTML fuel rest
      else
        let (r, size) := Utf8.decodeRune s
        if r == Utf8.runeError && size == 1 then [0x5c, 0x75, 0x66, 0x66, 0x66, 0x64] ++ appendChars escapeHTML fuel rest
        else if r == 0x2028 || r == 0x2029 then
          [0x5c, 0x75, 0x32, 0x30, 0x32, hexLower (r % 16)] ++ appendChars escapeHTML fuel (s.drop size)
        else s.take size ++ appendChars escapeHTML fuel (s.drop size)

def appendString (s : Bytes) (escapeHTML : Bool) : Bytes := [0x22] ++ appendChars escapeHTML (s.length + 1) s ++ [0x22]

/-- decimal digits of n, most significant first -/
def decimal (n : Nat) : Bytes := (Nat.toDigits 10 n).map fun c => UInt8.ofNat c.toNat
def intString (i : Int) : Bytes := if i < 0 then 0x2d :: decimal i.natAbs else decimal i.natAbs

end Enc.Spec.Json
