import Enc.Model.Json.Inlined
/-!
# The Go rule for "stored directly in an interface" (cmd/compile/internal/types `IsDirectIface`; the same rule sets
`abi.KindDirectIface` in reflect.StructOf / ArrayOf / PointerTo …; reflect reads it as `!t.IfaceIndir()`)

    pointers (to heap types), channels, maps, functions, unsafe.Pointer           → direct
    an array of exactly 1 element of a direct type                                → direct
    a struct with exactly 1 field (blank and zero-size fields count) of a direct type → direct
    everything else                                                               → indirect
Only the type universe is shared with the model.
-/
namespace Enc.Spec.Json.DirectIface
open Enc.Model.Json.Inlined (Ty Tys)

mutual
def isDirectIface : Ty → Bool
  | .ptr | .chan | .map | .func | .unsafePointer => true
  | .array n e => if n = 1 then isDirectIface e else false
  | .struct fs => soleFieldDirect fs
  | .other => false
/-- the struct has exactly one field and it is direct -/
def soleFieldDirect : Tys → Bool
  | .cons t .nil => isDirectIface t
  | _ => false
end

end Enc.Spec.Json.DirectIface
