import Enc.Spec.Json.Grammar
/-!
Chunking-free specification of the value stream a `json.Decoder` yields over a byte string (C11).

The stream is read off the concatenated bytes alone: skip RFC 8259 white space; at the end of the bytes the stream ends
(`eof`); otherwise the bytes must start with a `value` (RFC 8259 grammar of `Enc.Spec.Json.Grammar`, with the nesting
budget 10000 that the decoder enforces), which is yielded with its exact extent, and the stream continues after it;
if they do not, the stream ends with `err` (syntax error, or the bytes end inside a value).
`fuel` bounds the number of elements; `b.length + 1` is always enough (every value is at least one byte long).
-/
namespace Enc.Spec.Json
open Enc

inductive SOut where
  | value (raw : Bytes)
  | eof
  | err                       -- syntax error or unexpected end inside a value
  deriving DecidableEq, Repr

def specStream : Nat → Bytes → List SOut
  | 0, _ => []
  | fuel + 1, b =>
    let b := ws b
    if b.isEmpty then [.eof]
    else match value (3 * b.length + 8) 10000 b with
      | some r => .value (b.take (b.length - r.length)) :: specStream fuel r
      | none => [.err]

end Enc.Spec.Json
