import Enc.Spec.Json.Grammar
/-!
Chunking-free specification of the value stream a `json.Decoder` yields over a byte string (C11).

The stream is read off the concatenated bytes alone: skip RFC 8259 white space; at the end of the bytes the stream ends
(`eof`); otherwise the bytes must start with a `value` (RFC 8259 grammar of `Enc.Spec.Json.Grammar`, with the nesting
budget 10000 that the decoder enforces), which is yielded with its exact extent, and the stream continues after it;
if they do not, the stream ends with `err` (syntax error, or the bytes end inside a value).
`fuel` bounds the number of elements; `b.length + 1` is always enough (every value is at least one byte long).
-/
namespace Enc.Spec.Json
open Enc

inductive SOut where
  | value (raw : Bytes)
  | eof
  | err                       -- syntax error or unexpected end inside a value
  deriving DecidableEq, Repr

def specStream : Nat → Bytes → List SOut
  | 0, _ => []
  | fuel + 1, b =>
    let b := ws b
    if b.isEmpty then [.eof]
    else match value (3 * b.length + 8) 10000 b with
      | some r => .value (b.take (b.length - r.length)) :: specStream fuel r
      | none => [.err]

/-- The same stream with the POSITIONS of its elements in the whole input: `specStreamPos fuel pos b` is the stream of the
bytes `b` that begin at position `pos`. A value is reported with `(start, stop)`: the position of its first byte and the
position just after its last byte; the end of the input and an error are reported with the position where the stream stops
(after the white space) twice. `InputOffset` after a successful `Decode` must lie between the `stop` of the value just
returned and the `start` of the next element. -/
def specStreamPos : Nat → Nat → Bytes → List (SOut × Nat × Nat)
  | 0, _, _ => []
  | fuel + 1, pos, b =>
    let b' := ws b
    let start := pos + (b.length - b'.length)
    if b'.isEmpty then [(.eof, start, start)]
    else match value (3 * b'.length + 8) 10000 b' with
      | some r =>
        let stop := start + (b'.length - r.length)
        (.value (b'.take (b'.length - r.length)), start, stop) :: specStreamPos fuel stop r
      | none => [(.err, start, start)]

/-- `Parse`: the bytes after the first value and the white space that follows it (`none`: the input does not begin, after
white space, with a value) -/
def specParseRem (b : Bytes) : Option Bytes :=
  let b' := ws b
  (value (3 * b'.length + 8) 10000 b').map ws

end Enc.Spec.Json
