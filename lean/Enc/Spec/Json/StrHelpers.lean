import Enc.Spec.Json.StdEnc
import Enc.Spec.Json.DecAnySpec
import Enc.Spec.Json.RoundTrip
/-!
# What the string helpers of the json package denote, without buffers

Written from the documentation of the helpers and encoding/json's behaviour (`appendString`, `unquote`, the RFC 8259
recogniser `string` of Grammar.lean); no destination, no capacity, no scratch buffer appears here.
-/
namespace Enc.Spec.Json
open Enc

/-- `AppendEscape(b, s, flags)` appends the JSON string literal encoding/json writes for `s` -/
def escapeStd (s : Bytes) (html : Bool) : Bytes := appendString s html

/-- `AppendUnescape(b, s, 0)` appends the content of the string literal that `s` starts with, unquoted as encoding/json
does; whatever follows the literal is ignored, and nothing is appended when `s` does not start with a string literal
(`null`, other values, malformed text, leading white space): the helper has no error result. -/
def unescapeStd (s : Bytes) : Bytes :=
  match string s with
  | some rest => unquoteLit (consumed s rest)
  | none => []

/-- `RawValue.AppendUnquote(b)`: the receiver must be exactly one string literal (documented to panic otherwise = none) -/
def unquoteTok (v : Bytes) : Option Bytes :=
  match string v with
  | some [] => some (unquoteLit v)
  | _ => none

end Enc.Spec.Json
