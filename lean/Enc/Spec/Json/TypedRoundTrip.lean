import Enc.Spec.Json.EncTypedSpec
import Enc.Spec.Json.RoundTrip
import Enc.Spec.Json.FloatRange
import Enc.Spec.Json.DecTypedSpec
/-!
# What `Unmarshal(Marshal(v), &fresh)` must give back for a typed value (C14 / encoding/json's contract)

`norm v` — the content of a fresh (zero) target of the same type after the round trip. JSON text carries everything except
* pointer IDENTITY: every pointer comes back freshly allocated (`ptr old v` ↦ `ptr false …`);
* a NON-NIL pointer to a nil slice / nil map / nil interface: it is written `null` like a nil pointer and comes back as a nil
  pointer (`encodesNull`; found by the differential test `json.rttyped`, same in encoding/json);
* what lies between `len` and `cap` of a slice (`stale` ↦ nothing);
* bytes of a Go string that are not valid UTF-8: each becomes U+FFFD (`coerceUTF8`, Go's `string([]rune(s))`).
Everything else survives, in particular nil vs empty: a nil slice / map / pointer / interface is written `null` and comes back
nil; an empty non-nil slice / map is written `[]` / `{}` and comes back empty and non-nil.

`canon` — the values for which this holds (decidable):
* the value has the shape of its type; integers are in the range of their width; a nil slice / map has no elements;
* map keys are valid UTF-8 and strictly ascending (the canonical representation of Model/Json/DecTyped.lean: distinct keys);
* a float64 literal is CANONICAL (`canonFloat`): it is what strconv + the ES6 clean-up write for the value it denotes, so
  that the literal itself comes back (strconv's `ParseFloat ∘ FormatFloat = id` is outside the model: a `JV.float lit` IS
  its literal), it is a number of the RFC 8259 grammar and does not overflow;
* an interface holds nil or a generic value (bool, float64 — json.Number under UseNumber —, string, []any, map[string]any)
  as `Unmarshal` itself produces them: a pointer or any other concrete type inside an interface comes back as a generic value,
  which is a different Go value (encoding/json likewise).
-/
namespace Enc.Spec.Json
open Enc
open Enc.Model.Json (GV GVs GMs DynKind bytesLt)
open Enc.Model.Json.Typed (JT JFs JV JVs JMs Strconv TFlags)

mutual
def normG : GV → GV
  | .str s => .str (coerceUTF8 s)
  | .arr vs => .arr (normGs vs)
  | .obj ms => .obj (normGm ms)
  | g => g
def normGs : GVs → GVs
  | .nil => .nil
  | .cons v r => .cons (normG v) (normGs r)
def normGm : GMs → GMs
  | .nil => .nil
  | .cons k v r => .cons k (normG v) (normGm r)
end

/-- the value is written `null`: a nil slice / map / pointer / interface — also behind non-nil pointers -/
def encodesNull : JV → Bool
  | .slice isNil _ _ => isNil
  | .map isNil _ => isNil
  | .nilptr => true
  | .anyv .null => true
  | .ptr _ v => encodesNull v
  | _ => false

mutual
def norm : JV → JV
  | .str s => .str (coerceUTF8 s)
  | .slice n vs _ => .slice n (norms vs) .nil
  | .array vs => .array (norms vs)
  | .map n ms => .map n (normMs ms)
  | .ptr _ v => if encodesNull v then .nilptr else .ptr false (norm v)
  | .strct vs => .strct (norms vs)
  | .anyv g => .anyv (normG g)
  | v => v
def norms : JVs → JVs
  | .nil => .nil
  | .cons v r => .cons (norm v) (norms r)
def normMs : JMs → JMs
  | .nil => .nil
  | .cons k v r => .cons k (norm v) (normMs r)
end

/-- the literal is what the encoder writes for the float64 it denotes, is a JSON number and is finite -/
def canonFloat (sc : Strconv) (lit : Bytes) : Bool :=
  floatText sc lit == some lit && number lit == some [] && !floatOverflows lit

def validUTF8B (s : Bytes) : Bool := validUTF8 s.length s

/-- `k` is below the first key of the rest -/
def keyBelowG (k : Bytes) : GMs → Bool
  | .nil => true
  | .cons k' _ _ => bytesLt k k'

def keyBelow (k : Bytes) : JMs → Bool
  | .nil => true
  | .cons k' _ _ => bytesLt k k'

mutual
def canonG (sc : Strconv) (c : TFlags) : GV → Bool
  | .null => true
  | .bool _ => true
  | .num lit .f64 => !c.useNumber && canonFloat sc lit
  | .num lit .num => c.useNumber && number lit == some []
  | .num _ _ => false
  | .str _ => true
  | .arr vs => canonGs sc c vs
  | .obj ms => canonGm sc c ms
def canonGs (sc : Strconv) (c : TFlags) : GVs → Bool
  | .nil => true
  | .cons v r => canonG sc c v && canonGs sc c r
def canonGm (sc : Strconv) (c : TFlags) : GMs → Bool
  | .nil => true
  | .cons k v r => validUTF8B k && keyBelowG k r && canonG sc c v && canonGm sc c r
end

def JVs.len : JVs → Nat
  | .nil => 0
  | .cons _ r => JVs.len r + 1

mutual
def canon (sc : Strconv) (c : TFlags) : JT → JV → Bool
  | .bool, .bool _ => true
  | .int w, .int i => decide ((intRange w).1 ≤ i ∧ i ≤ (intRange w).2)
  | .float, .float lit => canonFloat sc lit
  | .str, .str _ => true
  | .slice e, .slice isNil vs _ => (if isNil then (match vs with | .nil => true | _ => false) else true) && canons sc c e vs
  | .array n e, .array vs => JVs.len vs == n && canons sc c e vs
  | .mapS e, .map isNil ms => (if isNil then (match ms with | .nil => true | _ => false) else true) && canonMs sc c e ms
  | .ptr _, .nilptr => true
  | .ptr e, .ptr _ v => canon sc c e v
  | .strct fs, .strct vs => canonFs sc c fs vs
  | .any, .anyv g => canonG sc c g
  | _, _ => false
def canons (sc : Strconv) (c : TFlags) (e : JT) : JVs → Bool
  | .nil => true
  | .cons v r => canon sc c e v && canons sc c e r
def canonMs (sc : Strconv) (c : TFlags) (e : JT) : JMs → Bool
  | .nil => true
  | .cons k v r => validUTF8B k && keyBelow k r && canon sc c e v && canonMs sc c e r
def canonFs (sc : Strconv) (c : TFlags) : JFs → JVs → Bool
  | .nil, .nil => true
  | .cons _ t fr, .cons v vr => canon sc c t v && canonFs sc c fr vr
  | _, _ => false
end

/-- field names: valid UTF-8 and pairwise distinct (Go guarantees the latter; the former holds for identifiers) -/
def nameIn (n : Bytes) : JFs → Bool
  | .nil => false
  | .cons n' _ r => n == n' || nameIn n r

mutual
def wfT : JT → Bool
  | .slice e => wfT e
  | .array _ e => wfT e
  | .mapS e => wfT e
  | .ptr e => wfT e
  | .strct fs => wfFs fs
  | _ => true
def wfFs : JFs → Bool
  | .nil => true
  | .cons n t r => validUTF8B n && !nameIn n r && wfT t && wfFs r
end

/-! ### nesting depth of the encoded text -/
mutual
def depthG : GV → Nat
  | .arr vs => depthGs vs + 1
  | .obj ms => depthGm ms + 1
  | _ => 0
def depthGs : GVs → Nat
  | .nil => 0
  | .cons v r => max (depthG v) (depthGs r)
def depthGm : GMs → Nat
  | .nil => 0
  | .cons _ v r => max (depthG v) (depthGm r)
end

mutual
def depthV : JV → Nat
  | .slice isNil vs _ => if isNil then 0 else depthVs vs + 1
  | .array vs => depthVs vs + 1
  | .map isNil ms => if isNil then 0 else depthMs ms + 1
  | .ptr _ v => depthV v
  | .strct vs => depthVs vs + 1
  | .anyv g => depthG g
  | .anyp _ _ v => depthV v
  | _ => 0
def depthVs : JVs → Nat
  | .nil => 0
  | .cons v r => max (depthV v) (depthVs r)
def depthMs : JMs → Nat
  | .nil => 0
  | .cons _ v r => max (depthV v) (depthMs r)
end

end Enc.Spec.Json
