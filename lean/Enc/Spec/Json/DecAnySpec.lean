import Enc.Spec.Json.Grammar
import Enc.Spec.Json.StdDec
import Enc.Spec.Json.DynNumber
import Enc.Spec.Json.FloatRange
import Enc.Model.Json.DecAny
/-!
# What encoding/json stores into `var x any` — by recursion on the RFC 8259 grammar (Spec/Json/Grammar.lean)

`valueV / elementsV / membersV` are the productions `value / elements / members` of the reference recogniser, each
returning, next to the remainder, the Go value that the matched text denotes (encoding/json's documented behaviour):

* `null` ↦ nil, `true`/`false` ↦ bool;
* a string ↦ its content unquoted as encoding/json's `unquote` does (`unquoteStd` of StdDec.lean: escapes, `\u` with UTF-16
  surrogate pairs, invalid UTF-8 and lone surrogates ↦ U+FFFD);
* a number ↦ a leaf carrying the literal, of the dynamic type given by the documented precedence
  UseUint64 > UseInt64 > UseBigInt > UseNumber > float64 (`dynSpec` of Spec/Json/DynNumber.lean; encoding/json itself only
  has float64 and, with `Decoder.UseNumber`, Number);
* an array ↦ the `[]any` of its elements in order;
* an object ↦ the `map[string]any` obtained by assigning the members in document order (`mapOf`: a later duplicate —
  after unquoting — overwrites the earlier value; the key set is the set of distinct keys).

`unmarshalAny`: the document must be `ws value ws` with nesting at most 10000 (otherwise a syntax error); a float64 leaf
anywhere in the document whose literal is out of range (`floatOverflows`) makes the decode fail with an UnmarshalTypeError.
The universe `GV` (and the canonical sorted representation of maps, `GMs.insert`) is shared with the model.
-/
namespace Enc.Spec.Json
open Enc
open Enc.Model.Json (GV GVs GMs DynKind DynFlags URes Prior TV UTRes)

/-- the text consumed by a production: input minus remainder -/
def consumed (b rest : Bytes) : Bytes := b.take (b.length - rest.length)

/-- content of a string literal `"…"` -/
def unquoteLit (lit : Bytes) : Bytes :=
  let inner := (lit.drop 1).take (lit.length - 2)
  unquoteStd (inner.length + 1) inner

/-- the dynamic type of a number leaf: the documented precedence -/
def dynKindOf (fl : DynFlags) (lit : Bytes) : DynKind :=
  match dynSpec fl lit with
  | .u64 _ => .u64
  | .i64 _ => .i64
  | .big _ => .big
  | .num _ => .num
  | _ => .f64

/-- the Go map built by assigning the members in document order -/
def mapOf (ms : List (Bytes × GV)) : GMs := ms.foldl (fun m kv => m.insert kv.1 kv.2) .nil

/-- result of a production: the value denoted, whether some float64 leaf of the matched text is out of range
(`floatOverflows`: encoding/json then reports an UnmarshalTypeError, even if the leaf is later overwritten by a duplicate
key), and the remainder -/
abbrev VR (α : Type) := Option (α × Bool × Bytes)

mutual
def valueV (fl : DynFlags) : Nat → Nat → Bytes → VR GV
  | 0, _, _ => none
  | fuel + 1, depth, b =>
    match b with
    | [] => none
    | c :: r =>
      if c == 0x7b then
        (if depth == 0 then none else (membersV fl fuel (depth - 1) (ws r) true).map fun x => (GV.obj (mapOf x.1), x.2))
      else if c == 0x5b then
        (if depth == 0 then none else (elementsV fl fuel (depth - 1) (ws r) true).map fun x => (GV.arr x.1, x.2))
      else if c == 0x22 then (string b).map fun r' => (GV.str (unquoteLit (consumed b r')), false, r')
      else if c == 0x6e then (lit [0x6e, 0x75, 0x6c, 0x6c] b).map fun r' => (GV.null, false, r')
      else if c == 0x74 then (lit [0x74, 0x72, 0x75, 0x65] b).map fun r' => (GV.bool true, false, r')
      else if c == 0x66 then (lit [0x66, 0x61, 0x6c, 0x73, 0x65] b).map fun r' => (GV.bool false, false, r')
      else (number b).map fun r' =>
        let l := consumed b r'
        let k := dynKindOf fl l
        (GV.num l k, k == .f64 && floatOverflows l, r')
def elementsV (fl : DynFlags) : Nat → Nat → Bytes → Bool → VR GVs
  | 0, _, _, _ => none
  | fuel + 1, depth, b, first =>
    match b with
    | [] => none
    | c :: r =>
      if c == 0x5d then some (.nil, false, r)
      else
        let b' : Option Bytes := if first then some b else (if c == 0x2c then some (ws r) else none)
        b'.bind fun b2 =>
          match b2 with
          | 0x5d :: _ => none
          | _ => (valueV fl fuel depth b2).bind fun x =>
              (elementsV fl fuel depth (ws x.2.2) false).map fun y => (GVs.cons x.1 y.1, x.2.1 || y.2.1, y.2.2)
def membersV (fl : DynFlags) : Nat → Nat → Bytes → Bool → VR (List (Bytes × GV))
  | 0, _, _, _ => none
  | fuel + 1, depth, b, first =>
    match b with
    | [] => none
    | c :: r =>
      if c == 0x7d then some ([], false, r)
      else
        let b' : Option Bytes := if first then some b else (if c == 0x2c then some (ws r) else none)
        b'.bind fun b2 =>
          (string b2).bind fun r2 =>
            match ws r2 with
            | 0x3a :: r3 => (valueV fl fuel depth (ws r3)).bind fun x =>
                (membersV fl fuel depth (ws x.2.2) false).map fun y =>
                  ((unquoteLit (consumed b2 r2), x.1) :: y.1, x.2.1 || y.2.1, y.2.2)
            | _ => none
end

/-- `Unmarshal(doc, &x)` for `var x any` (and, with flags, the documented meaning of the dynamic-number flags) -/
def unmarshalAny (fl : DynFlags) (doc : Bytes) : URes :=
  match valueV fl (3 * doc.length + 8) 10000 (ws doc) with
  | none => .syntaxErr
  | some (v, ovf, r) =>
    if !(ws r).isEmpty then .syntaxErr
    else if ovf then .typeErr
    else .ok v

/-- encoding/json's rule for an interface that already holds something ("To unmarshal JSON into an interface value …"):
only a non-nil pointer is decoded into — the document is decoded into the pointee and the interface keeps the pointer,
except that the document `null` sets the interface to nil —; anything else is replaced by the value of the document. -/
def unmarshalInto (fl : DynFlags) : Prior → Bytes → UTRes
  | .other, doc =>
    match unmarshalAny fl doc with
    | .ok v => .ok (.val v)
    | .syntaxErr => .syntaxErr
    | .typeErr => .typeErr
    | .unrep => .unrep
  | .ptrAny inner, doc =>
    match unmarshalAny fl doc with
    | .ok .null => .ok (.val .null)
    | _ =>
      match unmarshalInto fl inner doc with
      | .ok v => .ok (.ptr v)
      | e => e

end Enc.Spec.Json
