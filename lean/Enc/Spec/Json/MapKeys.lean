import Enc.Spec.Json.StdEnc
import Enc.Model.Json.MapKeyOrder
/-!
# What encoding/json does with map keys (go1.23 encoding/json/encode.go `mapEncoder.encode`, `resolveKeyName`)

    sv[i].ks = resolveKeyName(key):  kind String → key.String();  else TextMarshaler → (nil pointer → "") MarshalText;
                                     Int kinds → strconv.FormatInt(key.Int(), 10);  Uint kinds → strconv.FormatUint(key.Uint(), 10)
    slices.SortFunc(sv, strings.Compare(i.ks, j.ks))        -- byte-wise lexicographic on the TEXT of the key
    '{' then for each: (',') appendString(ks) ':' value '}'

`newMapEncoder` refuses (UnsupportedTypeError) a key type that is not of a string / integer kind and has no MarshalText.
Only the shared type of the key-type facts (`KeyType`, `SortBy`) comes from the model file.
-/
namespace Enc.Spec.Json.MapKeys
open Enc
open Enc.Model.Json.MapKeyOrder (KKind KeyType SortBy)

/-- byte-wise lexicographic `<` on byte strings: core's lexicographic order on lists -/
def lexLT (a b : Bytes) : Bool := decide (a < b)

/-- resolveKeyName / newMapEncoder: which text is the key's name -/
def keyNameOf (t : KeyType) : SortBy :=
  match t.kind with
  | .string => .str
  | k =>
    if t.marshalsText then .text
    else match k with
      | .int => .int
      | .uint => .uint
      | _ => .unsupportedType

/-- decoding (decode.go `object`): "map key must either have string kind, have an integer kind, or be an
encoding.TextUnmarshaler" — else UnmarshalTypeError for every object, `{}` included (`null` is handled before);
then per key: *K TextUnmarshaler → UnmarshalText (string kinds too), else by kind -/
def keyDecoderOf (t : KeyType) : SortBy :=
  if t.ptrUnmarshalsText then .text
  else match t.kind with
    | .string => .str
    | .int => .int
    | .uint => .uint
    | .other => .unsupportedType

/-- `ks` of an integer key with mathematical value `i` -/
def intKs (i : Int) : Bytes := intString i

/-- members sorted by key text (the result of any correct sort: key texts of a map's keys are distinct for string and
integer kinds) -/
def stdSort (l : List (Bytes × Bytes)) : List (Bytes × Bytes) := l.mergeSort fun p q => !lexLT q.1 p.1

def joinWithComma : List Bytes → Bytes
  | [] => []
  | [x] => x
  | x :: rest => x ++ [0x2c] ++ joinWithComma rest

/-- the object text for members given as (ks, already encoded value) in any order -/
def stdMapObject (html : Bool) (l : List (Bytes × Bytes)) : Bytes :=
  [0x7b] ++ joinWithComma ((stdSort l).map fun p => appendString p.1 html ++ [0x3a] ++ p.2) ++ [0x7d]

end Enc.Spec.Json.MapKeys
