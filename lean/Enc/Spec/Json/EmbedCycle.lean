import Enc.Model.Json.CodecChoice
/-!
# The type graph, and the shape excluded from `choose_eq_std`: a cycle made of EMBEDDED structs only

`children env t`: the types of the values a value of type `t` directly holds (element, pointer target, map value, field
types; map keys are written as text and never entered). `Reach env a b`: `b` occurs inside `a` (reflexive, transitive).
`embeds env S`: the struct types whose fields `S` promotes (anonymous untagged fields of struct kind, directly or through
one unnamed pointer). `EmbReach env a b`: `b` is reached from `a` through embedding alone.

`NoEmbeddedCycle env t`: no struct type `S` inside `t` embeds a struct type that embeds … embeds `S` again
(`type X struct { *Y; A int }; type Y struct { *X; B int }`). In such a cycle segmentio (since the repair of
`jsonEmbeddedStructUnderConstruction`: json/codec.go `structType.root`) cuts the promotion where the cycle closes, and
keeps the struct types built on the way — with the cut — as THE struct types of their keys, also for regular
occurrences; encoding/json computes the fields of every struct type on its own. A cycle through a REGULAR field
(`type T struct { X int; F []struct{ T } }`) is not excluded any more: the embedded type is listed a second time.

`embedCycle env t : Bool` is a decidable certificate checker for the negation: it computes the set of types inside `t`
by saturation, CHECKS that the set is closed under `children` (so no argument about the number of rounds is needed),
and does the same from every embedded type with `embeds`. `embedCycle env t = false → NoEmbeddedCycle env t`
(`embedCycle_sound`).
-/
namespace Enc.Spec.Json.EmbedCycle
open Enc.Model.Json.CodecChoice

def fieldTypes : FL → List TD
  | .nil => []
  | .cons _ _ _ t r => t :: fieldTypes r

/-- the types of the values a value of type `t` directly holds -/
def children (env : Env) (t : TD) : List TD :=
  match under env t with
  | .slice e | .array _ e | .ptr e => [e]
  | .map _ v => [v]
  | .struct fs => fieldTypes fs
  | _ => []

/-- `b` occurs inside `a` -/
inductive Reach (env : Env) : TD → TD → Prop
  | refl (t : TD) : Reach env t t
  | step {a b c : TD} : Reach env a b → c ∈ children env b → Reach env a c

def embedsFL (env : Env) : FL → List TD
  | .nil => []
  | .cons _ emb _ ft r =>
    if emb && isStructKind (under env (peel ft)) then peel ft :: embedsFL env r else embedsFL env r

/-- the struct types whose fields `t` promotes -/
def embeds (env : Env) (t : TD) : List TD := embedsFL env (fieldsOf env t)

/-- `b` is reached from `a` through embedding alone -/
inductive EmbReach (env : Env) : TD → TD → Prop
  | refl (t : TD) : EmbReach env t t
  | step {a b c : TD} : EmbReach env a b → c ∈ embeds env b → EmbReach env a c

/-- no struct type inside `t` lies on a cycle of embedded structs -/
def NoEmbeddedCycle (env : Env) (t : TD) : Prop :=
  ∀ S typ, Reach env t S → typ ∈ embeds env S → ¬ EmbReach env typ S

/-! ## the decidable checker -/

def addNew (acc : List TD) (ys : List TD) : List TD :=
  ys.foldl (fun acc y => if acc.contains y then acc else acc ++ [y]) acc

def closeStep (env : Env) (acc : List TD) : List TD :=
  acc.foldl (fun acc' x => addNew acc' (children env x)) acc

def closure (env : Env) : Nat → List TD → List TD
  | 0, acc => acc
  | n + 1, acc =>
    let acc' := closeStep env acc
    if acc'.length == acc.length then acc else closure env n acc'

def isClosed (env : Env) (c : List TD) : Bool :=
  c.all fun x => (children env x).all fun y => c.contains y

/-- more rounds than there are types in the program text -/
def closureFuel (env : Env) (t : TD) : Nat := t.size + env.length * (maxDef env + 2) + 2

/-- the types inside `t` -/
def inside (env : Env) (t : TD) : List TD := closure env (closureFuel env t) [t]

/-- one saturation step with an arbitrary successor function -/
def closeStepW (next : TD → List TD) (acc : List TD) : List TD :=
  acc.foldl (fun acc' x => addNew acc' (next x)) acc

def closureW (next : TD → List TD) : Nat → List TD → List TD
  | 0, acc => acc
  | n + 1, acc =>
    let acc' := closeStepW next acc
    if acc'.length == acc.length then acc else closureW next n acc'

def isClosedW (next : TD → List TD) (c : List TD) : Bool :=
  c.all fun x => (next x).all fun y => c.contains y

/-- the struct types reached from `t` through embedding alone -/
def embInside (env : Env) (t : TD) : List TD := closureW (embeds env) (closureFuel env t) [t]

/-- `true` unless it is CERTIFIED that no struct inside `t` lies on a cycle of embedded structs -/
def embedCycle (env : Env) (t : TD) : Bool :=
  let c := inside env t
  !(c.contains t && isClosed env c &&
      c.all fun S => (embeds env S).all fun typ =>
        let c' := embInside env typ
        c'.contains typ && isClosedW (embeds env) c' && !c'.contains S)

theorem closedW_embReach (env : Env) (c : List TD) (hc : isClosedW (embeds env) c = true) (x y : TD) (hx : x ∈ c)
    (h : EmbReach env x y) : y ∈ c := by
  induction h with
  | refl => exact hx
  | @step b z _ hmem ih =>
    unfold isClosedW at hc
    rw [List.all_eq_true] at hc
    have := hc b ih
    rw [List.all_eq_true] at this
    simpa using this z hmem

theorem closed_reach (env : Env) (c : List TD) (hc : isClosed env c = true) (x y : TD) (hx : x ∈ c)
    (h : Reach env x y) : y ∈ c := by
  induction h with
  | refl => exact hx
  | @step b z _ hmem ih =>
    unfold isClosed at hc
    rw [List.all_eq_true] at hc
    have := hc b ih
    rw [List.all_eq_true] at this
    simpa using this z hmem

theorem embedCycle_sound (env : Env) (t : TD) (h : embedCycle env t = false) : NoEmbeddedCycle env t := by
  unfold embedCycle at h
  simp only [Bool.not_eq_false', Bool.and_eq_true] at h
  obtain ⟨⟨ht, hcl⟩, hall⟩ := h
  intro S typ hS htyp hback
  have hSc : S ∈ inside env t := closed_reach env _ hcl t S (by simpa using ht) hS
  rw [List.all_eq_true] at hall
  have h1 := hall S hSc
  rw [List.all_eq_true] at h1
  have h2 := h1 typ htyp
  simp only [Bool.and_eq_true, Bool.not_eq_true'] at h2
  obtain ⟨⟨ht2, hcl2⟩, hnot⟩ := h2
  have := closedW_embReach env _ hcl2 typ S (by simpa using ht2) hback
  have hc : (embInside env typ).contains S = true := by simpa using this
  rw [hc] at hnot
  cases hnot

end Enc.Spec.Json.EmbedCycle
