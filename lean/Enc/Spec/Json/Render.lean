import Enc.Model.Json.Buf
import Enc.Spec.Json.StdEnc
/-!
# What Append must produce, stated without any buffer: the JSON text of a value (or "error"), and the C15 contract

`render` is the plain recursive JSON writer over the same value universe (strings by the encoding/json transcription
`appendString`, integers by `intString`, RFC 4648 base64). The contract for a destination `b`:
`Append(b, v) = b ++ render v` on success; on error the result still starts with `b`.
-/
namespace Enc.Spec.Json
open Enc Enc.Model.Json.Buf

def joinWith (sep : UInt8) : List Bytes → Bytes
  | [] => []
  | [x] => x
  | x :: rest => x ++ [sep] ++ joinWith sep rest

mutual
def render (html : Bool) : JV → Option Bytes
  | .null => some [0x6e, 0x75, 0x6c, 0x6c]
  | .bool true => some [0x74, 0x72, 0x75, 0x65]
  | .bool false => some [0x66, 0x61, 0x6c, 0x73, 0x65]
  | .int i => some (intString i)
  | .str s => some (appendString s html)
  | .bytes none => some [0x6e, 0x75, 0x6c, 0x6c]
  | .bytes (some v) => some ([0x22] ++ b64 v ++ [0x22])
  | .fail _ => none
  | .arr vs => (renderElems html vs).map fun xs => [0x5b] ++ joinWith 0x2c xs ++ [0x5d]
  | .obj fs => (renderFields html fs).map fun ms => [0x7b] ++ joinWith 0x2c ms ++ [0x7d]
def renderElems (html : Bool) : JVs → Option (List Bytes)
  | .nil => some []
  | .cons v rest =>
    match render html v, renderElems html rest with
    | some x, some xs => some (x :: xs)
    | _, _ => none
def renderFields (html : Bool) : JFs → Option (List Bytes)
  | .nil => some []
  | .cons name omitempty quoted rb v rest =>
    if (omitempty && v.isEmpty) || rb then renderFields html rest
    else
      match render html v, renderFields html rest with
      | some x, some ms => some ((appendString name html ++ [0x3a] ++ (if quoted then appendString x html else x)) :: ms)
      | _, _ => none
end

end Enc.Spec.Json
