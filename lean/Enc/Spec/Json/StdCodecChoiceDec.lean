import Enc.Model.Json.CodecChoiceDec
/-!
# Specification: how encoding/json decodes INTO a value of a given type

Written from $GOROOT/src/encoding/json/decode.go (go1.23): `d.value` → `d.array` / `d.object` / `d.literalStore`, each of
which starts with `indirect(v, decodingNull)`:

* `indirect`: "if v is a NAMED type and is addressable, start with its address, so that if the type has pointer methods,
  we find them" (`v.Kind() != Pointer && v.Type().Name() != "" && v.CanAddr()`); then it walks pointers, allocating,
  and at every pointer asks `v.Interface().(Unmarshaler)` first, `(encoding.TextUnmarshaler)` second (the latter not
  when decoding `null`). Every position of a decoded value is addressable (slice / array elements, struct fields, the
  scratch value of a map entry, pointer targets), so: a value of type T uses `(*T).UnmarshalJSON`, else
  `(*T).UnmarshalText`, when T is named OR the value was reached through a pointer (`viaPtr`: the method set of an
  unnamed `*struct{ T }` holds the promoted methods), else the rule of its kind. `**T` and `*I` have no methods.
* an Unmarshaler gets the whole value (`null` included); a TextUnmarshaler gets the content of a JSON string and is an
  UnmarshalTypeError for any other non-null value.
* `null` (`literalStore`, `indirect(v, true)` stops at the first SETTABLE pointer): interface, pointer, map, slice
  kinds become nil, everything else is left alone; a TextUnmarshaler is NOT consulted. An interface holding a non-nil
  pointer is entered only if the pointer points to a pointer (which is then set to nil).
* a non-null value into an interface that holds a non-nil pointer is decoded through the pointer; otherwise into an
  empty interface generically (an UnmarshalTypeError for a non-empty one).
* maps (`d.object`): the key kind must be string or an integer kind unless `PointerTo(K).Implements(TextUnmarshaler)`;
  when it does, the key is `literalStore(item, reflect.New(K), true)` — which prefers `(*K).UnmarshalJSON`; else the
  string itself / `strconv.ParseInt` / `ParseUint`. Map values are decoded into a zeroed scratch value.
* `[]E` from a JSON string: base64 when `E.Kind() == Uint8` (the methods of E are not consulted); from an array:
  element by element.
* the `string` option (`f.quoted`, set by typeFields when the field type, one unnamed pointer removed, is of a scalar
  kind): the content of the JSON string is handed to `literalStore(…, fromQuoted = true)`.

The special types (Number, Duration, time.Time, RawMessage) and `[]byte` are leaves with the same label on both sides
(their decoders are the subject of the scalar anchors of C02).

The result is a `DChoice` tree to a given depth (`.cut` below): recursive types unfold for ever.
-/
namespace Enc.Spec.Json.StdCodecChoiceDec
open Enc.Model.Json.CodecChoice

def isOpaqueD : TD → Bool
  | .special _ | .ptr (.special _) | .nil => true
  | _ => false

def opaqueD : TD → DChoice
  | .nil => .null
  | .special s => .special s
  | .ptr (.special s) => .ptr (.special s)
  | _ => .cut

/-- what `indirect` finds for a value of type `t` -/
def stdUnm (env : Env) (t : TD) (viaPtr : Bool) : Option DChoice :=
  if isOpaqueD t then none
  else if viaPtr || isRef t then
    if implPtrU env .uj t then some .uj
    else if implPtrU env .ut t then some .ut
    else none
  else none

/-- `d.object`, the key of a map entry; `none` = UnmarshalTypeError for the map type -/
def stdKeyDec (env : Env) (k : TD) : Option DChoice :=
  let ku := under env k
  if implPtrU env .ut k then some (if implPtrU env .uj k then .uj else .ut)
  else if isStringKind ku then some (.prim .string)
  else if isIntKind ku then some .keyInt
  else none

/-- typeFields: `quoted` is honoured only for Bool, Int*, Uint*, Uintptr, Float*, String after `ft = ft.Elem()` for an
unnamed pointer type -/
def quotedOKD (env : Env) (ft : TD) : Bool :=
  isScalarKind (under env (match ft with | .ptr e => e | t => t))

/-- the complete decoder of a value of a scalar kind -/
def stdScalarLeaf (env : Env) (typ : TD) (viaPtr : Bool) : DChoice :=
  if isOpaqueD typ then opaqueD typ
  else
    match stdUnm env typ viaPtr with
    | some m => m
    | none =>
      match under env typ with
      | .prim k => .prim k
      | _ => .cut

/-- what the content of the string is decoded with (`string` option): the field type is of a scalar kind or an unnamed
pointer to one -/
def stdQuotedInner (env : Env) : TD → DChoice
  | .ptr (.special s) => .ptr (.special s)
  | .ptr e => .ptr (stdScalarLeaf env e true)
  | t => stdScalarLeaf env t false

/-- the fields of a struct, promoted fields of embedded structs in place; `inner ft` = the complete decoder of a scalar
field type (for the `string` option: a leaf of the tree) -/
def stdFieldsDecWith (codec inner : TD → DChoice) (sub : TD → DL) (env : Env) (d : Nat) : FL → DL
  | .nil => .nil
  | .cons name emb str ft rest =>
    let isP := isPtrKind ft
    let typ := match ft with | .ptr e => e | t => t
    if emb && isStructKind (under env typ) then
      (if isP then (sub typ).mapChoice .embedPtr else sub typ).append (stdFieldsDecWith codec inner sub env d rest)
    else
      let c := if str && quotedOKD env ft then (match d with | 0 => DChoice.cut | _ => .quoted (inner ft)) else codec ft
      .cons name ft c (stdFieldsDecWith codec inner sub env d rest)

/-- embedded structs, `ef` levels deep; a struct type already being expanded on the way is not entered again -/
def stdEmbeddedDec (codec inner : TD → DChoice) (env : Env) (d : Nat) : Nat → List TD → TD → DL
  | 0, _, _ => .nil
  | ef + 1, visited, typ =>
    if visited.contains typ then .nil
    else stdFieldsDecWith codec inner (stdEmbeddedDec codec inner env d ef (typ :: visited)) env d (fieldsOf env typ)

def embedFuelD (env : Env) (t : TD) : Nat := 2 * env.length * (maxDef env + 2) + t.size

/-- interface kinds: `interface{}` itself / any other interface type (same rule, two labels) -/
def ifaceLabel : TD → DChoice
  | .any _ => .iface
  | _ => .ifaceMaybe

/-- the decoder tree of a value of type `t`, to depth `d`; `viaPtr`: the value is the target of a pointer -/
def stdDecD : Nat → Env → TD → Bool → DChoice
  | 0, _, _, _ => .cut
  | d + 1, env, t, viaPtr =>
    if isOpaqueD t then opaqueD t
    else
      match stdUnm env t viaPtr with
      | some m => m
      | none =>
        match under env t with
        | .prim .chan | .prim .complex => .unsupported
        | .prim k => .prim k
        | .any _ | .iface .. => ifaceLabel t
        | .slice e =>
          if under env e == .prim .uint8 && !implPtr env .uj e && !implPtr env .ut e then .bytes
          else .slice (stdDecD d env e false)
        | .array n e => .array n (stdDecD d env e false)
        | .ptr (.special s) => .ptr (.special s)
        | .ptr e => .ptr (stdDecD d env e true)
        | .map k v =>
          (match stdKeyDec env k with
            | none => .unsupported
            | some kc => .map kc (stdDecD d env v false))
        | .struct fs =>
          .struct (stdFieldsDecWith (fun ft => stdDecD d env ft false) (stdQuotedInner env)
            (stdEmbeddedDec (fun ft => stdDecD d env ft false) (stdQuotedInner env) env d
              (embedFuelD env t) [t]) env d fs)
        | _ => .unsupported

/-- `literalStore` on `null`; `u` = the structure behind the kind of the target type -/
def nullActS (c : DChoice) (u : TD) : NullAct :=
  match c with
  | .uj => .method
  | .special .rawMessage => .raw                 -- (*RawMessage).UnmarshalJSON stores its argument
  | .special _ => .leave                         -- (*Time).UnmarshalJSON("null") is a no-op; Number, Duration: kinds
  | .quoted _ => .inner
  | _ =>
    match u with
    | .any _ | .iface .. => .ifaceHeld
    | .ptr _ | .map .. | .slice _ => .zero
    | _ => .leave

end Enc.Spec.Json.StdCodecChoiceDec
