import Enc.Base.Bytes
/-!
# encoding/base64.StdEncoding.Decode — a shared parameter of the `[]byte` decoders

/repo/json `decodeBytes` calls `segmentio/asm/base64.StdEncoding.Decode`, which (after an optional AVX2 front end over whole
valid quanta, not modelled: C20 territory) is `encoding/base64.StdEncoding.Decode`; encoding/json `literalStore` calls the
latter directly. Both treat ANY error as a failed decode, so only "the bytes, or an error" matters:

RFC 4648 §4 alphabet, padding `=` mandatory, `\r` and `\n` ignored everywhere (decodeQuantum: `j--; continue`, and the two
"skip over newlines" loops), non-strict (the unused low bits of the last quantum are not checked), nothing may follow the
padding.
-/
namespace Enc.Spec.Json
open Enc

/-- decodeMap of StdEncoding: the 6-bit value of an alphabet character -/
def b64Val (c : UInt8) : Option Nat :=
  if 0x41 ≤ c && c ≤ 0x5a then some (c.toNat - 0x41)
  else if 0x61 ≤ c && c ≤ 0x7a then some (c.toNat - 0x61 + 26)
  else if 0x30 ≤ c && c ≤ 0x39 then some (c.toNat - 0x30 + 52)
  else if c == 0x2b then some 62
  else if c == 0x2f then some 63
  else none

def b64Byte (n : Nat) : UInt8 := UInt8.ofNat (n % 256)

/-- the quanta of a text without line breaks -/
def b64Quanta : Bytes → Option Bytes
  | [] => some []
  | [a, b, 0x3d, 0x3d] =>
    match b64Val a, b64Val b with
    | some x, some y => some [b64Byte ((x * 64 + y) / 16)]
    | _, _ => none
  | a :: b :: c :: d :: rest =>
    match b64Val a, b64Val b, b64Val c with
    | some x, some y, some z =>
      match b64Val d with
      | some w =>
        let v := ((x * 64 + y) * 64 + z) * 64 + w
        (b64Quanta rest).map fun t => b64Byte (v / 65536) :: b64Byte (v / 256) :: b64Byte v :: t
      | none =>
        if d == 0x3d && rest.isEmpty then
          let v := ((x * 64 + y) * 64 + z) * 64
          some [b64Byte (v / 65536), b64Byte (v / 256)]
        else none
    | _, _, _ => none
  | _ => none

/-- `base64.StdEncoding.Decode`: the decoded bytes, or none for a CorruptInputError -/
def b64DecodeStd (src : Bytes) : Option Bytes :=
  b64Quanta (src.filter fun c => !(c == 0x0a || c == 0x0d))

end Enc.Spec.Json
