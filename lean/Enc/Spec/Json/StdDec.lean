import Enc.Spec.Json.Grammar
import Enc.Base.Utf8
/-!
# What encoding/json stores for a scalar target (independent transcription of decode.go: literalStore / unquote)

* integer targets: the document is `ws number ws` by the RFC 8259 grammar; the literal has no fraction or exponent
  (`strconv.ParseInt/ParseUint(item, 10, 64)` then `OverflowInt/OverflowUint`); the mathematical value lies in the
  range of the target type. `null` leaves the target unchanged.
* string targets: the document is `ws string ws`; the literal is unquoted rune by rune as `unquoteBytes` does
  (escapes, `\uXXXX` with UTF-16 surrogate pairs, lone surrogates and invalid UTF-8 → U+FFFD).
-/
namespace Enc.Spec.Json
open Enc

def natOfDigits (ds : Bytes) : Nat := ds.foldl (fun a c => a * 10 + (c.toNat - 0x30)) 0

/-- mathematical value of an integer literal `-?digits` -/
def intValue (lit : Bytes) : Int :=
  match lit with
  | 0x2d :: ds => -(natOfDigits ds : Int)
  | ds => (natOfDigits ds : Int)

def nullLit : Bytes := [0x6e, 0x75, 0x6c, 0x6c]

/-- `Unmarshal(doc, &x)`, x an integer variable (signed or unsigned type) with range [lo, hi], initially 0 -/
def unmarshalInt (signed : Bool) (lo hi : Int) (doc : Bytes) : Option Int :=
  let b := ws doc
  if nullLit.isPrefixOf b then (if (ws (b.drop 4)).isEmpty then some 0 else none)
  else match number b with
    | none => none
    | some rest =>
      if !(ws rest).isEmpty then none
      else
        let lit := b.take (b.length - rest.length)
        if lit.any (fun c => c == 0x2e || c == 0x65 || c == 0x45) then none
        else if !signed && lit.head? == some 0x2d then none                -- strconv.ParseUint accepts no sign
        else
          let v := intValue lit
          if lo ≤ v ∧ v ≤ hi then some v else none

def hexv (c : UInt8) : Nat :=
  if digit c then c.toNat - 0x30 else if 0x41 ≤ c && c ≤ 0x46 then c.toNat - 55 else c.toNat - 87

def isSurr (r : Nat) : Bool := 0xD800 ≤ r && r ≤ 0xDFFF

def utf16Pair (hi lo : Nat) : Option Nat :=
  if 0xD800 ≤ hi && hi ≤ 0xDBFF && 0xDC00 ≤ lo && lo ≤ 0xDFFF then some (0x10000 + (hi - 0xD800) * 0x400 + (lo - 0xDC00)) else none

def simpleEscape (e : UInt8) : UInt8 :=
  if e == 0x62 then 0x08 else if e == 0x66 then 0x0c else if e == 0x6e then 0x0a else if e == 0x72 then 0x0d
  else if e == 0x74 then 0x09 else e

/-- `unquoteBytes` over the text between the quotes of a literal that the grammar accepted -/
def unquoteStd : Nat → Bytes → Bytes
  | 0, _ => []
  | _, [] => []
  | fuel + 1, c :: r =>
    if c == 0x5c then
      match r with
      | 0x75 :: a :: b :: c4 :: d :: r2 =>
        let rr := ((hexv a * 16 + hexv b) * 16 + hexv c4) * 16 + hexv d
        if isSurr rr then
          match r2 with
          | 0x5c :: 0x75 :: a' :: b' :: c' :: d' :: r3 =>
            if hexdig a' && hexdig b' && hexdig c' && hexdig d' then
              match utf16Pair rr (((hexv a' * 16 + hexv b') * 16 + hexv c') * 16 + hexv d') with
              | some dec => Utf8.encodeRune dec ++ unquoteStd fuel r3
              | none => Utf8.encodeRune Utf8.runeError ++ unquoteStd fuel r2
            else Utf8.encodeRune Utf8.runeError ++ unquoteStd fuel r2
          | _ => Utf8.encodeRune Utf8.runeError ++ unquoteStd fuel r2
        else Utf8.encodeRune rr ++ unquoteStd fuel r2
      | e :: r2 => simpleEscape e :: unquoteStd fuel r2
      | [] => []
    else if c < 0x80 then c :: unquoteStd fuel r
    else
      let (rr, n) := Utf8.decodeRune (c :: r)
      Utf8.encodeRune rr ++ unquoteStd fuel ((c :: r).drop n)

/-- `Unmarshal(doc, &s)`, s a string variable initially "" -/
def unmarshalString (doc : Bytes) : Option Bytes :=
  let b := ws doc
  if nullLit.isPrefixOf b then (if (ws (b.drop 4)).isEmpty then some [] else none)
  else match string b with
    | none => none
    | some rest =>
      if !(ws rest).isEmpty then none
      else
        let lit := b.take (b.length - rest.length)
        let inner := (lit.drop 1).take (lit.length - 2)
        some (unquoteStd (inner.length + 1) inner)

end Enc.Spec.Json
