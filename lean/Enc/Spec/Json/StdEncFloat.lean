import Enc.Base.Bytes
/-!
What `encoding/json` (go1.23, `floatEncoder.encode`) writes for a finite float — specification side of C01's float layer.

"Convert as if by ES6 number to string conversion": a non-zero number whose magnitude is below 1e-6 or at least 1e21 is
written in exponent form, everything else (zero included) in positional form; the digits are the shortest ones that
round-trip (strconv, precision -1: external); in exponent form a NEGATIVE TWO-DIGIT exponent with a leading zero loses
that zero (`1e-07` → `1e-7`; `1e+21`, `1e-10`, `1e-100` stay). NaN and ±Inf are an UnsupportedValueError.
The rule is stated on the digit string ALONE: encoding/json formats into an empty scratch buffer.
-/
namespace Enc.Spec.Json
open Enc

/-- ES6 rule: exponent form? (`nonZero`, `below` = |x| < 1e-6, `atLeast` = |x| ≥ 1e21, compared at the value's width) -/
def es6Exponential (nonZero below atLeast : Bool) : Bool := nonZero && (below || atLeast)

/-- `…e-0d` → `…e-d` (only the last four bytes matter) -/
def dropExpZero (digits : Bytes) : Bytes :=
  match digits.reverse with
  | d :: 0x30 :: 0x2d :: 0x65 :: rest => (d :: 0x2d :: 0x65 :: rest).reverse
  | _ => digits

/-- the bytes encoding/json writes, given the strconv digits of the chosen form -/
def stdFloat (exponential : Bool) (digits : Bytes) : Bytes :=
  if exponential then dropExpZero digits else digits

/-- full rule: `none` = UnsupportedValueError -/
def stdEncodeFloat (isNaN isInf nonZero below atLeast : Bool) (digitsF digitsE : Bytes) : Option Bytes :=
  if isNaN || isInf then none
  else if es6Exponential nonZero below atLeast then some (stdFloat true digitsE) else some (stdFloat false digitsF)

end Enc.Spec.Json
