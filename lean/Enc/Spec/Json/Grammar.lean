import Enc.Base.Bytes
/-!
RFC 8259 grammar as a reference recogniser, production by production (independent of Model.Json.Scan).

  JSON-text = ws value ws
  value     = false / null / true / object / array / number / string
  object    = "{" ws [ member *( ws "," ws member ) ] ws "}"      member = string ws ":" ws value
  array     = "[" ws [ value *( ws "," ws value ) ] ws "]"
  number    = [ "-" ] int [ frac ] [ exp ]    int = "0" / ( digit1-9 *DIGIT )   frac = "." 1*DIGIT
              exp = ("e"/"E") [ "-" / "+" ] 1*DIGIT
  string    = quotation-mark *char quotation-mark
  char      = unescaped (any byte >= 0x20 except '"' and '\')  — UTF-8 validity is not required, as in encoding/json's
              scanner — / "\" ( '"' / "\" / "/" / b / f / n / r / t / u 4HEXDIG )
  ws        = *( %x20 / %x09 / %x0A / %x0D )

`validStd` adds encoding/json's nesting limit (maxNestingDepth = 10000).
-/
namespace Enc.Spec.Json
open Enc

def isWs (c : UInt8) : Bool := c == 0x20 || c == 0x09 || c == 0x0a || c == 0x0d
def ws : Bytes → Bytes
  | [] => []
  | c :: r => if isWs c then ws r else c :: r

def digit (c : UInt8) : Bool := 0x30 ≤ c && c ≤ 0x39
def digit19 (c : UInt8) : Bool := 0x31 ≤ c && c ≤ 0x39
def hexdig (c : UInt8) : Bool := digit c || (0x41 ≤ c && c ≤ 0x46) || (0x61 ≤ c && c ≤ 0x66)

def digits : Bytes → Bytes
  | [] => []
  | c :: r => if digit c then digits r else c :: r
/-- 1*DIGIT -/
def digits1 : Bytes → Option Bytes
  | c :: r => if digit c then some (digits r) else none
  | [] => none

def int : Bytes → Option Bytes
  | c :: r => if c == 0x30 then some r else if digit19 c then some (digits r) else none
  | [] => none

def frac : Bytes → Option Bytes            -- optional: returns input unchanged when absent
  | 0x2e :: r => digits1 r
  | b => some b

def exp : Bytes → Option Bytes
  | c :: r =>
    if c == 0x65 || c == 0x45 then
      match r with
      | s :: r2 => if s == 0x2b || s == 0x2d then digits1 r2 else digits1 r
      | [] => none
    else some (c :: r)
  | [] => some []

def number (b : Bytes) : Option Bytes :=
  let b := match b with | 0x2d :: r => r | _ => b
  (int b).bind fun r => (frac r).bind exp

def chars : Bytes → Option Bytes            -- after the opening quote; returns what follows the closing quote
  | [] => none
  | c :: r =>
    if c == 0x22 then some r
    else if c == 0x5c then
      match r with
      | e :: r2 =>
        if e == 0x22 || e == 0x5c || e == 0x2f || e == 0x62 || e == 0x66 || e == 0x6e || e == 0x72 || e == 0x74 then chars r2
        else if e == 0x75 then
          match r2 with
          | a :: b :: c :: d :: r3 => if hexdig a && hexdig b && hexdig c && hexdig d then chars r3 else none
          | _ => none
        else none
      | [] => none
    else if c < 0x20 then none
    else chars r

def string : Bytes → Option Bytes
  | 0x22 :: r => chars r
  | _ => none

def lit (l : Bytes) (b : Bytes) : Option Bytes := if l.isPrefixOf b then some (b.drop l.length) else none

mutual
/-- value, with the remaining nesting budget `depth` (stdlib: 10000) -/
def value : Nat → Nat → Bytes → Option Bytes
  | 0, _, _ => none
  | fuel + 1, depth, b =>
    match b with
    | [] => none
    | c :: r =>
      if c == 0x7b then (if depth == 0 then none else members fuel (depth - 1) (ws r) true)
      else if c == 0x5b then (if depth == 0 then none else elements fuel (depth - 1) (ws r) true)
      else if c == 0x22 then string b
      else if c == 0x6e then lit [0x6e, 0x75, 0x6c, 0x6c] b
      else if c == 0x74 then lit [0x74, 0x72, 0x75, 0x65] b
      else if c == 0x66 then lit [0x66, 0x61, 0x6c, 0x73, 0x65] b
      else number b
/-- after "[" ws (first = true) or after a value: either "]" or, when not first, "," ws value … -/
def elements : Nat → Nat → Bytes → Bool → Option Bytes
  | 0, _, _, _ => none
  | fuel + 1, depth, b, first =>
    match b with
    | [] => none
    | c :: r =>
      if c == 0x5d then some r
      else
        let b' : Option Bytes := if first then some b else (if c == 0x2c then some (ws r) else none)
        b'.bind fun b2 =>
          match b2 with
          | 0x5d :: _ => none                          -- no trailing comma, and "[" "]" handled above
          | _ => (value fuel depth b2).bind fun r2 => elements fuel depth (ws r2) false
def members : Nat → Nat → Bytes → Bool → Option Bytes
  | 0, _, _, _ => none
  | fuel + 1, depth, b, first =>
    match b with
    | [] => none
    | c :: r =>
      if c == 0x7d then some r
      else
        let b' : Option Bytes := if first then some b else (if c == 0x2c then some (ws r) else none)
        b'.bind fun b2 =>
          (string b2).bind fun r2 =>
            match ws r2 with
            | 0x3a :: r3 => (value fuel depth (ws r3)).bind fun r4 => members fuel depth (ws r4) false
            | _ => none
end

/-- RFC 8259 JSON-text, no nesting limit -/
def validRFC (b : Bytes) : Bool :=
  match value (3 * b.length + 8) (b.length + 1) (ws b) with
  | some r => (ws r).isEmpty
  | none => false

/-- encoding/json.Valid: RFC 8259 with nesting depth at most 10000 -/
def validStd (b : Bytes) : Bool :=
  match value (3 * b.length + 8) 10000 (ws b) with
  | some r => (ws r).isEmpty
  | none => false

end Enc.Spec.Json
