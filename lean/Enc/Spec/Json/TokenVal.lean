import Enc.Spec.Json.Tokens
import Enc.Spec.Json.StdDec
/-!
Specification of what a token of a valid document IS (grammatical class) and MEANS (the value encoding/json's
`Decoder.Token()` returns for it: bool, unquoted string, number literal), written on the token text alone and
independently of the tokenizer.

Classes, as the documentation of `json.Kind` defines them:
* `{` Object (32), `[` Array (16); the closing delimiters, `:` and `,` have no kind (Undefined, 0);
* `null` Null (1), `false` False (2), `true` True (3) — class Bool (2) for both;
* numbers, class Num (4): Uint (5) = no sign, no fraction, no exponent; Int (6) = minus sign, no fraction, no exponent;
  Float (7) = a fraction or an exponent;
* strings, class String (8): Unescaped (9) = the text between the quotes is printable ASCII (0x20…0x7e) without a
  backslash, i.e. it IS the decoded string; String (8) otherwise.
-/
namespace Enc.Spec.Json
open Enc

def hasFracOrExp (lit : Bytes) : Bool := lit.any fun c => c == 0x2e || c == 0x65 || c == 0x45

def innerOf (lit : Bytes) : Bytes := (lit.drop 1).take (lit.length - 2)

def plainInner (s : Bytes) : Bool := s.all fun c => 0x20 ≤ c && c ≤ 0x7e && c != 0x5c

/-- Kind code of a token -/
def kindOf (delim : UInt8) (value : Bytes) : Nat :=
  if delim == 0x7b then 32 else if delim == 0x5b then 16 else if delim != 0 then 0
  else match value with
    | [] => 0
    | c :: _ =>
      if c == 0x22 then (if plainInner (innerOf value) then 9 else 8)
      else if c == 0x6e then 1 else if c == 0x66 then 2 else if c == 0x74 then 3
      else if hasFracOrExp value then 7 else if c == 0x2d then 6 else 5

/-- class of a kind: its highest bit -/
def classOfKind (k : Nat) : Nat :=
  if k ≥ 32 then 32 else if k ≥ 16 then 16 else if k ≥ 8 then 8 else if k ≥ 4 then 4 else if k ≥ 2 then 2 else k

/-- the decoded string of a string token (value or key) = what Decoder.Token() returns for it -/
def unquote (lit : Bytes) : Bytes := unquoteStd ((innerOf lit).length + 1) (innerOf lit)

/-- the int64 `Int` reports: the integer the literal denotes when the token is an integer in range; 0 otherwise
(the implementation has no error channel) -/
def int64Of (delim : UInt8) (value : Bytes) : Int :=
  let k := kindOf delim value
  if (k = 5 ∨ k = 6) ∧ -(2 ^ 63 : Int) ≤ intValue value ∧ intValue value < (2 ^ 63 : Int) then intValue value else 0

/-- the uint64 `Uint` reports: the literal's value for an unsigned integer token below 2^64; 0 otherwise -/
def uint64Of (delim : UInt8) (value : Bytes) : Nat :=
  if kindOf delim value = 5 ∧ natOfDigits value < 2 ^ 64 then natOfDigits value else 0

def isStrKind (k : Nat) : Bool := k == 8 || k == 9

/-- RawValue.String / Null / True / False / Number, from the kind -/
def rawFlagsOf (k : Nat) : List Bool := [isStrKind k, k == 1, k == 3, k == 2, k == 5 || k == 6 || k == 7]

/-- `Tokenizer.String` (and `RawValue.Unquote`, which panics on anything else) -/
def stringOf (delim : UInt8) (value : Bytes) : Bytes :=
  if isStrKind (kindOf delim value) then unquote value else []

structure SAcc where
  kind : Nat
  cls : Nat
  bool : Bool
  int : Int
  uint : Nat
  floatLit : Bytes              -- the text whose float64 value `Float` reports
  str : Bytes
  isString : Bool
  deriving DecidableEq, Repr

def saccOf (t : STok) : SAcc :=
  let k := kindOf t.delim t.value
  { kind := k, cls := classOfKind k, bool := k == 3, int := int64Of t.delim t.value, uint := uint64Of t.delim t.value,
    floatLit := t.value, str := stringOf t.delim t.value, isString := isStrKind k }

end Enc.Spec.Json
