import Enc.Model.Json.CodecChoiceDec
import Enc.Spec.Json.EmbedCycle
/-!
# The shapes excluded from `chooseDec_eq_std`: the recorded differences between segmentio's decoder construction and
encoding/json's `indirect` / `d.object` that change the decoder TREE

Two classes of known findings change which decoder a position gets (the third excluded shape, a cycle of EMBEDDED
structs, is `embedCycle`, Spec/Json/EmbedCycle.lean — class `jsonEmbeddedStructUnderConstruction`):

* `jsonDecPromotedUnmarshalerOfUnnamedStruct` — `promotedUnm env t`: `t` is an UNNAMED struct type to whose pointer an
  unmarshaling method is promoted from an embedded field. segmentio installs the unmarshaler decoder wherever the type
  occurs; `indirect` takes the address of a value only when its type is named, so encoding/json calls the method only
  when the value is the target of a pointer. The POSITIONS that differ: element of a slice / array, value of a map,
  regular field of a struct (`posOK env t viaPtr` is the negation for one position).
* `jsonDecMapKeyPrefersUnmarshalText` — `mapKeyBothUnm env k`: a map key type with both `(*K).UnmarshalJSON` and
  `(*K).UnmarshalText`.

The other decode-side classes (`jsonDecNullKeepsTextUnmarshalerContainer`, `jsonNullNestedPointer`,
`jsonDecNullNamedInterfaceHoldingPointer`) do not change the tree: they are about what the SAME decoder does with the
document `null` (`nullActM` / `nullActS`; Props/C01CodecDec.lean `null_handling_differs`, `null_handling_agrees`); as
predicates on a type they are `nullKeepsTextContainer`, `nullNestedPointer`, `nullNamedIfaceHeld` below.

`decDeviationFree env t : Bool` is a decidable certificate check (like `embedCycle`): the set of types inside `t` is
computed by saturation, CHECKED to be closed under `children`, and every type in it is checked locally (`localOK`).
`decDeviationFree_sound`: then every type reachable from `t` is locally fine (`DevFree env t`).
-/
namespace Enc.Spec.Json.DecDeviation
open Enc.Model.Json.CodecChoice Enc.Spec.Json.EmbedCycle

/-- class `jsonDecPromotedUnmarshalerOfUnnamedStruct`: an unnamed struct type with a promoted `UnmarshalJSON` /
`UnmarshalText` on its pointer -/
def promotedUnm (env : Env) : TD → Bool
  | .struct fs => implPtrU env .uj (.struct fs) || implPtrU env .ut (.struct fs)
  | _ => false

/-- class `jsonDecMapKeyPrefersUnmarshalText`: a key type with both unmarshaling methods on its pointer -/
def mapKeyBothUnm (env : Env) (k : TD) : Bool := implPtrU env .uj k && implPtrU env .ut k

/-- a value of type `t` in a position that is (`viaPtr`) / is not the target of a pointer gets the same unmarshaler
decision on both sides -/
def posOK (env : Env) (t : TD) (viaPtr : Bool) : Bool := viaPtr || !promotedUnm env t

/-- the regular fields of a struct (positions that are not pointer targets); the fields of an embedded struct are
promoted, the embedded type itself is not a position -/
def fieldsOK (env : Env) : FL → Bool
  | .nil => true
  | .cons _ emb _ ft r => ((emb && isStructKind (under env (peel ft))) || !promotedUnm env ft) && fieldsOK env r

/-- the positions directly inside a value of type `S` -/
def localOK (env : Env) (S : TD) : Bool :=
  match under env S with
  | .slice e | .array _ e => !promotedUnm env e
  | .map k v => !mapKeyBothUnm env k && !promotedUnm env v
  | .struct fs => fieldsOK env fs
  | _ => true

/-- no position inside `t` is one of the two recorded tree differences -/
def DevFree (env : Env) (t : TD) : Prop := ∀ S, Reach env t S → localOK env S = true

/-- `true` when it is CERTIFIED that no position inside `t` (`t` itself as the target of a pointer: the top-level value
of Unmarshal) is one of the two recorded tree differences -/
def decDeviationFree (env : Env) (t : TD) : Bool :=
  let c := inside env t
  c.contains t && isClosed env c && c.all (localOK env)

theorem decDeviationFree_sound (env : Env) (t : TD) (h : decDeviationFree env t = true) : DevFree env t := by
  unfold decDeviationFree at h
  simp only [Bool.and_eq_true] at h
  obtain ⟨⟨ht, hcl⟩, hall⟩ := h
  intro S hS
  have hSc : S ∈ inside env t := closed_reach env _ hcl t S (by simpa using ht) hS
  rw [List.all_eq_true] at hall
  exact hall S hSc

/-! ## the classes about `null` (they do not change the tree) -/

/-- class `jsonDecNullKeepsTextUnmarshalerContainer`: a slice / map kind type whose decoder is the TextUnmarshaler one -/
def nullKeepsTextContainer (env : Env) (t : TD) : Bool :=
  (match under env t with | .slice _ | .map .. => true | _ => false) &&
    !implPtrU env .uj t && implPtrU env .ut t

/-- class `jsonNullNestedPointer`: a pointer to a pointer -/
def nullNestedPointer (env : Env) (t : TD) : Bool :=
  match under env t with
  | .ptr e => isPtrKind (under env e)
  | _ => false

/-- class `jsonDecNullNamedInterfaceHoldingPointer`: an interface type other than `interface{}` (whose content in the
value under test is a pointer to a pointer) -/
def nullNamedIfaceHeld (env : Env) (t : TD) : Bool :=
  match t, under env t with
  | .any _, _ => false
  | _, .any dyn | _, .iface _ _ dyn => nullNestedPointer env dyn
  | _, _ => false

end Enc.Spec.Json.DecDeviation
