import Enc.Spec.Json.Grammar
import Enc.Spec.Json.Tokens
/-!
# encoding/json's `compact(dst, src, escape)` as a specification on top of the grammar

`compact` is what `encoding/json` applies to the bytes of a `RawMessage` and to the result of a `MarshalJSON` method
before they enter the output (encode.go `marshalerEncoder`, indent.go `appendCompact`):

* a document that `Valid` rejects is an error;
* otherwise the result is the document with the insignificant white space removed — i.e. exactly the texts of its
  tokens, one after the other (`tokensOf` of Spec/Json/Tokens.lean: the grammar-directed token walk) —
* and, with `escape`, with the HTML escape map applied to that text: `<`, `>`, `&` become `<`, `>`, `&`
  and the UTF-8 encodings of U+2028 / U+2029 (E2 80 A8 / E2 80 A9) become ` ` / ` `, wherever they occur.

Nothing here is a transcription of the scanner loop of indent.go.
-/
namespace Enc.Spec.Json
open Enc

def u003c : Bytes := [0x5c, 0x75, 0x30, 0x30, 0x33, 0x63]
def u003e : Bytes := [0x5c, 0x75, 0x30, 0x30, 0x33, 0x65]
def u0026 : Bytes := [0x5c, 0x75, 0x30, 0x30, 0x32, 0x36]
def u2028 : Bytes := [0x5c, 0x75, 0x32, 0x30, 0x32, 0x38]
def u2029 : Bytes := [0x5c, 0x75, 0x32, 0x30, 0x32, 0x39]

/-- the HTML escape map over a byte string -/
def escapeHTML : Bytes → Bytes
  | [] => []
  | c :: r =>
    if c == 0x3c then u003c ++ escapeHTML r
    else if c == 0x3e then u003e ++ escapeHTML r
    else if c == 0x26 then u0026 ++ escapeHTML r
    else if c == 0xe2 && r.take 2 == [0x80, 0xa8] then u2028 ++ escapeHTML (r.drop 2)
    else if c == 0xe2 && r.take 2 == [0x80, 0xa9] then u2029 ++ escapeHTML (r.drop 2)
    else c :: escapeHTML r
termination_by b => b.length
decreasing_by all_goals (simp only [List.length_cons, List.length_drop]; omega)

/-- the concatenated token texts of a valid document -/
def tokenText (ts : List STok) : Bytes := (ts.map (·.value)).flatten

/-- `compact(dst, src, escape)`: `none` = error -/
def compact (escape : Bool) (src : Bytes) : Option Bytes :=
  if validStd src then
    (tokensOf src).map fun ts => if escape then escapeHTML (tokenText ts) else tokenText ts
  else none

end Enc.Spec.Json
