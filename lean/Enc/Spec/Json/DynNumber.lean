import Enc.Spec.Json.StdDec
import Enc.Model.Json.DynNumber
/-!
# The documented precedence of UseUint64 > UseInt64 > UseBigInt > UseNumber > float64 (json/json.go ParseFlags comments)

For a number literal `lit` (RFC 8259 `number`): it is an *integer* literal when it has no fraction and no exponent;
* UseUint64: in-range integers without a minus sign become uint64;
* UseInt64: in-range integers become int64 (unless the previous rule applies);
* UseBigInt: integers become *big.Int (unless a previous rule applies);
* UseNumber: numbers become Number (unless a previous rule applies);
* otherwise float64.
The numeric value is never changed: the integer types carry the mathematical value of the literal, Number and big.Int
the literal itself.
-/
namespace Enc.Spec.Json
open Enc Enc.Model.Json

def isIntegerLit (lit : Bytes) : Bool := !lit.any fun c => c == 0x2e || c == 0x65 || c == 0x45

def dynSpec (fl : DynFlags) (lit : Bytes) : Dyn :=
  if (number lit) != some [] then .err
  else
    let v := intValue lit
    let neg := lit.head? == some 0x2d
    if isIntegerLit lit && !neg && fl.useUint64 && decide (v ≤ 18446744073709551615) then .u64 v.toNat
    else if isIntegerLit lit && fl.useInt64 && decide (-9223372036854775808 ≤ v) && decide (v ≤ 9223372036854775807) then .i64 v
    else if isIntegerLit lit && fl.useBigInt then .big lit
    else if fl.useNumber then .num lit
    else .f64

end Enc.Spec.Json
