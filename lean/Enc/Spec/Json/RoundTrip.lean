import Enc.Base.Utf8
import Enc.Model.Json.Buf
/-!
# What a string read back from its own JSON encoding must be (C14, cross-model round trip)

Go strings are arbitrary byte strings. JSON text is Unicode, so the encoder (segmentio's and encoding/json's alike) writes
every byte that is not part of a valid UTF-8 encoding as the escape `�`; the string that comes back is therefore the
original with each such byte replaced by U+FFFD (EF BF BD) — exactly Go's `string([]rune(s))` — and the original itself
when it is valid UTF-8.
-/
namespace Enc.Spec.Json
open Enc

/-- `string([]rune(s))`: decode rune by rune (an invalid byte is one U+FFFD), re-encode -/
def toValidUTF8 : Nat → Bytes → Bytes
  | 0, _ => []
  | _, [] => []
  | fuel + 1, c :: r =>
    let (rr, n) := Utf8.decodeRune (c :: r)
    Utf8.encodeRune rr ++ toValidUTF8 fuel ((c :: r).drop n)

/-- the string a round trip through JSON must give back -/
def coerceUTF8 (s : Bytes) : Bytes := toValidUTF8 s.length s

/-- `utf8.Valid`: no position decodes to (RuneError, 1) -/
def validUTF8 : Nat → Bytes → Bool
  | 0, b => b.isEmpty
  | _, [] => true
  | fuel + 1, c :: r =>
    let (rr, n) := Utf8.decodeRune (c :: r)
    !(rr == Utf8.runeError && n == 1) && validUTF8 fuel ((c :: r).drop n)

def ValidUTF8 (s : Bytes) : Prop := validUTF8 s.length s = true

end Enc.Spec.Json

/-! ### nesting depth of a value of the `JV` universe, as its rendering shows it (skipped fields and `,string` fields,
which are rendered as string literals, do not count) -/
namespace Enc.Model.Json.Buf

mutual
def JV.depth : JV → Nat
  | .arr vs => JVs.depth vs + 1
  | .obj fs => JFs.depth fs + 1
  | _ => 0
def JVs.depth : JVs → Nat
  | .nil => 0
  | .cons v rest => max (JV.depth v) (JVs.depth rest)
def JFs.depth : JFs → Nat
  | .nil => 0
  | .cons _ omitempty quoted rb v rest =>
    if (omitempty && v.isEmpty) || rb then JFs.depth rest
    else max (if quoted then 0 else JV.depth v) (JFs.depth rest)
end

end Enc.Model.Json.Buf
