import Enc.Model.Json.CodecChoice
/-!
# Specification: which encoder encoding/json uses for a value of a given type at a given run-time addressability

Written from $GOROOT/src/encoding/json/encode.go (go1.23): `typeEncoder(t) = newTypeEncoder(t, true)` (one encoder per
type, shared by all positions), `newCondAddrEncoder` (decides at run time with `v.CanAddr()`), and the containers, which
determine where values ARE addressable at run time:

* `newTypeEncoder(t, allowAddr)`: (1) `t.Kind() != Pointer && allowAddr && PointerTo(t).Implements(Marshaler)` →
  `condAddr(addrMarshalerEncoder, newTypeEncoder(t, false))`; (2) `t.Implements(Marshaler)` → `marshalerEncoder`;
  (3), (4) the same for TextMarshaler; (5) the encoder of the kind.
* slice elements `v.Index(i)`: addressable; array elements: iff the array is; pointer targets `v.Elem()`: addressable;
  map values `mi.Value()`: not; struct fields `fv.Field(i)`: iff the struct is, behind an embedded pointer always;
  interface contents `v.Elem()` and the top-level value of Marshal: not.
* `addrMarshalerEncoder` calls `v.Addr().Interface().(Marshaler).MarshalJSON()`: if the method is declared with a value
  receiver this runs the same method on the same value as `marshalerEncoder` would (Go spec, method sets) — the spec
  names the observable: `mjDirect` = the value-receiver method runs, `mjAddr` = the pointer-receiver method runs.
* `opts.quoted` (the `string` option; set by typeFields only when the field type, one unnamed pointer removed, is of a
  scalar kind) travels down through `ptrEncoder` and is honoured by the bool/int/uint/float/string encoders only.
* map keys (`newMapEncoder`, `resolveKeyName`): string kind → the string; else `k.Interface().(TextMarshaler)`
  (nil pointer → ""); else an integer kind → decimal; anything else: the MAP type is unsupported.
* `[]E` with `E.Kind() == Uint8`: base64 unless `*E` implements Marshaler or TextMarshaler.

The special types (time.Time, RawMessage, Number, Duration) are isOpaque leaves with the same label on both sides: that
their dedicated encoders write what encoding/json writes through MarshalJSON / stringEncoder is the subject of the scalar
anchors of C01 (Duration being the sanctioned difference). As map KEYS they count with their real method sets.

The result is the same `Choice` tree as the model's, to a given depth (`.cut` below it): recursive types unfold for ever.
-/
namespace Enc.Spec.Json.StdCodecChoice
open Enc.Model.Json.CodecChoice

/-- the special types and the pointers to them are leaves of this specification -/
def isOpaque : TD → Bool
  | .special _ | .ptr (.special _) | .nil => true
  | _ => false

/-- steps (1)–(4) of `newTypeEncoder(t, true)` with the `condAddr` decision taken for a value that is / is not addressable -/
def stdMarshal (env : Env) (t : TD) (addr : Bool) : Option Choice :=
  if isOpaque t then none
  else
    let ptrOK := addr && !isPtrKind (under env t)
    if ptrOK && implPtr env .mj t then some (if implT env .mj t then .mjDirect else .mjAddr)
    else if implT env .mj t then some .mjDirect
    else if ptrOK && implPtr env .mt t then some (if implT env .mt t then .mtDirect else .mtAddr)
    else if implT env .mt t then some .mtDirect
    else none

/-- the encoder of an integer kind (`strconv.FormatInt` / `FormatUint`; Duration: the sanctioned difference) -/
def intKindLabel : TD → Choice
  | .special s => .special s
  | .prim p => .prim p
  | _ => .cut

/-- `resolveKeyName` / the kind check of `newMapEncoder`; `none` = unsupported map type -/
def stdKey (env : Env) (k : TD) : Option Choice :=
  let ku := under env k
  if isStringKind ku then some (.prim .string)
  else if implT env .mt k then some (if isPtrKind ku then .keyNilPtr .mtDirect else .mtDirect)
  else if isIntKind ku then some (.quoted (intKindLabel ku))
  else none

/-- `opts.quoted` travelling down -/
def pushQuoted : Choice → Choice
  | .prim k => .quoted (.prim k)
  | .special .number => .quoted (.special .number)
  | .special .duration => .quoted (.special .duration)
  | .ptr c => .ptr (pushQuoted c)
  | c => c

/-- typeFields: `quoted` is set only for Bool, Int*, Uint*, Uintptr, Float*, String after `ft = ft.Elem()` for an
unnamed pointer type -/
def quotedOK (env : Env) (ft : TD) : Bool :=
  isScalarKind (under env (peel ft))

/-- the fields of a struct, promoted fields of embedded structs in place (`typeFields` without the dominance rules);
`sub typ addr` = the fields of the embedded struct type `typ` -/
def stdFieldsWith (codec : TD → Bool → Choice) (sub : TD → Bool → CL) (env : Env) (addr : Bool) : FL → CL
  | .nil => .nil
  | .cons name emb str ft rest =>
    let isP := isPtrKind ft
    let typ := peel ft
    if emb && isStructKind (under env typ) then
      let s := sub typ (addr || isP)
      (if isP then s.mapChoice .embedPtr else s).append (stdFieldsWith codec sub env addr rest)
    else
      let c := codec ft addr
      .cons name ft (if str && quotedOK env ft then pushQuoted c else c) (stdFieldsWith codec sub env addr rest)

/-- embedded structs, `ef` levels deep; a struct type already being expanded on the way is not entered again -/
def stdEmbedded (codec : TD → Bool → Choice) (env : Env) : Nat → List TD → TD → Bool → CL
  | 0, _, _, _ => .nil
  | ef + 1, visited, typ, addr =>
    if visited.contains typ then .nil
    else stdFieldsWith codec (stdEmbedded codec env ef (typ :: visited)) env addr (fieldsOf env typ)

/-- more levels of embedding than this cannot occur without a repetition: a level either descends into the text of a
struct type or unfolds a definition that is not in `visited` yet (proved sufficient when no embedding is recursive:
Lemmas/JsonCodecChoiceEmb.lean `stdEmbedded_eq_fields`) -/
def embedFuel (env : Env) (t : TD) : Nat := 2 * env.length * (maxDef env + 2) + t.size

/-- the label of an opaque type -/
def opaqueChoice : TD → Choice
  | .nil => .null                       -- an invalid reflect.Value: invalidValueEncoder
  | .special s => .special s
  | .ptr (.special s) => .ptr (.special s)
  | _ => .cut

/-- the encoder tree of a value of type `t`, to depth `d` -/
def stdD : Nat → Env → TD → Bool → Choice
  | 0, _, _, _ => .cut
  | d + 1, env, t, addr =>
    if isOpaque t then opaqueChoice t
    else
      match stdMarshal env t addr with
      | some m => m
      | none =>
        match under env t with
        | .prim .chan | .prim .complex => .unsupported
        | .prim k => .prim k
        | .any _ | .iface .. => .iface
        | .slice e =>
          if under env e == .prim .uint8 && !implPtr env .mj e && !implPtr env .mt e then .bytes
          else .slice (stdD d env e true)
        | .array n e => .array n (stdD d env e addr)
        | .ptr (.special s) => .ptr (.special s)
        | .ptr e => .ptr (stdD d env e true)
        | .map k v =>
          (match stdKey env k with
            | none => .unsupported
            | some kc => .map kc (stdD d env v false))
        | .struct fs =>
          .struct (stdFieldsWith (stdD d env) (stdEmbedded (stdD d env) env (embedFuel env t) [t]) env addr fs)
        | _ => .unsupported

end Enc.Spec.Json.StdCodecChoice
