import Enc.Model.Json.Cycle
/-!
# When is a value cyclic? (independent of the encoder)

A container is *finite* when all its children are leaves or finite containers — the least fixed point, reached after at
most |g| rounds. A value is cyclic iff its root is not finite: some path from it never ends.
encoding/json and the property both say: a cyclic value cannot be encoded — an error must be returned, never a crash —
and every other value is encoded.
-/
namespace Enc.Spec.Json
open Enc Enc.Model.Json.Cycle

/-- one round: a container becomes finite when every child is a leaf (id outside the graph) or already finite -/
def finiteStep (g : Graph) (fin : Array Bool) : Array Bool :=
  (g.map fun children => children.all fun c => fin.getD c true).toArray

def finiteN (g : Graph) : Nat → Array Bool
  | 0 => (g.map fun _ => false).toArray
  | n + 1 => finiteStep g (finiteN g n)

/-- the root is not finite: an infinite path starts there -/
def cyclicFrom (g : Graph) (root : Nat) : Bool := !((finiteN g g.length).getD root true)

end Enc.Spec.Json
