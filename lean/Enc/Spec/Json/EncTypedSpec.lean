import Enc.Spec.Json.Render
import Enc.Spec.Json.StdEncFloat
import Enc.Spec.Json.MapKeys
import Enc.Spec.Json.Grammar
import Enc.Model.Json.EncTyped
/-!
# What encoding/json.Marshal writes for a typed value — by recursion on the type and the value

Transcription of the documented behaviour of `encoding/json.Marshal` (encode.go: `boolEncoder`, `intEncoder`, `uintEncoder`,
`floatEncoder`, `stringEncoder`, `encodeByteSlice`, `sliceEncoder`, `arrayEncoder`, `mapEncoder`, `ptrEncoder`,
`structEncoder`, `interfaceEncoder`) for the universe `JT` / `JV` of Model/Json/DecTyped.lean. Shared with the model: the
universes, the strconv parameter `Strconv` (float digits and comparison outcomes) and RFC 4648 `b64`; nothing else.

* booleans `true` / `false`; integers: strconv decimal (`intString`); float64: the ES6 rule of StdEncFloat.lean (`none` for
  NaN / ±Inf: UnsupportedValueError); strings: `appendString` (StdEnc.lean);
* `[]byte`: nil → `null`, else the base64 text in quotes; `[]T`: nil → `null`, else `[e1,…]`; `[n]T`: `[e1,…]`;
* `map[string]T`: nil → `null`, else the members sorted by key (byte-wise), `{"k":v,…}` — MapKeys.lean `stdSort`;
* `*T`: nil → `null`, else the pointee; struct: `{"Name":v,…}` in field order (no tags in this universe);
* `any`: nil → `null`, else the dynamic value: bool, float64, json.Number (the literal if it is a valid number, `0` when
  empty, else an error), string, `[]any`, `map[string]any`, or a pointer.
-/
namespace Enc.Spec.Json
open Enc
open Enc.Model.Json (GV GVs GMs DynKind)
open Enc.Model.Json.Typed (JT JFs JV JVs JMs Strconv)
open Enc.Model.Json.Buf (b64)
open Enc.Spec.Json.MapKeys (stdSort)

def nullT : Bytes := [0x6e, 0x75, 0x6c, 0x6c]

def boolText (b : Bool) : Bytes := if b then [0x74, 0x72, 0x75, 0x65] else [0x66, 0x61, 0x6c, 0x73, 0x65]

/-- floatEncoder for the float64 denoted by `lit` -/
def floatText (sc : Strconv) (lit : Bytes) : Option Bytes :=
  let o := sc lit
  stdEncodeFloat o.cmp.isNaN o.cmp.isInf o.cmp.nonZero o.cmp.lt64 o.cmp.ge64 o.digitsF o.digitsE

/-- a json.Number: `0` when empty; must be a number of the RFC 8259 grammar (`isValidNumber`) -/
def numberText (n : Bytes) : Option Bytes :=
  let n := if n.isEmpty then [0x30] else n
  if number n == some [] then some n else none

def bytesOf : JVs → Bytes
  | .nil => []
  | .cons (.int i) r => UInt8.ofNat i.toNat :: bytesOf r
  | .cons _ r => 0 :: bytesOf r

def arrText (xs : List Bytes) : Bytes := [0x5b] ++ joinWith 0x2c xs ++ [0x5d]

/-- an object from (key text, value text) pairs in the given order -/
def objText (ps : List (Bytes × Bytes)) : Bytes := [0x7b] ++ joinWith 0x2c (ps.map fun p => p.1 ++ [0x3a] ++ p.2) ++ [0x7d]

/-- mapEncoder: members (key, value text) sorted by key, keys written by appendString -/
def mapText (html : Bool) (ms : List (Bytes × Bytes)) : Bytes :=
  objText ((stdSort ms).map fun p => (appendString p.1 html, p.2))

/-- all parts, or an error -/
def consOpt {α : Type} : Option α → Option (List α) → Option (List α)
  | some x, some xs => some (x :: xs)
  | _, _ => none

mutual
def genericText (sc : Strconv) (html : Bool) : GV → Option Bytes
  | .null => some nullT
  | .bool b => some (boolText b)
  | .num lit .f64 => floatText sc lit
  | .num lit .num => numberText lit
  | .num _ _ => none
  | .str s => some (appendString s html)
  | .arr vs => (genericTexts sc html vs).map arrText
  | .obj ms => (genericMembers sc html ms).map (mapText html)
def genericTexts (sc : Strconv) (html : Bool) : GVs → Option (List Bytes)
  | .nil => some []
  | .cons v rest => consOpt (genericText sc html v) (genericTexts sc html rest)
def genericMembers (sc : Strconv) (html : Bool) : GMs → Option (List (Bytes × Bytes))
  | .nil => some []
  | .cons k v rest => consOpt ((genericText sc html v).map fun x => (k, x)) (genericMembers sc html rest)
end

mutual
/-- `Marshal(x)` for `x` of type `t` with content `v`; none = an error is returned -/
def encSpec (sc : Strconv) (html : Bool) : JT → JV → Option Bytes
  | .bool, .bool b => some (boolText b)
  | .int _, .int i => some (intString i)
  | .float, .float lit => floatText sc lit
  | .str, .str s => some (appendString s html)
  | .slice e, .slice isNil vs _ =>
    if isNil then some nullT
    else if e == .int .u8 then some ([0x22] ++ b64 (bytesOf vs) ++ [0x22])
    else (encSpecs sc html e vs).map arrText
  | .array _ e, .array vs => (encSpecs sc html e vs).map arrText
  | .mapS e, .map isNil ms => if isNil then some nullT else (encSpecMs sc html e ms).map (mapText html)
  | .ptr _, .nilptr => some nullT
  | .ptr e, .ptr _ v => encSpec sc html e v
  | .strct fs, .strct vs => (encSpecFs sc html fs vs).map objText
  | .any, .anyv g => genericText sc html g
  | .any, .anyp t _ v => encSpec sc html t v
  | _, _ => none
def encSpecs (sc : Strconv) (html : Bool) (e : JT) : JVs → Option (List Bytes)
  | .nil => some []
  | .cons v rest => consOpt (encSpec sc html e v) (encSpecs sc html e rest)
def encSpecMs (sc : Strconv) (html : Bool) (e : JT) : JMs → Option (List (Bytes × Bytes))
  | .nil => some []
  | .cons k v rest => consOpt ((encSpec sc html e v).map fun x => (k, x)) (encSpecMs sc html e rest)
def encSpecFs (sc : Strconv) (html : Bool) : JFs → JVs → Option (List (Bytes × Bytes))
  | .nil, .nil => some []
  | .cons name t frest, .cons v vrest =>
    consOpt ((encSpec sc html t v).map fun x => (appendString name html, x)) (encSpecFs sc html frest vrest)
  | _, _ => none
end

end Enc.Spec.Json
