import Enc.Spec.Json.DecAnySpec
import Enc.Spec.Json.Base64Dec
import Enc.Model.Json.DecTyped
/-!
# What encoding/json stores into a typed target — by recursion on the RFC 8259 grammar (Spec/Json/Grammar.lean)

Transcription of the documented behaviour of `encoding/json.Unmarshal` (decode.go: `d.value`, `array`, `object`,
`literalStore`, `indirect`) for the type universe `JT` of Model/Json/DecTyped.lean (the universes `JT`, `JV` and the
canonical representation of maps are shared with the model; nothing else is).

encoding/json first checks the whole document against the grammar (`checkValid`; nesting at most 10000), then walks it once.
A value that does not fit its target (`"a"` into an int, a number out of range, bad base64, an object into a slice, an
unknown field with DisallowUnknownFields …) is *skipped* — `d.saveError` keeps the first such error, the walk goes on, and
`Unmarshal` returns it at the end. So a production returns, next to the new content of the target and the remainder, the
flag `bad` = "some error was saved"; the decode succeeds iff the grammar accepts `ws value ws` and `bad = false`.

* `indirect`: a `null` sets the (outermost settable) pointer to nil; any other value is decoded into the pointee — a nil
  pointer is allocated (`reflect.New`), a non-nil pointer is REUSED. An interface holding a non-nil pointer is decoded
  into through that pointer (`null`: the interface becomes nil unless the pointee is itself a pointer); an interface holding
  anything else is overwritten by the generic value (`valueV` of DecAnySpec.lean).
* `null`: nil for slices, maps, pointers, interfaces; no effect on bool, numbers, strings, arrays, structs.
* array document → slice: element `i` is decoded INTO `v.Index(i)` of the existing backing array while there is one
  (`SetLen(i+1)`: the elements between len and cap, left by an earlier longer decode, show through), then into fresh zero
  elements (`Grow`); finally the slice is truncated to the number of elements, an empty array gives a new empty non-nil slice.
  → array: extra elements are skipped, missing ones zeroed.
* object document → map[string]T: a nil map is allocated, an existing map is MERGED into; each member value is decoded into
  a fresh zero `T` and assigned (a later duplicate replaces the earlier entry).
  → struct: key matched exactly, else by case folding (first such field); the member value is decoded INTO the field
  (a duplicate key decodes twice into the same field: maps merge, pointers are reused); unknown keys are skipped
  (with DisallowUnknownFields: error saved).
* string → `[]byte`: base64 (StdEncoding); number → integer kinds: no fraction / exponent (strconv.ParseInt / ParseUint),
  in range (`OverflowInt`); → float64: strconv.ParseFloat without range error.
-/
namespace Enc.Spec.Json
open Enc
open Enc.Model.Json (GV ITy)
open Enc.Model.Json.Typed (JT JFs JV JVs JMs TFlags zeroOf zerosOf)

/-- foldName of encoding/json on a valid UTF-8 key whose match candidates are ASCII names: ASCII letters to upper case,
U+212A KELVIN SIGN ↦ K, U+017F LONG S ↦ S (the only non-ASCII runes whose fold orbit meets ASCII); other runes are left
alone (they can only match themselves and no ASCII name contains them) -/
def foldStd : Bytes → Bytes
  | [] => []
  | 0xe2 :: 0x84 :: 0xaa :: r => 0x4b :: foldStd r
  | 0xc5 :: 0xbf :: r => 0x53 :: foldStd r
  | c :: r => (if 0x61 ≤ c && c ≤ 0x7a then c - 0x20 else c) :: foldStd r

def findField (p : Bytes → Bool) : JFs → Nat → Option (Nat × JT)
  | .nil, _ => none
  | .cons n t rest, i => if p n then some (i, t) else findField p rest (i + 1)

/-- `fields.byExactName[key]`, else `fields.byFoldedName[foldName(key)]` -/
def fieldOf (fs : JFs) (key : Bytes) : Option (Nat × JT) :=
  match findField (· == key) fs 0 with
  | some r => some r
  | none => findField (fun n => foldStd n == foldStd key) fs 0

def intRange (w : ITy) : Int × Int :=
  if w.signed then (-(2 ^ (w.bits - 1) : Int), (2 ^ (w.bits - 1) : Int) - 1) else (0, (2 ^ w.bits : Int) - 1)

/-- `strconv.ParseInt/ParseUint(lit, 10, 64)` + `OverflowInt/OverflowUint` on a literal of the `number` production -/
def intOfLit (w : ITy) (lit : Bytes) : Option Int :=
  if lit.any (fun c => c == 0x2e || c == 0x65 || c == 0x45) then none
  else if !w.signed && lit.head? == some 0x2d then none
  else
    let v := intValue lit
    if (intRange w).1 ≤ v ∧ v ≤ (intRange w).2 then some v else none

def bytesVals : Bytes → JVs
  | [] => .nil
  | c :: r => .cons (.int (c.toNat : Int)) (bytesVals r)

/-- the backing array of a slice: its elements, then what earlier decodes left between len and cap -/
def backingOf : JV → JVs
  | .slice _ vs stale => vs.append stale
  | _ => .nil

def elemsOf : JV → JVs
  | .array vs => vs
  | _ => .nil

def entriesOf : JV → JMs
  | .map _ ms => ms
  | _ => .nil

/-- result of a production: new content, `bad` (an error was saved), remainder -/
abbrev SR (α : Type) := Option (α × Bool × Bytes)

/-- a value that is not decoded: the grammar only -/
def skipS {α : Type} (keep : α) (fuel depth : Nat) (b : Bytes) : SR α :=
  (value fuel depth b).map fun r => (keep, true, r)

mutual
/-- `d.value(v)`: `t` the type of the target, `cur` its content, `depth` the remaining nesting budget -/
def valueS (c : TFlags) : Nat → Nat → JT → JV → Bytes → SR JV
  | 0, _, _, _, _ => none
  | fuel + 1, depth, t, cur, b =>
    let isNull := (lit nullLit b).isSome
    match t with
    | .ptr e =>
      if isNull then (lit nullLit b).map fun r => (JV.nilptr, false, r)
      else
        (match cur with
         | .ptr old v => (valueS c fuel depth e v b).map fun x => (JV.ptr old x.1, x.2)
         | _ => (valueS c fuel depth e (zeroOf e) b).map fun x => (JV.ptr false x.1, x.2))
    | .any =>
      (match cur with
       | .anyp t' old v =>
         if isNull && !t'.isPtr then (lit nullLit b).map fun r => (JV.anyv .null, false, r)
         else (valueS c fuel depth t' v b).map fun x => (JV.anyp t' old x.1, x.2)
       | _ => (valueV c.dyn (fuel + 1) depth b).map fun x => (JV.anyv x.1, x.2))
    | _ =>
      match b with
      | [] => none
      | c0 :: r =>
        if c0 == 0x6e then
          -- null
          (lit nullLit b).map fun r' =>
            (match t with
             | .slice _ => (JV.slice true .nil .nil, false, r')
             | .mapS _ => (JV.map true .nil, false, r')
             | _ => (cur, false, r'))
        else if c0 == 0x5b then
          (match t with
           | .slice e =>
             if depth == 0 then none
             else (elementsSl c fuel (depth - 1) e (backingOf cur) (ws r) true).map fun x =>
               (match x.1.1 with
                | .nil => (JV.slice false .nil .nil, x.2)
                | vs => (JV.slice false vs x.1.2, x.2))
           | .array _ e =>
             if depth == 0 then none
             else (elementsAr c fuel (depth - 1) e (elemsOf cur) (ws r) true).map fun x => (JV.array x.1, x.2)
           | _ => skipS cur (fuel + 1) depth b)
        else if c0 == 0x7b then
          (match t with
           | .mapS e =>
             if depth == 0 then none
             else (membersMp c fuel (depth - 1) e (entriesOf cur) (ws r) true).map fun x => (JV.map false x.1, x.2)
           | .strct fs =>
             if depth == 0 then none
             else (membersSt c fuel (depth - 1) fs (match cur with | .strct vs => vs | _ => zerosOf fs) (ws r) true).map
               fun x => (JV.strct x.1, x.2)
           | _ => skipS cur (fuel + 1) depth b)
        else if c0 == 0x22 then
          (string b).map fun r' =>
            let s := unquoteLit (consumed b r')
            (match t with
             | .str => (JV.str s, false, r')
             | .slice e =>
               if e == .int .u8 then
                 (match b64DecodeStd s with
                  | some d => (JV.slice false (bytesVals d) .nil, false, r')
                  | none => (cur, true, r'))
               else (cur, true, r')
             | _ => (cur, true, r'))
        else if c0 == 0x74 then
          (lit [0x74, 0x72, 0x75, 0x65] b).map fun r' =>
            (match t with | .bool => (JV.bool true, false, r') | _ => (cur, true, r'))
        else if c0 == 0x66 then
          (lit [0x66, 0x61, 0x6c, 0x73, 0x65] b).map fun r' =>
            (match t with | .bool => (JV.bool false, false, r') | _ => (cur, true, r'))
        else
          (number b).map fun r' =>
            let l := consumed b r'
            (match t with
             | .int w => (match intOfLit w l with | some v => (JV.int v, false, r') | none => (cur, true, r'))
             | .float => if floatOverflows l then (cur, true, r') else (JV.float l, false, r')
             | _ => (cur, true, r'))
/-- elements of an array document decoded into a slice: `backing` = the existing elements from the current index on;
returns the decoded elements and what is left of the backing array -/
def elementsSl (c : TFlags) : Nat → Nat → JT → JVs → Bytes → Bool → SR (JVs × JVs)
  | 0, _, _, _, _, _ => none
  | fuel + 1, depth, e, backing, b, first =>
    match b with
    | [] => none
    | c0 :: r =>
      if c0 == 0x5d then some ((.nil, backing), false, r)
      else
        let b' : Option Bytes := if first then some b else (if c0 == 0x2c then some (ws r) else none)
        b'.bind fun b2 =>
          match b2 with
          | 0x5d :: _ => none
          | _ =>
            (valueS c fuel depth e ((backing.head?).getD (zeroOf e)) b2).bind fun x =>
              (elementsSl c fuel depth e backing.tail (ws x.2.2) false).map fun y =>
                ((JVs.cons x.1 y.1.1, y.1.2), x.2.1 || y.2.1, y.2.2)
/-- elements of an array document decoded into an array: `slots` = the elements of the target from the current index on
(none left: the element is skipped); returns their new content, the missing ones zeroed -/
def elementsAr (c : TFlags) : Nat → Nat → JT → JVs → Bytes → Bool → SR JVs
  | 0, _, _, _, _, _ => none
  | fuel + 1, depth, e, slots, b, first =>
    match b with
    | [] => none
    | c0 :: r =>
      if c0 == 0x5d then some (JVs.replicate (zeroOf e) slots.length, false, r)
      else
        let b' : Option Bytes := if first then some b else (if c0 == 0x2c then some (ws r) else none)
        b'.bind fun b2 =>
          match b2 with
          | 0x5d :: _ => none
          | _ =>
            (match slots with
             | .cons slot rest =>
               (valueS c fuel depth e slot b2).bind fun x =>
                 (elementsAr c fuel depth e rest (ws x.2.2) false).map fun y =>
                   (JVs.cons x.1 y.1, x.2.1 || y.2.1, y.2.2)
             | .nil =>
               (value fuel depth b2).bind fun r2 => elementsAr c fuel depth e .nil (ws r2) false)
/-- members of an object document decoded into a map[string]T -/
def membersMp (c : TFlags) : Nat → Nat → JT → JMs → Bytes → Bool → SR JMs
  | 0, _, _, _, _, _ => none
  | fuel + 1, depth, e, m, b, first =>
    match b with
    | [] => none
    | c0 :: r =>
      if c0 == 0x7d then some (m, false, r)
      else
        let b' : Option Bytes := if first then some b else (if c0 == 0x2c then some (ws r) else none)
        b'.bind fun b2 =>
          (string b2).bind fun r2 =>
            match ws r2 with
            | 0x3a :: r3 =>
              (valueS c fuel depth e (zeroOf e) (ws r3)).bind fun x =>
                (membersMp c fuel depth e (m.insert (unquoteLit (consumed b2 r2)) x.1) (ws x.2.2) false).map fun y =>
                  (y.1, x.2.1 || y.2.1, y.2.2)
            | _ => none
/-- members of an object document decoded into a struct: `vals` = the field values -/
def membersSt (c : TFlags) : Nat → Nat → JFs → JVs → Bytes → Bool → SR JVs
  | 0, _, _, _, _, _ => none
  | fuel + 1, depth, fs, vals, b, first =>
    match b with
    | [] => none
    | c0 :: r =>
      if c0 == 0x7d then some (vals, false, r)
      else
        let b' : Option Bytes := if first then some b else (if c0 == 0x2c then some (ws r) else none)
        b'.bind fun b2 =>
          (string b2).bind fun r2 =>
            match ws r2 with
            | 0x3a :: r3 =>
              (match fieldOf fs (unquoteLit (consumed b2 r2)) with
               | some (idx, ft) =>
                 (valueS c fuel depth ft ((vals.get? idx).getD (zeroOf ft)) (ws r3)).bind fun x =>
                   (membersSt c fuel depth fs (vals.set idx x.1) (ws x.2.2) false).map fun y =>
                     (y.1, x.2.1 || y.2.1, y.2.2)
               | none =>
                 (value fuel depth (ws r3)).bind fun r4 =>
                   (membersSt c fuel depth fs vals (ws r4) false).map fun y =>
                     (y.1, c.disallowUnknown || y.2.1, y.2.2))
            | _ => none
end

/-- fuel of the specification (any larger value gives the same result) -/
def specFuel (t : JT) (cur : JV) (doc : Bytes) : Nat :=
  4 * doc.length + 16 + 4 * (Enc.Model.Json.Typed.sizeT t + Enc.Model.Json.Typed.sizeV cur)

/-- `Unmarshal(doc, &x)`: the new content of `x`, or none when an error is returned -/
def unmarshalTyped (c : TFlags) (t : JT) (cur : JV) (doc : Bytes) : Option JV :=
  match valueS c (specFuel t cur doc) 10000 t cur (ws doc) with
  | none => none
  | some (v, bad, r) => if !(ws r).isEmpty then none else if bad then none else some v

/-- a sequence of `Unmarshal` calls into the same target: final content, or the index of the first call that fails -/
def unmarshalSeq (c : TFlags) (t : JT) : JV → List Bytes → Nat → JV ⊕ Nat
  | cur, [], _ => .inl cur
  | cur, doc :: rest, k =>
    match unmarshalTyped c t (Enc.Model.Json.Typed.markOld cur) doc with
    | some v => unmarshalSeq c t v rest (k + 1)
    | none => .inr k

end Enc.Spec.Json
