import Enc.Base.Univ
/-!
Reference Thrift encodings, written from the Apache specifications (thrift-binary-protocol.md,
thrift-compact-protocol.md), independent of Model.Thrift. No Thrift library is available offline: this IS the
reference implementation for C13.

Binary protocol: type codes BOOL 2, I8 3, DOUBLE 4, I16 6, I32 8, I64 10, BINARY 11, STRUCT 12, MAP 13, SET 14,
LIST 15; big-endian fixed-width integers and doubles; field = type byte + i16 id; stop = ONE zero byte;
strict message header = 0x8001_00tt (version 1), name, seqid; non-strict = name, type byte, seqid.
Message types: CALL 1, REPLY 2, EXCEPTION 3, ONEWAY 4.

Compact protocol: type codes TRUE 1, FALSE 2, I8 3, I16 4, I32 5, I64 6, DOUBLE 7, BINARY 8, LIST 9, SET 10,
MAP 11, STRUCT 12; zig-zag varints; LITTLE-endian doubles; field header short form `dddd tttt` for id deltas 1..15,
else type byte + zig-zag varint id; bool value in the type nibble of the field header; list/set header short form
`ssss tttt` for sizes 0..14, else `1111 tttt` + varint size; empty map = one zero byte, else varint size + `kkkk vvvv`;
message header 0x82, `(type << 5) | 1`, varint seqid, name.
-/
namespace Enc.Spec.Thrift
open Enc

inductive Proto where
  | binary (strict : Bool)
  | compact
  deriving DecidableEq

inductive TT where
  | bool | i8 | i16 | i32 | i64 | double | binary | list | set | map | struct
  deriving DecidableEq

def binCode : TT → Nat
  | .bool => 2 | .i8 => 3 | .double => 4 | .i16 => 6 | .i32 => 8 | .i64 => 10
  | .binary => 11 | .struct => 12 | .map => 13 | .set => 14 | .list => 15
/-- compact code (BOOL as an element type is 2; in a field header TRUE = 1 / FALSE = 2) -/
def cmpCode : TT → Nat
  | .bool => 2 | .i8 => 3 | .i16 => 4 | .i32 => 5 | .i64 => 6 | .double => 7
  | .binary => 8 | .list => 9 | .set => 10 | .map => 11 | .struct => 12

def isUnit : Ty → Bool
  | .struct .nil => true
  | _ => false

/-- Go kind → Thrift type (as thrift.TypeOf documents) -/
def ttOf : Ty → TT
  | .bool => .bool
  | .int .i8 | .int .u8 => .i8
  | .int .i16 | .int .u16 => .i16
  | .int .i32 | .int .u32 => .i32
  | .int _ => .i64
  | .f32 | .f64 => .double
  | .str | .bytes => .binary
  | .slice (.int .u8) => .binary
  | .slice _ => .list
  | .map _ v => if isUnit v then .set else .map
  | .struct _ => .struct
  | .ptr t | .named _ t => ttOf t
  | .arr _ _ | .any => .struct

def be (n k : Nat) : Bytes := (List.range k).reverse.map fun i => UInt8.ofNat (n / 256 ^ i % 256)
def le (n k : Nat) : Bytes := (List.range k).map fun i => UInt8.ofNat (n / 256 ^ i % 256)
def twos (i : Int) (bits : Nat) : Nat := (i % (2 ^ bits : Int)).toNat
def leb128 (n : Nat) : Bytes :=
  if h : n < 128 then [UInt8.ofNat n] else UInt8.ofNat (n % 128 + 128) :: leb128 (n / 128)
termination_by n
decreasing_by omega
def zigzag (i : Int) : Nat := if i ≥ 0 then (2 * i).toNat else (-2 * i - 1).toNat
def zz (i : Int) : Bytes := leb128 (zigzag i)

def code (p : Proto) (t : TT) : Nat := match p with | .compact => cmpCode t | _ => binCode t

def tagOf (tag : String) : Option (Int × Bool × Bool) :=        -- id, required, enum
  match tag.splitOn "thrift:\"" with
  | _ :: after :: _ =>
    let v := (after.splitOn "\"").headD ""
    if v == "" then none else
    let parts := v.splitOn ","
    match (parts.headD "").toInt? with
    | some id => some (id, (parts.drop 1).contains "required", (parts.drop 1).contains "enum")
    | none => none
  | _ => none

mutual
def zeroOf : Ty → Val
  | .bool => .bool false
  | .int _ => .int 0
  | .f32 | .f64 => .float 0
  | .str => .str []
  | .bytes | .any | .ptr _ | .slice _ | .map _ _ => .nil
  | .arr n t => .list (Vals.ofList (List.replicate n (zeroOf t)))
  | .named _ t => zeroOf t
  | .struct fs => .struct (zeroFields fs)
def zeroFields : Fields → Vals
  | .nil => .nil
  | .cons _ _ _ t rest => .cons (zeroOf t) (zeroFields rest)
end

-- a field is *set* (must be transmitted) unless it is a nil pointer or, when not required, the default value
-- (numeric zero — negative zero is NOT default: it is a distinct double —, empty string, nil collection)
mutual
def isDefault : Val → Bool
  | .bool b => !b
  | .int i => i == 0
  | .float b => b == 0
  | .str s => s.isEmpty
  | .nil => true
  | .ptr _ => false
  | .list _ => false
  | .map _ => false
  | .struct vs => allDefault vs
def allDefault : Vals → Bool
  | .nil => true
  | .cons v r => isDefault v && allDefault r
end

-- which values a writer may leave out of a struct (not prescribed by the protocol specifications; this is the
-- Go notion of a zero value, type-directed: nil bytes are default, empty non-nil bytes are not)
mutual
def isDefaultAt : Ty → Val → Bool
  | .bytes, v | .slice (.int .u8), v => (match v with | .nil => true | _ => false)
  | .struct fs, v => (match v with | .struct vs => defaultFields fs vs | _ => true)
  | .named _ t, v => isDefaultAt t v
  | _, v => isDefault v
def defaultFields : Fields → Vals → Bool
  | .cons _ _ _ t fr, .cons v vr => isDefaultAt t v && defaultFields fr vr
  | _, _ => true
end

def derefV : Val → Val
  | .ptr v => derefV v
  | v => v
def pairsOf : List Val → List (Val × Val)
  | k :: v :: rest => (k, v) :: pairsOf rest
  | _ => []

structure FRec where
  id : Int
  t : TT
  isTrue : Bool
  body : Bytes

def insRec (f : FRec) : List FRec → List FRec
  | [] => [f]
  | g :: rest => if f.id < g.id then f :: g :: rest else g :: insRec f rest

/-- field headers, ascending id order -/
def emit (p : Proto) : List FRec → Int → Bytes
  | [], _ => (match p with | _ => [0])              -- stop: one zero byte in both protocols
  | f :: rest, last =>
    match p with
    | .compact =>
      let tcode := if f.t == .bool then (if f.isTrue then 1 else 2) else cmpCode f.t
      let d := f.id - last
      let hdr := if 0 < d ∧ d ≤ 15 then [UInt8.ofNat (d.toNat * 16 + tcode)] else [UInt8.ofNat tcode] ++ zz f.id
      hdr ++ (if f.t == .bool then [] else f.body) ++ emit p rest f.id
    | _ => [UInt8.ofNat (binCode f.t)] ++ be (twos f.id 16) 2 ++ f.body ++ emit p rest f.id

def bytesOf (p : Proto) (s : Bytes) : Bytes :=
  match p with
  | .compact => leb128 s.length ++ s
  | _ => be s.length 4 ++ s

def listHdr (p : Proto) (t : TT) (n : Nat) : Bytes :=
  match p with
  | .compact => if n < 15 then [UInt8.ofNat (n * 16 + cmpCode t)] else [UInt8.ofNat (0xF0 + cmpCode t)] ++ leb128 n
  | _ => [UInt8.ofNat (binCode t)] ++ be n 4
def mapHdr (p : Proto) (k v : TT) (n : Nat) : Bytes :=
  match p with
  | .compact => if n == 0 then [0] else leb128 n ++ [UInt8.ofNat (cmpCode k * 16 + cmpCode v)]
  | _ => [UInt8.ofNat (binCode k), UInt8.ofNat (binCode v)] ++ be n 4

mutual
-- canonical reference encoding of a Go value of type `t`
def encode (p : Proto) : Ty → Val → Bytes
  | .bool, v => (match v with | .bool true => [1] | _ => [0])
  | .int .i8, v | .int .u8, v => (match v with | .int i => [UInt8.ofNat (twos i 8)] | _ => [0])
  | .int .i16, v | .int .u16, v => (match v with | .int i => (match p with | .compact => zz i | _ => be (twos i 16) 2) | _ => [])
  | .int .i32, v | .int .u32, v => (match v with | .int i => (match p with | .compact => zz i | _ => be (twos i 32) 4) | _ => [])
  | .int _, v => (match v with | .int i => (match p with | .compact => zz i | _ => be (twos i 64) 8) | _ => [])
  | .f32, v | .f64, v => (match v with | .float b => (match p with | .compact => le b 8 | _ => be b 8) | _ => [])
  | .str, v | .bytes, v => (match v with | .str s => bytesOf p s | _ => bytesOf p [])
  | .slice (.int .u8), v => (match v with | .str s => bytesOf p s | _ => bytesOf p [])
  | .slice t, v =>
    (match v with
     | .list vs => listHdr p (ttOf t) vs.length ++ (vs.toList.map (encode p t)).flatten
     | _ => listHdr p (ttOf t) 0)
  | .map k v, x =>
    let ps := match x with | .map kvs => pairsOf kvs.toList | _ => []
    if isUnit v then listHdr p (ttOf k) ps.length ++ (ps.map fun kv => encode p k kv.1).flatten
    else mapHdr p (ttOf k) (ttOf v) ps.length ++ (ps.map fun kv => encode p k kv.1 ++ encode p v kv.2).flatten
  | .struct fs, v =>
    (match v with
     | .struct vs => emit p ((recs p fs vs).foldr insRec []) 0
     | _ => [0])
  | .ptr t, v => (match v with | .ptr x => encode p t x | _ => encode p t (zeroOf t))
  | .named _ t, v => encode p t v
  | .arr _ _, _ | .any, _ => []
def recs (p : Proto) : Fields → Vals → List FRec
  | .cons _ tag _ t rest, .cons x vs =>
    let tl := recs p rest vs
    match tagOf tag with
    | none => tl
    | some (id, required, enum) =>
      let isNilPtr := match t, x with | .ptr _, .nil => true | _, _ => false
      if isNilPtr then tl
      else if !required && isDefaultAt t x then tl
      else
        let body := if enum then (match derefV x with
                                  | .int i => (match p with | .compact => zz i | _ => be (twos i 32) 4)
                                  | _ => encode p t x)
                    else encode p t x
        { id := id, t := if enum then .i32 else ttOf t, isTrue := (match derefV x with | .bool true => true | _ => false), body := body } :: tl
  | _, _ => []
end

/-- message header -/
def message (p : Proto) (mtype : Nat) (name : Bytes) (seq : Int) : Bytes :=
  -- mtype: 1 CALL, 2 REPLY, 3 EXCEPTION, 4 ONEWAY
  match p with
  | .binary true => [0x80, 0x01, 0x00, UInt8.ofNat mtype] ++ be name.length 4 ++ name ++ be (twos seq 32) 4
  | .binary false => be name.length 4 ++ name ++ [UInt8.ofNat mtype] ++ be (twos seq 32) 4
  | .compact => [0x82, UInt8.ofNat (mtype * 32 + 1)] ++ leb128 (twos seq 32) ++ leb128 name.length ++ name

/-! ## unions

Thrift IDL `union` (thrift-idl: "unions are similar to structs, except that they provide a means to transport exactly one
field of a possible set of fields"): on the wire a union is an ORDINARY STRUCT that carries EXACTLY ONE field — the member that
is set, whatever its value (a member set to 0, "" or false is still a set member and is transmitted). A value with no member
or with several members set is not a union value: the reference has no encoding for it (`none`).

Go shape (see Model/ThriftUnion.lean): the members are ordinary fields with ids; the field tagged with the option `union`
(interface typed, empty id) designates the set member: `.ptr (.int k)` = the member at declaration position `k`. A member
holding a non-default value counts as set, too (the Go API lets the designator be nil); a nil pointer member is never set. -/
def isUnionTag (tag : String) : Bool :=
  match tag.splitOn "thrift:\"" with
  | _ :: after :: _ => (((after.splitOn "\"").headD "").splitOn ",").drop 1 |>.contains "union"
  | _ => false

/-- position of the designator field -/
def designator : Fields → Nat → Option Nat
  | .nil, _ => none
  | .cons _ tag _ _ rest, pos =>
    match designator rest (pos + 1) with
    | some q => some q
    | none => if isUnionTag tag then some pos else none

def valAt : Vals → Nat → Val
  | .nil, _ => .nil
  | .cons v _, 0 => v
  | .cons _ r, n + 1 => valAt r n

/-- positions of the members that are set; `des` = the designated position -/
def setMembers (des : Option Nat) : Fields → Vals → Nat → List Nat
  | .cons _ tag _ t rest, .cons x vs, pos =>
    let tl := setMembers des rest vs (pos + 1)
    match tagOf tag with
    | none => tl
    | some _ =>
      let isNilPtr := match t, x with | .ptr _, .nil => true | _, _ => false
      if !isNilPtr && (des == some pos || !isDefaultAt t x) then pos :: tl else tl
  | _, _, _ => []

def catOpt : List (Option Bytes) → Option Bytes
  | [] => some []
  | a :: rest => match a, catOpt rest with
    | some x, some y => some (x ++ y)
    | _, _ => none

mutual
/-- reference encoding with unions; `none` = some union value inside has not exactly one member set -/
def encodeU (p : Proto) : Ty → Val → Option Bytes
  | .slice (.int .u8), v => some (encode p (.slice (.int .u8)) v)
  | .slice t, v =>
    (match v with
     | .list vs => (catOpt (vs.toList.map (encodeU p t))).map fun body => listHdr p (ttOf t) vs.length ++ body
     | _ => some (listHdr p (ttOf t) 0))
  | .map k v, x =>
    let ps := match x with | .map kvs => pairsOf kvs.toList | _ => []
    if isUnit v then (catOpt (ps.map fun kv => encodeU p k kv.1)).map fun body => listHdr p (ttOf k) ps.length ++ body
    else (catOpt (ps.map fun kv => catOpt [encodeU p k kv.1, encodeU p v kv.2])).map fun body =>
      mapHdr p (ttOf k) (ttOf v) ps.length ++ body
  | .struct fs, v =>
    (match v with
     | .struct vs =>
       (match designator fs 0 with
        | none => (recsU p none fs vs 0).map fun rs => emit p (rs.foldr insRec []) 0
        | some u =>
          let des := match valAt vs u with | .ptr (.int k) => (if k < 0 then none else some k.toNat) | _ => none
          match setMembers des fs vs 0 with
          | [k] => (recsU p (some k) fs vs 0).map fun rs => emit p (rs.foldr insRec []) 0      -- exactly that field
          | _ => none)
     | _ => some [0])
  | .ptr t, v => (match v with | .ptr x => encodeU p t x | _ => encodeU p t (zeroOf t))
  | .named _ t, v => encodeU p t v
  | .bool, v => some (encode p .bool v)
  | .int k, v => some (encode p (.int k) v)
  | .f32, v => some (encode p .f32 v)
  | .f64, v => some (encode p .f64 v)
  | .str, v => some (encode p .str v)
  | .bytes, v => some (encode p .bytes v)
  | .arr _ _, _ | .any, _ => some []
/-- `only = some k`: a union — the field at position `k` and nothing else; `none`: the struct rule of `recs` -/
def recsU (p : Proto) (only : Option Nat) : Fields → Vals → Nat → Option (List FRec)
  | .cons _ tag _ t rest, .cons x vs, pos =>
    match recsU p only rest vs (pos + 1) with
    | none => none
    | some tl =>
      match tagOf tag with
      | none => some tl
      | some (id, required, enum) =>
        let isNilPtr := match t, x with | .ptr _, .nil => true | _, _ => false
        let transmit := match only with
          | some k => k == pos
          | none => !isNilPtr && (required || !isDefaultAt t x)
        if !transmit then some tl
        else
          let body : Option Bytes :=
            if enum then (match derefV x with
                          | .int i => some (match p with | .compact => zz i | _ => be (twos i 32) 4)
                          | _ => encodeU p t x)
            else encodeU p t x
          body.map fun body =>
            { id := id, t := if enum then .i32 else ttOf t, isTrue := (match derefV x with | .bool true => true | _ => false), body := body } :: tl
  | _, _, _ => some []
end

end Enc.Spec.Thrift
