import Enc.Spec.Protobuf
/-!
Reference view of a protobuf message as a list of RAW records (specification side of `proto.Parse` / `proto.Scan`).

`Spec.Protobuf.parse` yields the VALUES of the records (`WireVal.varint n` forgets how the varint was spelled) and is an
all-or-nothing `Option`. `Scan` hands out the payload BYTES of each record and reports the records that precede a
malformed position, so the wire-level API is specified by `records`, the same walk as `parse` (same tag rule
`field<<3|wiretype`, same varint reader `readVarint`, same four wire types VARINT 0 / I64 1 / LEN 2 / I32 5) that keeps

  * the payload bytes (for VARINT: the varint's own bytes, non-minimal spellings included; for LEN: the content
    without its length prefix), and the bytes of the whole record (`raw`), and
  * the records read before the first malformed position, with a flag telling whether the whole input was well formed.

Field numbers are NOT validated here (0 and numbers ≥ 2^29 are enumerated like any other): the wire-level API is
a tokenizer. `parse` additionally rejects field number 0 (`RawRec.toWireVal` is the intended value view of a raw record).
-/
namespace Enc.Spec.Protobuf
open Enc

structure RawRec where
  num : Nat
  wire : Nat
  payload : Bytes
  raw : Bytes
  deriving Repr, DecidableEq

/-- payload and remainder of one record body of wire type `w` found at the front of `r1` -/
def splitBody (w : Nat) (r1 : Bytes) : Option (Bytes × Bytes) :=
  match w with
  | 0 => (readVarint r1).map fun (_, r2) => (r1.take (r1.length - r2.length), r2)
  | 1 => if r1.length < 8 then none else some (r1.take 8, r1.drop 8)
  | 2 => (readVarint r1).bind fun (l, r2) => if r2.length < l then none else some (r2.take l, r2.drop l)
  | 5 => if r1.length < 4 then none else some (r1.take 4, r1.drop 4)
  | _ => none

/-- the records before the first malformed position, and whether the end of the input was reached -/
def recordsAux : Nat → Bytes → List RawRec × Bool
  | 0, _ => ([], false)
  | _, [] => ([], true)
  | fuel + 1, b =>
    match readVarint b with
    | none => ([], false)
    | some (tag, r1) =>
      match splitBody (tag % 8) r1 with
      | none => ([], false)
      | some (p, rest) =>
        let (tl, ok) := recordsAux fuel rest
        ({ num := tag / 8, wire := tag % 8, payload := p, raw := b.take (b.length - rest.length) } :: tl, ok)

def records (b : Bytes) : List RawRec × Bool := recordsAux (b.length + 1) b

/-- the value view of a raw record (what `parse` reports for it); `none` for field number 0 -/
def RawRec.toWireVal (r : RawRec) : Option (Nat × WireVal) :=
  if r.num = 0 then none
  else match r.wire with
    | 0 => (readVarint r.payload).map fun (v, _) => (r.num, .varint v)
    | 1 => some (r.num, .i64 r.payload)
    | 2 => some (r.num, .len r.payload)
    | 5 => some (r.num, .i32 r.payload)
    | _ => none

def showRaw (r : RawRec) : String := s!"{r.num}:{r.wire}:{toHex r.payload};"

end Enc.Spec.Protobuf
