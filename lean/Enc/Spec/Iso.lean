import Enc.Base.Bytes
/-!
Specifications for C18, independent of the model.

* `Grammar`: the language `YYYY-MM-DD[(T|space)hh:mm:ss[.d{1,9}][Z|[space](+|-)hh[:]mm]]`, each optional or
  alternative part allowed only by its flag, as a *non-deterministic* matcher over small regular patterns
  (all ways of matching are explored; acceptance = some way consumes the whole input).
* `parseZ`: byte-wise definition of the instant denoted by `YYYY-MM-DDTHH:MM:SS[.d{1,9}]Z` using a calendar defined
  by recursion over years and months (no closed form).
-/
namespace Enc.Spec.Iso
open Enc

inductive Pat where
  | eps
  | lit (c : UInt8)
  | digit
  | seq (a b : Pat)
  | alt (a b : Pat)
  | none                 -- matches nothing

def Pat.opt (p : Pat) : Pat := .alt p .eps
def Pat.onlyIf (b : Bool) (p : Pat) : Pat := if b then p else .none
/-- exactly n digits -/
def Pat.digits : Nat → Pat
  | 0 => .eps
  | n + 1 => .seq .digit (Pat.digits n)
/-- between 1 and n digits -/
def Pat.digits1to : Nat → Pat
  | 0 => .none
  | n + 1 => .seq .digit (Pat.opt (Pat.digits1to n))

def isDigit (c : UInt8) : Bool := 0x30 ≤ c && c ≤ 0x39

/-- all remainders after matching `p` at the front of `s` -/
def Pat.run : Pat → Bytes → List Bytes
  | .eps, s => [s]
  | .none, _ => []
  | .lit c, x :: rest => if x == c then [rest] else []
  | .lit _, [] => []
  | .digit, x :: rest => if isDigit x then [rest] else []
  | .digit, [] => []
  | .seq a b, s => (a.run s).flatMap b.run
  | .alt a b, s => a.run s ++ b.run s

def Pat.accepts (p : Pat) (s : Bytes) : Bool := (p.run s).any (·.isEmpty)

structure Flags where
  space : Bool
  missingTime : Bool
  missingSubsecond : Bool
  missingTimezone : Bool
  numericTimezone : Bool

def seqs : List Pat → Pat
  | [] => .eps
  | p :: ps => .seq p (seqs ps)

/-- YYYY-MM-DD[(T|space)hh:mm:ss[.d{1,9}][Z|[space](+|-)hh[:]mm]] with flags:
  * no time part only with AllowMissingTime
  * space instead of T only with AllowSpaceSeparator
  * the fraction may be omitted only with AllowMissingSubsecond
  * the zone may be omitted only with AllowMissingTimezone
  * zone: `Z`, or (optional space only with AllowSpaceSeparator) sign hh mm with the colon omissible only with
    AllowNumericTimezone -/
def grammar (f : Flags) : Pat :=
  let date := seqs [Pat.digits 4, .lit 0x2d, Pat.digits 2, .lit 0x2d, Pat.digits 2]
  let sep := Pat.alt (.lit 0x54) (Pat.onlyIf f.space (.lit 0x20))
  let time := seqs [Pat.digits 2, .lit 0x3a, Pat.digits 2, .lit 0x3a, Pat.digits 2]
  let frac := Pat.alt (.seq (.lit 0x2e) (Pat.digits1to 9)) (Pat.onlyIf f.missingSubsecond .eps)
  let colon := Pat.alt (.lit 0x3a) (Pat.onlyIf f.numericTimezone .eps)
  let numeric := seqs [Pat.alt (Pat.onlyIf f.space (.lit 0x20)) .eps, Pat.alt (.lit 0x2b) (.lit 0x2d), Pat.digits 2, colon, Pat.digits 2]
  let zone := Pat.alt (Pat.alt (.lit 0x5a) numeric) (Pat.onlyIf f.missingTimezone .eps)
  .seq date (Pat.alt (seqs [sep, time, frac, zone]) (Pat.onlyIf f.missingTime .eps))

def validSpec (s : Bytes) (f : Flags) : Bool := (grammar f).accepts s

/-! ### calendar by recursion -/
def isLeap (y : Nat) : Bool := (y % 4 == 0 && y % 100 != 0) || y % 400 == 0
def daysInMonth (y m : Nat) : Nat :=
  match m with
  | 1 => 31 | 2 => if isLeap y then 29 else 28 | 3 => 31 | 4 => 30 | 5 => 31 | 6 => 30
  | 7 => 31 | 8 => 31 | 9 => 30 | 10 => 31 | 11 => 30 | 12 => 31 | _ => 0
/-- days from 0000-01-01 to y-01-01 -/
def daysBeforeYear : Nat → Nat
  | 0 => 0
  | y + 1 => daysBeforeYear y + (if isLeap y then 366 else 365)
/-- days from y-01-01 to y-m-01 (m ≥ 1) -/
def daysBeforeMonth (y : Nat) : Nat → Nat
  | 0 => 0
  | 1 => 0
  | m + 1 => daysBeforeMonth y m + daysInMonth y m
/-- days from 1970-01-01 (may be negative) -/
def daysFromCivil (y m d : Nat) : Int :=
  (daysBeforeYear y + daysBeforeMonth y m + (d - 1) : Nat) - (719528 : Int)

def dig (c : UInt8) : Option Nat := if isDigit c then some (c.toNat - 0x30) else none
def num : Bytes → Option Nat
  | [] => some 0
  | cs => cs.foldl (fun acc c => do let a ← acc; let d ← dig c; pure (a * 10 + d)) (some 0)

/-- instant of `YYYY-MM-DDTHH:MM:SS[.d{1,9}]Z`; `none` = not of that exact shape; `some none` = shape ok, value out of range -/
def parseZ (s : Bytes) : Option (Option (Int × Nat)) :=
  match s with
  | y0 :: y1 :: y2 :: y3 :: 0x2d :: m0 :: m1 :: 0x2d :: d0 :: d1 :: 0x54 :: h0 :: h1 :: 0x3a :: i0 :: i1 :: 0x3a :: s0 :: s1 :: rest => do
    let y ← num [y0, y1, y2, y3]
    let m ← num [m0, m1]
    let d ← num [d0, d1]
    let h ← num [h0, h1]
    let mi ← num [i0, i1]
    let sec ← num [s0, s1]
    let nanos ← (match rest with
      | [0x5a] => some 0
      | 0x2e :: fr =>
        match fr.reverse with
        | 0x5a :: ds => let ds := ds.reverse
                        if ds.length ≥ 1 && ds.length ≤ 9 then (num ds).map (· * 10 ^ (9 - ds.length)) else none
        | _ => none
      | _ => none)
    if 1 ≤ m && m ≤ 12 && 1 ≤ d && d ≤ daysInMonth y m && h < 24 && mi < 60 && sec < 60 then
      pure (some (daysFromCivil y m d * 86400 + (h * 3600 + mi * 60 + sec : Nat), nanos))
    else pure none
  | _ => none

end Enc.Spec.Iso
