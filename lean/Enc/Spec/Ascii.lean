import Enc.Base.Bytes
/-! Byte-wise definitions (the right-hand sides of property C20). Independent of the model. -/
namespace Enc.Spec.Ascii
open Enc

def valid (s : Bytes) : Bool := s.all (fun c => c < 0x80)
def validPrint (s : Bytes) : Bool := s.all (fun c => 0x20 ≤ c && c ≤ 0x7e)

/-- map only `A`–`Z` to `a`–`z` -/
def lower (c : UInt8) : UInt8 := if 0x41 ≤ c && c ≤ 0x5a then c + 0x20 else c

def equalFold (a b : Bytes) : Bool := a.map lower == b.map lower
def hasPrefixFold (s p : Bytes) : Bool := decide (p.length ≤ s.length) && equalFold (s.take p.length) p
def hasSuffixFold (s p : Bytes) : Bool := decide (p.length ≤ s.length) && equalFold (s.drop (s.length - p.length)) p

def validByte (b : UInt8) : Bool := b < 0x80
def validPrintByte (b : UInt8) : Bool := 0x20 ≤ b && b ≤ 0x7e
/-- runes: a rune is (printable) ASCII iff it is a non-negative code point below 0x80 (in 0x20..0x7e) -/
def validRune (r : Int) : Bool := decide (0 ≤ r) && decide (r < 0x80)
def validPrintRune (r : Int) : Bool := decide (0x20 ≤ r) && decide (r ≤ 0x7e)

end Enc.Spec.Ascii
