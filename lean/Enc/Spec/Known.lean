import Enc.Model.Proto
import Enc.Spec.Protobuf
/-!
Known-finding classes: decidable predicates over a case's arguments. A disagreement impl≠oracle/spec is
excused only when (i) its class is LISTED in /verif/known_findings.jsonl and (ii) impl = model on it
(the model reproduces the defect exactly), so any *other* deviation is still reported.
-/
namespace Enc.Known
open Enc

def isPtrTy : Ty → Bool
  | .ptr _ => true
  | _ => false
def anyNil : Vals → Bool
  | .nil => false
  | .cons .nil _ => true
  | .cons _ r => anyNil r
def nilMapVals : Vals → Bool
  | .cons _ (.cons v r) => (match v with | .nil => true | _ => false) || nilMapVals r
  | _ => false

mutual
/-- a nil pointer stored as a slice element or map value (comes back as pointer to zero value) -/
def hasNilPtrInCollection : Ty → Val → Bool
  | .slice t, .list vs => (isPtrTy t && anyNil vs) || nilInList t vs
  | .map _ vt, .map kvs => (isPtrTy vt && nilMapVals kvs) || nilInMap vt kvs
  | .ptr t, .ptr v => hasNilPtrInCollection t v
  | .named _ t, v => hasNilPtrInCollection t v
  | .struct fs, .struct vs => nilInFields fs vs
  | _, _ => false
def nilInList (t : Ty) : Vals → Bool
  | .nil => false
  | .cons v r => hasNilPtrInCollection t v || nilInList t r
def nilInMap (vt : Ty) : Vals → Bool
  | .cons _ (.cons v r) => hasNilPtrInCollection vt v || nilInMap vt r
  | _ => false
def nilInFields : Fields → Vals → Bool
  | .cons _ _ _ t fr, .cons v vr => hasNilPtrInCollection t v || nilInFields fr vr
  | _, _ => false
end

mutual
/-- a non-nil pointer whose pointee encodes to zero bytes even under `wantzero` (not expressible on the wire) -/
def hasPtrToEmpty : Ty → Val → Bool
  | .ptr t, .ptr v =>
    (Model.Proto.size (Model.Proto.codecOf t) v Model.Proto.wz == 0) || hasPtrToEmpty t v
  | .slice t, .list vs => ptrEmptyList t vs
  | .map _ vt, .map kvs => ptrEmptyMap vt kvs
  | .named _ t, v => hasPtrToEmpty t v
  | .struct fs, .struct vs => ptrEmptyFields fs vs
  | _, _ => false
def ptrEmptyList (t : Ty) : Vals → Bool
  | .nil => false
  | .cons v r => hasPtrToEmpty t v || ptrEmptyList t r
def ptrEmptyMap (vt : Ty) : Vals → Bool
  | .cons _ (.cons v r) => hasPtrToEmpty vt v || ptrEmptyMap vt r
  | _ => false
def ptrEmptyFields : Fields → Vals → Bool
  | .cons _ _ _ t fr, .cons v vr => hasPtrToEmpty t v || ptrEmptyFields fr vr
  | _, _ => false
end

mutual
/-- a repeated field tagged zigzag32/64 or fixed32/64 (the slice codec drops the flag / wire override) -/
def hasRepeatedZigzagOrFixed : Ty → Bool
  | .ptr t | .slice t | .named _ t => hasRepeatedZigzagOrFixed t
  | .map k v => hasRepeatedZigzagOrFixed k || hasRepeatedZigzagOrFixed v
  | .struct fs => rzfFields fs
  | _ => false
def rzfFields : Fields → Bool
  | .nil => false
  | .cons _ tag _ t rest =>
    let o := Spec.Protobuf.fieldOpt 0 tag
    ((o.zigzag || o.fixed) && (Spec.Protobuf.isRepeated t).isSome) || hasRepeatedZigzagOrFixed t || rzfFields rest
end

mutual
/-- a declared field number that does not fit in uint16 -/
def hasWideFieldNumber : Ty → Bool
  | .ptr t | .slice t | .named _ t => hasWideFieldNumber t
  | .map k v => hasWideFieldNumber k || hasWideFieldNumber v
  | .struct fs => wideFields 1 fs
  | _ => false
def wideFields (pos : Nat) : Fields → Bool
  | .nil => false
  | .cons _ tag _ t rest =>
    (Spec.Protobuf.fieldOpt pos tag).number ≥ 65536 || hasWideFieldNumber t || wideFields (pos + 1) rest
end

mutual
/-- a map-typed field holding a nil or empty map (written as one entry with an empty body, which a conformant
decoder reads as the entry {default key: default value}) -/
def hasEmptyMap : Ty → Val → Bool
  | .map _ _, .nil => true
  | .map _ _, .map .nil => true
  | .map _ vt, .map kvs => emptyMapIn vt kvs
  | .ptr t, .ptr v => hasEmptyMap t v
  | .slice t, .list vs => emptyMapList t vs
  | .named _ t, v => hasEmptyMap t v
  | .struct fs, .struct vs => emptyMapFields fs vs
  | _, _ => false
def emptyMapIn (vt : Ty) : Vals → Bool
  | .cons _ (.cons v r) => hasEmptyMap vt v || emptyMapIn vt r
  | _ => false
def emptyMapList (t : Ty) : Vals → Bool
  | .nil => false
  | .cons v r => hasEmptyMap t v || emptyMapList t r
def emptyMapFields : Fields → Vals → Bool
  | .cons _ _ _ t fr, .cons v vr => hasEmptyMap t v || emptyMapFields fr vr
  | _, _ => false
end

def protoClasses (ty : Ty) (v : Val) : List String :=
  (if hasEmptyMap ty v then ["protoEmptyMapMarker"] else []) ++
  (if hasNilPtrInCollection ty v then ["protoNilPtrInCollection"] else [])
  ++ (if hasPtrToEmpty ty v then ["protoPtrToEmptyEncoding"] else [])
  ++ (if hasRepeatedZigzagOrFixed ty then ["protoRepeatedZigzagOrFixed"] else [])
  ++ (if hasWideFieldNumber ty then ["protoFieldNumberUint16"] else [])

end Enc.Known
