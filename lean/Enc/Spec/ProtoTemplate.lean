import Enc.Spec.Protobuf
import Enc.Spec.Json.StdDec
import Enc.Model.ProtoTemplate
/-!
# Rewrite templates at VALUE level (specification side of C19, `ParseRewriteTemplate`)

Written from the documentation of `ParseRewriteTemplate` ("the json template contains a representation of the message
that is used as the source values to overwrite in the protobuf targeted by the resulting rewriter") and of `BitOr`
("perform a bitwise-or against the protobuf message that is being rewritten"), over the message type `ty : Ty` and the
values `Val` of the reference decoder `Spec.Protobuf.decode`:

`applyTemplate pf ty j rules v` = the message value `v` with exactly the fields named by the JSON object `j` replaced:
  * scalar / string / bytes field ← the value the JSON member denotes (`null` = the zero value); integers must be
    integer literals in the range of the field's type, floats are `strconv.ParseFloat` of the literal (`pf`);
  * repeated field ← the list of the values the members of the JSON array denote (each built from the zero value);
  * map field ← the entries of the JSON object (key text read according to the key type, values built from zero);
  * singular message field ← the current sub-message with the sub-template applied recursively;
  * a field with a `BitOr[T]` rule ← old ||| mask (in the width of the field);
  * every other field keeps its value.
`none` = the template is not a template for this type (a member names no field, a member has the wrong JSON kind or is
out of range, a `BitOr` rule on a non-integer field) — or the case is outside the specification's opinion (a `BitOr`
rule on a repeated field).

Only the SYNTAX of rules (`Model.Proto.Rule / Rules`), the generic JSON values `GV` and the integer type names `ITy` are
shared with the model; no function of the model is used.
-/
namespace Enc.Spec.ProtoTemplate
open Enc Enc.Spec.Protobuf
open Enc.Model.Json (GV GVs GMs ITy)
open Enc.Model.Proto (Rule Rules)

abbrev PF := Bytes → Nat → Option Nat

def strBytes (s : String) : Bytes := s.toUTF8.toList

/-- the name a template uses for a field: `name=` of the protobuf tag, else the Go field name -/
def fieldName (name tag : String) : Bytes :=
  match tagValue tag with
  | none => strBytes name
  | some v =>
    strBytes (((v.splitOn ",").drop 3).foldl (fun acc f =>
      match f.splitOn "=" with
      | "name" :: x :: _ => x
      | _ => acc) "")

def lookup (k : Bytes) : GMs → Option GV
  | .nil => none
  | .cons k' v rest => if k == k' then some v else lookup k rest

def rulesLookup : Rules → Bytes → Option Rule
  | .nil, _ => none
  | .cons n r rest, k => if n == k then some r else rulesLookup rest k
def findRule : List Rules → Bytes → Option Rule
  | [], _ => none
  | rs :: rest, k => match rulesLookup rs k with | some r => some r | none => findRule rest k

def hasName (k : Bytes) : Fields → Bool
  | .nil => false
  | .cons name tag _ _ rest => fieldName name tag == k || hasName k rest
def allKnown (fs : Fields) : GMs → Bool
  | .nil => true
  | .cons k _ rest => hasName k fs && allKnown fs rest

/-- range of the Go integer type a template value is read into (`int` is 64 bits wide) -/
def intRange (k : IntKind) : Int × Int :=
  if k.signed then (-(2 ^ (k.bits - 1) : Int), (2 ^ (k.bits - 1) : Int) - 1) else (0, (2 ^ k.bits : Int) - 1)

def intOf (k : IntKind) : GV → Option Int
  | .null => some 0
  | .num lit _ => Spec.Json.unmarshalInt k.signed (intRange k).1 (intRange k).2 lit
  | _ => none

def ityKind : ITy → IntKind
  | .i8 => .i8 | .i16 => .i16 | .i32 => .i32 | .i64 => .i64 | .int => .int
  | .u8 => .u8 | .u16 => .u16 | .u32 => .u32 | .u64 => .u64 | .uint => .uint

/-- `a ||| b` in the width (and signedness) of an integer type -/
def orInt (k : IntKind) (a b : Int) : Int :=
  let v := BitVec.ofInt k.bits a ||| BitVec.ofInt k.bits b
  if k.signed then v.toInt else (v.toNat : Int)

def gvList : GV → Option (List GV)
  | .null => some []
  | .arr vs => some (Enc.Model.Proto.GVs.toList vs)
  | _ => none
def gvObj : GV → Option GMs
  | .null => some .nil
  | .obj ms => some ms
  | _ => none

/-- the value a map key text denotes for the key type -/
def keyOf (kt : Ty) (key : Bytes) : Option Val :=
  match deref kt with
  | .str => some (.str key)
  | .bool => if key == strBytes "true" then some (.bool true) else if key == strBytes "false" then some (.bool false) else none
  | .int k => (Spec.Json.unmarshalInt k.signed (intRange k).1 (intRange k).2 key).map .int
  | _ => none

mutual
/-- a non-repeated, non-map value -/
def tmplVal (pf : PF) : Nat → Ty → GV → Option Rule → Val → Option Val
  | 0, _, _, _, _ => none
  | fuel + 1, t, j, rule, cur =>
    match rule with
    | some (.bitOr T) =>
      match deref t with
      | .int k =>
        match intOf (ityKind T) j with
        | none => none
        | some m =>
          let old : Int := match unwrapPtr t cur with | .int i => i | _ => 0
          some (wrapPtr t (.int (orInt k old m)))
      | _ => none
    | _ =>
      match deref t with
      | .bool => (match j with
        | .null => some (wrapPtr t (.bool false))
        | .bool b => some (wrapPtr t (.bool b))
        | _ => none)
      | .int k => (intOf k j).map fun v => wrapPtr t (.int v)
      | .f32 => (match j with
        | .null => some (wrapPtr t (.float 0))
        | .num lit _ => (pf lit 32).map fun b => wrapPtr t (.float b)
        | _ => none)
      | .f64 => (match j with
        | .null => some (wrapPtr t (.float 0))
        | .num lit _ => (pf lit 64).map fun b => wrapPtr t (.float b)
        | _ => none)
      | .str | .bytes | .slice (.int .u8) => (match j with
        | .null => some (wrapPtr t (.str []))
        | .str s => some (wrapPtr t (.str s))
        | _ => none)
      | .struct fs =>
        match gvObj j with
        | some ms =>
          if !allKnown fs ms then none
          else
            -- the current sub-message; an absent one (and a new list element / map value) is the zero message
            let vs : Vals := match unwrapPtr t cur with | .struct vs => vs | _ => zeroFields fs
            let sub : List Rules := match rule with | some (.sub rs) => [rs] | _ => []
            (tmplFields pf fuel fs ms sub vs).map fun vs' => wrapPtr t (.struct vs')
        | none => none
      | _ => none
/-- one field of a message -/
def tmplField (pf : PF) : Nat → Ty → GV → Option Rule → Val → Option Val
  | 0, _, _, _, _ => none
  | fuel + 1, t, j, rule, cur =>
    match isRepeated t with
    | some et =>
      (match rule with
       | some (.bitOr _) => none
       | _ =>
         match gvList j with
         | none => none
         | some js => (tmplElems pf fuel et js rule).map fun es => .list (Vals.ofList es))
    | none =>
      match unname t with
      | .map kt vt =>
        (match gvObj j with
         | none => none
         | some ms => (tmplEntries pf fuel kt vt ms).map .map)
      | _ => tmplVal pf fuel t j rule cur
def tmplElems (pf : PF) : Nat → Ty → List GV → Option Rule → Option (List Val)
  | 0, _, _, _ => none
  | _ + 1, _, [], _ => some []
  | fuel + 1, et, j :: js, rule =>
    match tmplVal pf fuel et j rule .nil, tmplElems pf fuel et js rule with
    | some v, some vs => some (v :: vs)
    | _, _ => none
def tmplEntries (pf : PF) : Nat → Ty → Ty → GMs → Option Vals
  | 0, _, _, _ => none
  | _ + 1, _, _, .nil => some .nil
  | fuel + 1, kt, vt, .cons key j rest =>
    match keyOf kt key, tmplVal pf fuel vt j none .nil, tmplEntries pf fuel kt vt rest with
    | some k, some v, some r => some (.cons k (.cons v r))
    | _, _, _ => none
def tmplFields (pf : PF) : Nat → Fields → GMs → List Rules → Vals → Option Vals
  | 0, _, _, _, _ => none
  | _ + 1, .nil, _, _, _ => some .nil
  | fuel + 1, .cons name tag _ t rest, ms, rules, .cons v vs =>
    let nm := fieldName name tag
    let v' : Option Val := match lookup nm ms with
      | none => some v
      | some j => tmplField pf fuel t j (findRule rules nm) v
    match v', tmplFields pf fuel rest ms rules vs with
    | some a, some b => some (.cons a b)
    | _, _ => none
  | _ + 1, .cons .., _, _, .nil => none
end

mutual
def tySize : Ty → Nat
  | .arr _ t | .ptr t | .slice t | .named _ t => 1 + tySize t
  | .map k v => 1 + tySize k + tySize v
  | .struct fs => 1 + fieldsSize fs
  | _ => 1
def fieldsSize : Fields → Nat
  | .nil => 0
  | .cons _ _ _ t rest => 1 + tySize t + fieldsSize rest
end

def specFuel (ty : Ty) (j : GV) : Nat := 4 * Enc.Model.Proto.GV.size j + 2 * tySize ty + 16

/-- the message value `v` (as `Spec.Protobuf.decode ty` returns it) with the template applied -/
def applyTemplate (pf : PF) (ty : Ty) (j : GV) (rules : List Rules) (v : Val) : Option Val :=
  match deref ty with
  | .struct fs =>
    match gvObj j, unwrapPtr ty v with
    | some ms, .struct vs =>
      if !allKnown fs ms then none
      else (tmplFields pf (specFuel ty j) fs ms rules vs).map fun vs' => wrapPtr ty (.struct vs')
    | _, _ => none
  | _ => none

/-! ### presence: an absent sub-message and a sub-message with all fields at their defaults are the same message value;
`nil` and pointer-to-zero are the same optional scalar (proto3) -/
mutual
def isDefault : Val → Bool
  | .bool b => !b
  | .int i => i == 0
  | .float b => b == 0
  | .str s => s.isEmpty
  | .nil => true
  | .ptr v => isDefault v
  | .list vs => match vs with | .nil => true | _ => false
  | .map kvs => match kvs with | .nil => true | _ => false
  | .struct vs => allDefault vs
def allDefault : Vals → Bool
  | .nil => true
  | .cons v r => isDefault v && allDefault r
end

mutual
def normPresence : Val → Val
  | .ptr v => if isDefault v then .nil else .ptr (normPresence v)
  | .list vs => .list (normPresenceVals vs)
  | .map kvs => .map (normPresenceVals kvs)
  | .struct vs => .struct (normPresenceVals vs)
  | v => v
def normPresenceVals : Vals → Vals
  | .nil => .nil
  | .cons v r => .cons (normPresence v) (normPresenceVals r)
end

/-- comparison form of a message value: presence normalised, nil ≡ empty, maps sorted by key -/
def norm (ty : Ty) (v : Val) : Val := canonical ty (normPresence v)

/-- a repeated-field template with an element that denotes the zero value (known finding
`proto-template-repeated-zero`: such elements compile to no rewriter and disappear from the list) -/
def valsAny (p : Val → Bool) : Vals → Bool
  | .nil => false
  | .cons v r => p v || valsAny p r

end Enc.Spec.ProtoTemplate
