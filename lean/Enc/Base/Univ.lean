import Enc.Base.Bytes
/-!
Shared type / value universe for the codec models (proto, thrift, json) and its text transport.

Mutual (not nested) inductives, values not indexed by types (see DESIGN.md Appendix A).

Text format = whitespace separated prefix tokens.
  types : bool int i8 i16 i32 i64 uint u8 u16 u32 u64 f32 f64 str bytes any
          arr <n> T | ptr T | sl T | map K V | st <n> (f <name> <taghex> <emb:0/1> T)*n | named <name> T
  values: b0 b1 | i <int> | f <bits> | s <hex> | nil | p V | l <n> V*n | m <n> (K V)*n | t <n> V*n
-/
namespace Enc

inductive IntKind where
  | int | i8 | i16 | i32 | i64 | uint | u8 | u16 | u32 | u64
  deriving DecidableEq, Repr

def IntKind.signed : IntKind → Bool
  | .int | .i8 | .i16 | .i32 | .i64 => true
  | _ => false

def IntKind.bits : IntKind → Nat
  | .int | .uint | .i64 | .u64 => 64
  | .i8 | .u8 => 8
  | .i16 | .u16 => 16
  | .i32 | .u32 => 32

def IntKind.name : IntKind → String
  | .int => "int" | .i8 => "i8" | .i16 => "i16" | .i32 => "i32" | .i64 => "i64"
  | .uint => "uint" | .u8 => "u8" | .u16 => "u16" | .u32 => "u32" | .u64 => "u64"

def IntKind.inRange (k : IntKind) (i : Int) : Bool :=
  if k.signed then decide (-(2 ^ (k.bits - 1) : Int) ≤ i) && decide (i < (2 ^ (k.bits - 1) : Int))
  else decide (0 ≤ i) && decide (i < (2 ^ k.bits : Int))

mutual
inductive Ty where
  | bool
  | int (k : IntKind)
  | f32 | f64
  | str | bytes
  | any
  | arr (n : Nat) (t : Ty)
  | ptr (t : Ty)
  | slice (t : Ty)
  | map (k v : Ty)
  | struct (fs : Fields)
  | named (name : String) (t : Ty)
inductive Fields where
  | nil
  | cons (name : String) (tag : String) (emb : Bool) (t : Ty) (rest : Fields)
end

mutual
inductive Val where
  | bool (b : Bool)
  | int (i : Int)
  | float (bits : Nat)
  | str (b : Bytes)          -- string / []byte / byte array contents
  | nil                      -- nil pointer, nil slice, nil map, nil interface
  | ptr (v : Val)
  | list (vs : Vals)         -- slice / array elements
  | map (kvs : Vals)         -- alternating key, value
  | struct (vs : Vals)       -- field values in declaration order
inductive Vals where
  | nil
  | cons (v : Val) (rest : Vals)
end

def Vals.toList : Vals → List Val
  | .nil => []
  | .cons v r => v :: r.toList
def Vals.ofList : List Val → Vals
  | [] => .nil
  | v :: r => .cons v (Vals.ofList r)
def Vals.length : Vals → Nat
  | .nil => 0
  | .cons _ r => r.length + 1
def Fields.length : Fields → Nat
  | .nil => 0
  | .cons _ _ _ _ r => r.length + 1

/-! ### printing -/
mutual
def Val.show : Val → String
  | .bool b => if b then "b1" else "b0"
  | .int i => "i " ++ toString i
  | .float b => "f " ++ toString b
  | .str b => "s " ++ toHex b
  | .nil => "nil"
  | .ptr v => "p " ++ v.show
  | .list vs => "l " ++ toString vs.length ++ vs.show
  | .map kvs => "m " ++ toString (kvs.length / 2) ++ kvs.show
  | .struct vs => "t " ++ toString vs.length ++ vs.show
def Vals.show : Vals → String
  | .nil => ""
  | .cons v r => " " ++ v.show ++ r.show
end

/-! ### parsing (fuel = number of tokens; total) -/
abbrev Toks := List String

def parseIntKind : String → Option IntKind
  | "int" => some .int | "i8" => some .i8 | "i16" => some .i16 | "i32" => some .i32 | "i64" => some .i64
  | "uint" => some .uint | "u8" => some .u8 | "u16" => some .u16 | "u32" => some .u32 | "u64" => some .u64
  | _ => none

def hexToString (h : String) : Option String := do
  let b ← fromHex h
  pure (String.fromUTF8! (ByteArray.mk b.toArray))

mutual
def parseTy : Nat → Toks → Option (Ty × Toks)
  | 0, _ => none
  | fuel + 1, tok :: rest =>
    match tok with
    | "bool" => some (.bool, rest)
    | "f32" => some (.f32, rest)
    | "f64" => some (.f64, rest)
    | "str" => some (.str, rest)
    | "bytes" => some (.bytes, rest)
    | "any" => some (.any, rest)
    | "arr" =>
      match rest with
      | n :: rest => do
        let n ← n.toNat?
        let (t, rest) ← parseTy fuel rest
        pure (.arr n t, rest)
      | _ => none
    | "ptr" => do let (t, rest) ← parseTy fuel rest; pure (.ptr t, rest)
    | "sl" => do let (t, rest) ← parseTy fuel rest; pure (.slice t, rest)
    | "map" => do
      let (k, rest) ← parseTy fuel rest
      let (v, rest) ← parseTy fuel rest
      pure (.map k v, rest)
    | "named" =>
      match rest with
      | n :: rest => do let (t, rest) ← parseTy fuel rest; pure (.named n t, rest)
      | _ => none
    | "st" =>
      match rest with
      | n :: rest => do
        let n ← n.toNat?
        let (fs, rest) ← parseFields fuel n rest
        pure (.struct fs, rest)
      | _ => none
    | other => do let k ← parseIntKind other; pure (.int k, rest)
  | _, [] => none
def parseFields : Nat → Nat → Toks → Option (Fields × Toks)
  | 0, _, _ => none
  | _ + 1, 0, rest => some (.nil, rest)
  | fuel + 1, n + 1, "f" :: name :: tag :: emb :: rest => do
    let tag ← hexToString tag
    let (t, rest) ← parseTy fuel rest
    let (fs, rest) ← parseFields fuel n rest
    pure (.cons name tag (emb == "1") t fs, rest)
  | _, _, _ => none
end

mutual
def parseVal : Nat → Toks → Option (Val × Toks)
  | 0, _ => none
  | fuel + 1, tok :: rest =>
    match tok with
    | "b0" => some (.bool false, rest)
    | "b1" => some (.bool true, rest)
    | "nil" => some (.nil, rest)
    | "i" => match rest with
      | n :: rest => do let i ← n.toInt?; pure (.int i, rest)
      | _ => none
    | "f" => match rest with
      | n :: rest => do let i ← n.toNat?; pure (.float i, rest)
      | _ => none
    | "s" => match rest with
      | h :: rest => do let b ← fromHex h; pure (.str b, rest)
      | _ => none
    | "p" => do let (v, rest) ← parseVal fuel rest; pure (.ptr v, rest)
    | "l" => match rest with
      | n :: rest => do let n ← n.toNat?; let (vs, rest) ← parseVals fuel n rest; pure (.list vs, rest)
      | _ => none
    | "m" => match rest with
      | n :: rest => do let n ← n.toNat?; let (vs, rest) ← parseVals fuel (2 * n) rest; pure (.map vs, rest)
      | _ => none
    | "t" => match rest with
      | n :: rest => do let n ← n.toNat?; let (vs, rest) ← parseVals fuel n rest; pure (.struct vs, rest)
      | _ => none
    | _ => none
  | _, [] => none
def parseVals : Nat → Nat → Toks → Option (Vals × Toks)
  | 0, _, _ => none
  | _ + 1, 0, rest => some (.nil, rest)
  | fuel + 1, n + 1, rest => do
    let (v, rest) ← parseVal fuel rest
    let (vs, rest) ← parseVals fuel n rest
    pure (.cons v vs, rest)
end

def tokens (s : String) : Toks := (s.splitOn " ").filter (· ≠ "")

def Ty.parse (s : String) : Option Ty :=
  let t := tokens s
  match parseTy (t.length + 1) t with
  | some (ty, []) => some ty
  | _ => none

def Val.parse (s : String) : Option Val :=
  let t := tokens s
  match parseVal (t.length + 1) t with
  | some (v, []) => some v
  | _ => none

end Enc
