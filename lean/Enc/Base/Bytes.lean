/-
Base: byte strings as `List UInt8`, hex transport for the line protocol.
Core-only (no Mathlib): everything here is linked into the `encdriver` executable.
-/
namespace Enc

abbrev Bytes := List UInt8

def hexDigit (n : Nat) : Char :=
  if n < 10 then Char.ofNat (48 + n) else Char.ofNat (87 + n)

def hexOfByte (b : UInt8) : String :=
  String.ofList [hexDigit (b.toNat / 16), hexDigit (b.toNat % 16)]

/-- lowercase hex, `-` for the empty string (line protocol convention) -/
def toHex (bs : Bytes) : String :=
  if bs.isEmpty then "-" else String.join (bs.map hexOfByte)

def hexVal (c : Char) : Option Nat :=
  if '0' ≤ c ∧ c ≤ '9' then some (c.toNat - 48)
  else if 'a' ≤ c ∧ c ≤ 'f' then some (c.toNat - 87)
  else if 'A' ≤ c ∧ c ≤ 'F' then some (c.toNat - 55)
  else none

def fromHexAux : List Char → Bytes → Option Bytes
  | [], acc => some acc.reverse
  | [_], _ => none
  | a :: b :: rest, acc =>
    match hexVal a, hexVal b with
    | some x, some y => fromHexAux rest (UInt8.ofNat (x * 16 + y) :: acc)
    | _, _ => none

def fromHex (s : String) : Option Bytes :=
  if s = "-" then some [] else fromHexAux s.toList []

/-- outcome of a modelled Go function: value, returned error (small class enum as text), or panic -/
inductive Res (α : Type) where
  | ok (a : α)
  | err (cls : String)
  | panic (cls : String)
  deriving Repr, DecidableEq

def Res.show {α} (f : α → String) : Res α → String
  | .ok a => "ok:" ++ f a
  | .err c => "err:" ++ c
  | .panic c => "panic:" ++ c

@[inline] def Res.bind {α β} (r : Res α) (f : α → Res β) : Res β :=
  match r with
  | .ok a => f a
  | .err e => .err e
  | .panic e => .panic e

/-- `n ≤ l.length` without walking the whole list (cost O(n), not O(length)) -/
def hasAtLeast {α} : List α → Nat → Bool
  | _, 0 => true
  | [], _ + 1 => false
  | _ :: r, n + 1 => hasAtLeast r n

def boolStr (b : Bool) : String := if b then "1" else "0"

end Enc
