import Enc.Base.Univ
/-!
Go memory layout (amd64) of the types of the shared universe: `reflect.Type.Size()` / `Align()` as a fixed function of the
type (word = 8). Used by the allocation accounting of the proto and thrift decoders (`Enc/Model/ProtoAlloc.lean`,
`Enc/Model/ThriftAlloc.lean`); checked against `reflect` by the harness ops `proto.allocm` / `thrift.allocm`.
-/
namespace Enc

-- go: proto.align
def alignUp (a s : Nat) : Nat := if a != 0 && s % a != 0 then (s / a + 1) * a else s

mutual
/-- `reflect.Type.Size()` from the type itself (`Codec.sz (codecOf t) = sizeOfTy t` is checked case by case by the
harness op `proto.allocm`, which prints `reflect.Type.Size()`) -/
def sizeOfTy : Ty → Nat
  | .bool => 1
  | .int k => k.bits / 8
  | .f32 => 4
  | .f64 => 8
  | .str => 16
  | .bytes => 24
  | .any => 16
  | .arr n t => n * sizeOfTy t
  | .ptr _ => 8
  | .slice _ => 24
  | .map _ _ => 8
  | .struct fs => alignUp (alignOfFields fs) (layoutFields fs 0 false)
  | .named _ t => sizeOfTy t
def alignOfTy : Ty → Nat
  | .bool => 1
  | .int k => k.bits / 8
  | .f32 => 4
  | .arr _ t => alignOfTy t
  | .struct fs => alignOfFields fs
  | .named _ t => alignOfTy t
  | _ => 8
def alignOfFields : Fields → Nat
  | .nil => 1
  | .cons _ _ _ t rest => max (alignOfTy t) (alignOfFields rest)
def layoutFields : Fields → Nat → Bool → Nat
  | .nil, off, lastZero => if lastZero && off > 0 then off + 1 else off
  | .cons _ _ _ t rest, off, _ => layoutFields rest (alignUp (alignOfTy t) off + sizeOfTy t) (sizeOfTy t == 0)
end

end Enc
