import Enc.Base.Bytes
/-!
Go's `unicode/utf8.DecodeRune` as a total function (a *parameter* shared by implementation and oracle: both call the
same standard-library routine). Returns (rune, size); invalid or short encodings give (0xFFFD, 1).
Accept ranges as in utf8.go: overlong forms, surrogates (ED A0..BF) and values above U+10FFFF (F4 90.., F5..) are invalid.
-/
namespace Enc.Utf8
open Enc

def runeError : Nat := 0xFFFD

def cont (c : UInt8) : Bool := 0x80 ≤ c && c ≤ 0xBF

def decodeRune (b : Bytes) : Nat × Nat :=
  match b with
  | [] => (runeError, 0)
  | c0 :: rest =>
    let x := c0.toNat
    if x < 0x80 then (x, 1)
    else if 0xC2 ≤ x ∧ x ≤ 0xDF then
      match rest with
      | c1 :: _ => if cont c1 then ((x - 0xC0) * 64 + (c1.toNat - 0x80), 2) else (runeError, 1)
      | _ => (runeError, 1)
    else if 0xE0 ≤ x ∧ x ≤ 0xEF then
      match rest with
      | c1 :: c2 :: _ =>
        let lo : Nat := if x == 0xE0 then 0xA0 else 0x80
        let hi : Nat := if x == 0xED then 0x9F else 0xBF
        if lo ≤ c1.toNat ∧ c1.toNat ≤ hi ∧ cont c2 then
          ((x - 0xE0) * 4096 + (c1.toNat - 0x80) * 64 + (c2.toNat - 0x80), 3)
        else (runeError, 1)
      | _ => (runeError, 1)
    else if 0xF0 ≤ x ∧ x ≤ 0xF4 then
      match rest with
      | c1 :: c2 :: c3 :: _ =>
        let lo : Nat := if x == 0xF0 then 0x90 else 0x80
        let hi : Nat := if x == 0xF4 then 0x8F else 0xBF
        if lo ≤ c1.toNat ∧ c1.toNat ≤ hi ∧ cont c2 ∧ cont c3 then
          ((x - 0xF0) * 262144 + (c1.toNat - 0x80) * 4096 + (c2.toNat - 0x80) * 64 + (c3.toNat - 0x80), 4)
        else (runeError, 1)
      | _ => (runeError, 1)
    else (runeError, 1)

/-- Go's `utf8.EncodeRune` (surrogates and values above U+10FFFF are written as U+FFFD) -/
def encodeRune (r : Nat) : Bytes :=
  let r := if (0xD800 ≤ r ∧ r ≤ 0xDFFF) ∨ r > 0x10FFFF then runeError else r
  if r < 0x80 then [UInt8.ofNat r]
  else if r < 0x800 then [UInt8.ofNat (0xC0 + r / 64), UInt8.ofNat (0x80 + r % 64)]
  else if r < 0x10000 then [UInt8.ofNat (0xE0 + r / 4096), UInt8.ofNat (0x80 + r / 64 % 64), UInt8.ofNat (0x80 + r % 64)]
  else [UInt8.ofNat (0xF0 + r / 262144), UInt8.ofNat (0x80 + r / 4096 % 64), UInt8.ofNat (0x80 + r / 64 % 64), UInt8.ofNat (0x80 + r % 64)]

end Enc.Utf8
