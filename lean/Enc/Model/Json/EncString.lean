import Enc.Base.Utf8
import Enc.Gen.Consts
/-!
Model of `json.encoder.encodeString` with `escapeIndex` (8-byte SWAR scan: `below`, `contains`, `expand`) and of
`formatInteger` (two-digits-at-a-time table) from /repo/json/encode.go, string.go, int.go.
-/
namespace Enc.Model.Json
open Enc

def lsb64 : BitVec 64 := BitVec.ofNat 64 Gen.c_json_lsb
def msb64 : BitVec 64 := BitVec.ofNat 64 Gen.c_json_msb

-- go: json.expand / below / contains
def expand (b : UInt8) : BitVec 64 := lsb64 * b.toBitVec.zeroExtend 64
def below (n : BitVec 64) (b : UInt8) : BitVec 64 := n - expand b
def containsB (n : BitVec 64) (b : UInt8) : BitVec 64 := (n ^^^ expand b) - lsb64

def leWord (a b c d e f g h : UInt8) : BitVec 64 :=
  h.toBitVec ++ g.toBitVec ++ f.toBitVec ++ e.toBitVec ++ d.toBitVec ++ c.toBitVec ++ b.toBitVec ++ a.toBitVec

/-- the per-word mask of escapeIndex -/
def escMask (n : BitVec 64) (escapeHTML : Bool) : BitVec 64 :=
  let m := n ||| below n 0x20 ||| containsB n 0x22 ||| containsB n 0x5c
  let m := if escapeHTML then m ||| containsB n 0x3c ||| containsB n 0x3e ||| containsB n 0x26 else m
  m &&& msb64

def needsEscapeByte (c : UInt8) (escapeHTML : Bool) : Bool :=
  c < 0x20 || c > 0x7f || c == 0x22 || c == 0x5c || (escapeHTML && (c == 0x3c || c == 0x3e || c == 0x26))

/-- tail loop of escapeIndex (bytes after the last full word) -/
def escapeIndexTail (s : Bytes) (i : Nat) (escapeHTML : Bool) : Option Nat :=
  match s with
  | [] => none
  | c :: r => if needsEscapeByte c escapeHTML then some i else escapeIndexTail r (i + 1) escapeHTML

-- go: json.escapeIndex  (none = -1)
def escapeIndex (s : Bytes) (escapeHTML : Bool) : Option Nat :=
  let rec go (s : Bytes) (base : Nat) : Option Nat :=
    match s with
    | a :: b :: c :: d :: e :: f :: g :: h :: rest =>
      let m := escMask (leWord a b c d e f g h) escapeHTML
      if m != 0#64 then some (base + m.ctz.toNat / 8) else go rest (base + 8)
    | tail => escapeIndexTail tail base escapeHTML
  go s 0

def hexDigitLower (n : Nat) : UInt8 := UInt8.ofNat (Gen.c_json_hex.toUTF8.toList.getD n 0).toNat

def escapeByteRepr (c : UInt8) : UInt8 :=
  if c == 0x5c || c == 0x22 then c
  else if c == 0x08 then 0x62 else if c == 0x0c then 0x66 else if c == 0x0a then 0x6e
  else if c == 0x0d then 0x72 else if c == 0x09 then 0x74 else 0

/-- the slow loop of encodeString starting at the unprocessed suffix `s` (everything before is already copied).
Output of the loop body; fuel = len(s). -/
def encLoop (escapeHTML : Bool) : Nat → Bytes → Bytes
  | 0, _ => []
  | fuel + 1, s =>
    match s with
    | [] => []
    | c :: rest =>
      if c ≥ 0x20 && c ≤ 0x7f && c != 0x5c && c != 0x22 && (!escapeHTML || (c != 0x3c && c != 0x3e && c != 0x26)) then
        c :: encLoop escapeHTML fuel rest
      else if c == 0x5c || c == 0x22 || c == 0x08 || c == 0x0c || c == 0x0a || c == 0x0d || c == 0x09 then
        0x5c :: escapeByteRepr c :: encLoop escapeHTML fuel rest
      else if c == 0x3c || c == 0x3e || c == 0x26 || c < 0x20 then
        [0x5c, 0x75, 0x30, 0x30, hexDigitLower (c.toNat / 16), hexDigitLower (c.toNat % 16)] ++ encLoop escapeHTML fuel rest
      else
        let (r, size) := Utf8.decodeRune s
        if r == Utf8.runeError && size == 1 then
          [0x5c, 0x75, 0x66, 0x66, 0x66, 0x64] ++ encLoop escapeHTML fuel rest
        else if r == 0x2028 || r == 0x2029 then
          [0x5c, 0x75, 0x32, 0x30, 0x32, hexDigitLower (r % 16)] ++ encLoop escapeHTML fuel (s.drop size)
        else s.take size ++ encLoop escapeHTML fuel (s.drop size)

-- go: json.encoder.encodeString
def encodeString (s : Bytes) (escapeHTML : Bool) : Bytes :=
  if s.isEmpty then [0x22, 0x22]
  else
    let j : Nat :=
      if s.length ≥ 8 then (match escapeIndex s escapeHTML with | some j => j | none => s.length) else 0
    if s.length ≥ 8 && (escapeIndex s escapeHTML).isNone then [0x22] ++ s ++ [0x22]
    else [0x22] ++ s.take j ++ encLoop escapeHTML (s.length + 1) (s.drop j) ++ [0x22]

/-! ### integers -/
/-- `lookup[j]` as two ASCII digits (high, low) — from the regenerated little-endian table: low byte = tens digit -/
def twoDigits (j : Nat) : Bytes :=
  let u := Gen.t_json_intLELookup.getD j 0
  [UInt8.ofNat (u % 256), UInt8.ofNat (u / 256)]

/-- the `for n >= 100` loop: pairs of digits, most significant first -/
def pairs : Nat → Nat → Bytes
  | 0, _ => []
  | fuel + 1, n => if n ≥ 100 then pairs fuel (n / 100) ++ twoDigits (n % 100) else twoDigits n

-- go: json.formatInteger (n = magnitude)
def formatInteger (n : Nat) (negative : Bool) : Bytes :=
  if !negative && n < 10 then [UInt8.ofNat (n + 0x30)]
  else if !negative && n < 100 then twoDigits n
  else
    let ds := pairs 11 n
    let ds := match ds with | 0x30 :: rest => rest | d => d      -- `if n < 10 { i++ }`: remove the leading zero
    if negative then 0x2d :: ds else ds

def appendInt (i : Int) : Bytes := formatInteger i.natAbs (i < 0)

end Enc.Model.Json
