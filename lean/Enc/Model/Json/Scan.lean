import Enc.Base.Bytes
import Enc.Gen.Consts
/-!
Model of the syntax layer of /repo/json/parse.go: `skipSpaces`, `internalParseFlags`, `parseNull/True/False`,
`parseNumber`, `parseString` (8/16-byte SWAR quote search, flag-guarded early return, slow loop,
`parseUnicode`/`parseUintHex`), `parseObject`, `parseArray`, `parseValue`, and `Valid`.

A parse result is `ok kind rest` (the value is the input minus `rest`) or `err restEmpty`: for errors only the
emptiness of the returned remainder is kept, because that is what `Decoder.readValue` looks at
("need more input" vs "syntax error").
-/
namespace Enc.Model.Json
open Enc

inductive Kind where
  | null | false_ | true_ | uint | int | float | string | unescaped | array | object
  deriving DecidableEq, Repr

def Kind.code : Kind → Nat
  | .null => Gen.c_json_Null | .false_ => Gen.c_json_False | .true_ => Gen.c_json_True
  | .uint => Gen.c_json_Uint | .int => Gen.c_json_Int | .float => Gen.c_json_Float
  | .string => Gen.c_json_String | .unescaped => Gen.c_json_Unescaped
  | .array => Gen.c_json_Array | .object => Gen.c_json_Object

def Kind.isNum : Kind → Bool
  | .uint | .int | .float => true
  | _ => false

inductive PR where
  | ok (k : Kind) (rest : Bytes)
  | err (restEmpty : Bool)
  deriving DecidableEq, Repr

structure PFlags where
  noBackslash : Bool := false
  validAsciiPrint : Bool := false
  deriving DecidableEq, Repr

def isSpace (c : UInt8) : Bool := c == 0x20 || c == 0x09 || c == 0x0a || c == 0x0d

-- go: json.skipSpacesN
def skipSpacesN : Bytes → Bytes
  | [] => []
  | c :: rest => if isSpace c then skipSpacesN rest else c :: rest

-- go: json.skipSpaces  (`b[0] <= 0x20` guard, then skipSpacesN)
def skipSpaces (b : Bytes) : Bytes :=
  match b with
  | c :: _ => if c ≤ 0x20 then skipSpacesN b else b
  | [] => []

-- go: json.trimTrailingSpaces
def trimTrailingSpaces (b : Bytes) : Bytes := (skipSpacesNRev b.reverse).reverse
where skipSpacesNRev : Bytes → Bytes
  | [] => []
  | c :: rest => if isSpace c then skipSpacesNRev rest else c :: rest

def validPrint (b : Bytes) : Bool := b.all fun c => 0x20 ≤ c && c ≤ 0x7e   -- ascii.ValidPrint (C20)

-- go: json.internalParseFlags
def internalParseFlags (b : Bytes) : PFlags :=
  let b := trimTrailingSpaces (skipSpaces b)
  { validAsciiPrint := validPrint b, noBackslash := !b.contains 0x5c }

def isDigit (c : UInt8) : Bool := 0x30 ≤ c && c ≤ 0x39

def hasPrefix (b p : Bytes) : Bool := p.isPrefixOf b

-- go: parseNull / parseTrue / parseFalse
def parseLit (b lit : Bytes) (k : Kind) : PR :=
  if hasPrefix b lit then .ok k (b.drop lit.length)
  else if b.length < lit.length then .err true
  else .err false

def skipDigits : Bytes → Bytes
  | [] => []
  | c :: rest => if isDigit c then skipDigits rest else c :: rest

-- go: json.parseNumber
def parseNumber (b : Bytes) : PR :=
  match b with
  | [] => .err true
  | c0 :: r0 =>
    let (kind0, b1) := if c0 == 0x2d then (Kind.int, r0) else (Kind.uint, b)
    match b1 with
    | [] => .err true                                   -- "missing number value after sign": r = b[i:] = empty
    | d :: r1 =>
      if !isDigit d then .err false                     -- r = b[i:] non-empty
      else
        -- integer part
        let afterInt : Option Bytes :=
          if d == 0x30 then
            match r1 with
            | [] => none
            | x :: _ => if x != 0x2e && x != 0x65 && x != 0x45 then none else some r1
          else some (skipDigits r1)
        match afterInt with
        | none => .ok kind0 r1                          -- "0" alone (or followed by anything but . e E)
        | some b2 =>
          -- fraction
          let fr : Option (Kind × Bytes) :=            -- none = error
            match b2 with
            | 0x2e :: r2 =>
              let r3 := skipDigits r2
              if r3.length == r2.length then none else some (Kind.float, r3)
            | _ => some (kind0, b2)
          match fr with
          | none =>
            -- "expected digit but found" (r non-empty) or "expected decimal part after '.'" (r empty)
            (match b2 with | _ :: [] => .err true | _ => .err false)
          | some (k1, b3) =>
            match b3 with
            | e :: r4 =>
              if e == 0x65 || e == 0x45 then
                let r5 := match r4 with
                  | s :: r => if s == 0x2b || s == 0x2d then r else r4
                  | [] => r4
                match r5 with
                | [] => .err true                       -- missing exponent: r = b[i:] empty
                | x :: _ =>
                  if !isDigit x then .err true          -- as coded: `r` is left unset (nil) on this path
                  else .ok .float (skipDigits r5)
              else .ok k1 b3
            | [] => .ok k1 b3

def isHex (c : UInt8) : Bool := isDigit c || (0x41 ≤ c && c ≤ 0x46) || (0x61 ≤ c && c ≤ 0x66)

/-- little-endian load for the SWAR quote search -/
def le64 (a b c d e f g h : UInt8) : BitVec 64 :=
  h.toBitVec ++ g.toBitVec ++ f.toBitVec ++ e.toBitVec ++ d.toBitVec ++ c.toBitVec ++ b.toBitVec ++ a.toBitVec

/-- `(u - mask2) & ^u & mask3` with `u = word ^ mask1`: non-zero iff some byte of the word is `"`;
the position of the first one is `TrailingZeros64(mask)/8` -/
def quoteMask (w : BitVec 64) : BitVec 64 :=
  let u := w ^^^ 0x2222222222222222#64
  (u - 0x0101010101010101#64) &&& ~~~u &&& 0x8080808080808080#64

def ctz8 (m : BitVec 64) : Nat := (m.ctz.toNat) / 8

def indexByte (b : Bytes) (c : UInt8) : Option Nat :=
  let rec go (b : Bytes) (i : Nat) : Option Nat :=
    match b with
    | [] => none
    | x :: r => if x == c then some i else go r (i + 1)
  go b 0

/-- the three-stage search for the closing quote of `b` (which starts with `"`): returns n = index of the byte after it -/
def findQuote (b : Bytes) : Option Nat :=
  let stage3 := (indexByte (b.drop 1) 0x22).map (· + 2)
  match b with
  | _ :: b1 :: b2 :: b3 :: b4 :: b5 :: b6 :: b7 :: b8 :: rest =>          -- len(b) >= 9
    let m1 := quoteMask (le64 b1 b2 b3 b4 b5 b6 b7 b8)
    if m1 != 0#64 then some (ctz8 m1 + 2)
    else
      match rest with
      | c1 :: c2 :: c3 :: c4 :: c5 :: c6 :: c7 :: c8 :: _ =>               -- len(b) >= 17
        let m2 := quoteMask (le64 c1 c2 c3 c4 c5 c6 c7 c8)
        if m2 != 0#64 then some (ctz8 m2 + 10) else stage3
      | _ => stage3
  | _ => stage3

/-- slow loop of parseString over b[1:]; `b` here is the list after the opening quote -/
def stringLoop : Bytes → PR
  | [] => .err true                                       -- missing closing quote: r = b[len(b):]
  | c :: rest =>
    if c == 0x5c then
      match rest with
      | [] => .err true                                   -- `i++; i < len(b)` false → loop ends → missing quote
      | e :: rest2 =>
        if e == 0x22 || e == 0x5c || e == 0x2f || e == 0x6e || e == 0x72 || e == 0x74 || e == 0x66 || e == 0x62 then stringLoop rest2
        else if e == 0x75 then
          -- parseUnicode(b[i+1:]): needs 4 hex digits
          match rest2 with
          | h1 :: h2 :: h3 :: h4 :: rest3 =>
            if isHex h1 && isHex h2 && isHex h3 && isHex h4 then stringLoop rest3
            else .err (rest3.isEmpty)                     -- returns b[i+1+4:]
          | _ => .err true                                -- fewer than 4 bytes left: returns b[i+1+len:] = empty
        else .err false
    else if c == 0x22 then .ok .string rest
    else if c < 0x20 then .err false
    else stringLoop rest

-- go: json.parseString
def parseString (fl : PFlags) (b : Bytes) : PR :=
  if b.length < 2 then .err true
  else
    match b with
    | q :: body =>
      if q != 0x22 then .err false
      else
        match findQuote b with
        | none => .err true
        | some n =>
          let inner := (b.take n).drop 1
          if (fl.noBackslash || !inner.contains 0x5c) && (fl.validAsciiPrint || validPrint inner) then
            .ok .unescaped (b.drop n)
          else stringLoop body
    | [] => .err true

/-- `d.nest`: entering an array or object at nesting depth `depth` is refused beyond maxNestingDepth -/
def nestOK (depth : Nat) : Bool := depth + 1 ≤ Gen.c_json_maxNestingDepth

mutual
-- go: json.parseValue   (`depth` = decoder.depth: the number of arrays and objects enclosing the value)
def parseValue (fl : PFlags) (depth : Nat) : Nat → Bytes → PR
  | 0, _ => .err true
  | fuel + 1, b =>
    match b with
    | [] => .err true
    | c :: _ =>
      if c == 0x7b then parseObject fl depth fuel b
      else if c == 0x5b then parseArray fl depth fuel b
      else if c == 0x22 then parseString fl b
      else if c == 0x6e then parseLit b [0x6e, 0x75, 0x6c, 0x6c] .null
      else if c == 0x74 then parseLit b [0x74, 0x72, 0x75, 0x65] .true_
      else if c == 0x66 then parseLit b [0x66, 0x61, 0x6c, 0x73, 0x65] .false_
      else if c == 0x2d || isDigit c then parseNumber b
      else .err false
-- go: json.parseArray
def parseArray (fl : PFlags) (depth : Nat) : Nat → Bytes → PR
  | 0, _ => .err true
  | fuel + 1, b =>
    if b.length < 2 then .err true
    else match b with
      | _ :: rest => if !nestOK depth then .err false else arrayLoop fl (depth + 1) fuel rest 0
      | [] => .err true
def arrayLoop (fl : PFlags) (depth : Nat) : Nat → Bytes → Nat → PR
  | 0, _, _ => .err true
  | fuel + 1, b, i =>
    let b := skipSpaces b
    match b with
    | [] => .err true
    | c :: rest =>
      if c == 0x5d then .ok .array rest
      else
        let afterComma : Option Bytes :=                 -- none = error (with rest emptiness below)
          if i != 0 then
            if c != 0x2c then none
            else
              let b2 := skipSpaces rest
              match b2 with
              | [] => some []
              | x :: _ => if x == 0x5d then none else some b2
          else some b
        match afterComma with
        | none => .err false
        | some [] => .err true
        | some b3 =>
          match parseValue fl depth fuel b3 with
          | .ok _ r => arrayLoop fl depth fuel r (i + 1)
          | .err e => .err e
-- go: json.parseObject
def parseObject (fl : PFlags) (depth : Nat) : Nat → Bytes → PR
  | 0, _ => .err true
  | fuel + 1, b =>
    if b.length < 2 then .err true
    else match b with
      | _ :: rest => if !nestOK depth then .err false else objectLoop fl (depth + 1) fuel rest 0
      | [] => .err true
def objectLoop (fl : PFlags) (depth : Nat) : Nat → Bytes → Nat → PR
  | 0, _, _ => .err true
  | fuel + 1, b, i =>
    let b := skipSpaces b
    match b with
    | [] => .err true
    | c :: rest =>
      if c == 0x7d then .ok .object rest
      else
        let afterComma : Option Bytes :=
          if i != 0 then
            if c != 0x2c then none
            else
              let b2 := skipSpaces rest
              match b2 with
              | [] => some []
              | x :: _ => if x == 0x7d then none else some b2
          else some b
        match afterComma with
        | none => .err false
        | some [] => .err true
        | some b3 =>
          match parseString fl b3 with
          | .err e => .err e
          | .ok _ r =>
            let r := skipSpaces r
            match r with
            | [] => .err true
            | x :: r2 =>
              if x != 0x3a then .err false
              else
                match parseValue fl depth fuel (skipSpaces r2) with
                | .ok _ r3 => objectLoop fl depth fuel r3 (i + 1)
                | .err e => .err e
end

def fuelFor (b : Bytes) : Nat := 3 * b.length + 8

-- go: json.Valid
def valid (data : Bytes) : Bool :=
  let data := skipSpaces data
  match parseValue (internalParseFlags data) 0 (fuelFor data) data with
  | .ok _ rest => (skipSpaces rest).isEmpty
  | .err _ => false

end Enc.Model.Json
