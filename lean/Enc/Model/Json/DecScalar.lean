import Enc.Model.Json.Scan
import Enc.Base.Utf8
/-!
# Model of the scalar decoders of json/parse.go and json/decode.go

`parseInt`, `parseUint`, `parseUintHex`, `parseUnicode`, `parseStringUnquote`, and the width checks of decodeInt8…decodeUint64,
composed as `Parse` composes them for a top-level scalar target (skipSpaces, decode, skipSpaces, nothing may remain).
Machine integers are `BitVec 64` with the signed / unsigned comparisons the Go code uses, so that the overflow tests are
modelled as written (the property is about them).
-/
namespace Enc.Model.Json
open Enc

def dval (c : UInt8) : BitVec 64 := BitVec.ofNat 64 (c.toNat - 0x30)

def minI64 : BitVec 64 := BitVec.intMin 64
def maxI64 : BitVec 64 := BitVec.intMax 64
def maxU64 : BitVec 64 := BitVec.allOnes 64

/-- outcome of one integer loop: the accumulated value and the number of digits consumed, or overflow -/
inductive Loop where
  | done (v : BitVec 64) (count : Nat)
  | overflow
  deriving DecidableEq, Repr

/-- negative branch of parseInt: `for _, c := range b[1:]`, accumulating downwards from 0 -/
def negLoop : Bytes → BitVec 64 → Nat → Loop
  | [], v, n => .done v n
  | c :: cs, v, n =>
    if !isDigit c then .done v n
    else if v.slt (minI64.sdiv 10#64) then .overflow                 -- value < lim
    else
      let v10 := v * 10#64
      let x := dval c
      if v10.slt (minI64 + x) then .overflow                          -- value < max + x
      else negLoop cs (v10 - x) (n + 1)

/-- positive branch of parseInt -/
def posLoopS : Bytes → BitVec 64 → Nat → Loop
  | [], v, n => .done v n
  | c :: cs, v, n =>
    if !isDigit c then .done v n
    else
      let x := dval c
      if (maxI64.sdiv 10#64).slt v || (maxI64 - x).slt (v * 10#64) then .overflow   -- value > lim || value*10 > max-x
      else posLoopS cs (v * 10#64 + x) (n + 1)

/-- parseUint's loop -/
def posLoopU : Bytes → BitVec 64 → Nat → Loop
  | [], v, n => .done v n
  | c :: cs, v, n =>
    if !isDigit c then .done v n
    else
      let x := dval c
      if (maxU64 / 10#64) < v || (maxU64 - x) < (v * 10#64) then .overflow
      else posLoopU cs (v * 10#64 + x) (n + 1)

/-- result of parseInt / parseUint: value and remainder, or an error (the kind of error is not observable through
Unmarshal's nil / non-nil contract) -/
inductive IR where
  | ok (v : BitVec 64) (rest : Bytes)
  | err
  deriving DecidableEq, Repr

/-- `if count < len(b) { switch b[count] { case '.', 'e', 'E': type error } }` then `b[count:]` -/
def finishInt (b : Bytes) (v : BitVec 64) (count : Nat) : IR :=
  match b.drop count with
  | c :: _ => if c == 0x2e || c == 0x65 || c == 0x45 then .err else .ok v (b.drop count)
  | [] => .ok v []

-- go: json.parseInt
def parseInt (b : Bytes) : IR :=
  match b with
  | [] => .err
  | c0 :: b1 =>
    if c0 == 0x2d then
      match b1 with
      | [] => .err                                                   -- "-"
      | c1 :: b2 =>
        let lz := match b2 with | c2 :: _ => c1 == 0x30 && isDigit c2 | [] => false
        if lz then .err
        else match negLoop b1 0#64 0 with
          | .overflow => .err
          | .done v n => if n == 0 then .err else finishInt b v (n + 1)
    else
      let lz := match b1 with | c1 :: _ => c0 == 0x30 && isDigit c1 | [] => false
      if lz then .err
      else match posLoopS b 0#64 0 with
        | .overflow => .err
        | .done v n => if n == 0 then .err else finishInt b v n

-- go: json.parseUint
def parseUint (b : Bytes) : IR :=
  match b with
  | [] => .err
  | c0 :: b1 =>
    let lz := match b1 with | c1 :: _ => c0 == 0x30 && isDigit c1 | [] => false
    if lz then .err
    else match posLoopU b 0#64 0 with
      | .overflow => .err
      | .done v n => if n == 0 then .err else finishInt b v n

/-- integer target types -/
inductive ITy where
  | i8 | i16 | i32 | i64 | int | u8 | u16 | u32 | u64 | uint
  deriving DecidableEq, Repr

def ITy.signed : ITy → Bool
  | .i8 | .i16 | .i32 | .i64 | .int => true
  | _ => false

def ITy.bits : ITy → Nat
  | .i8 | .u8 => 8 | .i16 | .u16 => 16 | .i32 | .u32 => 32 | _ => 64

/-- decodeInt8 … decodeUint64: parse, then the width test; `null` leaves the target alone -/
def decodeIntTy (t : ITy) (b : Bytes) : Option (Option Int × Bytes) :=
  if hasPrefix b [0x6e, 0x75, 0x6c, 0x6c] then some (none, b.drop 4)
  else if t.signed then
    match parseInt b with
    | .err => none
    | .ok v r =>
      let i := v.toInt
      if t.bits < 64 && (i < -(2 ^ (t.bits - 1) : Int) || i > (2 ^ (t.bits - 1) : Int) - 1) then none else some (some i, r)
  else
    match parseUint b with
    | .err => none
    | .ok v r =>
      if t.bits < 64 && v.toNat > 2 ^ t.bits - 1 then none else some (some (v.toNat : Int), r)

/-- `Unmarshal(doc, &x)` for an integer x initially 0: the value stored, or none when an error is returned -/
def unmarshalInt (t : ITy) (doc : Bytes) : Option Int :=
  match decodeIntTy t (skipSpaces doc) with
  | none => none
  | some (v, r) => if (skipSpaces r).isEmpty then some (v.getD 0) else none

/-! ## strings -/

def hexVal (c : UInt8) : Nat :=
  if isDigit c then c.toNat - 0x30 else if 0x41 ≤ c && c ≤ 0x46 then c.toNat - 0x41 + 10 else c.toNat - 0x61 + 10

-- go: json.parseUnicode (over exactly four bytes, each checked by parseUintHex)
def parseUnicode (b : Bytes) : Option (Nat × Bytes) :=
  match b with
  | h1 :: h2 :: h3 :: h4 :: rest =>
    if isHex h1 && isHex h2 && isHex h3 && isHex h4 then
      some (((hexVal h1 * 16 + hexVal h2) * 16 + hexVal h3) * 16 + hexVal h4, rest)
    else none
  | _ => none

def isSurrogate (r : Nat) : Bool := 0xD800 ≤ r && r < 0xE000

-- go: utf16.DecodeRune
def utf16Decode (r1 r2 : Nat) : Nat :=
  if 0xD800 ≤ r1 && r1 < 0xDC00 && 0xDC00 ≤ r2 && r2 < 0xE000 then (r1 - 0xD800) * 1024 + (r2 - 0xDC00) + 0x10000
  else Utf8.runeError

/-- appendCoerceInvalidUTF8: `for _, r := range string(s)` re-encoding every rune -/
def coerceUTF8 : Nat → Bytes → Bytes
  | 0, _ => []
  | _, [] => []
  | fuel + 1, b =>
    let (r, n) := Utf8.decodeRune b
    Utf8.encodeRune r ++ coerceUTF8 fuel (b.drop (max n 1))

def splitAtBackslash : Bytes → Bytes × Option Bytes
  | [] => ([], none)
  | c :: r => if c == 0x5c then ([], some r) else
    let (p, q) := splitAtBackslash r
    (c :: p, q)

/-- the unescaping loop of parseStringUnquote over the text between the quotes -/
def unquoteLoop : Nat → Bytes → Option Bytes
  | 0, _ => none
  | fuel + 1, s =>
    match splitAtBackslash s with
    | (p, none) => some (coerceUTF8 (p.length + 1) p)
    | (p, some []) => none                                            -- unreachable after parseString: `s[0]` would panic
    | (p, some (c :: r)) =>
      let pre := coerceUTF8 (p.length + 1) p
      if c == 0x22 || c == 0x5c || c == 0x2f then (unquoteLoop fuel r).map (pre ++ [c] ++ ·)
      else if c == 0x6e then (unquoteLoop fuel r).map (pre ++ [0x0a] ++ ·)
      else if c == 0x72 then (unquoteLoop fuel r).map (pre ++ [0x0d] ++ ·)
      else if c == 0x74 then (unquoteLoop fuel r).map (pre ++ [0x09] ++ ·)
      else if c == 0x62 then (unquoteLoop fuel r).map (pre ++ [0x08] ++ ·)
      else if c == 0x66 then (unquoteLoop fuel r).map (pre ++ [0x0c] ++ ·)
      else if c == 0x75 then
        match parseUnicode r with
        | none => none
        | some (r1, s1) =>
          if isSurrogate r1 then
            match s1 with
            | 0x5c :: 0x75 :: s2 =>
              match parseUnicode s2 with
              | none => none
              | some (r2, s3) =>
                let d := utf16Decode r1 r2
                if d != Utf8.runeError then (unquoteLoop fuel s3).map (pre ++ Utf8.encodeRune d ++ ·)
                else (unquoteLoop fuel s1).map (pre ++ Utf8.encodeRune Utf8.runeError ++ ·)
            | _ => (unquoteLoop fuel s1).map (pre ++ Utf8.encodeRune Utf8.runeError ++ ·)
          else (unquoteLoop fuel s1).map (pre ++ Utf8.encodeRune r1 ++ ·)
      else none

-- go: json.parseStringUnquote
def parseStringUnquote (fl : PFlags) (b : Bytes) : Option (Bytes × Bytes) :=
  match parseString fl b with
  | .err _ => none
  | .ok k rest =>
    let lit := b.take (b.length - rest.length)
    let s := (lit.drop 1).take (lit.length - 2)
    if k == .unescaped then some (s, rest)
    else (unquoteLoop (s.length + 1) s).map (·, rest)

/-- `Unmarshal(doc, &s)` for a string s initially "": the value stored or none on error -/
def unmarshalString (doc : Bytes) : Option Bytes :=
  let fl := internalParseFlags doc
  let b := skipSpaces doc
  if hasPrefix b [0x6e, 0x75, 0x6c, 0x6c] then (if (skipSpaces (b.drop 4)).isEmpty then some [] else none)
  else match parseStringUnquote fl b with
    | none => none
    | some (s, r) => if (skipSpaces r).isEmpty then some s else none

end Enc.Model.Json
