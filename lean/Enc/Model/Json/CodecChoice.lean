/-!
# Model of json codec CONSTRUCTION (json/codec.go constructCachedCodec / constructCodec / inlined) — C01, C09

Which encoder function a Go type gets, as a tree (`Choice`), and what goes into the shared codec cache.

## The universe
A Go type is a `TD` (type descriptor). Types with identity and methods (defined types: `type N …`) are `TD.ref id`,
looked up in an environment `Env = List (id × Def)`; a `Def` has the facts the code asks reflect for — for each of
MarshalJSON / MarshalText / UnmarshalJSON / UnmarshalText whether the method is declared with a value receiver (then
both `T` and `*T` implement the interface), with a pointer receiver (only `*T` does) or not at all — and the underlying
type. Recursive types are references to an `id` from inside its own definition, exactly like reflect.Type is a graph.
Unnamed types are written structurally (`[]T`, `[n]T`, `map[K]V`, `*T`, `struct{…}`): two structurally equal unnamed
types ARE the same Go type, so `TD` equality is type identity (the key of `seen` and of the cache).
`TD.any dyn` / `TD.iface … dyn` are interface types; `dyn` (the type of the content in the value under test) is ignored
by the construction — only the run-time walk (`Driver/JsonCodec.lean`) looks at it, through the cache like `encoder.append`.

`codecF` mirrors `constructCodec` AS WRITTEN, threading the `seen` map (struct types under construction or built, keyed
by type AND addressability; named slice/map/pointer/array types under construction keyed by type alone and deleted on
the way out). A struct type under construction carries `structType.root` (`Entry.building root`): the struct type its
fields are being promoted to. An embedded struct type that is under construction for ANOTHER root (the cycle goes
through a regular field: `type T struct { F []struct{ T } }`) has its fields listed a second time (`embeddedF`, `listF`);
for the SAME root it is a cycle of embedded structs and nothing is promoted. Recursion is on fuel because a `ref`
unfolds to its definition and a second listing walks a struct type again; `choose_terminates`
(Lemmas/JsonCodecChoiceTerm.lean) shows the fuel `fuelFor` always suffices.

Not modelled here (other anchors): which fields of a struct are serialised under which name (Model/Json/Fields.lean —
here `FL` lists the serialised fields only and promoted fields are not filtered for ambiguity), omitempty, the scalar
encoders themselves.
-/
namespace Enc.Model.Json.CodecChoice

/-- where a method is declared: not at all / value receiver (T and *T have it) / pointer receiver (only *T has it) -/
inductive Recv where
  | none | val | ptr
  deriving DecidableEq, Repr, Inhabited

/-- the four methods codec construction asks reflect about -/
inductive Meth where
  | mj | mt | uj | ut     -- MarshalJSON, MarshalText, UnmarshalJSON, UnmarshalText
  deriving DecidableEq, Repr

structure Meths where
  mj : Recv
  mt : Recv
  uj : Recv
  ut : Recv
  deriving DecidableEq, Repr, Inhabited

def Meths.get (m : Meths) : Meth → Recv
  | .mj => m.mj | .mt => m.mt | .uj => m.uj | .ut => m.ut

def noMeths : Meths := ⟨.none, .none, .none, .none⟩

/-- reflect kinds without structure -/
inductive Kind where
  | bool | int | int8 | int16 | int32 | int64 | uint | uint8 | uint16 | uint32 | uint64 | uintptr
  | float32 | float64 | string
  | chan        -- chan / func / unsafe.Pointer: no encoding; held directly in the data word of an interface
  | complex     -- complex64 / complex128 (and anything else without an encoding)
  deriving DecidableEq, Repr, Inhabited

/-- the types `constructCodec` compares `t` with before looking at the kind (`[]byte` is `slice (prim uint8)`,
`interface{}` is `TD.any`, `reflect.TypeOf(nil)` is `TD.nil`) -/
inductive Special where
  | number | duration | time | rawMessage
  deriving DecidableEq, Repr, Inhabited

mutual
inductive TD where
  | nil                                   -- reflect.TypeOf(nil): what a nil interface holds
  | prim (k : Kind)
  | special (s : Special)
  | any (dyn : TD)                        -- interface{}; dyn = type of the content of the value under test
  | iface (mj mt : Bool) (dyn : TD)       -- another interface type; mj/mt: its method set has MarshalJSON / MarshalText
  | slice (e : TD)
  | array (n : Nat) (e : TD)
  | map (k v : TD)
  | ptr (e : TD)
  | struct (fs : FL)                      -- unnamed struct type
  | ref (id : Nat)                        -- defined type, see `Env`
  deriving DecidableEq, Repr
/-- the serialised fields of a struct: JSON name, anonymous-and-untagged, `string` option, type -/
inductive FL where
  | nil
  | cons (name : String) (embedded stringify : Bool) (t : TD) (rest : FL)
  deriving DecidableEq, Repr
end

instance : Inhabited TD := ⟨.nil⟩

structure Def where
  meths : Meths
  under : TD          -- the underlying type (never a `ref` or a special type: `type A B` has the underlying type of B,
                      -- `type D time.Duration` has int64; an ill-formed body counts as a kind without encoding)
  deriving Repr

abbrev Env := List (Nat × Def)

/-! ## What reflect answers -/

/-- the structure behind `t.Kind()`, `t.Elem()`, `t.Field(i)`: a defined type is replaced by its underlying type -/
def under (env : Env) : TD → TD
  | .ref id =>
    match env.lookup id with
    | some d => (match d.under with | .ref _ | .special _ => .prim .complex | u => u)
    | none => .prim .complex
  | t => t

def isRef : TD → Bool
  | .ref _ => true
  | _ => false

/-- one unnamed pointer removed (`if typ.Kind() == reflect.Ptr && typ.Name() == "" { typ = typ.Elem() }`; the type an
embedded `*T` field embeds) -/
def peel : TD → TD
  | .ptr e => e
  | t => t

/-- `t.Kind() == reflect.Ptr` -/
def isPtrKind : TD → Bool
  | .ptr _ => true
  | _ => false
/-- `t.Kind() == reflect.Struct` (time.Time is a struct as well, but its fields are not in the universe) -/
def isStructKind : TD → Bool
  | .struct _ => true
  | _ => false
def isIfaceKind : TD → Bool
  | .any _ | .iface .. => true
  | _ => false
/-- Slice, Map, Ptr, Array: the kinds whose named types `constructCodec` registers in `seen` -/
def isComposite : TD → Bool
  | .slice _ | .array .. | .map .. | .ptr _ => true
  | _ => false
def isIntKind : TD → Bool
  | .prim .int | .prim .int8 | .prim .int16 | .prim .int32 | .prim .int64
  | .prim .uint | .prim .uint8 | .prim .uint16 | .prim .uint32 | .prim .uint64 | .prim .uintptr => true
  | .special .duration => true
  | _ => false
def isStringKind : TD → Bool
  | .prim .string | .special .number => true
  | _ => false
/-- Bool, Float32, Float64, String or an integer kind: what the `string` option applies to -/
def isScalarKind (u : TD) : Bool :=
  isIntKind u || isStringKind u ||
    match u with
    | .prim .bool | .prim .float32 | .prim .float64 => true
    | _ => false

/-- the method sets of the special types (time.Time: MarshalJSON, MarshalText on the value, the unmarshalers on the
pointer; RawMessage: MarshalJSON on the value, UnmarshalJSON on the pointer) -/
def specialMeths : Special → Meths
  | .time => ⟨.val, .val, .ptr, .ptr⟩
  | .rawMessage => ⟨.val, .none, .ptr, .none⟩
  | .number | .duration => noMeths

/-- the methods declared on `t` itself -/
def declared (env : Env) : TD → Meths
  | .ref id => match env.lookup id with | some d => d.meths | none => noMeths
  | .special s => specialMeths s
  | _ => noMeths

/-- `reflect.PointerTo(t).Implements(X)`: the method set of `*T` has the methods declared on T with either receiver;
`**T` and `*I` (pointer to a pointer-kind or interface-kind type) have no methods at all -/
def implPtr (env : Env) (m : Meth) (t : TD) : Bool :=
  if isPtrKind (under env t) || isIfaceKind (under env t) then false
  else (declared env t).get m != .none

/-- `t.Implements(X)` -/
def implT (env : Env) (m : Meth) : TD → Bool
  | .ptr e => implPtr env m e
  | .iface mj mt _ => (match m with | .mj => mj | .mt => mt | _ => false)
  | t => (declared env t).get m == .val

/-! ## The result: which encoder function is installed where -/

mutual
inductive Choice where
  | null                                  -- encoder.encodeNull
  | prim (k : Kind)                       -- encodeBool / encodeInt … encodeString: the encoder of the kind
  | special (s : Special)                 -- encodeNumber / encodeDuration / encodeTimeRFC3339 / encodeRawMessage
  | bytes                                 -- encodeBytes (base64)
  | mjDirect                              -- constructJSONMarshalerEncodeFunc(t, false): MarshalJSON called on the value
  | mjAddr                                -- constructJSONMarshalerEncodeFunc(t, true): MarshalJSON called on its address
  | mtDirect                              -- constructTextMarshalerEncodeFunc(t, false)
  | mtAddr                                -- constructTextMarshalerEncodeFunc(t, true)
  | iface                                 -- encodeInterface / encodeMaybeEmptyInterface: content through the cache at run time
  | slice (e : Choice)
  | array (n : Nat) (e : Choice)
  | ptr (e : Choice)
  | map (k v : Choice)
  | mapFast (v : Choice)                  -- encodeMapString{Interface,RawMessage,String,StringSlice,Bool}; v = what the generic path installs for the value
  | struct (fs : CL)                      -- encodeStruct on a structType whose fields are known
  | structRef (t : TD) (canAddr : Bool)   -- encodeStruct on THE structType of (t, canAddr) that is still being built
  | recur (t : TD) (canAddr : Bool)       -- constructRecursiveCodec(t, canAddr): built on first use
  | quoted (c : Choice)                   -- constructStringEncodeFunc: output of c inside a JSON string
  | nilOrQuoted (q p : Choice)            -- `string` option on a pointer field: p for nil, q otherwise
  | inlineValue (c : Choice)              -- constructInlineValueEncodeFunc: the value IS the pointer word
  | embedPtr (c : Choice)                 -- constructEmbeddedStructPointerEncodeFunc: field behind an embedded pointer
  | keyNilPtr (c : Choice)                -- map key of pointer kind: "" for nil
  | unsupported                           -- constructUnsupportedTypeEncodeFunc
  | cut                                   -- (not a codec) fuel or depth exhausted
  deriving DecidableEq, Repr
/-- the fields of a structType in output order: name, type of the field, its encoder -/
inductive CL where
  | nil
  | cons (name : String) (t : TD) (c : Choice) (rest : CL)
  deriving DecidableEq, Repr
end

instance : Inhabited Choice := ⟨.cut⟩

def CL.append : CL → CL → CL
  | .nil, r => r
  | .cons n t c a, r => .cons n t c (a.append r)

def CL.mapChoice (f : Choice → Choice) : CL → CL
  | .nil => .nil
  | .cons n t c r => .cons n t (f c) (r.mapChoice f)

/-! ## `seen` -/

/-- `structKey` -/
abbrev Key := TD × Bool

/-- what `seen` holds for a key: a structType whose `fields` are not assigned yet — `root` is its construction-only
marker `structType.root`: the key of the struct type its fields are being promoted to, its own key if none (also: the
nil entry of a named slice/map/pointer/array type under construction, with its own key) —, or a finished one
(`root == nil`) -/
inductive Entry where
  | building (root : TD × Bool)
  | done (fs : CL)
  deriving DecidableEq, Repr

abbrev Seen := List (Key × Entry)

def Seen.find (s : Seen) (k : Key) : Option Entry := s.lookup k
/-- `seen[k] = e` (a newer binding shadows the older one) -/
def Seen.set (s : Seen) (k : Key) (e : Entry) : Seen := (k, e) :: s
/-- `delete(seen, k)` -/
def Seen.erase (s : Seen) (k : Key) : Seen := s.filter fun p => !(p.1 == k)

/-! ## constructCodec -/

/-- go: json.constructCodec, the two marshaler switches at the end (encode side): MarshalJSON before MarshalText, the
pointer receiver only for addressable values -/
def marshalerOverride (env : Env) (t : TD) (canAddr : Bool) (c : Choice) : Choice :=
  if implT env .mj t then .mjDirect
  else if canAddr && implPtr env .mj t then .mjAddr
  else if implT env .mt t then .mtDirect
  else if canAddr && implPtr env .mt t then .mtAddr
  else c

/-- go: json.hasMarshaler -/
def hasMarshaler (env : Env) (t : TD) (canAddr : Bool) : Bool :=
  if canAddr && !isPtrKind (under env t) then implPtr env .mj t || implPtr env .mt t
  else implT env .mj t || implT env .mt t

/-- go: json.inlined (fuel: a `ref` unfolds; Go types cannot contain themselves without an indirection) -/
def inlinedF : Nat → Env → TD → Bool
  | 0, _, _ => false
  | fuel + 1, env, t =>
    match under env t with
    | .ptr _ | .map .. | .prim .chan => true
    | .struct (.cons _ _ _ ft .nil) => inlinedF fuel env ft
    | .array 1 e => inlinedF fuel env e
    | _ => false

def inlined (env : Env) (t : TD) : Bool := inlinedF 64 env t

/-- go: json.constructSliceCodec, the branch `e.Kind() == reflect.Uint8` -/
def byteSliceChoice (env : Env) (e : TD) : Choice :=
  if implT env .mj e then .slice .mjDirect
  else if implPtr env .mj e then .slice .mjAddr
  else if implT env .mt e then .slice .mtDirect
  else if implPtr env .mt e then .slice .mtAddr
  else .bytes

/-- go: json.constructMapCodec, the five "faster implementations": the value types that have one -/
def fastMapValue : TD → Option Choice
  | .any _ => some .iface
  | .special .rawMessage => some (.special .rawMessage)
  | .prim .string => some (.prim .string)
  | .slice (.prim .string) => some (.slice (.prim .string))
  | .prim .bool => some (.prim .bool)
  | _ => none

/-- the unnamed integer type of the same kind (`integerTypes[t.Kind()]`) -/
def integerType (u : TD) : TD :=
  match u with
  | .special .duration => .prim .int64
  | u => u

abbrev CodecFn := TD → Bool → Seen → Option (Choice × Seen)
/-- `constructStructType(t, seen, canAddr, root)`: `root = none` for the type of a regular field or value -/
abbrev StructFn := TD → Bool → Option Key → Seen → Option (Entry × Seen)
/-- `appendStructFields(nil, t, 0, seen, canAddr, root)` -/
abbrev ListFn := TD → Bool → Key → Seen → Option (CL × Seen)

/-- go: json.constructStringCodec (encode side) -/
def stringCodecF (codec : CodecFn) (env : Env) (k : TD) (seen : Seen) : Option (Choice × Seen) :=
  let t := if implT env .mj k || implPtr env .uj k then integerType (under env k) else k
  match codec t false seen with
  | some (c, seen) => some (.quoted c, seen)
  | none => none

/-- go: json.constructMapCodec, the key codec (encode side). `none` in the first component = the whole map is unsupported -/
def mapKeyF (codec : CodecFn) (env : Env) (k : TD) (seen : Seen) : Option (Option Choice × Seen) :=
  let ku := under env k
  let tm := implT env .mt k
  let tu := implPtr env .ut k
  if tm || tu then
    let kc := Choice.mtDirect
    let kc := if isPtrKind ku then .keyNilPtr kc else kc
    let kc := if isStringKind ku then .prim .string else kc
    if !tm || !tu then
      -- the direction without a text method follows the kind of the key
      let kind : Option (Choice × Seen) :=
        if isStringKind ku then some (.prim .string, seen)
        else if isIntKind ku then stringCodecF codec env k seen
        else some (.unsupported, seen)
      -- `kindUnsupported`: keys of neither a string nor an integer kind — the map type itself is unsupported in the
      -- direction without a text method, also when no key is written (fix 0a9d40c)
      let kindUnsupported := !isStringKind ku && !isIntKind ku
      match kind with
      | some (kd, seen) => some (if !tm && kindUnsupported then none else some (if !tm then kd else kc), seen)
      | none => none
    else some (some kc, seen)
  else if isStringKind ku then some (some (.prim .string), seen)
  else if isIntKind ku then
    match stringCodecF codec env k seen with
    | some (c, seen) => some (some c, seen)
    | none => none
  else some (none, seen)

/-- go: json.appendStructFields, the `stringify` block -/
def stringifyF (codec : CodecFn) (env : Env) (canAddr : Bool) (ft : TD) (c : Choice) (seen : Seen) :
    Option (Choice × Seen) :=
  -- like encoding/json, only an unnamed pointer type is followed
  let typ := peel ft
  let q := if isScalarKind (under env typ) then Choice.quoted c else c
  let q := if hasMarshaler env typ (canAddr || typ != ft) then c else q
  if typ != ft then
    match codec ft canAddr seen with
    | some (p, seen) => some (.nilOrQuoted q p, seen)
    | none => none
  else some (q, seen)

/-- go: json.appendStructFields, the embedded branch: the fields promoted from the embedded struct type `typ` -/
def embeddedF (strct : StructFn) (list : ListFn) (typ : TD) (b : Bool) (root : Key) (seen : Seen) : Option (CL × Seen) :=
  match strct typ b (some root) seen with
  | none => none
  | some (.done fs, seen) => some (fs, seen)
  | some (.building r, seen) =>
    -- `subtype.root != nil`: still being constructed further up the stack, no list of fields yet
    if r == root then some (.nil, seen)       -- for the same root: a cycle of embedded structs, nothing is promoted
    else
      -- the cycle goes through a regular field: the fields are listed a second time, on behalf of the root, while
      -- `subtype.root` is temporarily `root`
      match list typ b root (seen.set (typ, b) (.building root)) with
      | none => none
      | some (fs, seen) => some (fs, seen.set (typ, b) (.building r))

/-- go: json.appendStructFields (the first loop, in field order; the promoted fields of an embedded struct are put in
place — the Go code appends them afterwards and sorts by `index = i<<32|j`, which is the same order) -/
def fieldsF (codec : CodecFn) (strct : StructFn) (list : ListFn) (env : Env) (canAddr : Bool) (root : Key) :
    FL → Seen → Option (CL × Seen)
  | .nil, seen => some (.nil, seen)
  | .cons name emb str ft rest, seen =>
    -- `f.Type.Kind() == reflect.Ptr` for an embedded field: Go only lets a type name T or `*T` (T not a pointer type)
    -- be embedded, so a pointer-kind embedded field has the unnamed type `*T`
    let isP := isPtrKind ft
    let typ := peel ft
    if emb && isStructKind (under env typ) then
      -- what an embedded pointer points to is always addressable
      match embeddedF strct list typ (canAddr || isP) root seen with
      | none => none
      | some (sub, seen) =>
        let sub := if isP then sub.mapChoice .embedPtr else sub
        match fieldsF codec strct list env canAddr root rest seen with
        | none => none
        | some (r, seen) => some (sub.append r, seen)
    else
      match codec ft canAddr seen with
      | none => none
      | some (c, seen) =>
        match (if str then stringifyF codec env canAddr ft c seen else some (c, seen)) with
        | none => none
        | some (c, seen) =>
          match fieldsF codec strct list env canAddr root rest seen with
          | none => none
          | some (r, seen) => some (.cons name ft c r, seen)

def fieldsOf (env : Env) (t : TD) : FL :=
  match under env t with
  | .struct fs => fs
  | _ => .nil

/-- the encoder `constructStructEncodeFunc(st)` for what `seen` holds -/
def Entry.toChoice (t : TD) (canAddr : Bool) : Entry → Choice
  | .done fs => .struct fs
  | .building _ => .structRef t canAddr

/-- go: json.constructCodec, the switch on `t.Kind()` (`u` = the structure behind the kind; `codec`, `strct` = the
recursive calls) -/
def kindF (codec : CodecFn) (strct : StructFn) (env : Env) (t u : TD) (canAddr : Bool) (seen : Seen) :
    Option (Choice × Seen) :=
  match u with
  | .prim .chan | .prim .complex => some (.unsupported, seen)
  | .prim k => some (.prim k, seen)
  | .any _ | .iface .. => some (.iface, seen)
  | .array n e =>
    -- go: json.constructArrayCodec: the elements of an array are addressable iff the array is
    (match codec e canAddr seen with
      | some (c, seen) => some (.array n c, seen)
      | none => none)
  | .slice e =>
    -- go: json.constructSliceCodec: the elements of a slice are always addressable
    if under env e == .prim .uint8 then some (byteSliceChoice env e, seen)
    else
      (match codec e true seen with
        | some (c, seen) => some (.slice c, seen)
        | none => none)
  | .map k v =>
    -- go: json.constructMapCodec: map values are not addressable
    (match (if k == .prim .string then fastMapValue v else none) with
      | some vc => some (.mapFast vc, seen)
      | none =>
        match codec v false seen with
        | none => none
        | some (vc, seen) =>
          match mapKeyF codec env k seen with
          | none => none
          | some (none, seen) => some (.unsupported, seen)
          | some (some kc, seen) =>
            let vc := if inlined env v then .inlineValue vc else vc
            let kc := if inlined env k then .inlineValue kc else kc
            some (.map kc vc, seen))
  | .struct _ =>
    -- go: json.constructStructCodec
    (match strct t canAddr none seen with
      | some (e, seen) => some (e.toChoice t canAddr, seen)
      | none => none)
  | .ptr e =>
    -- go: json.constructPointerCodec: what a pointer points to is addressable
    (match codec e true seen with
      | some (c, seen) => some (.ptr c, seen)
      | none => none)
  | _ => some (.unsupported, seen)

/-- go: json.constructCodec, `switch t { case nullType, nil: …; case numberType: … }`: the types with a dedicated codec
(`[]byte` = bytesType, `interface{}` = interfaceType, the pointers to Number, Duration, Time, RawMessage) -/
def firstSwitch : TD → Option Choice
  | .nil => some .null
  | .special s => some (.special s)
  | .slice (.prim .uint8) => some .bytes
  | .any _ => some .iface
  | .ptr (.special s) => some (.ptr (.special s))
  | _ => none

mutual
/-- go: json.constructCodec (encode side) -/
def codecF : Nat → Env → TD → Bool → Seen → Option (Choice × Seen)
  | 0, _, _, _, _ => none
  | fuel + 1, env, t, canAddr, seen =>
    -- the first switch: `switch t { case nullType, nil: … }`
    match firstSwitch t with
    | some c => some (c, seen)
    | none =>
      -- a named slice, map, pointer or array type may be defined in terms of itself
      let named := isRef t && isComposite (under env t)
      if named && (seen.find (t, false)).isSome then some (.recur t canAddr, seen)
      else
        match kindF (codecF fuel env) (structF fuel env) env t (under env t) canAddr
            (if named then seen.set (t, false) (.building (t, false)) else seen) with
        | none => none
        | some (c, seen) =>
          some (marshalerOverride env t canAddr c, if named then seen.erase (t, false) else seen)
/-- go: json.constructStructType: THE structType of (t, canAddr) within one construction; a new one is marked with the
root it is being embedded in, with itself if none, until its list of fields is complete -/
def structF : Nat → Env → TD → Bool → Option Key → Seen → Option (Entry × Seen)
  | 0, _, _, _, _, _ => none
  | fuel + 1, env, t, canAddr, root, seen =>
    match seen.find (t, canAddr) with
    | some e => some (e, seen)
    | none =>
      let r := root.getD (t, canAddr)
      match fieldsF (codecF fuel env) (structF fuel env) (listF fuel env) env canAddr r (fieldsOf env t)
          (seen.set (t, canAddr) (.building r)) with
      | none => none
      | some (fs, seen) => some (.done fs, seen.set (t, canAddr) (.done fs))
/-- go: json.appendStructFields(nil, t, 0, seen, canAddr, root): the second listing -/
def listF : Nat → Env → TD → Bool → Key → Seen → Option (CL × Seen)
  | 0, _, _, _, _, _ => none
  | fuel + 1, env, t, canAddr, root, seen =>
    fieldsF (codecF fuel env) (structF fuel env) (listF fuel env) env canAddr root (fieldsOf env t) seen
end

/-! ## Fuel that always suffices (proved: `choose_terminates`) -/

mutual
def TD.size : TD → Nat
  | .nil | .prim _ | .special _ | .ref _ => 1
  | .any _ => 1
  | .iface .. => 1
  | .slice e | .array _ e | .ptr e => e.size + 1
  | .map k v => k.size + v.size + 1
  | .struct fs => fs.size + 1
def FL.size : FL → Nat
  | .nil => 0
  | .cons _ _ _ t r => t.size + r.size + 1
end

/-- the largest definition body -/
def maxDef : Env → Nat
  | [] => 0
  | (_, d) :: r => max d.under.size (maxDef r)

/-- every key `seen` can ever hold for a defined type -/
def allKeys : Env → List Key
  | [] => []
  | (id, _) :: r => (.ref id, false) :: (.ref id, true) :: allKeys r

/-- the keys not in `seen` yet: each unfolding of a definition uses one up -/
def unseen (env : Env) (seen : Seen) : Nat :=
  ((allKeys env).filter fun k => (seen.find k).isNone).length

/-! The potential of the construction proper. `univ env t`: every type term the construction of `t` can meet (the text
of `t` and of the definitions); `keysOf`: the keys `seen` can ever hold. Two things get used up: keys that are not in
`seen` yet (`absent`), and — while the fields are listed on behalf of one root — struct types under construction that
are marked with another root (`foreign`: a second listing marks one of them). -/

mutual
def subs : TD → List TD
  | .slice e => .slice e :: subs e
  | .array n e => .array n e :: subs e
  | .ptr e => .ptr e :: subs e
  | .map k v => .map k v :: (subs k ++ subs v)
  | .struct fs => .struct fs :: subsF fs
  | .nil => [.nil]
  | .prim k => [.prim k]
  | .special s => [.special s]
  | .any d => [.any d]
  | .iface a b d => [.iface a b d]
  | .ref id => [.ref id]
def subsF : FL → List TD
  | .nil => []
  | .cons _ _ _ t r => subs t ++ subsF r
end

def univ (env : Env) (t : TD) : List TD := subs t ++ env.flatMap fun p => subs p.2.under

def keysOf (l : List TD) : List Key := l.flatMap fun x => [(x, false), (x, true)]

def maxSize : List TD → Nat
  | [] => 0
  | x :: r => max x.size (maxSize r)

def absent (U : List Key) (seen : Seen) : Nat := (U.filter fun k => (seen.find k).isNone).length

def isForeign (seen : Seen) (root : Key) (k : Key) : Bool :=
  match seen.find k with
  | some (.building r) => r != root
  | _ => false

def foreign (U : List Key) (seen : Seen) (root : Key) : Nat := (U.filter (isForeign seen root)).length

def fuelFor (env : Env) (t : TD) : Nat :=
  let U := keysOf (univ env t)
  2 * (U.length * (U.length + 1) * (maxSize (univ env t) + 2) + t.size) + 1

/-- `constructCodec(t, map[structKey]*structType{}, canAddr)` -/
def choose (env : Env) (t : TD) (canAddr : Bool) : Choice × Seen :=
  (codecF (fuelFor env t) env t canAddr []).getD (.cut, [])

/-! ## The shared cache -/

/-- `codec` (encode side): the function stored in the cache under `typeid(t)` -/
abbrev Cache := List (TD × Choice)

/-- go: json.constructCachedCodec (without the store): the top-level value is addressable iff `t.Kind() == reflect.Ptr`
(a pointer's own address is never needed: `**T` has no methods); pointer-shaped values arrive AS the data word of the
interface and get the inline wrapper -/
def construct (env : Env) (t : TD) : Choice :=
  let c := (choose env t (isPtrKind (under env t))).1
  if inlined env t then .inlineValue c else c

/-- go: json.encoder.append + json.constructCachedCodec + json.cacheStore: look `typeid(t)` up in the snapshot of the
cache; on a miss construct and publish a copy of the snapshot with the new entry -/
def constructCachedCodec (env : Env) (t : TD) (cache : Cache) : Choice × Cache :=
  match cache.lookup t with
  | some c => (c, cache)
  | none => let c := construct env t; (c, (t, c) :: cache)

/-! ### The seeded mutation: `[]T` reuses the cached codec of T for its elements
(`constructSliceCodec` looking `e` up in the shared cache before building it): the entry of T was built for a
non-addressable, inline-wrapped top-level value. -/
def constructBad (env : Env) (t : TD) (cache : Cache) : Choice :=
  match t with
  | .slice e =>
    (match cache.lookup e with
      | some c => .slice c
      | none => construct env t)
  | _ => construct env t

def constructCachedCodecBad (env : Env) (t : TD) (cache : Cache) : Choice × Cache :=
  match cache.lookup t with
  | some c => (c, cache)
  | none => let c := constructBad env t cache; (c, (t, c) :: cache)

end Enc.Model.Json.CodecChoice
