import Enc.Model.Json.DecScalar
import Enc.Model.Json.DynNumber
import Enc.Spec.Json.FloatRange
/-!
# Model of json.Unmarshal / Parse into an empty interface: the value-level decoder of /repo/json/decode.go

`decodeInterface` (target: a nil `any`), `decodeMapStringInterface`, `decodeSlice` of `[]any` with element decoder
`decodeInterface`, `decodeString`, `decodeDynamicNumber` → `decodeFloat64`/…, `inputError`, and `Parse` + `Unmarshal`'s
epilogue, AS WRITTEN: `decodeInterface` first runs the syntax-only `parseValue` over the whole value (at the current
nesting depth), cuts the value `v` out of the input, and then decodes `v` a second time with the type-directed decoders,
which check the syntax again on their own, nest again (`d.nest`), call `decodeInterface` for each element / member value
(which again pre-parses that value …), and on an error of an element re-parse their whole input *at the nested depth*
(`d` is shadowed by `d.nest`) only to compute the remainder to return.

## The generic value universe `GV`

What a decode into `any` can build: `nil`, `bool`, `string`, a number leaf, `[]any`, `map[string]any`.
* A number leaf is `num lit dyn`: the literal and the dynamic Go type chosen (`float64`, `json.Number`, `*big.Int`,
  `int64`, `uint64`). The numeric value is a function of the literal (`strconv.ParseFloat`, a shared parameter, for
  float64; the mathematical value for the integer types; the literal itself for Number), so two leaves with the same literal
  and type are the same Go value.
* `obj ms`: **canonical representation of a Go map: the members sorted by key (bytewise), keys distinct** — the
  assignment `m[key] = val` is `GMs.insert` (replace the value if the key is present, else insert at its sorted place).
  With this representation two Go maps are deeply equal iff their `GMs` are equal.
-/
namespace Enc.Model.Json
open Enc

inductive DynKind where
  | f64 | num | big | i64 | u64
  deriving DecidableEq, Repr

mutual
inductive GV where
  | null
  | bool (b : Bool)
  | num (lit : Bytes) (dyn : DynKind)
  | str (s : Bytes)
  | arr (vs : GVs)
  | obj (ms : GMs)
  deriving DecidableEq
inductive GVs where
  | nil
  | cons (v : GV) (rest : GVs)
  deriving DecidableEq
inductive GMs where
  | nil
  | cons (k : Bytes) (v : GV) (rest : GMs)
  deriving DecidableEq
end

/-- bytewise lexicographic order on keys (Go's `<` on strings) -/
def bytesLt : Bytes → Bytes → Bool
  | [], [] => false
  | [], _ :: _ => true
  | _ :: _, [] => false
  | a :: x, b :: y => a < b || (a == b && bytesLt x y)

/-- Go's `m[k] = v` on the canonical (sorted, distinct keys) representation -/
def GMs.insert (k : Bytes) (v : GV) : GMs → GMs
  | .nil => .cons k v .nil
  | .cons k' v' rest =>
    if k == k' then .cons k v rest
    else if bytesLt k k' then .cons k v (.cons k' v' rest)
    else .cons k' v' (GMs.insert k v rest)

/-- Go's `m[k]` -/
def GMs.lookup (k : Bytes) : GMs → Option GV
  | .nil => none
  | .cons k' v' rest => if k == k' then some v' else GMs.lookup k rest

/-- result of the decode functions: value and remainder, or the class of the error returned -/
inductive DRes where
  | ok (v : GV) (rest : Bytes)
  | syntaxErr                       -- *SyntaxError (or any error that is not an *UnmarshalTypeError)
  | typeErr (rest : Bytes)          -- *UnmarshalTypeError, with the remainder returned next to it
  | unrep                           -- a typed nil map / nil slice stored in the interface (outside `GV`; shown unreachable)
  deriving Inhabited, DecidableEq

/-- result of the element / member loops -/
inductive LRes (α : Type) where
  | ok (a : α) (rest : Bytes)
  | syntaxErr
  | typeErr (rest : Bytes)

def nullLit : Bytes := [0x6e, 0x75, 0x6c, 0x6c]

-- go: json.inputError
def inputError (fl : PFlags) (F depth : Nat) (b : Bytes) : DRes :=
  if b.isEmpty then .syntaxErr
  else match parseValue fl depth F b with
    | .err _ => .syntaxErr
    | .ok _ r => .typeErr (skipSpaces r)

-- go: json.decodeString   (the string stored, as a `GV.str`)
def decodeString (fl : PFlags) (F depth : Nat) (b : Bytes) : DRes :=
  if hasPrefix b nullLit then .ok (.str []) (b.drop 4)            -- leaves the (empty) string alone
  else match parseStringUnquote fl b with
    | some (s, r) => .ok (.str s) r
    | none =>
      match b with
      | c :: _ => if c != 0x22 then inputError fl F depth b else .syntaxErr
      | [] => inputError fl F depth b

/-- json.decodeDynamicNumber into a nil interface, followed by the decoder it selects: the type is `dynChoice`'s
(through `decodeDynamicNumber` of DynNumber.lean); decodeFloat64 fails with `inputError` when strconv.ParseFloat
reports a range error -/
def decodeDynamic (fl : PFlags) (dyn : DynFlags) (F depth : Nat) (b : Bytes) : DRes :=
  match parseNumber b with
  | .err _ => inputError fl F depth b                              -- decodeFloat64 / decodeNumber: `d.inputError(b, t)`
  | .ok _ r =>
    let lit := litOf b r
    match decodeDynamicNumber dyn b with
    | .err => .syntaxErr
    | .u64 _ => .ok (.num lit .u64) r
    | .i64 _ => .ok (.num lit .i64) r
    | .big _ => .ok (.num lit .big) r
    | .num _ => .ok (.num lit .num) r
    | .f64 => if Spec.Json.floatOverflows lit then inputError fl F depth b else .ok (.num lit .f64) r

mutual
-- go: json.decodeInterface   (target: an interface holding nil)
def decodeInterface (fl : PFlags) (dyn : DynFlags) (F : Nat) (depth : Nat) : Nat → Bytes → DRes
  | 0, _ => .syntaxErr
  | fuel + 1, b =>
    match parseValue fl depth F b with                             -- v, b, k, err := d.parseValue(b)
    | .err _ => .syntaxErr
    | .ok k rest =>
      let v := litOf b rest
      let second : DRes :=
        match k with
        | .object => decodeMapStringInterface fl dyn F depth fuel v
        | .array => decodeSlice fl dyn F depth fuel v
        | .string | .unescaped => decodeString fl F depth v
        | .null => .ok .null []
        | .true_ => .ok (.bool true) []
        | .false_ => .ok (.bool false) []
        | .uint | .int | .float => decodeDynamic fl dyn F depth v
      match second with
      | .ok val v' => if (skipSpaces v').isEmpty then .ok val rest else .syntaxErr
      | .syntaxErr => .syntaxErr
      | .typeErr _ => .typeErr rest                                -- `return b, err`
      | .unrep => .unrep
-- go: json.decodeSlice   (t = []interface{}, decode = decodeInterface, into a fresh empty slice)
def decodeSlice (fl : PFlags) (dyn : DynFlags) (F : Nat) (depth : Nat) : Nat → Bytes → DRes
  | 0, _ => .syntaxErr
  | fuel + 1, b =>
    if hasPrefix b nullLit then .unrep
    else if b.length < 2 then inputError fl F depth b
    else match b with
      | [] => inputError fl F depth b
      | c :: rest =>
        if c != 0x5b then inputError fl F depth b
        else if !nestOK depth then .syntaxErr
        else match sliceLoop fl dyn F (depth + 1) fuel b rest 0 with
          | .ok vs r => .ok (.arr vs) r
          | .syntaxErr => .syntaxErr
          | .typeErr r => .typeErr r
/-- the `for` loop of decodeSlice; `depth` is the nested depth, `input` the whole array text, `i` = s.len -/
def sliceLoop (fl : PFlags) (dyn : DynFlags) (F : Nat) (depth : Nat) : Nat → Bytes → Bytes → Nat → LRes GVs
  | 0, _, _, _ => .syntaxErr
  | fuel + 1, input, b, i =>
    let b := skipSpaces b
    match b with
    | [] => .syntaxErr                       -- i ≠ 0: "unexpected EOF"; i = 0: decodeInterface on the empty input fails
    | c :: rest =>
      if c == 0x5d then .ok .nil rest
      else
        let b2 : Option Bytes := if i != 0 then (if c != 0x2c then none else some (skipSpaces rest)) else some b
        match b2 with
        | none => .syntaxErr
        | some b3 =>
          match decodeInterface fl dyn F depth fuel b3 with
          | .ok v r =>
            (match sliceLoop fl dyn F depth fuel input r (i + 1) with
             | .ok vs r' => .ok (.cons v vs) r'
             | e => e)
          | .unrep => .syntaxErr
          | .syntaxErr => .syntaxErr                                -- whatever the re-parse below says
          | .typeErr _ =>
            (match parseValue fl depth F input with                 -- `d.parseValue(input)` with the nested `d`
             | .err _ => .syntaxErr
             | .ok _ r => .typeErr r)
-- go: json.decodeMapStringInterface   (into a fresh empty map)
def decodeMapStringInterface (fl : PFlags) (dyn : DynFlags) (F : Nat) (depth : Nat) : Nat → Bytes → DRes
  | 0, _ => .syntaxErr
  | fuel + 1, b =>
    if hasPrefix b nullLit then .unrep
    else if b.length < 2 then inputError fl F depth b
    else match b with
      | [] => inputError fl F depth b
      | c :: rest =>
        if c != 0x7b then inputError fl F depth b
        else if !nestOK depth then .syntaxErr
        else match mapLoop fl dyn F (depth + 1) fuel b .nil rest 0 with
          | .ok m r => .ok (.obj m) r
          | .syntaxErr => .syntaxErr
          | .typeErr r => .typeErr r
/-- the `for` loop of decodeMapStringInterface; `m` is the map built so far -/
def mapLoop (fl : PFlags) (dyn : DynFlags) (F : Nat) (depth : Nat) : Nat → Bytes → GMs → Bytes → Nat → LRes GMs
  | 0, _, _, _, _ => .syntaxErr
  | fuel + 1, input, m, b, i =>
    let b := skipSpaces b
    match b with
    | [] => .syntaxErr                       -- i ≠ 0: "unexpected end"; i = 0: decodeString on the empty input fails
    | c :: rest =>
      if c == 0x7d then .ok m rest
      else
        let b2 : Option Bytes := if i != 0 then (if c != 0x2c then none else some (skipSpaces rest)) else some b
        match b2 with
        | none => .syntaxErr
        | some b3 =>
          if hasPrefix b3 nullLit then .syntaxErr                   -- "cannot decode object key string from 'null' value"
          else match decodeString fl F depth b3 with
            | .ok (.str key) r =>
              (match skipSpaces r with
               | [] => .syntaxErr
               | x :: r2 =>
                 if x != 0x3a then .syntaxErr
                 else match decodeInterface fl dyn F depth fuel (skipSpaces r2) with
                   | .ok v r3 => mapLoop fl dyn F depth fuel input (m.insert key v) r3 (i + 1)   -- m[key] = val
                   | .unrep => .syntaxErr
                   | .syntaxErr => .syntaxErr
                   | .typeErr _ =>
                     (match parseValue fl depth F input with       -- `d.parseValue(input)` with the nested `d`
                      | .err _ => .syntaxErr
                      | .ok _ r => .typeErr r))
            | _ => .syntaxErr                                      -- objectKeyError: always a *SyntaxError
end

/-- fuel for the value-level recursion and (`F`) for every call of `parseValue` -/
def anyFuel (b : Bytes) : Nat := 3 * b.length + 8

/-- outcome of `Unmarshal(doc, &x)`, `var x any`: the value stored, or the class of the error -/
inductive URes where
  | ok (v : GV)
  | syntaxErr
  | typeErr
  | unrep
  deriving DecidableEq

/-- `Parse(doc, &x, flags)` (x a nil `any`): `decoder{flags | internalParseFlags(b)}.parse` = skipSpaces, decodeInterface at
depth 0, skipSpaces of the remainder -/
def parseAny (dyn : DynFlags) (doc : Bytes) : DRes :=
  let fl := internalParseFlags doc
  let b := skipSpaces doc
  match decodeInterface fl dyn (anyFuel b) 0 (anyFuel b) b with
  | .ok v r => .ok v (skipSpaces r)
  | .syntaxErr => .syntaxErr
  | .typeErr r => .typeErr (skipSpaces r)
  | .unrep => .unrep

-- go: json.Unmarshal  (with the dynamic-number flags of Parse: `Unmarshal` itself passes none)
def unmarshalAny (dyn : DynFlags) (doc : Bytes) : URes :=
  match parseAny dyn doc with
  | .ok v r => if r.isEmpty then .ok v else .syntaxErr             -- "invalid character … after top-level value"
  | .syntaxErr => .syntaxErr
  | .typeErr r => if r.isEmpty then .typeErr else .syntaxErr       -- a non-syntax error is overridden when bytes remain
  | .unrep => .unrep

/-! ## A target that already holds data (C02: "also when the target already holds data left by earlier decodes")

`decodeInterface` looks at what the interface holds: only a NON-NIL POINTER is decoded into (through `d.parse`, i.e. with
the codec of the pointee type); nil, any non-pointer value (a map, slice, string, number … left by an earlier decode), a
typed nil pointer, and an interface holding its own address are overwritten exactly as a nil interface is. Modelled here
for pointees of type `any` (so the whole chain stays inside this model): `Prior.ptrAny inner` = the interface holds a
non-nil `*any` whose pointee holds `inner`. The document `null` sets the interface itself to nil (the pointee type is not a
pointer). On success the interface keeps the pointer. -/

inductive Prior where
  | other                       -- nil / non-pointer value / typed nil pointer / x = &x : overwritten
  | ptrAny (inner : Prior)      -- non-nil *any
  deriving DecidableEq, Repr

/-- generic values reached through pointers -/
inductive TV where
  | val (v : GV)
  | ptr (inner : TV)
  deriving DecidableEq

inductive TRes where
  | ok (v : TV) (rest : Bytes)
  | syntaxErr
  | typeErr (rest : Bytes)
  | unrep
  deriving DecidableEq

-- go: json.decodeInterface  (all branches; pointees of type `any`)
def decodeInterfaceInto (fl : PFlags) (dyn : DynFlags) (F depth fuel : Nat) : Prior → Bytes → TRes
  | .other, b =>
    match decodeInterface fl dyn F depth fuel b with
    | .ok v r => .ok (.val v) r
    | .syntaxErr => .syntaxErr
    | .typeErr r => .typeErr r
    | .unrep => .unrep
  | .ptrAny inner, b =>
    if hasPrefix b nullLit then .ok (.val .null) (b.drop 4)         -- `*(*any)(p) = nil; return b[4:], nil`
    else
      -- `b, err := d.parse(b, val)`: skipSpaces, the pointee's codec (decodeInterface again), skipSpaces
      match decodeInterfaceInto fl dyn F depth fuel inner (skipSpaces b) with
      | .ok v r => .ok (.ptr v) (skipSpaces r)                       -- `*(*any)(p) = val`
      | .syntaxErr => .syntaxErr
      | .typeErr r => .typeErr (skipSpaces r)
      | .unrep => .unrep

inductive UTRes where
  | ok (v : TV)
  | syntaxErr
  | typeErr
  | unrep
  deriving DecidableEq

/-- `Unmarshal(doc, &x)` for an `x` that already holds `prior` -/
def unmarshalInto (dyn : DynFlags) (prior : Prior) (doc : Bytes) : UTRes :=
  let fl := internalParseFlags doc
  let b := skipSpaces doc
  match decodeInterfaceInto fl dyn (anyFuel b) 0 (anyFuel b) prior b with
  | .ok v r => if (skipSpaces r).isEmpty then .ok v else .syntaxErr
  | .syntaxErr => .syntaxErr
  | .typeErr r => if (skipSpaces r).isEmpty then .typeErr else .syntaxErr
  | .unrep => .unrep

end Enc.Model.Json
