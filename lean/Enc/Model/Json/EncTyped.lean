import Enc.Model.Json.DecTyped
import Enc.Model.Json.Buf
import Enc.Model.Json.EncFloat
import Enc.Model.Json.MapKeyOrder
/-!
# Model of json.Marshal / json.Append for TYPED values: the type-directed encoders of /repo/json/encode.go

Same universes as the typed decoder (Model/Json/DecTyped.lean): a type `JT`, the content `JV` of a Go variable of that type.
`encodeTyped` is `codec.encode(e, b, p)` for the codec that constructCodec builds for the type, as written, for the kinds of
the universe — the OUTPUT appended to the destination (what happens to the destination itself: Props/C15.lean
`append_eq_render`, `encodeFloat_oblivious`). The scalar encoders are the existing models: `appendInt` / `formatInteger`,
`encodeString` (EncString.lean), `encodeFloat` (EncFloat.lean), `Buf.encodeBytes` (Buf.lean), the key fragments of
codec.go (`Buf.keyFragment`), the key comparator `strLT` and `sortBy` of MapKeyOrder.lean.

Parameters (every theorem is for all of them):
* `sc : Strconv` — strconv on the float64 that a literal denotes: a `JV.float lit` is the float64 `strconv.ParseFloat(lit, 64)`
  (DecTyped.lean); `sc lit` delivers the outcomes of the IEEE comparisons of encodeFloat and the two digit strings
  `strconv.AppendFloat(nil, f, 'f' / 'e', -1, 64)`. Shared with the specification (both libraries call the same strconv).
* `ord : MapOrd` — the iteration order of the Go runtime over a map (`m.MapKeys()`, `for k, v := range m`): a rearrangement
  of the entries, applied at every map.

Not modelled here: the `ptrDepth` counter / `ptrSeen` set (values of this universe are trees: no cycle; Model/Json/Cycle.lean),
the buffer pool of `Marshal`.

The specialised copies of the map encoder (encodeMapStringInterface / …String / …StringSlice / …Bool and the generic
encodeMap with the `sortKeys` closure `keys[i].String() < keys[j].String()`) are one function here (`encodeMapT`): nil → `null`;
the keys in iteration order, sorted with Go's string `<` when SortMapKeys is set; `{` key `:` value … `}`.
-/
namespace Enc.Model.Json.Typed
open Enc Enc.Model.Json

/-- what strconv and the float comparisons deliver for the float64 denoted by a literal -/
structure FloatOut where
  cmp : FloatCmp
  digitsF : Bytes
  digitsE : Bytes

abbrev Strconv := Bytes → FloatOut

/-- entries of a map: key, encoded value (or the error of its encoder) -/
abbrev MEntries := List (Bytes × Res Bytes)

abbrev MapOrd := MEntries → MEntries

def nullText : Bytes := [0x6e, 0x75, 0x6c, 0x6c]

-- go: json.encoder.encodeBool
def encodeBoolT (b : Bool) : Bytes := if b then [0x74, 0x72, 0x75, 0x65] else [0x66, 0x61, 0x6c, 0x73, 0x65]

-- go: json.encoder.encodeFloat64
def encodeFloatT (sc : Strconv) (lit : Bytes) : Res Bytes :=
  encodeFloat [] 64 (sc lit).cmp (sc lit).digitsF (sc lit).digitsE

-- go: json.encoder.encodeNumber  (a json.Number held by an interface)
def encodeNumberT (n : Bytes) : Res Bytes :=
  let n := if n.isEmpty then [0x30] else n
  match parseNumber n with
  | .err _ => .err "syntax"
  | .ok _ r => if !r.isEmpty then .err "syntax" else .ok n

/-- the bytes of a `[]byte` -/
def jvsBytes : JVs → Bytes
  | .nil => []
  | .cons (.int i) r => UInt8.ofNat i.toNat :: jvsBytes r
  | .cons _ r => 0 :: jvsBytes r

-- go: json.encoder.encodeBytes (non-nil), appended to the empty destination (the buffer arithmetic: Buf.encodeBytes, C15)
def encodeBytesT (v : Bytes) : Bytes := (Buf.encodeBytes Buf.Slice.empty v).data

/-- `b = append(b, '['); …; b = append(b, ']')` around the element loop -/
def wrapRes (o c : UInt8) : Res Bytes → Res Bytes
  | .ok t => .ok ([o] ++ t ++ [c])
  | e => e

/-- one round of the element loop of encodeArray — `if i != 0 { b = append(b, ',') }; if b, err = encode(…); err != nil { return … }` —
followed by the remaining rounds: the first error ends the loop -/
def loopStep (i : Nat) (r rest : Res Bytes) : Res Bytes :=
  match r with
  | .ok x =>
    (match rest with
     | .ok t => .ok ((if i != 0 then [0x2c] else []) ++ x ++ t)
     | e => e)
  | e => e

/-- one round of the field loop of encodeStruct: `n` = number of members written so far (no omitempty, no rollback in this
universe); the key fragment `,"name":` (its HTML variant with EscapeHTML) without its comma for the first member (`k[1:]`) -/
def fieldStep (html : Bool) (name : Bytes) (n : Nat) (r rest : Res Bytes) : Res Bytes :=
  let k := Buf.keyFragment name html
  let key := if n != 0 then k else k.drop 1
  match r with
  | .ok x =>
    (match rest with
     | .ok t => .ok (key ++ x ++ t)
     | e => e)
  | e => e

/-- the member loop of the map encoders: `if i != 0 { ',' }; encodeString(key); ':'; value` — the first error ends it -/
def membersLoop (html : Bool) : MEntries → Bool → Res Bytes
  | [], _ => .ok []
  | (k, rv) :: rest, first =>
    match rv with
    | .ok v =>
      (match membersLoop html rest false with
       | .ok t => .ok ((if first then [] else [0x2c]) ++ encodeString k html ++ [0x3a] ++ v ++ t)
       | e => e)
    | .err c => .err c
    | .panic c => .panic c

-- go: json.encoder.encodeMap / encodeMapStringInterface / encodeMapStringString / … (non-nil map)
def encodeMapT (html sortKeys : Bool) (ord : MapOrd) (es : MEntries) : Res Bytes :=
  let keys := ord es
  let keys := if sortKeys then MapKeyOrder.sortBy (fun p q => MapKeyOrder.strLT p.1 q.1) keys else keys
  wrapRes 0x7b 0x7d (membersLoop html keys true)

mutual
/-- `e.append(b, x)` for the value an interface holds after a decode into `any` (nil, bool, float64, json.Number, string,
[]any, map[string]any): the codec of the dynamic type -/
def encodeGeneric (sc : Strconv) (html sortKeys : Bool) (ord : MapOrd) : GV → Res Bytes
  | .null => .ok nullText                                          -- `if x == nil { return append(b, "null"...) }`
  | .bool b => .ok (encodeBoolT b)
  | .num lit .f64 => encodeFloatT sc lit
  | .num lit .num => encodeNumberT lit
  | .num _ _ => .err "unmodelled"                                   -- *big.Int, int64, uint64: not produced by the flags of C02
  | .str s => .ok (encodeString s html)
  | .arr vs => wrapRes 0x5b 0x5d (encodeGs sc html sortKeys ord vs 0)          -- a non-nil []any: encodeSlice → encodeArray
  | .obj ms => encodeMapT html sortKeys ord (encodeGm sc html sortKeys ord ms)  -- a non-nil map[string]any
def encodeGs (sc : Strconv) (html sortKeys : Bool) (ord : MapOrd) : GVs → Nat → Res Bytes
  | .nil, _ => .ok []
  | .cons v rest, i => loopStep i (encodeGeneric sc html sortKeys ord v) (encodeGs sc html sortKeys ord rest (i + 1))
def encodeGm (sc : Strconv) (html sortKeys : Bool) (ord : MapOrd) : GMs → MEntries
  | .nil => []
  | .cons k v rest => (k, encodeGeneric sc html sortKeys ord v) :: encodeGm sc html sortKeys ord rest
end

mutual
/-- `codec.encode(e, b, p)` for the codec of type `t`, `v` = the content of `*p`; the flags `EscapeHTML`, `SortMapKeys` -/
def encodeTyped (sc : Strconv) (html sortKeys : Bool) (ord : MapOrd) : JT → JV → Res Bytes
  | .bool, .bool b => .ok (encodeBoolT b)
  | .int _, .int i => .ok (appendInt i)                             -- encodeInt… / encodeUint…: appendInt / appendUint
  | .float, .float lit => encodeFloatT sc lit
  | .str, .str s => .ok (encodeString s html)
  | .slice e, .slice isNil vs _ =>
    if isNil then .ok nullText                                      -- encodeBytes `v == nil` / encodeSlice `s.data == nil && …`
    else if e.isU8 then .ok (encodeBytesT (jvsBytes vs))
    else wrapRes 0x5b 0x5d (encodeElems sc html sortKeys ord e vs 0)
  | .array _ e, .array vs => wrapRes 0x5b 0x5d (encodeElems sc html sortKeys ord e vs 0)
  | .mapS e, .map isNil ms =>
    if isNil then .ok nullText else encodeMapT html sortKeys ord (encodeMs sc html sortKeys ord e ms)
  | .ptr _, .nilptr => .ok nullText                                 -- encodePointer: `return e.encodeNull(b, nil)`
  | .ptr e, .ptr _ v => encodeTyped sc html sortKeys ord e v
  | .strct fs, .strct vs => wrapRes 0x7b 0x7d (encodeFields sc html sortKeys ord fs vs 0)
  | .any, .anyv g => encodeGeneric sc html sortKeys ord g
  | .any, .anyp t _ v => encodeTyped sc html sortKeys ord t v       -- a non-nil *t: the pointer codec of `*t`
  | _, _ => .err "illtyped"
/-- the loop of encodeArray -/
def encodeElems (sc : Strconv) (html sortKeys : Bool) (ord : MapOrd) (e : JT) : JVs → Nat → Res Bytes
  | .nil, _ => .ok []
  | .cons v rest, i => loopStep i (encodeTyped sc html sortKeys ord e v) (encodeElems sc html sortKeys ord e rest (i + 1))
def encodeMs (sc : Strconv) (html sortKeys : Bool) (ord : MapOrd) (e : JT) : JMs → MEntries
  | .nil => []
  | .cons k v rest => (k, encodeTyped sc html sortKeys ord e v) :: encodeMs sc html sortKeys ord e rest
/-- the loop of encodeStruct (`fieldStep`) -/
def encodeFields (sc : Strconv) (html sortKeys : Bool) (ord : MapOrd) : JFs → JVs → Nat → Res Bytes
  | .nil, .nil, _ => .ok []
  | .cons name t frest, .cons v vrest, n =>
    fieldStep html name n (encodeTyped sc html sortKeys ord t v) (encodeFields sc html sortKeys ord frest vrest (n + 1))
  | _, _, _ => .err "illtyped"
end

-- go: json.Append(nil, x, flags) for `x` of type `t` (a nil interface: `null`)
def appendTyped (sc : Strconv) (html sortKeys : Bool) (ord : MapOrd) (t : JT) (v : JV) : Res Bytes :=
  encodeTyped sc html sortKeys ord t v

-- go: json.Marshal = Append(buf[:0], x, EscapeHTML|SortMapKeys)
def marshalTyped (sc : Strconv) (t : JT) (v : JV) : Res Bytes := encodeTyped sc true true id t v

end Enc.Model.Json.Typed
