import Enc.Model.Json.CodecChoice
/-!
# What the result of a codec construction MEANS: optimisation nodes and back references resolved

`norm`: the wrappers and fast paths that do not change which method / scalar encoder runs are removed:
* `inlineValue c` passes the pointer word by address — same encoder `c`;
* `mapFast v` is the generic map encoder specialised to string keys and the value encoder `v`;
* `nilOrQuoted q p` (the `string` option on a `*T` field): `p` for a nil pointer, `q` otherwise; with `q = quoted (ptr x)`
  and `p = ptr _` this is `ptr (quoted x)`: null for nil, the quoted scalar otherwise; with `q = ptr x`, `p = ptr _` it is
  `ptr x`; with `q = p` it is `p`.

`expandD d`: the encoder as a tree to depth `d`: `structRef (t, canAddr)` is THE structType of that key once the
construction has finished (`table` = the final `seen`), `recur t canAddr` is `constructCodec(t, {}, canAddr)` built on
first use.
-/
namespace Enc.Model.Json.CodecChoice

mutual
def norm : Choice → Choice
  | .inlineValue c => norm c
  | .mapFast v => .map (.prim .string) (norm v)
  | .nilOrQuoted q p =>
    -- `p` is consulted for a nil pointer only, and a pointer encoder writes `null` for nil whatever its element encoder is
    match norm q, norm p with
    | .quoted (.ptr x), .ptr _ => .ptr (.quoted x)
    | .ptr x, .ptr _ => .ptr x
    | q', p' => if q' == p' then q' else .nilOrQuoted q' p'
  | .slice c => .slice (norm c)
  | .array n c => .array n (norm c)
  | .ptr c => .ptr (norm c)
  | .map k v => .map (norm k) (norm v)
  | .struct fs => .struct (normCL fs)
  | .quoted c => .quoted (norm c)
  | .embedPtr c => .embedPtr (norm c)
  | .keyNilPtr c => .keyNilPtr (norm c)
  | c => c
def normCL : CL → CL
  | .nil => .nil
  | .cons n t c r => .cons n t (norm c) (normCL r)
end

/-- one back reference followed; what comes out of the table or of a fresh construction is normalised -/
def resolve (env : Env) (table : Seen) : Choice → Option (Choice × Seen)
  | .structRef t a =>
    (match table.find (t, a) with
      | some (.done fs) => some (.struct (normCL fs), table)
      | _ => none)
  | .recur t a => some (norm (choose env t a).1, (choose env t a).2)
  | c => some (c, table)

/-- a promoted field keeps its `embedPtr` wrappers (one per embedded pointer on the way) around what `f` makes of the
field's own encoder -/
def underEmbed (f : Choice → Choice) : Choice → Choice
  | .embedPtr x => .embedPtr (underEmbed f x)
  | c => f c

/-- the tree of a NORMALISED choice, to depth d: one level per constructor of the tree, except that map keys, `quoted`
scalars, `keyNilPtr`, pointers to the special types are leaves and `embedPtr` belongs to the field list of its struct -/
def expandN : Nat → Env → Seen → Choice → Choice
  | 0, _, _, _ => .cut
  | d + 1, env, table, c =>
    match resolve env table c with
    | none => .cut
    | some (c, table) =>
      match c with
      | .slice x => .slice (expandN d env table x)
      | .array n x => .array n (expandN d env table x)
      | .ptr (.special s) => .ptr (.special s)
      | .ptr (.quoted (.special s)) => .ptr (.quoted (.special s))
      | .ptr x => .ptr (expandN d env table x)
      | .map k v => .map k (expandN d env table v)
      | .struct fs => .struct (fs.mapChoice (underEmbed (expandN d env table)))
      | .nilOrQuoted q p => .nilOrQuoted (expandN d env table q) (expandN d env table p)
      | .structRef .. | .recur .. => .cut
      | c => c

def expandD (d : Nat) (env : Env) (table : Seen) (c : Choice) : Choice := expandN d env table (norm c)

/-- the encoder `Marshal` uses for a top-level value of type `t` when the cache is cold, as a tree -/
def topTree (d : Nat) (env : Env) (t : TD) : Choice :=
  let r := choose env t (isPtrKind (under env t))
  expandD d env r.2 (if inlined env t then .inlineValue r.1 else r.1)

end Enc.Model.Json.CodecChoice
