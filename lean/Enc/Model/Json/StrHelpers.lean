import Enc.Model.Json.Buf
import Enc.Model.Json.DecScalar
/-!
# Model of the Append-style string helpers of the json package, on Go slices

`Escape`, `AppendEscape`, `Unescape`, `AppendUnescape` (json/json.go), `RawValue.Unquote`, `RawValue.AppendUnquote`
(json/token.go) and what they call: `encoder.encodeString` (json/encode.go) and `decoder.parseStringUnquote`,
`appendRune`, `appendCoerceInvalidUTF8` (json/parse.go), with the destination and every intermediate buffer a `Slice`
of Buf.lean (backing array + length; `append` in place when the elements fit, a fresh array chosen by an arbitrary growth
policy otherwise).

What lives where, as written:
* `AppendEscape(b, s, flags)` hands `b` itself to `encodeString`, which appends piecewise (`"`, the scanned run `s[i:j]`,
  the escape, …, `"`), so `b` may be reallocated in the middle of a string.
* `Escape(s)` = `AppendEscape(make([]byte, 0, len(s)+10), s, EscapeHTML)`.
* `AppendUnescape(b, s, flags)` decodes into a scratch Go string (`buf := new(string)`, `d.decodeString(s, buf)`: the
  unquoter is given a nil scratch slice, so it allocates `make([]byte, 0, len(s))` of its own when the literal has escapes
  or non-ASCII bytes), IGNORES decodeString's error, and only then touches the destination: `append(b, *buf...)`.
* `Unescape(s)` = `AppendUnescape(make([]byte, 0, len(s)), s, 0)`.
* `RawValue.AppendUnquote(b)` hands `b` itself to `parseStringUnquote` as the scratch slice `r`: for a literal with escapes
  or non-ASCII bytes the unquoter appends straight to `b` (`appendCoerceInvalidUTF8`, `append(r, c)`, `appendRune`, which
  appends FOUR zero bytes and reslices) and the result is returned as is (fix 0d659f8); for a plain ASCII literal the content
  is a sub-slice of the input and `append(b, s...)` copies it. A nil `b` (that is `Unquote`) makes the unquoter allocate.
  Malformed input and trailing bytes panic.

The unquoting loop is written once, over an abstract buffer (`BufOps`: len, append, reslice-after-EncodeRune, make), and
instantiated twice: with plain `Slice`s (the model of the code), and with `Tracked` slices that remember the caller's
backing array — used only to exhibit what the rejected "unescape in place when it fits" variant of AppendUnescape returns.
The representation of the read position in `encodeString` is (`pend` = s[i:j], `rest` = s[j:]) instead of the indices i, j.
-/
namespace Enc.Model.Json.StrHelpers
open Enc Enc.Model.Json Enc.Model.Json.Buf

/-! ## encodeString on a destination slice -/

/-- the loop `for j < len(s)` of encodeString and the `b = append(b, s[i:]...)` after it; `pend` = s[i:j], 3rd arg = s[j:] -/
def encLoopS (grow : Nat → Nat → Nat) (html : Bool) : Nat → Slice → Bytes → Bytes → Slice
  | 0, b, pend, _ => b.append grow pend
  | fuel + 1, b, pend, s =>
    match s with
    | [] => b.append grow pend
    | c :: rest =>
      if c ≥ 0x20 && c ≤ 0x7f && c != 0x5c && c != 0x22 && (!html || (c != 0x3c && c != 0x3e && c != 0x26)) then
        encLoopS grow html fuel b (pend ++ [c]) rest                                   -- j++
      else if c == 0x5c || c == 0x22 || c == 0x08 || c == 0x0c || c == 0x0a || c == 0x0d || c == 0x09 then
        let b := b.append grow pend                                                    -- append(b, s[i:j]...)
        let b := b.append grow [0x5c, escapeByteRepr c]                                -- append(b, '\\', escapeByteRepr(c))
        encLoopS grow html fuel b [] rest
      else if c == 0x3c || c == 0x3e || c == 0x26 || c < 0x20 then
        let b := b.append grow pend
        let b := b.append grow [0x5c, 0x75, 0x30, 0x30]                                -- append(b, `\u00`...)
        let b := b.append grow [hexDigitLower (c.toNat / 16), hexDigitLower (c.toNat % 16)]
        encLoopS grow html fuel b [] rest
      else
        let (r, size) := Utf8.decodeRune s
        if r == Utf8.runeError && size == 1 then
          let b := b.append grow pend
          let b := b.append grow [0x5c, 0x75, 0x66, 0x66, 0x66, 0x64]                  -- append(b, `\ufffd`...)
          encLoopS grow html fuel b [] rest
        else if r == 0x2028 || r == 0x2029 then
          let b := b.append grow pend
          let b := b.append grow [0x5c, 0x75, 0x32, 0x30, 0x32]                        -- append(b, `\u202`...)
          let b := b.append grow [hexDigitLower (r % 16)]
          encLoopS grow html fuel b [] (s.drop size)
        else encLoopS grow html fuel b (pend ++ s.take size) (s.drop size)             -- j += size

-- go: json.encoder.encodeString   (on the destination slice)
def encodeStringS (grow : Nat → Nat → Nat) (b : Slice) (s : Bytes) (html : Bool) : Slice :=
  if s.isEmpty then b.append grow [0x22, 0x22]
  else
    let b := b.append grow [0x22]
    if s.length ≥ 8 && (escapeIndex s html).isNone then (b.append grow s).append grow [0x22]
    else
      let j : Nat := if s.length ≥ 8 then (match escapeIndex s html with | some j => j | none => s.length) else 0
      (encLoopS grow html (s.length + 1) b (s.take j) (s.drop j)).append grow [0x22]

-- go: json.AppendEscape
def appendEscape (grow : Nat → Nat → Nat) (b : Slice) (s : Bytes) (html : Bool) : Slice := encodeStringS grow b s html

/-- `make([]byte, 0, n)` -/
def makeSlice (n : Nat) : Slice := ⟨List.replicate n 0, 0⟩

-- go: json.Escape
def escape (grow : Nat → Nat → Nat) (s : Bytes) : Slice := appendEscape grow (makeSlice (s.length + 10)) s true

/-! ## the unquoter over an abstract buffer -/

structure BufOps (σ : Type) where
  len : σ → Nat
  /-- `append(b, xs...)` -/
  app : σ → Bytes → σ
  /-- `b[:n+copy(b[n:], xs)]` for `n + len(xs) ≤ len(b)` (utf8.EncodeRune(b[n:], r), then the reslice) -/
  putTail : σ → Nat → Bytes → σ
  /-- `make([]byte, 0, n)` -/
  make : Nat → σ

def sliceOps (grow : Nat → Nat → Nat) : BufOps Slice where
  len s := s.len
  app s xs := s.append grow xs
  putTail s n xs := ⟨writeAt s.arr n xs, n + xs.length⟩
  make n := makeSlice n

section
variable {σ : Type} (o : BufOps σ)

-- go: json.appendRune
def appendRuneB (b : σ) (r : Nat) : σ :=
  let n := o.len b
  let b := o.app b [0, 0, 0, 0]
  o.putTail b n (Utf8.encodeRune r)

-- go: json.appendCoerceInvalidUTF8   (`for _, r := range string(s) { b = append(b, c[:utf8.EncodeRune(c[:], r)]...) }`)
def appendCoerceB : Nat → σ → Bytes → σ
  | 0, b, _ => b
  | _, b, [] => b
  | fuel + 1, b, s =>
    let (r, n) := Utf8.decodeRune s
    appendCoerceB fuel (o.app b (Utf8.encodeRune r)) (s.drop (max n 1))

/-- the unescaping loop of parseStringUnquote (same control flow as `unquoteLoop`), appending to the scratch buffer `r`;
`none` = an error return (what `r` holds then is never looked at by the callers modelled here) -/
def unquoteLoopB : Nat → Bytes → σ → Option σ
  | 0, _, _ => none
  | fuel + 1, s, r =>
    match splitAtBackslash s with
    | (p, none) => some (appendCoerceB o (p.length + 1) r p)
    | (_, some []) => none
    | (p, some (c :: t)) =>
      let r := appendCoerceB o (p.length + 1) r p
      if c == 0x22 || c == 0x5c || c == 0x2f then unquoteLoopB fuel t (o.app r [c])
      else if c == 0x6e then unquoteLoopB fuel t (o.app r [0x0a])
      else if c == 0x72 then unquoteLoopB fuel t (o.app r [0x0d])
      else if c == 0x74 then unquoteLoopB fuel t (o.app r [0x09])
      else if c == 0x62 then unquoteLoopB fuel t (o.app r [0x08])
      else if c == 0x66 then unquoteLoopB fuel t (o.app r [0x0c])
      else if c == 0x75 then
        match parseUnicode t with
        | none => none
        | some (r1, s1) =>
          if isSurrogate r1 then
            match s1 with
            | 0x5c :: 0x75 :: s2 =>
              match parseUnicode s2 with
              | none => none
              | some (r2, s3) =>
                let d := utf16Decode r1 r2
                if d != Utf8.runeError then unquoteLoopB fuel s3 (appendRuneB o r d)
                else unquoteLoopB fuel s1 (appendRuneB o r Utf8.runeError)
            | _ => unquoteLoopB fuel s1 (appendRuneB o r Utf8.runeError)
          else unquoteLoopB fuel s1 (appendRuneB o r r1)
      else none

/-- result of parseStringUnquote: error; the content is a sub-slice of the input (`appended` false); the content was
appended to the scratch buffer, which is returned (`appended` true) -/
inductive UQ (σ : Type) where
  | err
  | plain (s rest : Bytes)
  | appended (r : σ) (rest : Bytes)

/-- `if r == nil { r = make([]byte, 0, len(s)) }`  (`none` is a nil scratch slice) -/
def scratchOr (r : Option σ) (n : Nat) : σ :=
  match r with
  | some r => r
  | none => o.make n

/-- `return r, b, true, nil` after the loop / an error return from inside it -/
def UQ.ofLoop (rest : Bytes) : Option σ → UQ σ
  | none => .err
  | some r => .appended r rest

-- go: json.decoder.parseStringUnquote   (`r = none` is a nil scratch slice)
def parseStringUnquoteB (fl : PFlags) (b : Bytes) (r : Option σ) : UQ σ :=
  match parseString fl b with
  | .err _ => .err
  | .ok k rest =>
    let lit := b.take (b.length - rest.length)
    let s := (lit.drop 1).take (lit.length - 2)
    if k == .unescaped then .plain s rest
    else UQ.ofLoop rest (unquoteLoopB o (s.length + 1) s (scratchOr o r s.length))
end

def nullText : Bytes := [0x6e, 0x75, 0x6c, 0x6c]

/-- what `d.decodeString(s, buf)` leaves in the scratch string `*buf` (initially ""): nothing for `null` and on error;
a copy of the content, or the unquoter's own scratch array -/
def decodeStringBuf (grow : Nat → Nat → Nat) (fl : PFlags) (s : Bytes) : Bytes :=
  if hasPrefix s nullText then []
  else match parseStringUnquoteB (sliceOps grow) fl s none with
    | .err => []
    | .plain u _ => u
    | .appended r _ => r.data

-- go: json.AppendUnescape   (the error of decodeString is dropped)
def appendUnescape (grow : Nat → Nat → Nat) (fl : PFlags) (b : Slice) (s : Bytes) : Slice :=
  b.append grow (decodeStringBuf grow fl s)

-- go: json.Unescape
def unescape (grow : Nat → Nat → Nat) (s : Bytes) : Slice := appendUnescape grow {} (makeSlice s.length) s

-- go: json.RawValue.AppendUnquote   (`b = none` is a nil destination)
def appendUnquote (grow : Nat → Nat → Nat) (v : Bytes) (b : Option Slice) : Res Slice :=
  match parseStringUnquoteB (sliceOps grow) {} v b with
  | .err => .panic "syntax"
  | .plain s rest => if !rest.isEmpty then .panic "trailing" else .ok ((b.getD Slice.empty).append grow s)
  | .appended r rest => if !rest.isEmpty then .panic "trailing" else .ok r

-- go: json.RawValue.Unquote
def unquote (grow : Nat → Nat → Nat) (v : Bytes) : Res Slice := appendUnquote grow v none

/-- buffer-free reading of `decodeStringBuf`: what the pure decoder model stores -/
def unescapeText (fl : PFlags) (s : Bytes) : Bytes :=
  if hasPrefix s nullText then []
  else match parseStringUnquote fl s with
    | some (u, _) => u
    | none => []

/-! ## the rejected variant: AppendUnescape unescaping "in place" into the spare capacity of the destination

```go
u, _, unescaped, err := d.parseStringUnquote(s, b[len(b):])
if err != nil { return b }
if n := len(b) + len(u); unescaped && n <= cap(b) { return b[:n] }   // "is in place already"
return append(b, u...)
```
`Tracked` follows the scratch slice and, beside it, the caller's backing array (from offset len(b) on): writes reach the
caller's array only while the scratch slice has not been reallocated. -/
structure Tracked where
  home : Bytes
  cur : Slice
  shared : Bool
  deriving Repr, DecidableEq

def trackedOps (grow : Nat → Nat → Nat) : BufOps Tracked where
  len t := t.cur.len
  app t xs :=
    let c := t.cur.append grow xs
    if t.shared && t.cur.len + xs.length ≤ t.cur.cap then ⟨c.arr, c, true⟩ else ⟨t.home, c, false⟩
  putTail t n xs :=
    let c : Slice := ⟨writeAt t.cur.arr n xs, n + xs.length⟩
    if t.shared then ⟨c.arr, c, true⟩ else ⟨t.home, c, false⟩
  make n := ⟨[], makeSlice n, false⟩

def appendUnescapeInPlace (grow : Nat → Nat → Nat) (fl : PFlags) (b : Slice) (s : Bytes) : Bytes :=
  if hasPrefix s nullText then b.data
  else
    let spare := b.arr.drop b.len
    match parseStringUnquoteB (trackedOps grow) fl s (some ⟨spare, ⟨spare, 0⟩, true⟩) with
    | .err => b.data
    | .plain u _ => (b.append grow u).data
    | .appended t _ =>
      if b.len + t.cur.len ≤ b.cap then b.data ++ t.home.take t.cur.len
      else (b.append grow t.cur.data).data

end Enc.Model.Json.StrHelpers
