import Enc.Gen.Consts
/-!
# Model of the encoder's reference-cycle detection (json/encode.go encodePointer / encodeSlice / encodeMap /
# encodeMapStringInterface, encoder.enter; json/codec.go startDetectingCyclesAfter)

A Go value is a finite graph: node `i` of `g` is a reference container (the target of a pointer, the backing array of a
non-empty slice, a map) whose children are the reference containers reachable from it without passing through another
one (struct fields, array elements and interface values are inlined: they are encoded by the same `encoder` value and
do not touch its state). An id that is not a node of `g` stands for a leaf (nil, scalar, empty slice).

The encoder is passed by value: `ptrDepth` grows along the path from the root only, and from depth
`startDetectingCyclesAfter` on every container entered is recorded in `ptrSeen` until its encoding returns
(`defer delete`), so `seen` is exactly the set of containers on the current path below that depth.
-/
namespace Enc.Model.Json.Cycle
open Enc

abbrev Graph := List (List Nat)

inductive Res where
  | ok            -- encoded
  | cycle         -- UnsupportedValueError "encountered a cycle"
  | outOfFuel     -- the recursion did not finish within the fuel: stands for unbounded recursion (stack exhaustion)
  deriving DecidableEq, Repr

mutual
/-- encode the container `id` reached at pointer depth `depth` with the containers `seen` on the path -/
def enc (T : Nat) (g : Graph) : Nat → Nat → List Nat → Nat → Res
  | 0, _, _, _ => .outOfFuel
  | fuel + 1, depth, seen, id =>
    match g[id]? with
    | none => .ok
    | some children =>
      let depth := depth + 1                                       -- e.ptrDepth++
      if depth ≥ T then                                            -- e.ptrDepth >= startDetectingCyclesAfter
        if id ∈ seen then .cycle                                   -- e.enter: already being encoded
        else encAll T g fuel depth (id :: seen) children
      else encAll T g fuel depth seen children
def encAll (T : Nat) (g : Graph) : Nat → Nat → List Nat → List Nat → Res
  | 0, _, _, _ => .outOfFuel
  | _, _, _, [] => .ok
  | fuel + 1, depth, seen, c :: rest =>
    match enc T g fuel depth seen c with
    | .ok => encAll T g fuel depth seen rest
    | r => r                                                       -- the first error aborts the encoding
end

/-- Marshal of the value rooted at `root`, with as much "stack" as the theorem says is ever needed -/
def marshal (g : Graph) (root : Nat) : Res :=
  let T := Gen.c_json_startDetectingCyclesAfter
  let width := (g.map List.length).foldl max 0
  enc T g ((T + g.length + 2) * (width + 2)) 0 [] root

end Enc.Model.Json.Cycle
