/-!
# Model of `inlined` (json/codec.go): is a value of the type held DIRECTLY in the data word of an interface?

`Marshal(v any)` and `encodeMap` (keys / values from `reflect.Value`s) receive the data word of an interface value. For a
"pointer-shaped" type that word IS the value, for every other type it points to the value; `inlined(t)` decides which, and
`constructInlineValueEncodeFunc` then passes the address of the word. A wrong answer makes the encoder read the wrong
memory. (History: repair 2834bcc added channels, functions and unsafe.Pointer — `NoChan.inlined` is the earlier rule.)
-/
namespace Enc.Model.Json.Inlined

mutual
/-- the shape of a Go type as far as `inlined` looks at it -/
inductive Ty where
  | ptr | map | chan | func | unsafePointer
  /-- every other kind: bool, numbers, string, slice, interface -/
  | other
  | struct (fields : Tys)
  | array (len : Nat) (elem : Ty)
inductive Tys where
  | nil
  | cons (t : Ty) (rest : Tys)
end

-- go: reflect.Type.NumField
def Tys.numField : Tys → Nat
  | .nil => 0
  | .cons _ r => r.numField + 1

mutual
-- go: json.inlined
def inlined : Ty → Bool
  | .ptr => true
  | .map => true
  | .chan | .func | .unsafePointer => true
  | .struct fs => fs.numField == 1 && inlinedField0 fs     -- `t.NumField() == 1 && inlined(t.Field(0).Type)`
  | .array n e => n == 1 && inlined e                      -- `t.Len() == 1 && inlined(t.Elem())`
  | .other => false
/-- `inlined(t.Field(0).Type)` (evaluated only when there is a field) -/
def inlinedField0 : Tys → Bool
  | .nil => false
  | .cons t _ => inlined t
end

namespace NoChan
mutual
/-- the rule before repair 2834bcc: only pointers and maps are leaves -/
def inlined : Ty → Bool
  | .ptr => true
  | .map => true
  | .struct fs => fs.numField == 1 && inlinedField0 fs
  | .array n e => n == 1 && inlined e
  | _ => false
def inlinedField0 : Tys → Bool
  | .nil => false
  | .cons t _ => inlined t
end
end NoChan

end Enc.Model.Json.Inlined
