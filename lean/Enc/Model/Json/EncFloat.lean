import Enc.Base.Bytes
/-!
Model of `json.encoder.encodeFloat` (/repo/json/encode.go), as written.

Shared external parameters (trusted base, see `StrconvShape` below):
* the IEEE comparisons `math.IsNaN`, `math.IsInf`, `abs != 0`, `abs < 1e-6`, `abs >= 1e21` (and their float32 twins) are
  delivered as the Boolean OUTCOMES `FloatCmp`; the model reproduces the control flow that combines them;
* `strconv.AppendFloat(b, f, fmt, -1, bits)` = `b ++ digits` where `digits` is an arbitrary byte string of the shape
  strconv guarantees for the format (`StrconvShape`).

The clean-up (`e-09` → `e-9`) is modelled ON THE WHOLE BUFFER `dst ++ digits`, with the indices the Go code uses
(`n := len(b)`, `b[n-4]`, `b[n-3]`, `b[n-2]`, `b[n-1]`), so that a clean-up that reads or rewrites bytes of the
caller's prefix is visible in the model.
-/
namespace Enc.Model.Json
open Enc

/-- the `fmt` byte handed to strconv -/
inductive FFmt where
  | f | e
  deriving DecidableEq, Repr

/-- outcomes of the float tests of encodeFloat -/
structure FloatCmp where
  isNaN : Bool      -- math.IsNaN(f)
  isInf : Bool      -- math.IsInf(f, 0)
  nonZero : Bool    -- abs != 0
  lt64 : Bool       -- abs < 1e-6
  ge64 : Bool       -- abs >= 1e21
  lt32 : Bool       -- float32(abs) < 1e-6
  ge32 : Bool       -- float32(abs) >= 1e21
  deriving DecidableEq, Repr

-- go: json.encoder.encodeFloat (the `if abs != 0 { if bits == 64 && (…) || bits == 32 && (…) { fmt = 'e' } }` part)
def chooseFmt (bits : Nat) (c : FloatCmp) : FFmt :=
  if c.nonZero then
    if (bits == 64 && (c.lt64 || c.ge64)) || (bits == 32 && (c.lt32 || c.ge32)) then .e else .f
  else .f

-- go: json.encoder.encodeFloat (the block `n := len(b); if n >= 4 && b[n-4] == 'e' && b[n-3] == '-' && b[n-2] == '0'
--     { b[n-2] = b[n-1]; b = b[:n-1] }`), on the whole buffer
def cleanupExp (b : Bytes) : Bytes :=
  let n := b.length
  if n ≥ 4 && b.getD (n - 4) 0 == 0x65 && b.getD (n - 3) 0 == 0x2d && b.getD (n - 2) 0 == 0x30 then
    (b.set (n - 2) (b.getD (n - 1) 0)).take (n - 1)
  else b

-- go: json.encoder.encodeFloat, after the NaN/Inf switch: `b = strconv.AppendFloat(b, f, fmt, -1, bits)` then the
-- guarded clean-up
def encodeFloatFmt (dst : Bytes) (fmt : FFmt) (digits : Bytes) : Bytes :=
  let b := dst ++ digits
  if fmt = .e then cleanupExp b else b

/-- the seeded variant WITHOUT the `fmt == 'e'` guard (negative witness only) -/
def encodeFloatUnguarded (dst : Bytes) (_fmt : FFmt) (digits : Bytes) : Bytes := cleanupExp (dst ++ digits)

-- go: json.encoder.encodeFloat (= encodeFloat32 / encodeFloat64 with bits = 32 / 64).
-- `digitsF` / `digitsE` = strconv.AppendFloat(nil, f, 'f' / 'e', -1, bits)
def encodeFloat (dst : Bytes) (bits : Nat) (c : FloatCmp) (digitsF digitsE : Bytes) : Res Bytes :=
  if c.isNaN then .err "unsupported:NaN"
  else if c.isInf then .err "unsupported:inf"
  else
    let fmt := chooseFmt bits c
    .ok (encodeFloatFmt dst fmt (match fmt with | .f => digitsF | .e => digitsE))

/-! ### the shape of strconv's output (TRUSTED: strconv.AppendFloat with precision -1)
`'e'`: `[-]d[.d+]e(+|-)dd+`  (strconv's %e pads the exponent to at least two digits);
`'f'`: `[-]d+[.d+]`. -/

def isDigitB (c : UInt8) : Bool := 0x30 ≤ c && c ≤ 0x39

def stripMinus : Bytes → Bytes
  | 0x2d :: r => r
  | r => r

/-- `d+` -/
def allDigits1 (b : Bytes) : Bool := !b.isEmpty && b.all isDigitB

def shapeF (b : Bytes) : Bool :=
  let b := stripMinus b
  let ip := b.takeWhile isDigitB
  let r := b.dropWhile isDigitB
  !ip.isEmpty && (r.isEmpty || (r.head? == some 0x2e && allDigits1 r.tail))

/-- the exponent part `e(+|-)dd+` -/
def shapeExp : Bytes → Bool
  | 0x65 :: s :: ex => (s == 0x2b || s == 0x2d) && ex.all isDigitB && hasAtLeast ex 2
  | _ => false

def shapeE (b : Bytes) : Bool :=
  match stripMinus b with
  | d :: 0x2e :: r => isDigitB d && !(r.takeWhile isDigitB).isEmpty && shapeExp (r.dropWhile isDigitB)
  | d :: r => isDigitB d && shapeExp r
  | [] => false

/-- the decidable shape predicate listed in the trusted base -/
def StrconvShape (fmt : FFmt) (digits : Bytes) : Prop :=
  match fmt with
  | .f => shapeF digits = true
  | .e => shapeE digits = true

instance (fmt : FFmt) (d : Bytes) : Decidable (StrconvShape fmt d) := by
  unfold StrconvShape; cases fmt <;> exact inferInstance

end Enc.Model.Json
