import Enc.Model.Json.EncString
/-!
# Model of the map-key ordering of the json encoder (json/codec.go constructMapCodec `sortKeys`, json/encode.go encodeMap)

`encodeMap` takes `m.MapKeys()` (runtime iteration order — a parameter: every theorem is for every order), and when
`SortMapKeys` is set (always for `Marshal`) calls the `sortKeys` closure that `constructMapCodec` chose from the KEY
TYPE, then writes `encodeKey(k) ':' encodeValue(v)` joined by `,`.

* string kinds: `sort.Slice(keys, keys[i].String() < keys[j].String())` — Go string comparison, byte-wise lexicographic;
* signed kinds: `intStringsAreSorted(keys[i].Int(), keys[j].Int())` — `Value.Int()` sign-extends the stored key to int64;
* unsigned kinds (uintptr included): `uintStringsAreSorted(keys[i].Uint(), keys[j].Uint())` — zero-extended to uint64;
* key types with `MarshalText`: `mapKeyText(keys[i]) < mapKeyText(keys[j])` (nil pointer key = "").

AS WRITTEN (HEAD of /repo) the two integer comparators FORMAT both numbers with `strconv.AppendInt/AppendUint(…, 10)` and
compare the texts as Go strings. `strconv` is the standard library, outside the verified code: it is modelled by the
textbook one-digit-at-a-time loop (`digitsLoop`), proved equal to `Spec.Json.decimal` in Lemmas/JsonMapKeyOrder.lean.
The keys themselves are WRITTEN by segmentio's own formatter (`encodeToString(encodeInt…)` → `appendInt` →
`formatInteger`, model in EncString.lean), so "sorted by the comparator" and "texts ascend" are two different statements
that meet through `Props.C01.formatInteger_eq`.

`Padded.*` is the allocation-free comparator of seeded bug C01e (numbers compared after padding the shorter one with
zeros by a multiplication with a power of ten, in uint64 wrap-around arithmetic): kept here, on `BitVec 64` with Go's
wrapping `*`, so that the defect is expressible — negative witness and the exact agreement condition (no wrap-around ⇒
equal to the text order; all int64 pairs are fine) are in Props/C01MapKeys.lean.
-/
namespace Enc.Model.Json.MapKeyOrder
open Enc Enc.Model.Json

/-- Go's `a < b` on strings: byte-wise lexicographic, a proper prefix sorts first -/
def strLT : Bytes → Bytes → Bool
  | _, [] => false
  | [], _ :: _ => true
  | a :: as, b :: bs => a < b || (a == b && strLT as bs)

/-- strconv's decimal digits of a magnitude (stdlib; textbook loop `for u >= 10 { q := u/10; buf[i] = '0'+u-q*10; u = q }`),
most significant first; fuel 20 = the digits of a uint64 -/
def digitsLoop : Nat → Nat → Bytes
  | 0, _ => []
  | fuel + 1, n =>
    if n < 10 then [UInt8.ofNat (0x30 + n)] else digitsLoop fuel (n / 10) ++ [UInt8.ofNat (0x30 + n % 10)]

-- go: strconv.AppendUint(b[:0], u, 10)
def strconvAppendUint (u : BitVec 64) : Bytes := digitsLoop 20 u.toNat

-- go: strconv.AppendInt(b[:0], i, 10)   (formatBits(uint64(i), 10, i < 0): `if neg { u = -u }` in uint64 arithmetic)
def strconvAppendInt (i : BitVec 64) : Bytes :=
  if i.slt 0 then 0x2d :: strconvAppendUint (-i) else strconvAppendUint i

-- go: json.intStringsAreSorted
def intStringsAreSorted (i0 i1 : BitVec 64) : Bool := strLT (strconvAppendInt i0) (strconvAppendInt i1)

-- go: json.uintStringsAreSorted
def uintStringsAreSorted (u0 u1 : BitVec 64) : Bool := strLT (strconvAppendUint u0) (strconvAppendUint u1)

/-! ## key kinds and widening (`reflect.Value.Int()` / `Uint()`) -/

inductive IntKind where
  | int | int8 | int16 | int32 | int64 | uint | uint8 | uint16 | uint32 | uint64 | uintptr
  deriving DecidableEq, Repr

def IntKind.signed : IntKind → Bool
  | .int | .int8 | .int16 | .int32 | .int64 => true
  | _ => false

/-- width in bits on the 64-bit targets the library supports (int, uint, uintptr = 64) -/
def IntKind.bits : IntKind → Nat
  | .int8 | .uint8 => 8
  | .int16 | .uint16 => 16
  | .int32 | .uint32 => 32
  | _ => 64

/-- the key as `Value.Int()` / `Value.Uint()` returns it: the low `bits` bits of the stored word, sign- resp. zero-extended -/
def widen (k : IntKind) (raw : BitVec 64) : BitVec 64 :=
  match k.bits with
  | 8 => if k.signed then (raw.truncate 8).signExtend 64 else (raw.truncate 8).zeroExtend 64
  | 16 => if k.signed then (raw.truncate 16).signExtend 64 else (raw.truncate 16).zeroExtend 64
  | 32 => if k.signed then (raw.truncate 32).signExtend 64 else (raw.truncate 32).zeroExtend 64
  | _ => raw

/-- the comparator `sortKeys` uses for an integer kind -/
def intLess (signed : Bool) (a b : BitVec 64) : Bool :=
  if signed then intStringsAreSorted a b else uintStringsAreSorted a b

/-- the mathematical value of a widened key -/
def keyInt (signed : Bool) (v : BitVec 64) : Int := if signed then v.toInt else (v.toNat : Int)

/-! ## which comparator `constructMapCodec` installs -/

inductive KKind where
  | string | int | uint | other
  deriving DecidableEq, Repr

/-- the facts of the key type the construction reads: `k.Kind()`, `k.Implements(textMarshalerType)`,
`reflect.PointerTo(k).Implements(textUnmarshalerType)` -/
structure KeyType where
  kind : KKind
  marshalsText : Bool
  ptrUnmarshalsText : Bool
  deriving DecidableEq, Repr

inductive SortBy where
  /-- `mapKeyText(k)` resp. UnmarshalText -/
  | text
  /-- `k.String()` -/
  | str
  | int
  | uint
  /-- the codec of the MAP type is `constructUnsupportedTypeCodec(t)`: UnsupportedTypeError / UnmarshalTypeError whatever
  the value (nil and empty maps, the document `{}` included) -/
  | unsupportedType
  /-- `kind = constructUnsupportedTypeCodec(k)`: only the KEY codec fails — intermediate value of the construction (before
  the repair 0a9d40c it was final for a key type with `(*K).UnmarshalText` only: a map without keys was written) -/
  | unsupportedKey
  deriving DecidableEq, Repr

/-- the `switch k.Kind()` of the "text method for one direction only" branch (default: an unsupported KEY codec and
`kindUnsupported = true`) -/
def kindSort : KKind → SortBy
  | .string => .str
  | .int => .int
  | .uint => .uint
  | .other => .unsupportedKey

-- go: json.constructMapCodec (the generic path), ENCODING direction: which `sortKeys` / key encoder the returned codec has
def sortKeysOf (t : KeyType) : SortBy :=
  if t.marshalsText || t.ptrUnmarshalsText then
    let s := SortBy.text
    let s := if t.kind == .string then SortBy.str else s
    let oneDirection := !t.marshalsText || !t.ptrUnmarshalsText
    let kindUnsupported := oneDirection && t.kind == .other
    let s := if oneDirection && !t.marshalsText then kindSort t.kind else s
    -- `if kindUnsupported { if !k.Implements(textMarshalerType) { c.encode = constructUnsupportedTypeEncodeFunc(t) } … }`
    if kindUnsupported && !t.marshalsText then .unsupportedType else s
  else
    match t.kind with
    | .other => .unsupportedType          -- `default: return constructUnsupportedTypeCodec(t)`
    | k => kindSort k

-- go: json.constructMapCodec, DECODING direction: which key decoder the returned codec has
def decodeKeysOf (t : KeyType) : SortBy :=
  if t.marshalsText || t.ptrUnmarshalsText then
    let d := SortBy.text                   -- constructTextUnmarshalerDecodeFunc(k, true)
    let oneDirection := !t.marshalsText || !t.ptrUnmarshalsText
    let kindUnsupported := oneDirection && t.kind == .other
    let d := if oneDirection && !t.ptrUnmarshalsText then kindSort t.kind else d
    if kindUnsupported && !t.ptrUnmarshalsText then .unsupportedType else d
  else
    match t.kind with
    | .other => .unsupportedType
    | k => kindSort k

/-! ## sorting and rendering -/

/-- `sort.Slice(keys, less)` on DISTINCT keys under a strict total order has exactly one possible result; it is computed
here with core's merge sort on the non-strict companion `¬ less b a` (Lemmas: sorted, permutation, unique). -/
def sortBy {α} (less : α → α → Bool) (l : List α) : List α := l.mergeSort fun a b => !less b a

/-- the key text written for an integer key: `encodeToString(encodeInt…)` = encodeString of segmentio's own digits -/
def intKeyText (signed : Bool) (v : BitVec 64) (html : Bool) : Bytes :=
  encodeString (appendInt (keyInt signed v)) html

/-- `{` members `}`: the loop of encodeMap over the (sorted) keys; values are already-encoded texts -/
def joinMembers : List (Bytes × Bytes) → Bool → Bytes
  | [], _ => []
  | (k, v) :: rest, first => (if first then [] else [0x2c]) ++ k ++ [0x3a] ++ v ++ joinMembers rest false

-- go: json.encoder.encodeMap for an integer key kind (non-nil map; value texts given), SortMapKeys set
def encodeIntKeyMap (signed html : Bool) (es : List (BitVec 64 × Bytes)) : Bytes :=
  let sorted := sortBy (fun p q => intLess signed p.1 q.1) es
  [0x7b] ++ joinMembers (sorted.map fun p => (intKeyText signed p.1 html, p.2)) true ++ [0x7d]

-- go: json.encoder.encodeMap for a string kind / text key (key text = String() resp. MarshalText)
def encodeStrKeyMap (html : Bool) (es : List (Bytes × Bytes)) : Bytes :=
  let sorted := sortBy (fun p q => strLT p.1 q.1) es
  [0x7b] ++ joinMembers (sorted.map fun p => (encodeString p.1 html, p.2)) true ++ [0x7d]

/-! ## the comparator of seeded bug C01e (NOT the code of HEAD) -/
namespace Padded

-- go (mutant): var pow10 = [20]uint64{1e0 … 1e19}
def pow10 (n : Nat) : BitVec 64 := BitVec.ofNat 64 (10 ^ n)

-- go (mutant): decimalLen: `n := 1; for n < len(pow10) && u >= pow10[n] { n++ }`
def decimalLenLoop : Nat → Nat → BitVec 64 → Nat
  | 0, n, _ => n
  | fuel + 1, n, u => if n < 20 && (pow10 n).ule u then decimalLenLoop fuel (n + 1) u else n
def decimalLen (u : BitVec 64) : Nat := decimalLenLoop 20 1 u

-- go (mutant): uintStringsAreSorted — `*` is uint64 multiplication, wraps modulo 2^64
def uintStringsAreSorted (u0 u1 : BitVec 64) : Bool :=
  let n0 := decimalLen u0
  let n1 := decimalLen u1
  if n0 < n1 then (u0 * pow10 (n1 - n0)).ule u1
  else if n0 > n1 then u0.ult (u1 * pow10 (n0 - n1))
  else u0.ult u1

-- go (mutant): intStringsAreSorted
def intStringsAreSorted (i0 i1 : BitVec 64) : Bool :=
  if i0.slt 0 != i1.slt 0 then i0.slt 0
  else if i0.slt 0 then uintStringsAreSorted (-i0) (-i1)
  else uintStringsAreSorted i0 i1

end Padded

end Enc.Model.Json.MapKeyOrder
