import Enc.Model.Json.Scan
/-!
Model of `json.Tokenizer` (/repo/json/token.go): `Next` as a step function over
(remaining input, stack of (scope, len), pending-key flag, error), `Reset`, the pooled stack (arbitrary stale
content, truncated on acquisition).
-/
namespace Enc.Model.Json.Token
open Enc Enc.Model.Json

inductive Scope where
  | inArray | inObject
  deriving DecidableEq, Repr

structure St where
  json : Bytes
  stack : List (Scope × Nat) := []      -- innermost first; `len` starts at 1
  isKey : Bool := false
  err : Bool := false
  fl : PFlags := {}
  deriving Repr

structure Tok where
  delim : UInt8            -- 0 for scalars
  value : Bytes
  depth : Int
  index : Int
  isKey : Bool
  kind : Option Kind       -- Kind of the token as `Tokenizer.Kind()` reports it (none = Undefined)
  remaining : Nat
  deriving Repr

def newSt (b : Bytes) : St := { json := b, fl := internalParseFlags b }

/-- `Reset(b)`: whatever the history and whatever stale content the pooled stack has, the state is the fresh one
(`acquireStack` truncates with `state[:0]`) -/
def reset (_old : St) (_poolGarbage : List (Scope × Nat)) (b : Bytes) : St := newSt b

def stIndex (stack : List (Scope × Nat)) : Int :=
  match stack with
  | [] => 0
  | (_, n) :: _ => (n : Int) - 1

/-- one call of `Next`: `none` = returned false -/
def next (s : St) : Option Tok × St :=
  if s.err then (none, s)
  else
    let json := skipSpacesN s.json
    match json with
    | [] => (none, newSt [])                              -- t.Reset(nil); return false
    | c :: rest =>
      let scalar (r : PR) : Option Tok × St :=
        match r with
        | .ok k r' =>
          let v := json.take (json.length - r'.length)
          let tok : Tok := { delim := 0, value := v, depth := s.stack.length, index := stIndex s.stack,
                             isKey := s.isKey, kind := some k, remaining := r'.length }
          -- `return (t.Delim != 0 || len(t.Value) != 0) && t.Err == nil`
          (if v.isEmpty then none else some tok, { s with json := r' })
        | .err _ => (none, { s with err := true })
      if c == 0x22 then scalar (parseString s.fl json)
      else if c == 0x6e then scalar (parseLit json [0x6e, 0x75, 0x6c, 0x6c] .null)
      else if c == 0x74 then scalar (parseLit json [0x74, 0x72, 0x75, 0x65] .true_)
      else if c == 0x66 then scalar (parseLit json [0x66, 0x61, 0x6c, 0x73, 0x65] .false_)
      else if c == 0x2d || isDigit c then scalar (parseNumber json)
      else if c == 0x7b || c == 0x7d || c == 0x5b || c == 0x5d || c == 0x3a || c == 0x2c then
        let depth0 : Int := s.stack.length
        let index0 := stIndex s.stack
        let mk (depth index : Int) (k : Option Kind) : Tok :=
          { delim := c, value := [c], depth := depth, index := index, isKey := false, kind := k, remaining := rest.length }
        if c == 0x7b then (some (mk depth0 index0 (some .object)), { s with json := rest, isKey := true, stack := (.inObject, 1) :: s.stack })
        else if c == 0x5b then (some (mk depth0 index0 (some .array)), { s with json := rest, stack := (.inArray, 1) :: s.stack })
        else if c == 0x7d || c == 0x5d then
          let want := if c == 0x7d then Scope.inObject else Scope.inArray
          match s.stack with
          | (sc, _) :: tl =>
            if sc == want then (some (mk (depth0 - 1) (stIndex tl) none), { s with json := rest, isKey := false, stack := tl })
            else (none, { s with json := rest, isKey := false, err := true })
          | [] => (none, { s with json := rest, isKey := false, err := true })
        else if c == 0x3a then (some (mk depth0 index0 none), { s with json := rest, isKey := false })
        else -- ','
          match s.stack with
          | [] => (none, { s with json := rest, err := true })
          | (sc, n) :: tl =>
            (some (mk depth0 index0 none), { s with json := rest, isKey := if sc == .inObject then true else s.isKey, stack := (sc, n + 1) :: tl })
      else (none, { s with json := rest, err := true })

/-- iterate `Next` until it returns false; also report whether `Err` is set at the end -/
def run : Nat → St → List Tok → List Tok × Bool
  | 0, s, acc => (acc.reverse, s.err)
  | fuel + 1, s, acc =>
    match next s with
    | (some t, s') => run fuel s' (t :: acc)
    | (none, s') => (acc.reverse, s'.err)

def tokens (b : Bytes) : List Tok × Bool := run (b.length + 2) (newSt b) []

end Enc.Model.Json.Token
