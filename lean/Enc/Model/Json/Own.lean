import Enc.Model.Json.Scan
/-!
# Model of json memory ownership (json/decode.go decodeString / decodeNumber / decodeRawMessage / decodeBytes,
# json/parse.go parseStringUnquote, json/json.go Marshal / Encoder.Encode / encoderBufferPool)

Part 1 — provenance of decoded leaves. A decoded string, Number, RawMessage or []byte either points into the caller's
input buffer (`input`) or into memory allocated for it (`fresh`). The copy rules as coded:
* decodeString: `parseStringUnquote` returns `new = false` only for the `Unescaped` kind (no backslash and printable
  ASCII); `if new || DontCopyString { alias s } else { string(s) }`;
* decodeNumber: alias iff DontCopyNumber; decodeRawMessage: alias iff DontCopyRawMessage; decodeBytes: always a new
  base64 buffer.

Part 2 — the encode buffer pool as a state machine over a heap of regions: Marshal takes a pooled buffer, encodes into it,
copies the result out into a fresh region, returns the buffer to the pool and hands the fresh region to the caller.
-/
namespace Enc.Model.Json.Own
open Enc Enc.Model.Json

inductive Prov where
  | input | fresh
  deriving DecidableEq, Repr

structure CopyFlags where
  dontCopyString : Bool
  dontCopyNumber : Bool
  dontCopyRawMessage : Bool
  deriving DecidableEq, Repr

inductive Leaf where
  | string | number | raw | bytes
  deriving DecidableEq, Repr

/-- `new` result of parseStringUnquote on a string literal `lit` of a document with parse flags `pf` (none: not a string) -/
def unquoteIsNew (pf : PFlags) (lit : Bytes) : Option Bool :=
  match parseString pf lit with
  | .ok k _ => some (k != .unescaped)
  | .err _ => none

/-- where a decoded leaf lives -/
def leafProv (fl : CopyFlags) (pf : PFlags) (leaf : Leaf) (lit : Bytes) : Option Prov :=
  match leaf with
  | .string =>
    (unquoteIsNew pf lit).map fun new =>
      if new then .fresh                                   -- the unquoted text is in a buffer made for it
      else if fl.dontCopyString then .input else .fresh     -- `string(s)` copies
  | .number => some (if fl.dontCopyNumber then .input else .fresh)
  | .raw => some (if fl.dontCopyRawMessage then .input else .fresh)
  | .bytes => some .fresh

/-! ## Part 2: regions, pool, handed-out results -/

abbrev Rid := Nat

structure St where
  heap : List Bytes          -- region contents, indexed by region id
  pool : List Rid            -- buffers sitting in encoderBufferPool
  out  : List Rid            -- regions handed to callers as results
  deriving Repr

def St.init : St := ⟨[], [], []⟩

/-- the library calls that touch the pool; `data` is the encoding of the value concerned -/
inductive Op where
  | marshal (data : Bytes)           -- json.Marshal: result handed out
  | encode (data : Bytes)            -- Encoder.Encode: bytes written to the io.Writer, nothing handed out
  | marshalFail                      -- Marshal of a value that cannot be encoded: nothing handed out
  deriving Repr

def setAt (h : List Bytes) (r : Rid) (d : Bytes) : List Bytes := h.set r d

/-- take a buffer from the pool, or make a new one (`sync.Pool` may also drop buffers: `get` on an empty pool) -/
def getBuf (s : St) : Rid × St :=
  match s.pool with
  | r :: rest => (r, { s with pool := rest })
  | [] => (s.heap.length, { s with heap := s.heap ++ [[]] })

-- go: json.Marshal / json.Encoder.Encode
def step (s : St) : Op → St
  | .marshal data =>
    let (buf, s1) := getBuf s
    let s2 := { s1 with heap := setAt s1.heap buf data }            -- Append(buf.data[:0], x, …)
    let res := s2.heap.length                                      -- b := make([]byte, len(buf.data)); copy(b, buf.data)
    { heap := s2.heap ++ [data], pool := buf :: s2.pool, out := res :: s2.out }
  | .encode data =>
    let (buf, s1) := getBuf s
    { s1 with heap := setAt s1.heap buf data, pool := buf :: s1.pool }
  | .marshalFail =>
    -- as coded, the buffer is NOT returned to the pool on this path (it is dropped, which is harmless)
    let (_, s1) := getBuf s
    s1

def run (s : St) (ops : List Op) : St := ops.foldl step s

end Enc.Model.Json.Own
