import Enc.Model.Json.Token
import Enc.Model.Json.DecScalar
/-!
Model of the ACCESSORS of `json.Tokenizer` and of `json.RawValue` (/repo/json/token.go), as written.

None of `Kind / Bool / Int / Uint / Float / String` can fail: the parse errors of the functions they call are dropped
(`i, _, _ := t.parseInt(…)`), so on a token of the wrong kind — "undefined behaviour" in the documentation — and on an
integer that does not fit 64 bits they return the zero value. Only `RawValue.AppendUnquote / Unquote` panic.

`Float` is `strconv.ParseFloat(string(t.Value), 64)` (error dropped): strconv is a shared external parameter, the model
exposes the LITERAL and the bit size handed to it.
-/
namespace Enc.Model.Json.Token
open Enc Enc.Model.Json

-- go: json.Tokenizer.Kind  (`t.flags.kind()`: what the last `Next` stored with `withKind`; Undefined = 0 for the
-- closing delimiters, ':' and ',')
def tokKind (t : Tok) : Nat :=
  match t.kind with
  | some k => k.code
  | none => Gen.c_json_Undefined

-- go: json.Kind.Class  (`Kind(1 << uint(bits.Len(uint(k))-1))`; for k = 0 the shift count wraps to 2^64-1 and a Go shift
-- by at least the width gives 0)
def kindClass (k : Nat) : Nat := if k == 0 then 0 else 2 ^ Nat.log2 k

-- go: json.Tokenizer.Bool
def tokBool (t : Tok) : Bool := tokKind t == Gen.c_json_True

-- go: json.Tokenizer.Int   (`i, _, _ := t.parseInt(t.Value, int64Type); return i` — every error path of parseInt returns 0)
def tokInt (t : Tok) : BitVec 64 :=
  match parseInt t.value with
  | .ok v _ => v
  | .err => 0#64

-- go: json.Tokenizer.Uint
def tokUint (t : Tok) : BitVec 64 :=
  match parseUint t.value with
  | .ok v _ => v
  | .err => 0#64

-- go: json.Tokenizer.Float  (the literal and bitSize given to strconv.ParseFloat; its error is dropped)
def tokFloatArg (t : Tok) : Bytes × Nat := (t.value, 64)

-- go: json.Tokenizer.String  (fast path on the stored kind; otherwise parseStringUnquote(t.Value, nil) with the
-- tokenizer's own decoder flags, error dropped: parseString returns a nil slice with its errors. After a successful
-- parseString the unquoting loop cannot fail — Lemmas.TokAcc.unquote_total — so `none` below is only the parseString error.)
def tokString (fl : PFlags) (t : Tok) : Bytes :=
  if tokKind t == Gen.c_json_Unescaped && t.value.length > 1 then (t.value.drop 1).take (t.value.length - 2)
  else match parseStringUnquote fl t.value with
    | some (s, _) => s
    | none => []

/-! ### RawValue -/

def firstIs (v : Bytes) (p : UInt8 → Bool) : Bool :=
  match v with
  | c :: _ => p c
  | [] => false

-- go: json.RawValue.String / Null / True / False / Number
def rawString (v : Bytes) : Bool := firstIs v (· == 0x22)
def rawNull (v : Bytes) : Bool := firstIs v (· == 0x6e)
def rawTrue (v : Bytes) : Bool := firstIs v (· == 0x74)
def rawFalse (v : Bytes) : Bool := firstIs v (· == 0x66)
def rawNumber (v : Bytes) : Bool := firstIs v (fun c => c == 0x2d || isDigit c)

-- go: json.RawValue.AppendUnquote  (`d := decoder{}`: no input-wide flags; error → panic; remainder → panic;
-- `appended` → s already is b ++ unquoted, otherwise append(b, s...))
def rawAppendUnquote (v b : Bytes) : Res Bytes :=
  match parseStringUnquote {} v with
  | none => .panic "syntax"
  | some (s, r) => if !r.isEmpty then .panic "trailing" else .ok (b ++ s)

-- go: json.RawValue.Unquote
def rawUnquote (v : Bytes) : Res Bytes := rawAppendUnquote v []

/-- everything the accessors report for one token -/
structure Acc where
  kind : Nat
  cls : Nat
  bool : Bool
  int : Int
  uint : Nat
  floatLit : Bytes
  floatBits : Nat
  str : Bytes
  rawFlags : List Bool          -- String Null True False Number
  unquote : Res Bytes           -- RawValue.AppendUnquote("pfx")
  deriving DecidableEq, Repr

def accPfx : Bytes := [0x70, 0x66, 0x78]

def accOf (fl : PFlags) (t : Tok) : Acc :=
  { kind := tokKind t, cls := kindClass (tokKind t), bool := tokBool t, int := (tokInt t).toInt, uint := (tokUint t).toNat,
    floatLit := (tokFloatArg t).1, floatBits := (tokFloatArg t).2, str := tokString fl t,
    rawFlags := [rawString t.value, rawNull t.value, rawTrue t.value, rawFalse t.value, rawNumber t.value],
    unquote := rawAppendUnquote t.value accPfx }

end Enc.Model.Json.Token
