import Enc.Model.Json.Scan
/-!
Model of `json.Decoder.readValue` (/repo/json/json.go): buffer, `remain` window, sticky reader error, `io.ReadFull`
as the loop it is, tail compaction, doubling when less than `minReadSize` is free, whole-window flags, offset
accounting. `minBufferSize` / `minReadSize` are parameters (the regenerated constants are used by the driver).
A reader is a list of events, one per `Read` call.
-/
namespace Enc.Model.Json.Stream
open Enc Enc.Model.Json

inductive RErr where
  | eof | other
  deriving DecidableEq, Repr

/-- one scripted `Read` result: bytes offered (a Read never returns more than asked: the rest stays queued) and an
optional error delivered together with the last of those bytes -/
structure Ev where
  data : Bytes
  err : Option RErr
  deriving Repr

abbrev Reader := List Ev

/-- one `Read(p)` with `len(p) = k` -/
def read (final : RErr) (r : Reader) (k : Nat) : Bytes × Option RErr × Reader :=
  match r with
  | [] => ([], some final, [])                         -- the script is over: the terminal condition repeats
  | e :: rest =>
    if e.data.length ≤ k then (e.data, e.err, rest)
    else (e.data.take k, none, { e with data := e.data.drop k } :: rest)

/-- `io.ReadFull(r, buf)` with `len(buf) = want`: returns bytes read, the error as ReadFull reports it
(`unexpectedEof` is kept distinct so the caller can map it) -/
inductive FErr where
  | eof | unexpectedEof | other
  deriving DecidableEq, Repr

def readFull (final : RErr) : Nat → Reader → Nat → Bytes → Bytes × Option FErr × Reader
  | 0, r, _, acc => (acc, none, r)                     -- fuel exhausted (a reader returning (0,nil) forever)
  | fuel + 1, r, want, acc =>
    if acc.length ≥ want then (acc, none, r)
    else
      let (d, e, r') := read final r (want - acc.length)
      let acc := acc ++ d
      match e with
      | none => readFull final fuel r' want acc
      | some x =>
        if acc.length ≥ want then (acc, none, r')
        else if acc.length > 0 ∧ x == .eof then (acc, some .unexpectedEof, r')
        else (acc, some (match x with | .eof => .eof | .other => .other), r')

structure St where
  started : Bool := false            -- dec.buffer != nil
  buffer : Bytes := []               -- dec.buffer[:len]
  cap : Nat := 0
  remain : Bytes := []
  offset : Nat := 0
  err : Option FErr := none          -- dec.err (io.EOF / reader error)
  reader : Reader
  final : RErr := .eof               -- what the reader keeps returning once its script is exhausted
  deriving Repr

inductive Out where
  | value (raw : Bytes) (k : Kind)
  | eof | unexpectedEof | syntax | readerErr
  deriving Repr

def skipN (b : Bytes) : Bytes × Nat :=
  let r := skipSpacesN b
  (r, b.length - r.length)

/-- one call of readValue; `fuel` bounds the refill loop -/
def readValue (minBuf minRead : Nat) : Nat → St → Out × St
  | 0, s => (.syntax, s)
  | fuel + 1, s =>
    let tryParse : Option (Out × St) :=
      if s.remain.isEmpty then none
      else
        let fl := internalParseFlags s.remain
        match parseValue fl 0 (fuelFor s.remain) s.remain with
        | .ok k r =>
          if !r.isEmpty || s.err == some .eof || !k.isNum then     -- `dec.err == io.EOF`: only the end of the stream completes a number
            let (rem, n) := skipN r
            let vlen := s.remain.length - r.length
            some (.value (s.remain.take vlen) k, { s with remain := rem, offset := s.offset + vlen + n })
          else none
        | .err restEmpty => if !restEmpty then some (.syntax, s) else none
    match tryParse with
    | some x => x
    | none =>
      match s.err with
      | some e =>
        let o := match e with
          | .eof => if !s.remain.isEmpty then Out.unexpectedEof else Out.eof
          | .unexpectedEof => Out.unexpectedEof
          | .other => Out.readerErr
        (o, s)
      | none =>
        -- compaction / first allocation
        let (buf, cap) := if !s.started then (([] : Bytes), minBuf) else (s.remain.take s.cap, s.cap)
        -- grow
        let cap := if cap - buf.length < minRead then 2 * cap else cap
        let (data, e, rd) := readFull s.final (cap + 2 + s.reader.length) s.reader (cap - buf.length) []
        let buf := buf ++ data
        -- `if n > 0 { if err != nil { err = nil } } else if err == ErrUnexpectedEOF { err = EOF }`
        let e' : Option FErr := if data.length > 0 then none else (match e with | some .unexpectedEof => some .eof | x => x)
        let (rem, n) := skipN buf
        readValue minBuf minRead fuel
          { s with started := true, buffer := buf, cap := cap, remain := rem, offset := s.offset + n, err := e', reader := rd }

/-- number of bytes the script still holds -/
def pendingBytes (r : Reader) : Nat := (r.map (·.data.length)).sum

/-- drive Decode until the first non-value outcome (at most `limit` values). The refill loop of one `readValue` call
gets fuel `pending bytes + pending events + 8`: every refill delivers at least one byte, or swallows at least one
(zero-length) event, or meets the end of the script (proved sufficient in `Enc.Lemmas.StreamFull`; the earlier
`s.reader.length + 8` was not, see `fuel_counterexample` there). -/
def decodeAll (minBuf minRead : Nat) : Nat → St → List Out
  | 0, _ => []
  | limit + 1, s =>
    let (o, s') := readValue minBuf minRead (pendingBytes s.reader + s.reader.length + 8) s
    match o with
    | .value .. => o :: decodeAll minBuf minRead limit s'
    | _ => [o]

/-! ## InputOffset / Buffered / Parse (second half of C11)

`readValue` above already mirrors the offset accounting of the Go code: `dec.inputOffset += len(v) + n` when a value is
accepted (`n` = white space skipped after it INSIDE the window), `dec.inputOffset += n` after every refill (`n` = white
space skipped at the head of the refilled buffer; the window kept by the compaction starts with a non-space byte, so this
is non-zero only when the window was empty), nothing on the error paths. -/

-- go: json.(*Decoder).InputOffset
def St.inputOffset (s : St) : Nat := s.offset

-- go: json.(*Decoder).Buffered   (`bytes.NewReader(dec.remain)`)
def St.buffered (s : St) : Bytes := s.remain

/-- `Decode` called repeatedly, each call's outcome together with the decoder state AFTER it (from which `InputOffset` and
`Buffered` are read). Values do not count; the run ends with the `extra + 1`-th call that does not return a value (at most
`limit` calls): `extra = 0` is the loop of `decodeAll`, `extra > 0` keeps calling a Decoder that has already failed. -/
def decodeCalls (minBuf minRead : Nat) : Nat → Nat → St → List (Out × St)
  | 0, _, _ => []
  | limit + 1, extra, s =>
    let (o, s') := readValue minBuf minRead (pendingBytes s.reader + s.reader.length + 8) s
    match o with
    | .value .. => (o, s') :: decodeCalls minBuf minRead limit extra s'
    | _ =>
      match extra with
      | 0 => [(o, s')]
      | e + 1 => (o, s') :: decodeCalls minBuf minRead limit e s'

/-- outcome of `Parse` as far as the remainder is concerned -/
inductive ParseOut where
  | ok (rem : Bytes)          -- `err == nil`; the remainder returned
  | err                       -- a syntax error (the remainder then returned is where the scanner stopped, white space skipped;
                              -- the scanner model keeps only its emptiness, so it is not an observable here)
  deriving DecidableEq, Repr

-- go: json.Parse  → json.decoder.parse, syntax layer (target `*RawMessage`, or a non-pointer target where the
-- error is `InvalidUnmarshalError` instead): `b = skipSpaces(b)`; parseValue; `return skipSpaces(r), err`
def parseRem (b : Bytes) : ParseOut :=
  let b0 := skipSpaces b
  match parseValue (internalParseFlags b) 0 (fuelFor b0) b0 with
  | .ok _ r => .ok (skipSpaces r)
  | .err _ => .err

end Enc.Model.Json.Stream
