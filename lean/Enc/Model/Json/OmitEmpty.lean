import Enc.Model.Json.Buf
/-!
# Model of `omitempty` (json/codec.go emptyFuncOf; used by json/encode.go encodeStruct: `if f.omitempty && f.empty(p) { continue }`)

`emptyFuncOf(t)` chooses, from the field TYPE, a predicate on the memory of the field. The model separates
* the type facts the choice reads: identity with `bytesType` / `rawMessageType`, `t.Kind()`, `t.Len()` of an array;
* the VALUE facts the chosen predicate reads, each one a separate field so that a predicate reading the WRONG fact (seeded
  bug: the float predicates tested the bit pattern, so −0.0 was not empty) is expressible: `Bits.isEmpty` below.
-/
namespace Enc.Model.Json.OmitEmpty
open Enc

inductive Kind where
  | bool
  | int | int8 | int16 | int32 | int64
  | uint | uint8 | uint16 | uint32 | uint64 | uintptr
  | float32 | float64
  | complex64 | complex128
  | string
  | slice
  | array (len : Nat)
  | map
  | ptr
  | iface
  | struct
  | chan | func | unsafePointer
  deriving DecidableEq, Repr

/-- the type of the field as emptyFuncOf sees it -/
structure FieldType where
  kind : Kind
  /-- `t == bytesType || t == rawMessageType` (both of kind Slice) -/
  isBytesOrRaw : Bool
  deriving DecidableEq, Repr

/-- what the predicates read from the memory of the field -/
structure Facts where
  /-- `*(*bool)(p)` -/
  boolVal : Bool := false
  /-- the integer of the field's width at p is 0 (`*(*uintN)(p) == 0`) -/
  wordZero : Bool := false
  /-- `*(*floatN)(p) == 0`: IEEE comparison — true for +0 and −0, false for NaN -/
  floatEqZero : Bool := false
  /-- the bit pattern of the float is 0 (only +0) — NOT what the code reads; here for the seeded variant -/
  floatBitsZero : Bool := false
  /-- `len` of the string / slice header, resp. `reflect.Value.Len()` of the map -/
  len : Nat := 0
  /-- `*(*unsafe.Pointer)(p) == nil` -/
  ptrNil : Bool := false
  /-- `(*iface)(p).typ == nil`: the first word of the interface value (a typed nil pointer inside has typ ≠ nil) -/
  ifaceTypNil : Bool := false
  /-- the value encoder of the field fails (NaN, ±Inf, channel, function, complex): seen only when the field is kept -/
  encFails : Bool := false
  deriving DecidableEq, Repr

-- go: json.emptyFuncOf  (the returned closure applied to the facts of the field's memory)
def isEmpty (t : FieldType) (f : Facts) : Bool :=
  if t.isBytesOrRaw then f.len == 0                       -- `switch t { case bytesType, rawMessageType: … }`
  else
    match t.kind with
    | .array n => if n == 0 then true else false          -- falls out of the switch to `return false` when Len ≠ 0
    | .map => f.len == 0
    | .slice => f.len == 0
    | .string => f.len == 0
    | .bool => !f.boolVal
    | .int | .uint | .uintptr => f.wordZero
    | .int8 | .uint8 => f.wordZero
    | .int16 | .uint16 => f.wordZero
    | .int32 | .uint32 => f.wordZero
    | .int64 | .uint64 => f.wordZero
    | .float32 => f.floatEqZero
    | .float64 => f.floatEqZero
    | .ptr => f.ptrNil
    | .iface => f.ifaceTypNil
    | _ => false

inductive Outcome where
  | omitted | written | error
  deriving DecidableEq, Repr

/-- the fate of one `omitempty` field in encodeStruct -/
def fieldOutcome (t : FieldType) (f : Facts) : Outcome :=
  if isEmpty t f then .omitted else if f.encFails then .error else .written

/-- seeded variant: the float predicates read the bits -/
def Bits.isEmpty (t : FieldType) (f : Facts) : Bool :=
  match t.isBytesOrRaw, t.kind with
  | false, .float32 | false, .float64 => f.floatBitsZero
  | _, _ => OmitEmpty.isEmpty t f

/-! ## the field values of the buffer model (Model/Json/Buf.lean), as types + facts -/
open Enc.Model.Json.Buf

def jvsLen : JVs → Nat
  | .nil => 0
  | .cons _ r => jvsLen r + 1

/-- the Go type harness/c15jv.go gives a `JV` field: any(nil), bool, int64, string, []byte, []any, struct, float64 (NaN) -/
def typeOfJV : JV → FieldType
  | .null => ⟨.iface, false⟩
  | .bool _ => ⟨.bool, false⟩
  | .int _ => ⟨.int64, false⟩
  | .str _ => ⟨.string, false⟩
  | .bytes _ => ⟨.slice, true⟩
  | .arr _ => ⟨.slice, false⟩
  | .obj _ => ⟨.struct, false⟩
  | .fail _ => ⟨.float64, false⟩

def factsOfJV : JV → Facts
  | .null => { ifaceTypNil := true }
  | .bool b => { boolVal := b }
  | .int i => { wordZero := i == 0 }
  | .str s => { len := s.length }
  | .bytes none => { len := 0 }
  | .bytes (some v) => { len := v.length }
  | .arr vs => { len := jvsLen vs }
  | .obj _ => {}
  | .fail _ => { floatEqZero := false, floatBitsZero := false, encFails := true }

end Enc.Model.Json.OmitEmpty
