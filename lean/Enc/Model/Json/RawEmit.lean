import Enc.Model.Json.Scan
import Enc.Model.Json.EncString
/-!
Model of how `json.Append` re-emits RAW JSON (/repo/json/encode.go): `encodeRawMessage`, `encodeJSONMarshaler` and
`appendCompactEscapeHTML`, as written.

* `appendCompactEscapeHTML dst src escapeHTML`: ONE loop over `src` with three variables — `start` (first byte of `src` not
  yet copied), `inString`, `escape`. Outside a string only `"` (enter the string) and the four white-space bytes (flush
  `src[start:i]`, `start = i+1`) are looked at; every other byte — whatever it is — is copied. Inside a string a byte
  that follows a backslash is skipped, a backslash sets `escape`, `"` leaves the string; only when `escapeHTML` is set
  are `<`, `>`, `&` replaced by `\u00XX` and the three bytes E2 80 A8 / E2 80 A9 (two-byte look-ahead `i+2 < len(src)`)
  by ` ` / ` ` with `start = i+3` (the loop still VISITS the two bytes that follow; they are in-string no-ops).
  The function has no error path: it relies on the validation done before.
* `encodeRawMessage`: nil ↦ `null`; with TrustRawMessage no validation at all (`s = v`, white space included);
  otherwise `skipSpaces`, `parseValue` with a zero `decoder{}` (no flags, depth 0), the remainder must be white space,
  `s` = the value alone (leading / trailing white space cut off). Then: TrustRawMessage without EscapeHTML copies `s`
  verbatim; every other combination goes through `appendCompactEscapeHTML`.
* `encodeJSONMarshaler`: nil pointer / interface ↦ `null`; the bytes returned by MarshalJSON are ALWAYS validated
  (TrustRawMessage is not consulted) and always go through `appendCompactEscapeHTML`.
-/
namespace Enc.Model.Json.RawEmit
open Enc Enc.Model.Json

/-- the public AppendFlags -/
structure AFlags where
  escapeHTML : Bool := false
  sortMapKeys : Bool := false
  trustRawMessage : Bool := false
  deriving DecidableEq, Repr

/-- `src[a:b]` -/
def slice (src : Bytes) (a b : Nat) : Bytes := (src.take b).drop a

/-- `if start < i { dst = append(dst, src[start:i]...) }` -/
def flush (src dst : Bytes) (start i : Nat) : Bytes := if start < i then dst ++ slice src start i else dst

/-- `c == 0xE2 && i+2 < len(src) && src[i+1] == 0x80 && src[i+2]&^1 == 0xA8` where `c = src[i]`, `rest = src[i+1:]`;
`some src[i+2]` when the condition holds -/
def lineSep (c : UInt8) (rest : Bytes) : Option UInt8 :=
  if c == 0xe2 then
    match rest with
    | b1 :: b2 :: _ => if b1 == 0x80 && (b2 &&& 0xfe) == 0xa8 then some b2 else none
    | _ => none
  else none

/-- the loop of appendCompactEscapeHTML at index `i`; `rest = src[i:]` -/
def aceLoop (escapeHTML : Bool) (src : Bytes) :
    Bytes → (i : Nat) → (dst : Bytes) → (start : Nat) → (escape inString : Bool) → Bytes
  | [], _, dst, start, _, _ =>
    if start < src.length then dst ++ src.drop start else dst            -- `if start < len(src) { append src[start:] }`
  | c :: rest, i, dst, start, escape, inString =>
    if !inString then
      if c == 0x22 then aceLoop escapeHTML src rest (i + 1) dst start escape true          -- enter string
      else if c == 0x20 || c == 0x0a || c == 0x0d || c == 0x09 then                          -- skip space
        aceLoop escapeHTML src rest (i + 1) (flush src dst start i) (i + 1) escape false
      else aceLoop escapeHTML src rest (i + 1) dst start escape false
    else if escape then aceLoop escapeHTML src rest (i + 1) dst start false true
    else if c == 0x5c then aceLoop escapeHTML src rest (i + 1) dst start true true
    else if c == 0x22 then aceLoop escapeHTML src rest (i + 1) dst start false false
    else if !escapeHTML then aceLoop escapeHTML src rest (i + 1) dst start false true
    else if c == 0x3c || c == 0x3e || c == 0x26 then
      let dst := flush src dst start i
      let dst := dst ++ [0x5c, 0x75, 0x30, 0x30, hexDigitLower (c.toNat / 16), hexDigitLower (c.toNat % 16)]
      aceLoop escapeHTML src rest (i + 1) dst (i + 1) false true
    else
      match lineSep c rest with
      | some b2 =>
        let dst := flush src dst start i
        let dst := dst ++ [0x5c, 0x75, 0x32, 0x30, 0x32, hexDigitLower (b2.toNat % 16)]
        aceLoop escapeHTML src rest (i + 1) dst (i + 3) false true
      | none => aceLoop escapeHTML src rest (i + 1) dst start false true

-- go: json.appendCompactEscapeHTML   (the bytes appended to dst)
def appendCompactEscapeHTML (src : Bytes) (escapeHTML : Bool) : Bytes :=
  aceLoop escapeHTML src src 0 [] 0 false false

/-- the validation shared by encodeRawMessage and encodeJSONMarshaler:
`s, r, _, err = decoder{}.parseValue(skipSpaces(v))`, then `skipSpaces(r)` must be empty. `some s` = the value's own
bytes, `none` = an error (UnsupportedValueError / MarshalerError). -/
def validateSpan (v : Bytes) : Option Bytes :=
  let v := skipSpaces v
  match parseValue {} 0 (fuelFor v) v with
  | .ok _ r => if (skipSpaces r).isEmpty then some (v.take (v.length - r.length)) else none
  | .err _ => none

def nullLit : Bytes := [0x6e, 0x75, 0x6c, 0x6c]

-- go: json.encoder.encodeRawMessage    (`none` input = nil RawMessage; result `none` = error)
def encodeRawMessage (fl : AFlags) : Option Bytes → Option Bytes
  | none => some nullLit
  | some v =>
    match (if fl.trustRawMessage then some v else validateSpan v) with
    | none => none
    | some s =>
      if !fl.escapeHTML && fl.trustRawMessage then some s                     -- trusted: copied as is
      else some (appendCompactEscapeHTML s fl.escapeHTML)

-- go: json.encoder.encodeJSONMarshaler  (`nilPtr`: the receiver is a nil pointer / interface; `j` = MarshalJSON's bytes)
def encodeJSONMarshaler (fl : AFlags) (nilPtr : Bool) (j : Bytes) : Option Bytes :=
  if nilPtr then some nullLit
  else match validateSpan j with
    | none => none
    | some s => some (appendCompactEscapeHTML s fl.escapeHTML)

end Enc.Model.Json.RawEmit
