import Enc.Model.Json.CodecChoice
/-!
# Model of json codec CONSTRUCTION, the DECODE half (json/codec.go constructCodec …) — C01, C02, C09

`constructCodec(t, seen, canAddr)` builds `codec{encode, decode}` in ONE traversal; `Model/Json/CodecChoice.lean` models
which ENCODE function is installed, this file which DECODE function (`DChoice`), over the same type-descriptor universe
(`TD` / `FL` / `Env`), threading a `seen` map of the same shape (`DSeen`: the keys and the order of the operations are
those of the encode side, the entries hold decode field lists). `canAddr` does not influence which decode function a
type gets (the decoder always has an addressable target: the unmarshaler switch asks `reflect.PointerTo(t)` only), but
it is part of the key of `seen` and therefore decides WHICH structType an embedded struct is promoted from.

What reflect answers for an UNNAMED struct type that embeds a type with methods (`struct{ T }`: the methods of T are
promoted, `*struct{ T }` implements json.Unmarshaler when `*T` does) is computed here (`implPtrU`, one level of
embedding): the descriptor universe only carries method facts for defined types.

What a decode function does with the document `null` is `nullActM`.
-/
namespace Enc.Model.Json.CodecChoice

/-! ## What reflect answers: method sets of unnamed struct types -/

/-- the embedded fields (depth 1) through which method `m` is promoted to `*struct{…}` -/
def promotedCount (env : Env) (m : Meth) : FL → Nat
  | .nil => 0
  | .cons _ emb _ ft r =>
    let typ := match ft with | .ptr e => e | t => t
    (if emb && (declared env typ).get m != .none then 1 else 0) + promotedCount env m r

/-- `reflect.PointerTo(t).Implements(X)`, unnamed struct types with promoted methods included (a method promoted through
exactly one embedded field; deeper promotion is outside the universe) -/
def implPtrU (env : Env) (m : Meth) (t : TD) : Bool :=
  match t with
  | .struct fs => promotedCount env m fs == 1
  | t => implPtr env m t

/-! ## The result: which decoder function is installed where -/

mutual
inductive DChoice where
  | null                                  -- decoder.decodeNull
  | prim (k : Kind)                       -- decodeBool / decodeInt … decodeString: the decoder of the kind
  | special (s : Special)                 -- decodeNumber / decodeDuration / decodeTime / decodeRawMessage
  | bytes                                 -- decodeBytes (base64 string, or an array of numbers)
  | uj                                    -- constructJSONUnmarshalerDecodeFunc(t, true): UnmarshalJSON on the address
  | ut                                    -- constructTextUnmarshalerDecodeFunc(t, true): UnmarshalText on the address
  | iface                                 -- decodeInterface (`interface{}` itself)
  | ifaceMaybe                            -- decodeMaybeEmptyInterface (any other interface type)
  | slice (e : DChoice)
  | array (n : Nat) (e : DChoice)
  | ptr (e : DChoice)                     -- decodePointer
  | map (k v : DChoice)                   -- decodeMap with key and value decoders
  | mapFast (v : DChoice)                 -- decodeMapString{Interface,RawMessage,String,StringSlice,Bool}; v = the value decoder it uses
  | keyInt                                -- constructStringCodec(k).decode = decodeMapKeyInteger
  | struct (fs : DL)                      -- decodeStruct on a structType whose fields are known
  | structRef (t : TD) (canAddr : Bool)   -- decodeStruct on THE structType of (t, canAddr) that is still being built
  | recur (t : TD) (canAddr : Bool)       -- constructRecursiveCodec(t, canAddr): built on first use
  | quoted (c : DChoice)                  -- constructStringDecodeFunc: c on the content of a JSON string
  | quotedInt (c : DChoice)               -- constructStringToIntDecodeFunc
  | embedPtr (c : DChoice)                -- constructEmbeddedStructPointerDecodeFunc: allocates the embedded pointer
  | unsupported                           -- constructUnsupportedTypeDecodeFunc
  | cut                                   -- (not a codec) fuel or depth exhausted
  deriving DecidableEq, Repr
/-- the fields of a structType: name, type of the field, its decoder -/
inductive DL where
  | nil
  | cons (name : String) (t : TD) (c : DChoice) (rest : DL)
  deriving DecidableEq, Repr
end

instance : Inhabited DChoice := ⟨.cut⟩

def DL.append : DL → DL → DL
  | .nil, r => r
  | .cons n t c a, r => .cons n t c (a.append r)

def DL.mapChoice (f : DChoice → DChoice) : DL → DL
  | .nil => .nil
  | .cons n t c r => .cons n t (f c) (r.mapChoice f)

/-- `st.fieldsIndex[name]` (names are unique in the universe: ambiguity between promoted fields is not modelled) -/
def DL.find (name : String) : DL → Option (TD × DChoice)
  | .nil => none
  | .cons n t c r => if n == name then some (t, c) else r.find name

/-! ## `seen` -/

/-- what `seen` holds for a key (see `Entry`): a structType whose `fields` are not assigned yet, with its construction-only
marker `structType.root`, or a finished one (`root == nil`) -/
inductive DEntry where
  | building (root : TD × Bool)
  | done (fs : DL)
  deriving DecidableEq, Repr

abbrev DSeen := List (Key × DEntry)

def DSeen.find (s : DSeen) (k : Key) : Option DEntry := s.lookup k
def DSeen.set (s : DSeen) (k : Key) (e : DEntry) : DSeen := (k, e) :: s
def DSeen.erase (s : DSeen) (k : Key) : DSeen := s.filter fun p => !(p.1 == k)

/-! ## constructCodec, decode side -/

/-- go: json.constructCodec, the unmarshaler switch at the end: `p.Implements(jsonUnmarshalerType)` before
`p.Implements(textUnmarshalerType)`, `p = reflect.PointerTo(t)`; neither `t.Implements` nor `canAddr` is consulted -/
def unmarshalerOverride (env : Env) (t : TD) (c : DChoice) : DChoice :=
  if implPtrU env .uj t then .uj
  else if implPtrU env .ut t then .ut
  else c

/-- go: json.constructSliceCodec, the branch `e.Kind() == reflect.Uint8` (decode side) -/
def byteSliceDec (env : Env) (e : TD) : DChoice :=
  if implPtr env .uj e then .slice .uj
  else if implPtr env .ut e then .slice .ut
  else .bytes

/-- go: json.constructMapCodec, the five "faster implementations": the decoder each uses for the values -/
def fastMapValueD : TD → Option DChoice
  | .any _ => some .iface
  | .special .rawMessage => some (.special .rawMessage)
  | .prim .string => some (.prim .string)
  | .slice (.prim .string) => some (.slice (.prim .string))
  | .prim .bool => some (.prim .bool)
  | _ => none

/-- go: json.constructMapCodec, the key decoder; `none` = the map type is unsupported for decoding (no key decoder for
the kind, or `kindUnsupported` without `(*K).UnmarshalText`: fix 0a9d40c). The `constructCodec` call inside
`constructStringCodec` is on a type of an integer kind: it does not touch `seen`, and its decode half is dropped
(`decodeMapKeyInteger` takes the type only). -/
def mapKeyDec (env : Env) (k : TD) : Option DChoice :=
  let ku := under env k
  let tm := implT env .mt k
  let tu := implPtrU env .ut k
  if tm || tu then
    if tu then some .ut
    else if isStringKind ku then some (.prim .string)
    else if isIntKind ku then some .keyInt
    else none
  else if isStringKind ku then some (.prim .string)
  else if isIntKind ku then some .keyInt
  else none

abbrev DCodecFn := TD → Bool → DSeen → Option (DChoice × DSeen)
/-- `constructStructType(t, seen, canAddr, root)`: `root = none` for the type of a regular field or value -/
abbrev DStructFn := TD → Bool → Option Key → DSeen → Option (DEntry × DSeen)
/-- `appendStructFields(nil, t, 0, seen, canAddr, root)` -/
abbrev DListFn := TD → Bool → Key → DSeen → Option (DL × DSeen)

/-- go: json.appendStructFields, the `stringify` block (decode side): the wrapper goes around the decoder of the FIELD
type (a pointer decoder for `*T`); the second `constructCodec(f.Type, …)` of the encode half is part of the traversal -/
def stringifyDecF (codec : DCodecFn) (env : Env) (canAddr : Bool) (ft : TD) (c : DChoice) (seen : DSeen) :
    Option (DChoice × DSeen) :=
  let typ := peel ft
  let u := under env typ
  let q := if isIntKind u then DChoice.quotedInt c
    else if isScalarKind u then .quoted c
    else c
  if typ != ft then
    match codec ft canAddr seen with
    | some (_, seen) => some (q, seen)
    | none => none
  else some (q, seen)

/-- go: json.appendStructFields, the embedded branch (decode side; see `embeddedF`): the fields promoted from the embedded
struct type `typ` -/
def embeddedDecF (strct : DStructFn) (list : DListFn) (typ : TD) (b : Bool) (root : Key) (seen : DSeen) :
    Option (DL × DSeen) :=
  match strct typ b (some root) seen with
  | none => none
  | some (.done fs, seen) => some (fs, seen)
  | some (.building r, seen) =>
    -- `subtype.root != nil`: still being constructed further up the stack, no list of fields yet
    if r == root then some (.nil, seen)       -- for the same root: a cycle of embedded structs, nothing is promoted
    else
      -- the cycle goes through a regular field: the fields are listed a second time, on behalf of the root, while
      -- `subtype.root` is temporarily `root`
      match list typ b root (seen.set (typ, b) (.building root)) with
      | none => none
      | some (fs, seen) => some (fs, seen.set (typ, b) (.building r))

/-- go: json.appendStructFields (decode side; see `fieldsF`) -/
def fieldsDecF (codec : DCodecFn) (strct : DStructFn) (list : DListFn) (env : Env) (canAddr : Bool) (root : Key) :
    FL → DSeen → Option (DL × DSeen)
  | .nil, seen => some (.nil, seen)
  | .cons name emb str ft rest, seen =>
    let isP := isPtrKind ft
    let typ := peel ft
    if emb && isStructKind (under env typ) then
      -- what an embedded pointer points to is always addressable
      match embeddedDecF strct list typ (canAddr || isP) root seen with
      | none => none
      | some (sub, seen) =>
        let sub := if isP then sub.mapChoice .embedPtr else sub
        match fieldsDecF codec strct list env canAddr root rest seen with
        | none => none
        | some (r, seen) => some (sub.append r, seen)
    else
      match codec ft canAddr seen with
      | none => none
      | some (c, seen) =>
        match (if str then stringifyDecF codec env canAddr ft c seen else some (c, seen)) with
        | none => none
        | some (c, seen) =>
          match fieldsDecF codec strct list env canAddr root rest seen with
          | none => none
          | some (r, seen) => some (.cons name ft c r, seen)

def DEntry.toChoice (t : TD) (canAddr : Bool) : DEntry → DChoice
  | .done fs => .struct fs
  | .building _ => .structRef t canAddr

/-- go: json.constructCodec, the switch on `t.Kind()` (decode side) -/
def kindDecF (codec : DCodecFn) (strct : DStructFn) (env : Env) (t u : TD) (canAddr : Bool) (seen : DSeen) :
    Option (DChoice × DSeen) :=
  match u with
  | .prim .chan | .prim .complex => some (.unsupported, seen)
  | .prim k => some (.prim k, seen)
  | .any _ | .iface .. => some (.ifaceMaybe, seen)       -- go: json.constructInterfaceCodec
  | .array n e =>
    (match codec e canAddr seen with
      | some (c, seen) => some (.array n c, seen)
      | none => none)
  | .slice e =>
    if under env e == .prim .uint8 then some (byteSliceDec env e, seen)
    else
      (match codec e true seen with
        | some (c, seen) => some (.slice c, seen)
        | none => none)
  | .map k v =>
    (match (if k == .prim .string then fastMapValueD v else none) with
      | some vc => some (.mapFast vc, seen)
      | none =>
        match codec v false seen with
        | none => none
        | some (vc, seen) =>
          match mapKeyDec env k with
          | none => some (.unsupported, seen)
          | some kc => some (.map kc vc, seen))
  | .struct _ =>
    (match strct t canAddr none seen with
      | some (e, seen) => some (e.toChoice t canAddr, seen)
      | none => none)
  | .ptr e =>
    (match codec e true seen with
      | some (c, seen) => some (.ptr c, seen)
      | none => none)
  | _ => some (.unsupported, seen)

/-- go: json.constructCodec, the first switch (decode side) -/
def firstSwitchD : TD → Option DChoice
  | .nil => some .null
  | .special s => some (.special s)
  | .slice (.prim .uint8) => some .bytes
  | .any _ => some .iface
  | .ptr (.special s) => some (.ptr (.special s))
  | _ => none

mutual
/-- go: json.constructCodec (decode side) -/
def codecDecF : Nat → Env → TD → Bool → DSeen → Option (DChoice × DSeen)
  | 0, _, _, _, _ => none
  | fuel + 1, env, t, canAddr, seen =>
    match firstSwitchD t with
    | some c => some (c, seen)
    | none =>
      let named := isRef t && isComposite (under env t)
      if named && (seen.find (t, false)).isSome then some (.recur t canAddr, seen)
      else
        match kindDecF (codecDecF fuel env) (structDecF fuel env) env t (under env t) canAddr
            (if named then seen.set (t, false) (.building (t, false)) else seen) with
        | none => none
        | some (c, seen) =>
          some (unmarshalerOverride env t c, if named then seen.erase (t, false) else seen)
/-- go: json.constructStructType (decode side): THE structType of (t, canAddr) within one construction; a new one is
marked with the root it is being embedded in, with itself if none, until its list of fields is complete -/
def structDecF : Nat → Env → TD → Bool → Option Key → DSeen → Option (DEntry × DSeen)
  | 0, _, _, _, _, _ => none
  | fuel + 1, env, t, canAddr, root, seen =>
    match seen.find (t, canAddr) with
    | some e => some (e, seen)
    | none =>
      let r := root.getD (t, canAddr)
      match fieldsDecF (codecDecF fuel env) (structDecF fuel env) (listDecF fuel env) env canAddr r (fieldsOf env t)
          (seen.set (t, canAddr) (.building r)) with
      | none => none
      | some (fs, seen) => some (.done fs, seen.set (t, canAddr) (.done fs))
/-- go: json.appendStructFields(nil, t, 0, seen, canAddr, root), decode side: the second listing -/
def listDecF : Nat → Env → TD → Bool → Key → DSeen → Option (DL × DSeen)
  | 0, _, _, _, _, _ => none
  | fuel + 1, env, t, canAddr, root, seen =>
    fieldsDecF (codecDecF fuel env) (structDecF fuel env) (listDecF fuel env) env canAddr root (fieldsOf env t) seen
end

/-! ## Fuel (proved sufficient: `chooseDec_terminates`)
The potential of the encode side (`univ`, `keysOf`, `absent`, `foreign`): keys not in `seen` yet; for the current root, the
struct types under construction that are marked with another root (a second listing marks one of them); the size of the
type term. -/

def absentD (U : List Key) (seen : DSeen) : Nat := (U.filter fun k => (seen.find k).isNone).length

def isForeignD (seen : DSeen) (root : Key) (k : Key) : Bool :=
  match seen.find k with
  | some (.building r) => r != root
  | _ => false

def foreignD (U : List Key) (seen : DSeen) (root : Key) : Nat := (U.filter (isForeignD seen root)).length

def fuelForD (env : Env) (t : TD) : Nat :=
  let U := keysOf (univ env t)
  2 * (U.length * (U.length + 1) * (maxSize (univ env t) + 2) + t.size) + 1

/-- `constructCodec(t, map[structKey]*structType{}, canAddr)`, decode half -/
def chooseDec (env : Env) (t : TD) (canAddr : Bool) : DChoice × DSeen :=
  (codecDecF (fuelForD env t) env t canAddr []).getD (.cut, [])

/-- go: json.decoder.parse + json.constructCachedCodec: the decoder stored in the cache under `typeid(t)` -/
def constructDec (env : Env) (t : TD) : DChoice :=
  (chooseDec env t (isPtrKind (under env t))).1

/-- `codec` (decode side): the function stored in the shared cache under `typeid(t)` (one entry holds both halves) -/
abbrev DCache := List (TD × DChoice)

/-- go: json.decoder.parse + json.constructCachedCodec + json.cacheStore (see `constructCachedCodec`) -/
def constructCachedCodecDec (env : Env) (t : TD) (cache : DCache) : DChoice × DCache :=
  match cache.lookup t with
  | some c => (c, cache)
  | none => let c := constructDec env t; (c, (t, c) :: cache)

/-! ## What the result means: fast paths and back references resolved -/

mutual
def normD : DChoice → DChoice
  | .mapFast v => .map (.prim .string) (normD v)
  | .quotedInt c => .quoted (normD c)
  | .slice c => .slice (normD c)
  | .array n c => .array n (normD c)
  | .ptr c => .ptr (normD c)
  | .map k v => .map (normD k) (normD v)
  | .struct fs => .struct (normDL fs)
  | .quoted c => .quoted (normD c)
  | .embedPtr c => .embedPtr (normD c)
  | c => c
def normDL : DL → DL
  | .nil => .nil
  | .cons n t c r => .cons n t (normD c) (normDL r)
end

def resolveD (env : Env) (table : DSeen) : DChoice → Option (DChoice × DSeen)
  | .structRef t a =>
    (match table.find (t, a) with
      | some (.done fs) => some (.struct (normDL fs), table)
      | _ => none)
  | .recur t a => some (normD (chooseDec env t a).1, (chooseDec env t a).2)
  | c => some (c, table)

def underEmbedD (f : DChoice → DChoice) : DChoice → DChoice
  | .embedPtr x => .embedPtr (underEmbedD f x)
  | c => f c

/-- the tree of a NORMALISED decoder, to depth d: one level per constructor, map keys / `quoted` scalars / pointers to the
special types are leaves, `embedPtr` belongs to the field list of its struct -/
def expandDN : Nat → Env → DSeen → DChoice → DChoice
  | 0, _, _, _ => .cut
  | d + 1, env, table, c =>
    match resolveD env table c with
    | none => .cut
    | some (c, table) =>
      match c with
      | .slice x => .slice (expandDN d env table x)
      | .array n x => .array n (expandDN d env table x)
      | .ptr (.special s) => .ptr (.special s)
      | .ptr x => .ptr (expandDN d env table x)
      | .map k v => .map k (expandDN d env table v)
      | .struct fs => .struct (fs.mapChoice (underEmbedD (expandDN d env table)))
      | .structRef .. | .recur .. => .cut
      | c => c

def expandDecD (d : Nat) (env : Env) (table : DSeen) (c : DChoice) : DChoice := expandDN d env table (normD c)

/-- the decoder `Unmarshal` uses for a target of type `t` when the cache is cold, as a tree -/
def topTreeD (d : Nat) (env : Env) (t : TD) : DChoice :=
  let r := chooseDec env t (isPtrKind (under env t))
  expandDecD d env r.2 r.1

/-! ## `null` -/

/-- what a decoder does with the document `null` -/
inductive NullAct where
  | leave        -- the value is left as it is
  | zero         -- nil pointer / slice / map / interface
  | method       -- UnmarshalJSON is called with `null`
  | raw          -- RawMessage("null") is stored
  | inner        -- handed to the wrapped decoder (`string` option)
  | ptrFwd       -- decodePointer: nil — except that a non-nil pointer to a pointer hands `null` to its target
  | ifaceHeld    -- interface: nil — except that a held non-nil pointer to a pointer is decoded through
  deriving DecidableEq, Repr

/-- go: the `hasNullPrefix` branches of json/decode.go; `u` = the structure behind the kind of the target type -/
def nullActM (c : DChoice) (u : TD) : NullAct :=
  match c with
  | .special .rawMessage => .raw                 -- decodeRawMessage: parseValue, stored
  | .bytes | .slice _ | .map .. | .mapFast _ => .zero
  | .uj => .method                               -- decodeJSONUnmarshaler: parseValue, then the method
  | .ut => .leave                                -- decodeTextUnmarshaler: `case Null: return`
  | .iface => .ifaceHeld                         -- decodeInterface
  | .ifaceMaybe => .zero                         -- decodeMaybeEmptyInterface: `*(*any)(p) = nil`
  | .ptr _ => .ptrFwd                            -- decodePointer
  | .quoted _ | .quotedInt _ => .inner           -- decodeFromString / decodeFromStringToInt
  | .unsupported => (match u with | .map .. => .zero | _ => .leave)   -- decodeUnmarshalTypeError
  | _ => .leave                                  -- scalars, arrays, structs

/-! ## The cache entry as it is: both halves of the codec under one key -/

/-- `codec{encode, decode}` -/
abbrev Codec2 := Choice × DChoice
/-- `map[unsafe.Pointer]codec` -/
abbrev Cache2 := List (TD × Codec2)

/-- go: json.constructCachedCodec (without the store): ONE traversal builds both halves, the encoder gets the inline
wrapper for pointer-shaped values -/
def construct2 (env : Env) (t : TD) : Codec2 := (construct env t, constructDec env t)

/-- go: json.encoder.append / json.decoder.parse + json.constructCachedCodec + json.cacheStore: Marshal and Unmarshal
look the type up in the same cache; a miss constructs both halves and publishes them -/
def constructCachedCodec2 (env : Env) (t : TD) (cache : Cache2) : Codec2 × Cache2 :=
  match cache.lookup t with
  | some c => (c, cache)
  | none => let c := construct2 env t; (c, (t, c) :: cache)

/-- the cache after a sequence of calls of Marshal / Unmarshal for values of the types `ts` (in this order) -/
def runCalls2 (env : Env) : List TD → Cache2 → Cache2
  | [], cache => cache
  | t :: ts, cache => runCalls2 env ts (constructCachedCodec2 env t cache).2

end Enc.Model.Json.CodecChoice
