import Enc.Model.Json.EncString
/-!
# Model of the object rendering of a Go map with and without `SortMapKeys` (json/encode.go encodeMapStringString)

A `map[string]string` is given as the list of its entries IN THE ORDER THE RUNTIME'S MAP ITERATION HAPPENS TO PRODUCE —
a parameter: Go randomises it, so every theorem is for every order. With `SortMapKeys` the entries are copied to a
slice and sorted with `sort.Sort` by `elements[i].key < elements[j].key` (Go string comparison = byte-wise
lexicographic); keys of a map are distinct, so the unstable `sort.Sort` has exactly one possible result, the one any
correct sort gives (modelled by core's `List.mergeSort`). Without the flag the iteration order is written as is.
The other `encodeMap*` functions and the generic `encodeMap` (with `sortKeys` from `constructMapCodec`) have the same
shape: only the value encoder differs.
-/
namespace Enc.Model.Json.MapOrder
open Enc Enc.Model.Json

/-- entries in iteration order; `none` = nil map -/
abbrev Entries := List (Bytes × Bytes)

/-- Go's `a <= b` on strings: byte-wise lexicographic -/
def strLE : Bytes → Bytes → Bool
  | [], _ => true
  | _ :: _, [] => false
  | a :: as, b :: bs => a < b || (a == b && strLE as bs)

-- go: sort.Sort(mapslice) with Less(i, j) = elements[i].key < elements[j].key
def sortEntries (es : Entries) : Entries := es.mergeSort fun p q => strLE p.1 q.1

/-- the loop `for i, elem := range …  { if i != 0 { ',' }; encodeString(key); ':'; encodeString(val) }` -/
def encodeEntries (html : Bool) : Entries → Bool → Bytes
  | [], _ => []
  | (k, v) :: rest, first =>
    (if first then [] else [0x2c]) ++ encodeString k html ++ [0x3a] ++ encodeString v html ++ encodeEntries html rest false

-- go: json.encoder.encodeMapStringString
def encodeMapStringString (html sortKeys : Bool) (m : Option Entries) : Bytes :=
  match m with
  | none => [0x6e, 0x75, 0x6c, 0x6c]
  | some es =>
    let es := if sortKeys then sortEntries es else es
    [0x7b] ++ encodeEntries html es true ++ [0x7d]

end Enc.Model.Json.MapOrder
