import Enc.Base.Bytes
/-!
# Model of the struct-field resolution of segmentio/encoding/json (json/codec.go appendStructFields, constructStructType)

Which Go fields of a struct type become members of the JSON object, under which key, in which order.

The universe: struct types as finite trees (`Fields` = the field list of a struct, `Ty` = the type of one field).
A field has its Go name, the raw value of its `json:"…"` tag (`[]` when there is none — `reflect.StructTag.Get` cannot tell
the two apart), whether it is anonymous (embedded), whether it is exported (`len(f.PkgPath) == 0`), and its type:
an `int` leaf, a `*int` leaf (a non-struct pointer), a struct, or a pointer to a struct. Every node of the tree stands for
a DISTINCT Go type (no type is embedded twice; recursive types are outside the universe).
Names and tags are ASCII: a byte ≥ 0x80 is treated as not allowed in a tag name (Go decodes UTF-8 and asks unicode.IsLetter).

`segFields` mirrors `appendStructFields` as written: the first loop collects the directly serialised fields and the
`embedded` list (one entry per already-resolved field of every embedded struct, index `i<<32|j`), the `names` set of the
direct fields seeds `ambiguousNames` and `ambiguousTags` with 1, every embedded subfield is counted, a subfield is dropped
when `ambiguousNames > 1 && (!tag || ambiguousTags != 1)`, promoted subfields get `tag = false`, the result is sorted by index.
The quirks are kept: direct fields of one struct are never compared with each other; promoted fields lose their tag
flag and their depth. (Since the repair of finding jsonAnonymousTagMismatch an invalid tag name counts as no name at all,
and an unexported field is skipped before its tag is read unless it is an embedded struct or pointer to struct.)
-/
namespace Enc.Model.Json.Fields
open Enc

mutual
inductive Ty where
  | leaf                          -- int
  | ptrLeaf                       -- *int: a non-struct type behind a pointer
  | struct (fs : Fields)
  | ptrStruct (fs : Fields)       -- pointer to struct
inductive Fields where
  | nil
  | cons (goName : Bytes) (tag : Bytes) (anonymous exported : Bool) (ty : Ty) (rest : Fields)
end

/-- `typ.Kind() == reflect.Struct` after following one pointer -/
def Ty.isStruct : Ty → Bool
  | .struct _ | .ptrStruct _ => true
  | _ => false
/-- `f.Type.Kind() == reflect.Ptr` -/
def Ty.isPtr : Ty → Bool
  | .ptrLeaf | .ptrStruct _ => true
  | _ => false
/-- the kinds the `string` option applies to (after following one pointer): here the int leaves -/
def Ty.isScalar : Ty → Bool
  | .leaf | .ptrLeaf => true
  | _ => false

def Fields.length : Fields → Nat
  | .nil => 0
  | .cons _ _ _ _ _ r => r.length + 1

/-- what both libraries expose of one resolved field: the JSON key, the Go field it denotes (positions from the root
struct through the embedded structs), the `omitempty` option, whether the value is written inside a JSON string
(`string` option on a scalar), whether it lives behind an embedded pointer (omitted when that pointer is nil) -/
structure Field where
  name : Bytes
  path : List Nat
  omitempty : Bool
  quoted : Bool
  viaPtr : Bool
  deriving DecidableEq, Repr

/-- `structField` as far as field resolution is concerned (+ `tag`, internal to the resolution) -/
structure Resolved where
  name : Bytes
  path : List Nat
  tag : Bool
  omitempty : Bool
  quoted : Bool
  viaPtr : Bool
  deriving DecidableEq, Repr

def Resolved.obs (r : Resolved) : Field := ⟨r.name, r.path, r.omitempty, r.quoted, r.viaPtr⟩

/-! ### tag parsing as in appendStructFields -/

def bDash : Bytes := [0x2d]
def bOmitempty : Bytes := [0x6f, 0x6d, 0x69, 0x74, 0x65, 0x6d, 0x70, 0x74, 0x79]
def bString : Bytes := [0x73, 0x74, 0x72, 0x69, 0x6e, 0x67]

/-- `strings.Split(s, ",")`: never empty -/
def splitComma : Bytes → List Bytes
  | [] => [[]]
  | c :: r =>
    if c == 0x2c then [] :: splitComma r
    else match splitComma r with
      | h :: t => (c :: h) :: t
      | [] => [[c]]

def isAsciiLetter (c : UInt8) : Bool := (0x41 ≤ c && c ≤ 0x5a) || (0x61 ≤ c && c ≤ 0x7a)
def isAsciiDigit (c : UInt8) : Bool := 0x30 ≤ c && c ≤ 0x39

/-- `strings.ContainsRune("!#$%&()*+-./:;<=>?@[]^_{|}~ ", c)` -/
def tagPunct : Bytes :=
  [0x21, 0x23, 0x24, 0x25, 0x26, 0x28, 0x29, 0x2a, 0x2b, 0x2d, 0x2e, 0x2f, 0x3a, 0x3b, 0x3c, 0x3d, 0x3e, 0x3f, 0x40,
   0x5b, 0x5d, 0x5e, 0x5f, 0x7b, 0x7c, 0x7d, 0x7e, 0x20]

/-- json/codec.go isValidTag (ASCII) -/
def isValidTag (s : Bytes) : Bool :=
  s != [] && s.all fun c => tagPunct.contains c || isAsciiLetter c || isAsciiDigit c

/-- what the first loop of appendStructFields does with one field -/
inductive Action where
  | skip                                                    -- `continue`
  | embed                                                   -- anonymous struct / *struct without tag name: subfields promoted
  | direct (name : Bytes) (tag omitempty stringify : Bool)  -- appended to `fields`
  deriving DecidableEq, Repr

def action (goName tag : Bytes) (anonymous exported isStruct : Bool) : Action :=
  if !exported && !(anonymous && isStruct) then .skip       -- unexported: ignored, unless an embedded struct or *struct
  else
    let parts := splitComma tag
    let p0 := parts.headD []
    let name := if p0 ≠ [] then p0 else goName
    let tg := decide (p0 ≠ [])
    if name == bDash && parts.length == 1 then .skip                      -- ignored
    else
      let valid := isValidTag name
      let name := if valid then name else goName                          -- like encoding/json: as if there was no name
      let tg := tg && valid
      let omitempty := parts.tail.contains bOmitempty
      let stringify := parts.tail.contains bString
      if anonymous && !tg then                                            -- embedded
        if isStruct then .embed
        else .direct name tg omitempty stringify
      else .direct name tg omitempty stringify

/-! ### the two lists built by the first loop, and the second half of the function -/

/-- an element of `fields` with its `index` (compared as the pair (i, j) = i<<32|j) -/
structure Entry where
  i : Nat
  j : Nat
  r : Resolved
  deriving DecidableEq, Repr

/-- `embeddedField` -/
structure Emb where
  i : Nat
  j : Nat
  pointer : Bool
  sub : Resolved
  deriving DecidableEq, Repr

structure Scan where
  direct : List Entry
  embedded : List Emb
  deriving Repr

/-- `sort.Slice(fields, func(i, j) { return fields[i].index < fields[j].index })` as "not greater" on (i, j) -/
def Entry.le (a b : Entry) : Bool := a.i < b.i || (a.i == b.i && a.j ≤ b.j)

/-- `ambiguousNames[n]` after both counting loops -/
def ambiguousNames (s : Scan) (n : Bytes) : Nat :=
  (if s.direct.any (fun e => e.r.name == n) then 1 else 0) + s.embedded.countP (fun e => e.sub.name == n)
/-- `ambiguousTags[n]` -/
def ambiguousTags (s : Scan) (n : Bytes) : Nat :=
  (if s.direct.any (fun e => e.r.name == n) then 1 else 0) + s.embedded.countP (fun e => e.sub.tag && e.sub.name == n)

/-- "ambiguous embedded field" -/
def dropped (s : Scan) (e : Emb) : Bool :=
  decide (ambiguousNames s e.sub.name > 1) && (!e.sub.tag || ambiguousTags s e.sub.name != 1)

/-- the subfield as appended to `fields`: tag cleared, index of the embedding, reached through the embedded field -/
def promote (e : Emb) : Entry :=
  ⟨e.i, e.j, { e.sub with path := e.i :: e.sub.path, tag := false, viaPtr := e.pointer || e.sub.viaPtr }⟩

def finish (s : Scan) : List Resolved :=
  ((s.direct ++ (s.embedded.filter fun e => !dropped s e).map promote).mergeSort Entry.le).map (·.r)

/-- one `embeddedField` per field of the resolved subtype, `index: i<<32 | j` -/
def embedAll (i : Nat) (pointer : Bool) : Nat → List Resolved → List Emb
  | _, [] => []
  | j, r :: rest => ⟨i, j, pointer, r⟩ :: embedAll i pointer (j + 1) rest

mutual
/-- the first loop, from field position `i` on -/
def scan : Fields → Nat → Scan
  | .nil, _ => ⟨[], []⟩
  | .cons goName tag anonymous exported ty rest, i =>
    let s := scan rest (i + 1)
    match action goName tag anonymous exported ty.isStruct with
    | .skip => s
    | .embed => { s with embedded := embedAll i ty.isPtr 0 (subFields ty) ++ s.embedded }
    | .direct name tg omitempty stringify =>
      { s with direct := ⟨i, 0, ⟨name, [i], tg, omitempty, stringify && ty.isScalar, false⟩⟩ :: s.direct }
/-- `constructStructType(typ, …).fields` of an embedded struct type -/
def subFields : Ty → List Resolved
  | .struct fs => finish (scan fs 0)
  | .ptrStruct fs => finish (scan fs 0)
  | _ => []
end

/-- `constructStructType(t).fields`: the members of the JSON object, in output order -/
def segFields (fs : Fields) : List Resolved := finish (scan fs 0)

/-! ### the key lookup of decodeStruct (json/decode.go) over the same field list (constructStructType) -/

/-- appendFoldedName on ASCII (= appendToLower) -/
def asciiLower (s : Bytes) : Bytes := s.map fun c => if 0x41 ≤ c && c ≤ 0x5a then c + 0x20 else c

/-- `st.keyset` is used: at most 32 fields, every name at most 16 bytes, and the CPU has the vector instructions
(`cpu`, a parameter: segmentio/asm keyset.New returns nil without them) -/
def keysetUsed (cpu : Bool) (rs : List Resolved) : Bool :=
  cpu && !rs.isEmpty && decide (rs.length ≤ 32) && rs.all fun r => decide (r.name.length ≤ 16)

/-- the field a JSON key is decoded into: exact name through the keyset (linear scan: FIRST field of that name) or
through the map `fieldsIndex` (filled in field order: LAST field of that name), then case-insensitively through
`ficaseIndex` (first field wins) -/
def lookupKey (cpu : Bool) (rs : List Resolved) (key : Bytes) : Option Resolved :=
  let exact :=
    if keysetUsed cpu rs then rs.find? fun r => r.name == key
    else rs.reverse.find? fun r => r.name == key
  match exact with
  | some r => some r
  | none => rs.find? fun r => asciiLower r.name == asciiLower key

end Enc.Model.Json.Fields
