import Enc.Model.Json.DecAny
import Enc.Spec.Json.Base64Dec
/-!
# Model of json.Unmarshal / Parse / Decoder.Decode into TYPED targets: the type-directed decoders of /repo/json/decode.go

Type universe `JT` (what `constructCodec` of codec.go dispatches on, for the kinds modelled here):

    bool | int (ten widths) | float64 | string | []T | [n]T | map[string]T | *T | struct{ F1 T1; … } | any

`[]byte` is `slice (int u8)` (codec.go `constructSliceCodec`: element kind Uint8 → `decodeBytes`, which falls back to
`decodeSlice` with `decodeUint8` on a `[`). Struct fields are exported, untagged, not embedded, with distinct ASCII
names: field RESOLUTION is the subject of Model/Json/Fields.lean (`lookupKey`); here the key lookup of `decodeStruct` is
"exact name, else the first field equal under case folding" (`fieldIndex`).

Values `JV` are the CONTENT OF THE TARGET, before and after a decode ("also when the target already holds data"):
* `slice isNil vs stale`: the `len` visible elements and, after them, the elements of the backing array that earlier
  decodes wrote and that a later, longer array document decodes INTO again (`s.len = 0` keeps the backing array; the memory
  beyond what was ever written is zero, whatever the capacity — so the growth policy (10, 20, 40 … here, `reflect.Value.Grow`
  in encoding/json) is not observable);
* `map isNil ms`: canonical, sorted by key, keys distinct (as `GMs` of DecAny.lean);
* `nilptr` / `ptr old v`: `old` = the pointer cell existed before the current `Unmarshal` call (pointer IDENTITY: a reused
  pointer keeps `old = true`, a pointer allocated by `reflect.New` in decodePointer has `old = false`);
* `anyv g`: an interface holding nil (`g = .null`) or a non-pointer generic value; `anyp t old v`: an interface holding a
  non-nil `*t` — the only content of an interface that decodeInterface decodes INTO.

Results carry the class of the error and the remainder returned next to it (`Unmarshal` turns a non-syntax error into a
SyntaxError when bytes remain): `syn` (*SyntaxError), `ty r` (*UnmarshalTypeError), `oth r` (base64.CorruptInputError,
"json: unknown field"). C02 promises neither classes nor the partial content left after an error; the property-level
observable (`Driver/JsonTyped.lean`) collapses all three.

The five specialised copies of the map loop (decodeMapStringInterface / …String / …StringSlice / …Bool and the generic
decodeMap) are one loop here (`mapLoop`): they differ only by the inlined value decoder, and each resets the value slot to
the zero value before every member (`v.Set(vz)`, `val = nil`, `val = ""`, `clear(buf); buf = buf[:0]` + copy).
-/
namespace Enc.Model.Json.Typed
open Enc Enc.Model.Json

mutual
inductive JT where
  | bool
  | int (w : ITy)
  | float
  | str
  | slice (e : JT)
  | array (n : Nat) (e : JT)
  | mapS (e : JT)
  | ptr (e : JT)
  | strct (fs : JFs)
  | any
  deriving DecidableEq
inductive JFs where
  | nil
  | cons (name : Bytes) (t : JT) (rest : JFs)
  deriving DecidableEq
end

mutual
inductive JV where
  | bool (b : Bool)
  | int (v : Int)
  | float (lit : Bytes)                 -- the float64 strconv.ParseFloat(lit, 64); zero value: the literal `0`
  | str (s : Bytes)
  | slice (isNil : Bool) (vs : JVs) (stale : JVs)
  | array (vs : JVs)
  | map (isNil : Bool) (ms : JMs)
  | nilptr
  | ptr (old : Bool) (v : JV)
  | strct (vs : JVs)
  | anyv (g : GV)
  | anyp (t : JT) (old : Bool) (v : JV)
  deriving DecidableEq
inductive JVs where
  | nil
  | cons (v : JV) (rest : JVs)
  deriving DecidableEq
inductive JMs where
  | nil
  | cons (k : Bytes) (v : JV) (rest : JMs)
  deriving DecidableEq
end

def JVs.append : JVs → JVs → JVs
  | .nil, ys => ys
  | .cons v r, ys => .cons v (JVs.append r ys)

def JVs.length : JVs → Nat
  | .nil => 0
  | .cons _ r => JVs.length r + 1

def JVs.replicate (v : JV) : Nat → JVs
  | 0 => .nil
  | n + 1 => .cons v (JVs.replicate v n)

def JVs.head? : JVs → Option JV
  | .nil => none
  | .cons v _ => some v

def JVs.tail : JVs → JVs
  | .nil => .nil
  | .cons _ r => r

def JVs.get? : JVs → Nat → Option JV
  | .nil, _ => none
  | .cons v _, 0 => some v
  | .cons _ r, n + 1 => JVs.get? r n

def JVs.set : JVs → Nat → JV → JVs
  | .nil, _, _ => .nil
  | .cons _ r, 0, x => .cons x r
  | .cons v r, n + 1, x => .cons v (JVs.set r n x)

/-- Go's `m[k] = v` on the canonical representation -/
def JMs.insert (k : Bytes) (v : JV) : JMs → JMs
  | .nil => .cons k v .nil
  | .cons k' v' rest =>
    if k == k' then .cons k v rest
    else if bytesLt k k' then .cons k v (.cons k' v' rest)
    else .cons k' v' (JMs.insert k v rest)

def JMs.lookup (k : Bytes) : JMs → Option JV
  | .nil => none
  | .cons k' v' rest => if k == k' then some v' else JMs.lookup k rest

def zeroLit : Bytes := [0x30]

mutual
/-- `reflect.Zero(t)` -/
def zeroOf : JT → JV
  | .bool => .bool false
  | .int _ => .int 0
  | .float => .float zeroLit
  | .str => .str []
  | .slice _ => .slice true .nil .nil
  | .array n e => .array (JVs.replicate (zeroOf e) n)
  | .mapS _ => .map true .nil
  | .ptr _ => .nilptr
  | .strct fs => .strct (zerosOf fs)
  | .any => .anyv .null
def zerosOf : JFs → JVs
  | .nil => .nil
  | .cons _ t rest => .cons (zeroOf t) (zerosOf rest)
end

def JT.isPtr : JT → Bool
  | .ptr _ => true
  | _ => false

def JT.isU8 : JT → Bool
  | .int .u8 => true
  | _ => false

/-- result of a decode function: the new content of the target and the remainder, or the class of the error -/
inductive TR (α : Type) where
  | ok (v : α) (rest : Bytes)
  | syn
  | ty (rest : Bytes)
  | oth (rest : Bytes)
  deriving DecidableEq

/-- the two flags of C02 (`Decoder.UseNumber`, `Decoder.DisallowUnknownFields`; `Parse` flags of the same names) -/
structure TFlags where
  useNumber : Bool
  disallowUnknown : Bool
  deriving DecidableEq, Repr

def TFlags.dyn (c : TFlags) : DynFlags := { useNumber := c.useNumber, useBigInt := false, useInt64 := false, useUint64 := false }

def trueLit : Bytes := [0x74, 0x72, 0x75, 0x65]
def falseLit : Bytes := [0x66, 0x61, 0x6c, 0x73, 0x65]

-- go: json.inputError
def inputErrorT {α : Type} (fl : PFlags) (F depth : Nat) (b : Bytes) : TR α :=
  if b.isEmpty then .syn
  else match parseValue fl depth F b with
    | .err _ => .syn
    | .ok _ r => .ty (skipSpaces r)

/-- what a container does with the error of an element / member value: `d.parseValue(input)` with the NESTED decoder
(`depth` = the nested depth), then the element's error with the remainder of the container -/
def elemError {α β : Type} (fl : PFlags) (F depth : Nat) (input : Bytes) (e : TR α) : TR β :=
  match parseValue fl depth F input with
  | .err _ => .syn
  | .ok _ r =>
    match e with
    | .ty _ => .ty r
    | .oth _ => .oth r
    | _ => .syn

-- go: json.decodeBool
def decodeBool (fl : PFlags) (F depth : Nat) (cur : JV) (b : Bytes) : TR JV :=
  if hasPrefix b trueLit then .ok (.bool true) (b.drop 4)
  else if hasPrefix b falseLit then .ok (.bool false) (b.drop 5)
  else if hasPrefix b nullLit then .ok cur (b.drop 4)
  else inputErrorT fl F depth b

/-- the `'.', 'e', 'E'` epilogue of parseInt / parseUint: `count` digits (and sign) were consumed -/
def intFloatTail {α : Type} (b : Bytes) (count : Nat) : Option (TR α) :=
  match b.drop count with
  | c :: r =>
    if c == 0x2e || c == 0x65 || c == 0x45 then
      match parseNumber b with
      | .ok _ r' => some (.ty r')
      | .err _ => some (.ty r)                                        -- `v, r = b[:count+1], b[count+1:]`
    else none
  | [] => none

/-- the error that json.parseInt returns when `DecScalar.parseInt b = .err` (same control flow, classes and remainders kept) -/
def parseIntErr {α : Type} (fl : PFlags) (F depth : Nat) (b : Bytes) : TR α :=
  match b with
  | [] => .syn
  | c0 :: b1 =>
    if c0 == 0x2d then
      match b1 with
      | [] => .syn
      | c1 :: b2 =>
        let lz := match b2 with | c2 :: _ => c1 == 0x30 && isDigit c2 | [] => false
        if lz then .syn
        else match negLoop b1 0#64 0 with
          | .overflow => .ty b                                         -- `return 0, b, unmarshalOverflow(b, t)`
          | .done _ n =>
            if n == 0 then inputErrorT fl F depth b
            else (intFloatTail b (n + 1)).getD .syn
    else
      let lz := match b1 with | c1 :: _ => c0 == 0x30 && isDigit c1 | [] => false
      if lz then .syn
      else match posLoopS b 0#64 0 with
        | .overflow => .ty b
        | .done _ n =>
          if n == 0 then inputErrorT fl F depth b
          else (intFloatTail b n).getD .syn

/-- the error that json.parseUint returns when `DecScalar.parseUint b = .err` -/
def parseUintErr {α : Type} (fl : PFlags) (F depth : Nat) (b : Bytes) : TR α :=
  match b with
  | [] => .syn
  | c0 :: b1 =>
    let lz := match b1 with | c1 :: _ => c0 == 0x30 && isDigit c1 | [] => false
    if lz then .syn
    else match posLoopU b 0#64 0 with
      | .overflow => .ty b
      | .done _ n =>
        if n == 0 then inputErrorT fl F depth b
        else (intFloatTail b n).getD .syn

-- go: json.decodeInt / decodeInt8 … decodeUint64
def decodeInt (fl : PFlags) (F depth : Nat) (w : ITy) (cur : JV) (b : Bytes) : TR JV :=
  if hasPrefix b nullLit then .ok cur (b.drop 4)
  else if w.signed then
    match parseInt b with
    | .err => parseIntErr fl F depth b
    | .ok v r =>
      let i := v.toInt
      if w.bits < 64 && (i < -(2 ^ (w.bits - 1) : Int) || i > (2 ^ (w.bits - 1) : Int) - 1) then .ty r   -- unmarshalOverflow
      else .ok (.int i) r
  else
    match parseUint b with
    | .err => parseUintErr fl F depth b
    | .ok v r =>
      if w.bits < 64 && v.toNat > 2 ^ w.bits - 1 then .ty r else .ok (.int (v.toNat : Int)) r

-- go: json.decodeFloat64
def decodeFloat (fl : PFlags) (F depth : Nat) (cur : JV) (b : Bytes) : TR JV :=
  if hasPrefix b nullLit then .ok cur (b.drop 4)
  else match parseNumber b with
    | .err _ => inputErrorT fl F depth b
    | .ok _ r =>
      let lit := litOf b r
      if Spec.Json.floatOverflows lit then inputErrorT fl F depth b else .ok (.float lit) r

-- go: json.decodeString
def decodeStr (fl : PFlags) (F depth : Nat) (cur : JV) (b : Bytes) : TR JV :=
  if hasPrefix b nullLit then .ok cur (b.drop 4)
  else match parseStringUnquote fl b with
    | some (s, r) => .ok (.str s) r
    | none =>
      match b with
      | c :: _ => if c != 0x22 then inputErrorT fl F depth b else .syn
      | [] => inputErrorT fl F depth b

def bytesToJVs : Bytes → JVs
  | [] => .nil
  | c :: r => .cons (.int (c.toNat : Int)) (bytesToJVs r)

def JV.sliceBacking : JV → JVs
  | .slice _ vs stale => JVs.append vs stale
  | _ => .nil

def JV.arrayElems : JV → JVs
  | .array vs => vs
  | _ => .nil

def JV.structVals : JV → JVs
  | .strct vs => vs
  | _ => .nil

def JV.mapEntries : JV → JMs
  | .map _ ms => ms
  | _ => .nil

def asciiLowerB (c : UInt8) : UInt8 := if 0x41 ≤ c && c ≤ 0x5a then c + 0x20 else c

/-- json.appendFoldedName for a key that is valid UTF-8: every rune is replaced by the smallest rune of its simple-fold
orbit, then ASCII letters are lowered. Only two non-ASCII runes fold into ASCII — U+212A KELVIN SIGN (`e2 84 aa`) ↦ k and
U+017F LATIN SMALL LETTER LONG S (`c5 bf`) ↦ s —; all other non-ASCII runes stay non-ASCII (their image is irrelevant here:
field names are ASCII), so they are left alone. -/
def foldKey : Bytes → Bytes
  | [] => []
  | 0xe2 :: 0x84 :: 0xaa :: r => 0x6b :: foldKey r
  | 0xc5 :: 0xbf :: r => 0x73 :: foldKey r
  | c :: r => asciiLowerB c :: foldKey r

/-- the field a key denotes in decodeStruct: exact name (`fieldsIndex` / keyset; names are distinct), else the first
field whose folded name equals the folded key (`ficaseIndex`: first field wins) -/
def fieldExact (key : Bytes) : JFs → Nat → Option (Nat × JT)
  | .nil, _ => none
  | .cons n t rest, i => if n == key then some (i, t) else fieldExact key rest (i + 1)

def fieldFolded (fkey : Bytes) : JFs → Nat → Option (Nat × JT)
  | .nil, _ => none
  | .cons n t rest, i => if foldKey n == fkey then some (i, t) else fieldFolded fkey rest (i + 1)

def fieldIndex (fs : JFs) (key : Bytes) : Option (Nat × JT) :=
  match fieldExact key fs 0 with
  | some r => some r
  | none => fieldFolded (foldKey key) fs 0

/-- result of the loops -/
abbrev LR (α : Type) := TR α

mutual
/-- `codec.decode(d, b, p)` for the codec that constructCodec builds for type `t`; `cur` = the content of `*p` -/
def decodeInto (fl : PFlags) (c : TFlags) (F : Nat) : Nat → Nat → JT → JV → Bytes → TR JV
  | 0, _, _, _, _ => .syn
  | fuel + 1, depth, t, cur, b =>
    match t with
    | .bool => decodeBool fl F depth cur b
    | .int w => decodeInt fl F depth w cur b
    | .float => decodeFloat fl F depth cur b
    | .str => decodeStr fl F depth cur b
    | .slice e => if e.isU8 then decodeBytes fl c F fuel depth cur b else decodeSlice fl c F fuel depth e cur b
    | .array _ e => decodeArray fl c F fuel depth e cur b
    | .mapS e => decodeMap fl c F fuel depth e cur b
    | .ptr e => decodePointer fl c F fuel depth e cur b
    | .strct fs => decodeStruct fl c F fuel depth fs cur b
    | .any => decodeIface fl c F fuel depth cur b
-- go: json.decodeBytes
def decodeBytes (fl : PFlags) (c : TFlags) (F : Nat) : Nat → Nat → JV → Bytes → TR JV
  | 0, _, _, _ => .syn
  | fuel + 1, depth, cur, b =>
    if hasPrefix b nullLit then .ok (.slice true .nil .nil) (b.drop 4)
    else if b.length < 2 then inputErrorT fl F depth b
    else match b with
      | [] => inputErrorT fl F depth b
      | c0 :: _ =>
        if c0 != 0x22 then
          (if c0 == 0x5b then decodeSlice fl c F fuel depth (.int .u8) cur b else inputErrorT fl F depth b)
        else match parseStringUnquote fl b with
          | none => inputErrorT fl F depth b
          | some (src, r) =>
            match Spec.Json.b64DecodeStd src with
            | none => .oth r
            | some dst => .ok (.slice false (bytesToJVs dst) .nil) r
-- go: json.decodeSlice
def decodeSlice (fl : PFlags) (c : TFlags) (F : Nat) : Nat → Nat → JT → JV → Bytes → TR JV
  | 0, _, _, _, _ => .syn
  | fuel + 1, depth, e, cur, b =>
    if hasPrefix b nullLit then .ok (.slice true .nil .nil) (b.drop 4)
    else if b.length < 2 then inputErrorT fl F depth b
    else match b with
      | [] => inputErrorT fl F depth b
      | c0 :: rest =>
        if c0 != 0x5b then
          (if e.isU8 then decodeBytes fl c F fuel depth cur b else inputErrorT fl F depth b)
        else if !nestOK depth then .syn
        else match sliceLoop fl c F fuel (depth + 1) e b cur.sliceBacking rest 0 with
          | .ok (vs, stale) r =>
            (match vs with
             | .nil => .ok (.slice false .nil .nil) r                   -- `*s = slice{data: unsafe.Pointer(&empty)}`
             | _ => .ok (.slice false vs stale) r)
          | .syn => .syn
          | .ty r => .ty r
          | .oth r => .oth r
/-- the `for` loop of decodeSlice: `backing` = the elements of the backing array from index `i` on; returns the elements
decoded and what is left of the backing array after them -/
def sliceLoop (fl : PFlags) (c : TFlags) (F : Nat) : Nat → Nat → JT → Bytes → JVs → Bytes → Nat → LR (JVs × JVs)
  | 0, _, _, _, _, _, _ => .syn
  | fuel + 1, depth, e, input, backing, b, i =>
    let b := skipSpaces b
    match b with
    | [] => .syn
    | c0 :: rest =>
      if c0 == 0x5d then .ok (.nil, backing) rest
      else
        let b2 : Option Bytes := if i != 0 then (if c0 != 0x2c then none else some (skipSpaces rest)) else some b
        match b2 with
        | none => .syn
        | some b3 =>
          let slot := (backing.head?).getD (zeroOf e)
          match decodeInto fl c F fuel depth e slot b3 with
          | .ok v r =>
            (match sliceLoop fl c F fuel depth e input backing.tail r (i + 1) with
             | .ok (vs, st) r' => .ok (.cons v vs, st) r'
             | e' => e')
          | err => elemError fl F depth input err
-- go: json.decodeArray
def decodeArray (fl : PFlags) (c : TFlags) (F : Nat) : Nat → Nat → JT → JV → Bytes → TR JV
  | 0, _, _, _, _ => .syn
  | fuel + 1, depth, e, cur, b =>
    if hasPrefix b nullLit then .ok cur (b.drop 4)
    else if b.length < 2 then inputErrorT fl F depth b
    else match b with
      | [] => inputErrorT fl F depth b
      | c0 :: rest =>
        if c0 != 0x5b then inputErrorT fl F depth b
        else if !nestOK depth then .syn
        else
          let b1 := skipSpaces rest
          match b1 with
          | 0x5d :: r => .ok (.array (JVs.replicate (zeroOf e) cur.arrayElems.length)) r
          | _ =>
            match arrayLoop fl c F fuel (depth + 1) e b cur.arrayElems b1 with
            | .ok vs r => .ok (.array vs) r
            | .syn => .syn
            | .ty r => .ty r
            | .oth r => .oth r
/-- the `for` loop of decodeArray, entered with `b` at an element: `slots` = the elements of the target from index `i` on
(`i < n` iff there is one); returns the new content of those elements (missing ones zeroed) -/
def arrayLoop (fl : PFlags) (c : TFlags) (F : Nat) : Nat → Nat → JT → Bytes → JVs → Bytes → LR JVs
  | 0, _, _, _, _, _ => .syn
  | fuel + 1, depth, e, input, slots, b =>
    let step : TR (Option JV) :=
      match slots with
      | .cons slot _ =>
        (match decodeInto fl c F fuel depth e slot b with
         | .ok v r => .ok (some v) r
         | err => elemError fl F depth input err)
      | .nil =>
        (match parseValue fl depth F b with                          -- extra elements are skipped
         | .ok _ r => .ok none r
         | .err _ => .syn)
    match step with
    | .ok ov r =>
      let r := skipSpaces r
      (match r with
       | [] => .syn
       | c0 :: rest =>
         if c0 == 0x5d then
           (match ov with
            | some v => .ok (.cons v (JVs.replicate (zeroOf e) slots.tail.length)) rest
            | none => .ok .nil rest)
         else if c0 != 0x2c then .syn
         else match arrayLoop fl c F fuel depth e input slots.tail (skipSpaces rest) with
           | .ok vs r' => (match ov with | some v => .ok (.cons v vs) r' | none => .ok vs r')
           | e' => e')
    | .syn => .syn
    | .ty r => .ty r
    | .oth r => .oth r
-- go: json.decodeMap (and its specialised copies)
def decodeMap (fl : PFlags) (c : TFlags) (F : Nat) : Nat → Nat → JT → JV → Bytes → TR JV
  | 0, _, _, _, _ => .syn
  | fuel + 1, depth, e, cur, b =>
    if hasPrefix b nullLit then .ok (.map true .nil) (b.drop 4)
    else if b.length < 2 then inputErrorT fl F depth b
    else match b with
      | [] => inputErrorT fl F depth b
      | c0 :: rest =>
        if c0 != 0x7b then inputErrorT fl F depth b
        else if !nestOK depth then .syn
        else match mapLoop fl c F fuel (depth + 1) e b cur.mapEntries rest 0 with
          | .ok m r => .ok (.map false m) r
          | .syn => .syn
          | .ty r => .ty r
          | .oth r => .oth r
def mapLoop (fl : PFlags) (c : TFlags) (F : Nat) : Nat → Nat → JT → Bytes → JMs → Bytes → Nat → LR JMs
  | 0, _, _, _, _, _, _ => .syn
  | fuel + 1, depth, e, input, m, b, i =>
    let b := skipSpaces b
    match b with
    | [] => .syn
    | c0 :: rest =>
      if c0 == 0x7d then .ok m rest
      else
        let b2 : Option Bytes := if i != 0 then (if c0 != 0x2c then none else some (skipSpaces rest)) else some b
        match b2 with
        | none => .syn
        | some b3 =>
          if hasPrefix b3 nullLit then .syn
          else match parseStringUnquote fl b3 with                   -- decodeKey = decodeString; objectKeyError: SyntaxError
            | none => .syn
            | some (key, r) =>
              (match skipSpaces r with
               | [] => .syn
               | x :: r2 =>
                 if x != 0x3a then .syn
                 else match decodeInto fl c F fuel depth e (zeroOf e) (skipSpaces r2) with
                   | .ok v r3 => mapLoop fl c F fuel depth e input (m.insert key v) r3 (i + 1)
                   | err => elemError fl F depth input err)
-- go: json.decodePointer
def decodePointer (fl : PFlags) (c : TFlags) (F : Nat) : Nat → Nat → JT → JV → Bytes → TR JV
  | 0, _, _, _, _ => .syn
  | fuel + 1, depth, e, cur, b =>
    match cur with
    | .ptr old v =>
      if hasPrefix b nullLit && !e.isPtr then .ok .nilptr (b.drop 4)
      else                                                            -- also `null` onto a non-nil **T: `decode(d, b, pp)`
        (match decodeInto fl c F fuel depth e v b with
         | .ok v' r => .ok (.ptr old v') r
         | .syn => .syn
         | .ty r => .ty r
         | .oth r => .oth r)
    | _ =>
      if hasPrefix b nullLit then .ok .nilptr (b.drop 4)
      else
        (match decodeInto fl c F fuel depth e (zeroOf e) b with       -- `reflect.New(t)`
         | .ok v' r => .ok (.ptr false v') r
         | .syn => .syn
         | .ty r => .ty r
         | .oth r => .oth r)
-- go: json.decodeStruct
def decodeStruct (fl : PFlags) (c : TFlags) (F : Nat) : Nat → Nat → JFs → JV → Bytes → TR JV
  | 0, _, _, _, _ => .syn
  | fuel + 1, depth, fs, cur, b =>
    if hasPrefix b nullLit then .ok cur (b.drop 4)
    else if b.length < 2 then inputErrorT fl F depth b
    else match b with
      | [] => inputErrorT fl F depth b
      | c0 :: rest =>
        if c0 != 0x7b then inputErrorT fl F depth b
        else if !nestOK depth then .syn
        else match structLoop fl c F fuel (depth + 1) fs b (match cur with | .strct vs => vs | _ => zerosOf fs) rest 0 with
          | .ok vs r => .ok (.strct vs) r
          | .syn => .syn
          | .ty r => .ty r
          | .oth r => .oth r
def structLoop (fl : PFlags) (c : TFlags) (F : Nat) : Nat → Nat → JFs → Bytes → JVs → Bytes → Nat → LR JVs
  | 0, _, _, _, _, _, _ => .syn
  | fuel + 1, depth, fs, input, vals, b, i =>
    let b := skipSpaces b
    match b with
    | [] => .syn
    | c0 :: rest =>
      if c0 == 0x7d then .ok vals rest
      else
        let b2 : Option Bytes := if i != 0 then (if c0 != 0x2c then none else some (skipSpaces rest)) else some b
        match b2 with
        | none => .syn
        | some b3 =>
          if hasPrefix b3 nullLit then .syn
          else match parseStringUnquote fl b3 with
            | none => .syn
            | some (key, r) =>
              (match skipSpaces r with
               | [] => .syn
               | x :: r2 =>
                 if x != 0x3a then .syn
                 else
                   let bv := skipSpaces r2
                   match fieldIndex fs key with
                   | none =>
                     if c.disallowUnknown then .oth bv                -- `return b, fmt.Errorf("json: unknown field %q", k)`
                     else (match parseValue fl depth F bv with
                       | .ok _ r3 => structLoop fl c F fuel depth fs input vals r3 (i + 1)
                       | .err _ => .syn)
                   | some (idx, ft) =>
                     match decodeInto fl c F fuel depth ft ((vals.get? idx).getD (zeroOf ft)) bv with
                     | .ok v r3 => structLoop fl c F fuel depth fs input (vals.set idx v) r3 (i + 1)
                     | err => elemError fl F depth input err)
-- go: json.decodeInterface
def decodeIface (fl : PFlags) (c : TFlags) (F : Nat) : Nat → Nat → JV → Bytes → TR JV
  | 0, _, _, _ => .syn
  | fuel + 1, depth, cur, b =>
    match cur with
    | .anyp t old v =>
      if !t.isPtr && hasPrefix b nullLit then .ok (.anyv .null) (b.drop 4)
      else
        -- `b, err := d.parse(b, val)`: skipSpaces, the pointee's codec, skipSpaces
        (match decodeInto fl c F fuel depth t v (skipSpaces b) with
         | .ok v' r => .ok (.anyp t old v') (skipSpaces r)
         | .syn => .syn
         | .ty r => .ty (skipSpaces r)
         | .oth r => .oth (skipSpaces r))
    | _ =>
      (match decodeInterface fl c.dyn F depth fuel b with            -- the generic decoder of DecAny.lean
       | .ok g r => .ok (.anyv g) r
       | .syntaxErr => .syn
       | .typeErr r => .ty r
       | .unrep => .syn)
end

mutual
def sizeT : JT → Nat
  | .slice e => sizeT e + 1
  | .array _ e => sizeT e + 1
  | .mapS e => sizeT e + 1
  | .ptr e => sizeT e + 1
  | .strct fs => sizeFs fs + 1
  | _ => 1
def sizeFs : JFs → Nat
  | .nil => 0
  | .cons _ t rest => sizeT t + sizeFs rest + 1
end

mutual
def sizeV : JV → Nat
  | .slice _ vs st => sizeVs vs + sizeVs st + 1
  | .array vs => sizeVs vs + 1
  | .map _ ms => sizeMs ms + 1
  | .ptr _ v => sizeV v + 1
  | .strct vs => sizeVs vs + 1
  | .anyp t _ v => sizeT t + sizeV v + 1
  | _ => 1
def sizeVs : JVs → Nat
  | .nil => 0
  | .cons v r => sizeV v + sizeVs r + 1
def sizeMs : JMs → Nat
  | .nil => 0
  | .cons _ v r => sizeV v + sizeMs r + 1
end

/-- fuel for the type-directed recursion: every call consumes input, or descends into the type, or into the content
(an interface holding a pointer) -/
def typedFuel (t : JT) (cur : JV) (b : Bytes) : Nat := 3 * b.length + 8 + 2 * (sizeT t + sizeV cur)

/-- outcome of `Unmarshal(doc, &x)` -/
inductive UR where
  | ok (v : JV)
  | syn
  | ty
  | oth
  deriving DecidableEq

/-- `Parse(doc, &x, flags)`: `decoder{flags | internalParseFlags(doc)}.parse` = skipSpaces, the codec of the type,
skipSpaces of the remainder -/
def parseTyped (c : TFlags) (t : JT) (cur : JV) (doc : Bytes) : TR JV :=
  let fl := internalParseFlags doc
  let b := skipSpaces doc
  match decodeInto fl c (anyFuel b) (typedFuel t cur b) 0 t cur b with
  | .ok v r => .ok v (skipSpaces r)
  | .syn => .syn
  | .ty r => .ty (skipSpaces r)
  | .oth r => .oth (skipSpaces r)

-- go: json.Unmarshal   (with the flags of Parse / Decoder)
def unmarshalTyped (c : TFlags) (t : JT) (cur : JV) (doc : Bytes) : UR :=
  match parseTyped c t cur doc with
  | .ok v r => if r.isEmpty then .ok v else .syn
  | .syn => .syn
  | .ty r => if r.isEmpty then .ty else .syn
  | .oth r => if r.isEmpty then .oth else .syn

mutual
/-- at the start of an `Unmarshal` call every pointer of the target is a pre-existing one -/
def markOld : JV → JV
  | .slice n vs st => .slice n (markOlds vs) (markOlds st)
  | .array vs => .array (markOlds vs)
  | .map n ms => .map n (markOldMs ms)
  | .ptr _ v => .ptr true (markOld v)
  | .strct vs => .strct (markOlds vs)
  | .anyp t _ v => .anyp t true (markOld v)
  | v => v
def markOlds : JVs → JVs
  | .nil => .nil
  | .cons v r => .cons (markOld v) (markOlds r)
def markOldMs : JMs → JMs
  | .nil => .nil
  | .cons k v r => .cons k (markOld v) (markOldMs r)
end

/-- outcome of a sequence of `Unmarshal` calls into the same target: the final content, or the (0-based) index and class
of the first call that fails -/
inductive SeqRes where
  | ok (v : JV)
  | failed (step : Nat) (cls : UR)

def unmarshalSeq (c : TFlags) (t : JT) : JV → List Bytes → Nat → SeqRes
  | cur, [], _ => .ok cur
  | cur, doc :: rest, k =>
    match unmarshalTyped c t (markOld cur) doc with
    | .ok v => unmarshalSeq c t v rest (k + 1)
    | e => .failed k e

end Enc.Model.Json.Typed
