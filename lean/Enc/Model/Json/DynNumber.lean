import Enc.Model.Json.DecScalar
/-!
# Model of json/decode.go decodeDynamicNumber: which dynamic type a number stored into an interface gets

The float conversion (strconv.ParseFloat) and big.Int's UnmarshalJSON are parameters: the model reports the type chosen,
and the value for the integer types and Number.
-/
namespace Enc.Model.Json
open Enc

structure DynFlags where
  useNumber : Bool
  useBigInt : Bool
  useInt64 : Bool
  useUint64 : Bool
  deriving DecidableEq, Repr

inductive Dyn where
  | u64 (v : Nat) | i64 (v : Int) | big (lit : Bytes) | num (lit : Bytes) | f64 | err
  deriving DecidableEq, Repr

/-- the literal consumed by a successful parse: `b[:len(b)-len(rest)]` -/
def litOf (b rest : Bytes) : Bytes := b.take (b.length - rest.length)

/-- the two switch statements of decodeDynamicNumber as a function of the pre-parsed kind and of what the integer
decoders return on this input (`none` = the decoder returned an error) -/
def dynChoice (fl : DynFlags) (kind : Kind) (asUint : Option Nat) (asInt : Option Int) (lit : Bytes) : Dyn :=
  -- first switch: mutually exclusive integer cases; a failed attempt falls through to the second switch
  let first : Option Dyn :=
    if kind == .uint && fl.useUint64 then asUint.map .u64
    else if (kind == .uint || kind == .int) && fl.useInt64 then asInt.map .i64
    else none
  match first with
  | some r => r
  | none =>
    if (kind == .uint || kind == .int) && fl.useBigInt then .big lit
    else if fl.useNumber then .num lit
    else .f64

-- go: json.decodeDynamicNumber (b starts at the number; only the outcome for the interface is modelled)
def decodeDynamicNumber (fl : DynFlags) (b : Bytes) : Dyn :=
  match parseNumber b with
  | .err _ => .err                       -- every path parses the number first (pre-parse, or inside the chosen decoder)
  | .ok k r =>
    -- `kind` stays Float unless a conditional decode was requested
    let kind := if fl.useBigInt || fl.useInt64 || fl.useUint64 then k else .float
    let asUint := match parseUint b with | .ok v _ => some v.toNat | .err => none
    let asInt := match parseInt b with | .ok v _ => some v.toInt | .err => none
    dynChoice fl kind asUint asInt (litOf b r)

end Enc.Model.Json
