import Enc.Model.Json.EncString
/-!
# Model of the destination-buffer handling of json.Append (json/json.go Append, json/encode.go)

A Go byte slice that starts at the beginning of its backing array is `Slice`: the array (its length is the capacity)
and the slice length. `Slice.append` is Go's `append` (in place when the elements fit, otherwise a fresh array whose
capacity is chosen by the runtime — a parameter `grow` here, so every theorem holds for every growth policy).

The encoders are modelled as written, on a value universe `JV` that reaches every buffer mechanism the property names:
the manual grow-and-reslice of `encodeBytes`, the encode-then-requote-in-place of `encodeToString` (`,string`), the
truncate-to-start rollback of `encodeArray` / `encodeStruct` on an element error, the first-key `k[1:]` trick and the
`rollback{}` sentinel of a nil embedded struct pointer. What is NOT modelled (values are immutable here): aliasing between
the string header `s := b[i:]` and the destination inside encodeToString, and the Go memory model; those are covered by
the guard-byte differential on the real code only.
-/
namespace Enc.Model.Json.Buf
open Enc Enc.Model.Json

structure Slice where
  arr : Bytes
  len : Nat
  deriving Repr, DecidableEq

def Slice.cap (s : Slice) : Nat := s.arr.length
def Slice.data (s : Slice) : Bytes := s.arr.take s.len
def Slice.Wf (s : Slice) : Prop := s.len ≤ s.arr.length
def Slice.empty : Slice := ⟨[], 0⟩

/-- overwrite `xs` at offset `i` (requires i + |xs| ≤ |arr|) -/
def writeAt (arr : Bytes) (i : Nat) (xs : Bytes) : Bytes := arr.take i ++ xs ++ arr.drop (i + xs.length)

/-- Go `append(b, xs...)` -/
def Slice.append (grow : Nat → Nat → Nat) (s : Slice) (xs : Bytes) : Slice :=
  let need := s.len + xs.length
  if need ≤ s.cap then ⟨writeAt s.arr s.len xs, need⟩
  else ⟨s.data ++ xs ++ List.replicate (max (grow s.cap need) need - need) 0, need⟩

/-- `b[:n]` -/
def Slice.truncate (s : Slice) (n : Nat) : Slice := ⟨s.arr, n⟩

/-! ### base64.StdEncoding (RFC 4648 with padding) -/
def b64Char (n : Nat) : UInt8 :=
  if n < 26 then UInt8.ofNat (0x41 + n) else if n < 52 then UInt8.ofNat (0x61 + n - 26)
  else if n < 62 then UInt8.ofNat (0x30 + n - 52) else if n = 62 then 0x2b else 0x2f

def b64 : Bytes → Bytes
  | a :: b :: c :: rest =>
    let x := a.toNat * 65536 + b.toNat * 256 + c.toNat
    b64Char (x / 262144) :: b64Char (x / 4096 % 64) :: b64Char (x / 64 % 64) :: b64Char (x % 64) :: b64 rest
  | [a, b] =>
    let x := a.toNat * 65536 + b.toNat * 256
    [b64Char (x / 262144), b64Char (x / 4096 % 64), b64Char (x / 64 % 64), 0x3d]
  | [a] =>
    let x := a.toNat * 65536
    [b64Char (x / 262144), b64Char (x / 4096 % 64), 0x3d, 0x3d]
  | [] => []

/-- base64.StdEncoding.EncodedLen -/
def b64Len (n : Nat) : Nat := (n + 2) / 3 * 4

/-! ### the value universe -/
mutual
inductive JV where
  | null
  | bool (b : Bool)
  | int (i : Int)
  | str (s : Bytes)
  | bytes (v : Option Bytes)              -- []byte, nil or not
  | arr (vs : JVs)                         -- array / non-nil slice
  | obj (fs : JFs)                         -- struct
  | fail (part : Bytes)                 -- an encoder that appends `partial`, then returns an error
inductive JVs where
  | nil
  | cons (v : JV) (rest : JVs)
inductive JFs where
  | nil
  /-- name, omitempty tag, `,string` tag, rollback (promoted through a nil embedded pointer), value -/
  | cons (name : Bytes) (omitempty quoted rollback : Bool) (v : JV) (rest : JFs)
end

inductive Err where
  | none | error | rollback
  deriving DecidableEq, Repr

def JV.isEmpty : JV → Bool          -- the `empty` functions of json/codec.go emptyFuncOf for the field types used
  | .null => true
  | .bool b => !b
  | .int i => i == 0
  | .str s => s.isEmpty
  | .bytes none => true
  | .bytes (some v) => v.isEmpty
  | .arr .nil => true
  | _ => false

/-- `,"name":` key fragment (json/codec.go encodeKeyFragment); html selects the escaped variant -/
def keyFragment (name : Bytes) (html : Bool) : Bytes := [0x2c] ++ encodeString name html ++ [0x3a]

-- go: json.encoder.encodeBytes
def encodeBytes (s : Slice) (v : Bytes) : Slice :=
  let n := b64Len v.length + 2
  let avail := s.cap - s.len
  let s1 : Slice := if avail < n then ⟨s.data ++ List.replicate (s.cap + (n - avail) - s.len) 0, s.len⟩ else s
  let i := s1.len
  ⟨writeAt s1.arr i ([0x22] ++ b64 v ++ [0x22]), i + n⟩

/-- `n := copy(b[i:], b[j:]); return b[:i+n]` -/
def moveDown (s : Slice) (i j : Nat) : Slice :=
  let moved := (s.data.drop j)
  ⟨writeAt s.arr i moved, i + moved.length⟩

mutual
def enc (grow : Nat → Nat → Nat) (html : Bool) (s : Slice) : JV → Slice × Err
  | .null => (s.append grow [0x6e, 0x75, 0x6c, 0x6c], .none)
  | .bool b => (s.append grow (if b then [0x74, 0x72, 0x75, 0x65] else [0x66, 0x61, 0x6c, 0x73, 0x65]), .none)
  | .int i => (s.append grow (appendInt i), .none)
  | .str x => (s.append grow (encodeString x html), .none)
  | .bytes none => (s.append grow [0x6e, 0x75, 0x6c, 0x6c], .none)
  | .bytes (some v) => (encodeBytes s v, .none)
  | .fail p => (s.append grow p, .error)
  | .arr vs =>
    let start := s.len
    match encElems grow html (s.append grow [0x5b]) true vs with
    | (s', .none) => (s'.append grow [0x5d], .none)
    | (s', e) => (s'.truncate start, e)
  | .obj fs =>
    let start := s.len
    match encFields grow html (s.append grow [0x7b]) 0 fs with
    | (s', .none) => (s'.append grow [0x7d], .none)
    | (s', e) => (s'.truncate start, e)
def encElems (grow : Nat → Nat → Nat) (html : Bool) (s : Slice) (first : Bool) : JVs → Slice × Err
  | .nil => (s, .none)
  | .cons v rest =>
    let s1 := if first then s else s.append grow [0x2c]
    match enc grow html s1 v with
    | (s2, .none) => encElems grow html s2 false rest
    | (s2, e) => (s2, e)
def encFields (grow : Nat → Nat → Nat) (html : Bool) (s : Slice) (n : Nat) : JFs → Slice × Err
  | .nil => (s, .none)
  | .cons name omitempty quoted rb v rest =>
    if omitempty && v.isEmpty then encFields grow html s n rest
    else
      let k := keyFragment name html
      let lengthBeforeKey := s.len
      let s1 := s.append grow (if n != 0 then k else k.drop 1)
      if rb then encFields grow html (s1.truncate lengthBeforeKey) n rest          -- err == rollback{}: b = b[:lengthBeforeKey]; continue
      else
        let r :=
          if quoted then
            -- encodeToString: encode, then quote what was written, then move the quoted text down over it
            let i := s1.len
            match enc grow html s1 v with
            | (s2, .none) =>
              let j := s2.len
              let s3 := s2.append grow (encodeString (s2.data.drop i) html)
              (moveDown s3 i j, Err.none)
            | r => r
          else enc grow html s1 v
        match r with
        | (s2, .none) => encFields grow html s2 (n + 1) rest
        | (s2, e) => (s2, e)
end

/-- what `Append(b, v, flags)` returns: the bytes of the result slice and whether err != nil -/
def append (grow : Nat → Nat → Nat) (html : Bool) (s : Slice) (v : JV) : Bytes × Bool :=
  let (s', e) := enc grow html s v
  (s'.data, e != .none)

end Enc.Model.Json.Buf
