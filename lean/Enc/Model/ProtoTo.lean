import Enc.Model.Proto
/-!
Model of the *buffer-checked* encoders of /repo/proto (what `MarshalTo(b, v)` runs): every primitive tests the
remaining space before it writes. `avail` is `len(b)` of the slice the Go function receives.
Result: `ok bytes` (the bytes written, in order) or `err "shortBuffer"`.
Used by C16: `encodeTo c v fl avail = if size c v fl ≤ avail then ok (encode c v fl) else err`.
-/
namespace Enc.Model.Proto
open Enc

def short {α} : Res α := .err "shortBuffer"

-- go: proto.encodeVarint (the `len(b) < n` test)
def encodeVarintTo (avail : Nat) (v : BitVec 64) : Res Bytes :=
  if avail < sizeOfVarint v then short else .ok (encodeVarint v)

/-- `n, err := encodeVarint(b, len); c := copy(b[n:], v); if c < len(v) { err = ErrShortBuffer }` -/
def encodeBytesTo (avail : Nat) (s : Bytes) : Res Bytes :=
  (encodeVarintTo avail (BitVec.ofNat 64 s.length)).bind fun p =>
    if avail - p.length < s.length then short else .ok (p ++ s)

/-- `n := copy(b[offset:], tag); if n < len(tag) → short` -/
def copyTo (avail : Nat) (tag : Bytes) : Res Bytes :=
  if avail < tag.length then short else .ok tag

mutual
def encodeTo : Codec → Val → Flags → Nat → Res Bytes
  | .bool, .bool b, fl, avail =>
    if b || fl.wantzero then (if avail = 0 then short else .ok [if b then 1 else 0]) else .ok []
  | .int, .int i, fl, avail | .int32, .int i, fl, avail | .int64, .int i, fl, avail =>
    if i != 0 || fl.wantzero then encodeVarintTo avail (fl.u64 i) else .ok []
  | .uint, .int i, fl, avail | .uint32, .int i, fl, avail | .uint64, .int i, fl, avail =>
    if i != 0 || fl.wantzero then encodeVarintTo avail (BitVec.ofInt 64 i) else .ok []
  | .fixed32, .int i, fl, avail | .sfixed32, .int i, fl, avail =>
    if i != 0 || fl.wantzero then (if avail < 4 then short else .ok (le32 (BitVec.ofInt 32 i))) else .ok []
  | .fixed64, .int i, fl, avail | .sfixed64, .int i, fl, avail =>
    if i != 0 || fl.wantzero then (if avail < 8 then short else .ok (le64 (BitVec.ofInt 64 i))) else .ok []
  | .float32, .float b, fl, avail =>
    if b != 0 || fl.wantzero then (if avail < 4 then short else .ok (le32 (BitVec.ofNat 32 b))) else .ok []
  | .float64, .float b, fl, avail =>
    if b != 0 || fl.wantzero then (if avail < 8 then short else .ok (le64 (BitVec.ofNat 64 b))) else .ok []
  | .string, .str s, fl, avail => if !s.isEmpty || fl.wantzero then encodeBytesTo avail s else .ok []
  | .bytes, .str s, _, avail => encodeBytesTo avail s
  | .bytes, .nil, fl, avail => if fl.wantzero then encodeBytesTo avail [] else .ok []
  | .byteArray n, .str s, fl, avail =>
    -- encodeBytes(b, &v, noflags) on the n bytes of the array
    if fl.wantzero || !isZeroBytes s then
      (encodeVarintTo avail (BitVec.ofNat 64 n)).bind fun p =>
        if avail - p.length < n then short else .ok (p ++ fixLen n s)
    else .ok []
  | .message, .str s, fl, avail =>
    if fl.toplevel then (if avail < s.length then short else .ok s)
    else if avail < sizeOfVarlen s.length then short else .ok (encodeVarint (BitVec.ofNat 64 s.length) ++ s)
  | .message, .nil, fl, avail =>
    if fl.toplevel then .ok []
    else if avail < sizeOfVarlen 0 then short else .ok (encodeVarint 0#64)
  | .ptr _, .nil, _, _ => .ok []
  | .ptr c, .ptr v, fl, avail => encodeTo c v { fl with wantzero := true, inline := false } avail
  | .struct fs, .struct vs, fl, avail =>
    let fl := { fl with toplevel := false, inline := fl.inline && inlinedFields fs }
    match encodeUniqueTo fs vs fl avail with
    | .ok (b, fl') => (encodeRepeatedTo fs vs fl' (avail - b.length)).bind fun r => .ok (b ++ r)
    | .err e => .err e
    | .panic e => .panic e
  | .slice elem number wire emb, .list vs, _, avail => encodeSliceTo elem (encodeTag number wire) emb vs avail
  | .slice .., .nil, _, _ => .ok []
  | .map number k v kEmb vEmb _, .map kvs, _, avail =>
    (encodeMapTo (encodeTag number .varlen) k v kEmb vEmb kvs avail).bind fun b =>
      if b.isEmpty then copyTo avail (encodeTag number .varlen ++ [0]) else .ok b
  | .map number .., .nil, fl, avail =>
    if fl.inline then .ok [] else copyTo avail (encodeTag number .varlen ++ [0])
  | _, _, _, _ => .ok []
/-- first loop of structEncodeFuncOf; returns bytes written and the flags after `wantzero` clearing -/
def encodeUniqueTo : CFields → Vals → Flags → Nat → Res (Bytes × Flags)
  | .cons number emb false zz c rest, .cons v vs, fl, avail =>
    let ffl := { fl with zigzag := fl.zigzag || zz }
    let s := size c v ffl
    if s > 0 then
      match encodeVarintTo avail (tagWord number c.wire) with
      | .ok tag =>
        let a1 := avail - tag.length
        match (if emb then encodeVarintTo a1 (BitVec.ofNat 64 s) else .ok []) with
        | .ok pre =>
          let a2 := a1 - pre.length
          if a2 < s then short
          else
            match encodeTo c v ffl s with                        -- window b[offset:offset+size]
            | .ok body =>
              match encodeUniqueTo rest vs { fl with wantzero := false } (a2 - body.length) with
              | .ok (b, fl') => .ok (tag ++ pre ++ body ++ b, fl')
              | .err e => .err e
              | .panic e => .panic e
            | .err e => .err e
            | .panic e => .panic e
        | .err e => .err e
        | .panic e => .panic e
      | .err e => .err e
      | .panic e => .panic e
    else encodeUniqueTo rest vs fl avail
  | .cons _ _ true _ _ rest, .cons _ vs, fl, avail => encodeUniqueTo rest vs fl avail
  | _, _, fl, _ => .ok ([], fl)
def encodeRepeatedTo : CFields → Vals → Flags → Nat → Res Bytes
  | .cons _ _ true zz c rest, .cons v vs, fl, avail =>
    match encodeTo c v { fl with zigzag := fl.zigzag || zz } avail with
    | .ok b =>
      (encodeRepeatedTo rest vs (if b.length > 0 then { fl with wantzero := false } else fl) (avail - b.length)).bind
        fun r => .ok (b ++ r)
    | .err e => .err e
    | .panic e => .panic e
  | .cons _ _ false _ _ rest, .cons _ vs, fl, avail => encodeRepeatedTo rest vs fl avail
  | _, _, _, _ => .ok []
def encodeSliceTo (elem : Codec) (tag : Bytes) (emb : Bool) : Vals → Nat → Res Bytes
  | .cons v vs, avail =>
    let s := size elem v wz
    match copyTo avail tag with
    | .ok t =>
      let a1 := avail - t.length
      match (if emb then encodeVarintTo a1 (BitVec.ofNat 64 s) else .ok []) with
      | .ok pre =>
        let a2 := a1 - pre.length
        if a2 < s then short
        else
          match encodeTo elem v wz s with
          | .ok body => (encodeSliceTo elem tag emb vs (a2 - body.length)).bind fun r => .ok (t ++ pre ++ body ++ r)
          | .err e => .err e
          | .panic e => .panic e
      | .err e => .err e
      | .panic e => .panic e
    | .err e => .err e
    | .panic e => .panic e
  | .nil, _ => .ok []
def encodeMapTo (mapTag : Bytes) (k v : Codec) (kEmb vEmb : Bool) : Vals → Nat → Res Bytes
  | .cons key (.cons val rest), avail =>
    let ks := size k key wz
    let vs := size v val wz
    let elemSize := entrySize ks vs kEmb vEmb
    match copyTo avail mapTag with
    | .ok t =>
      let a1 := avail - t.length
      match encodeVarintTo a1 (BitVec.ofNat 64 elemSize) with
      | .ok pre =>
        let a2 := a1 - pre.length
        -- key part
        let kp : Res Bytes :=
          if ks > 0 then
            match copyTo a2 (encodeTag 1 k.wire) with
            | .ok kt =>
              match (if kEmb then encodeVarintTo (a2 - kt.length) (BitVec.ofNat 64 ks) else .ok []) with
              | .ok kpre =>
                if a2 - kt.length - kpre.length < ks then short
                else (encodeTo k key wz ks).bind fun kb => .ok (kt ++ kpre ++ kb)
              | .err e => .err e
              | .panic e => .panic e
            | .err e => .err e
            | .panic e => .panic e
          else .ok []
        match kp with
        | .ok kbytes =>
          let a3 := a2 - kbytes.length
          let vp : Res Bytes :=
            if vs > 0 then
              match copyTo a3 (encodeTag 2 v.wire) with
              | .ok vt =>
                match (if vEmb then encodeVarintTo (a3 - vt.length) (BitVec.ofNat 64 vs) else .ok []) with
                | .ok vpre =>
                  if a3 - vt.length - vpre.length < vs then short
                  else (encodeTo v val wz vs).bind fun vb => .ok (vt ++ vpre ++ vb)
                | .err e => .err e
                | .panic e => .panic e
              | .err e => .err e
              | .panic e => .panic e
            else .ok []
          match vp with
          | .ok vbytes =>
            (encodeMapTo mapTag k v kEmb vEmb rest (a3 - vbytes.length)).bind fun r =>
              .ok (t ++ pre ++ kbytes ++ vbytes ++ r)
          | .err e => .err e
          | .panic e => .panic e
        | .err e => .err e
        | .panic e => .panic e
      | .err e => .err e
      | .panic e => .panic e
    | .err e => .err e
    | .panic e => .panic e
  | _, _ => .ok []
end

-- go: proto.MarshalTo
def marshalTo (t : Ty) (v : Val) (avail : Nat) : Res Bytes :=
  encodeTo (codecOf t) v { toplevel := true, inline := true } avail

end Enc.Model.Proto
