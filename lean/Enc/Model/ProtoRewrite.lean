import Enc.Model.Proto
/-!
Model of /repo/proto/rewrite.go: `Parse`, `Append`, `MessageRewriter.Rewrite` (seen-set, first occurrence rewritten,
later occurrences of a templated number dropped, others copied through `Append`, absent templated fields appended in
index order), `multiRewriter`, `RawMessage.Rewrite`, `embddedRewriter` (rewrite, then splice tag+length in front), and
`makeFieldset`; and the two constructs that only `ParseRewriteTemplate` builds: `embddedRewriter{merge: true}` (commit
c0f6ba5: the rewriter of a singular message field is given the concatenation of ALL occurrences of the field,
`mergeOccurrences`) and `replacement` (commit d55a964: the rewriters of a templated list or map ignore the old value).
-/
namespace Enc.Model.Proto
open Enc

-- go: proto.Parse  → (field number, wire type, raw value, rest)
def parseField (m : Bytes) : Res (Nat × Nat × Bytes × Bytes) :=
  (decodeVarint m).bind fun (tag, n) =>
    let m := m.drop n
    let f := (tag >>> 3).toNat
    let t := (tag &&& 7#64).toNat
    if t == 0 then
      (decodeVarint m).bind fun (_, k) => .ok (f, t, m.take k, m.drop k)
    else if t == 2 then
      (decodeVarint m).bind fun (l, k) =>
        if !hasAtLeast (m.drop k) l.toNat then .err "unexpectedEof"
        else .ok (f, t, (m.drop k).take l.toNat, m.drop (k + l.toNat))
    else if t == 5 then (if !hasAtLeast m 4 then .err "unexpectedEof" else .ok (f, t, m.take 4, m.drop 4))
    else if t == 1 then (if !hasAtLeast m 8 then .err "unexpectedEof" else .ok (f, t, m.take 8, m.drop 8))
    else .err "invalidWireType"

-- go: proto.Append
def appendField (f t : Nat) (v : Bytes) : Bytes :=
  encodeVarint (BitVec.ofNat 64 (f * 8 + t)) ++ (if t == 2 then encodeVarint (BitVec.ofNat 64 v.length) else []) ++ v

-- go: proto.makeFieldset  (number of 64-bit words)
def fieldsetWords (n : Nat) : Nat := (n + 63) / 64
/-- the `seen` set of MessageRewriter.Rewrite for `len(r) = n`: 4 words, or makeFieldset(n+1) when n >= 256 -/
def seenWords (n : Nat) : Nat := if n ≥ 256 then fieldsetWords (n + 1) else 4

inductive Rw where
  | raw (b : Bytes)                       -- RawMessage: appends its bytes, ignores the input
  | multi (rs : List Rw)
  | message (len : Nat) (rs : List (Nat × Rw))     -- MessageRewriter of length `len`: non-nil entries, ascending index
  | embedded (number : Nat) (len : Nat) (rs : List (Nat × Rw))
  | embeddedMerge (number : Nat) (len : Nat) (rs : List (Nat × Rw))   -- embddedRewriter{merge: true} (templates: singular message field)
  | replacement (r : Rw)                                              -- replacement{r}: rewrites from a nil input

-- go: proto.mergeOccurrences — `v` followed by the values of the later occurrences of the varlen field `f` in `m`; stops
-- silently at the first record that does not parse (`break // reported when the caller gets there`).
-- Fuel = number of records at most = `m.length` (every record has at least one byte).
def mergeOccurrences : Nat → Nat → Bytes → Bytes → Bytes
  | 0, _, v, _ => v
  | fuel + 1, f, v, m =>
    if m.isEmpty then v
    else
      match parseField m with
      | .ok (f2, t2, v2, rest) => mergeOccurrences fuel f (if f2 == f && t2 == 2 then v ++ v2 else v) rest
      | _ => v

/-- `if e, ok := r[i].(*embddedRewriter); ok && e.merge && t == Varlen { v = mergeOccurrences(f, v, m) }`: only a rewriter that
sits in the table slot itself (not wrapped in a multiRewriter or a replacement) is looked at -/
def mergeInput (r : Rw) (f t : Nat) (v m : Bytes) : Bytes :=
  match r with
  | .embeddedMerge .. => if t == 2 then mergeOccurrences m.length f v m else v
  | _ => v

def getRw (rs : List (Nat × Rw)) (i : Nat) : Option Rw := (rs.find? (·.1 == i)).map (·.2)

mutual
/-- returns the bytes APPENDED to `out` -/
def rewrite : Nat → Rw → Bytes → Res Bytes
  | 0, _, _ => .err "fuel"
  | _ + 1, .raw b, _ => .ok b
  | fuel + 1, .multi rs, inp => rewriteMulti fuel rs inp
  | fuel + 1, .message len rs, inp =>
    if seenWords len * 64 < len then .panic "indexOutOfRange"        -- never: Props.C19.fieldset_covers
    else (rewriteLoop fuel len rs inp []).bind fun (out, seen) => (rewriteAbsent fuel rs seen).bind fun tl => .ok (out ++ tl)
  | fuel + 1, .embedded number len rs, inp =>
    (rewrite fuel (.message len rs) inp).bind fun body =>
      if body.isEmpty then .ok []
      else .ok (encodeVarint (BitVec.ofNat 64 (number * 8 + 2)) ++ encodeVarint (BitVec.ofNat 64 body.length) ++ body)
  | fuel + 1, .embeddedMerge number len rs, inp =>       -- the same method; `merge` is read by the enclosing MessageRewriter
    (rewrite fuel (.message len rs) inp).bind fun body =>
      if body.isEmpty then .ok []
      else .ok (encodeVarint (BitVec.ofNat 64 (number * 8 + 2)) ++ encodeVarint (BitVec.ofNat 64 body.length) ++ body)
  | fuel + 1, .replacement r, _ => rewrite fuel r []
def rewriteMulti : Nat → List Rw → Bytes → Res Bytes
  | 0, _, _ => .err "fuel"
  | _, [], _ => .ok []
  | fuel + 1, r :: rs, inp => (rewrite fuel r inp).bind fun a => (rewriteMulti fuel rs inp).bind fun b => .ok (a ++ b)
/-- the `for len(in) != 0` loop; `seen` = field numbers already rewritten -/
def rewriteLoop : Nat → Nat → List (Nat × Rw) → Bytes → List Nat → Res (Bytes × List Nat)
  | 0, _, _, _, _ => .err "fuel"
  | fuel + 1, len, rs, inp, seen =>
    if inp.isEmpty then .ok ([], seen)
    else
      (parseField inp).bind fun (f, t, v, m) =>
        match (if f < len then getRw rs f else none) with
        | some r =>
          if seen.contains f then rewriteLoop fuel len rs m seen
          else (rewrite fuel r (mergeInput r f t v m)).bind fun a =>
            (rewriteLoop fuel len rs m (f :: seen)).bind fun (b, s) => .ok (a ++ b, s)
        | none => (rewriteLoop fuel len rs m seen).bind fun (b, s) => .ok (appendField f t v ++ b, s)
/-- templated fields that did not occur: rewritten with a nil input, in index order (`for i, f := range r`) -/
def rewriteAbsent : Nat → List (Nat × Rw) → List Nat → Res Bytes
  | 0, _, _ => .err "fuel"
  | _, [], _ => .ok []
  | fuel + 1, (i, r) :: rest, seen =>
    if seen.contains i then rewriteAbsent fuel rest seen
    else (rewrite fuel r []).bind fun a => (rewriteAbsent fuel rest seen).bind fun b => .ok (a ++ b)
end

end Enc.Model.Proto
