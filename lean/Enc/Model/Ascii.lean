import Enc.Base.Bytes
import Enc.Gen.Consts
/-!
Model of github.com/segmentio/asm/ascii (portable / purego algorithms) and of the wrappers in
/repo/ascii. One def per Go func.  -- go: anchors name the Go function mirrored.
-/
namespace Enc.Model.Ascii
open Enc

/-- little-endian load of 8 bytes (`*(*uint64)(p+i)` on amd64) -/
def le64 (a b c d e f g h : UInt8) : BitVec 64 :=
  h.toBitVec ++ g.toBitVec ++ f.toBitVec ++ e.toBitVec ++ d.toBitVec ++ c.toBitVec ++ b.toBitVec ++ a.toBitVec

def le32 (a b c d : UInt8) : BitVec 32 :=
  d.toBitVec ++ c.toBitVec ++ b.toBitVec ++ a.toBitVec

-- go: asmascii.hasLess64
def hasLess64 (x n : BitVec 64) : Bool :=
  ((x - (BitVec.ofNat 64 Gen.c_asmascii_hasLessConstL64 * n)) &&& ~~~x &&& BitVec.ofNat 64 Gen.c_asmascii_hasLessConstR64) != 0#64
-- go: asmascii.hasLess32
def hasLess32 (x n : BitVec 32) : Bool :=
  ((x - (BitVec.ofNat 32 Gen.c_asmascii_hasLessConstL32 * n)) &&& ~~~x &&& BitVec.ofNat 32 Gen.c_asmascii_hasLessConstR32) != 0#32
-- go: asmascii.hasMore64
def hasMore64 (x n : BitVec 64) : Bool :=
  (((x + (BitVec.ofNat 64 Gen.c_asmascii_hasMoreConstL64 * (127#64 - n))) ||| x) &&& BitVec.ofNat 64 Gen.c_asmascii_hasMoreConstR64) != 0#64
-- go: asmascii.hasMore32
def hasMore32 (x n : BitVec 32) : Bool :=
  (((x + (BitVec.ofNat 32 Gen.c_asmascii_hasMoreConstL32 * (127#32 - n))) ||| x) &&& BitVec.ofNat 32 Gen.c_asmascii_hasMoreConstR32) != 0#32

/-- the 0–3 byte tail of ValidString (the `switch n - i`) -/
def validTail : Bytes → Bool
  | [a, b, c] => (le32 a b c 0 &&& 0x80808080#32) == 0#32
  | [a, b] => (le32 a b 0 0 &&& 0x80808080#32) == 0#32
  | [a] => (le32 a 0 0 0 &&& 0x80808080#32) == 0#32
  | _ => true

/-- after the 8-byte loop: optional 4-byte word then the tail -/
def validRest : Bytes → Bool
  | a :: b :: c :: d :: rest =>
    if (le32 a b c d &&& 0x80808080#32) != 0#32 then false else validTail rest
  | rest => validTail rest

-- go: asmascii.ValidString (valid_default.go)
def validString : Bytes → Bool
  | a :: b :: c :: d :: e :: f :: g :: h :: rest =>
    if (le64 a b c d e f g h &&& 0x8080808080808080#64) != 0#64 then false else validString rest
  | rest => validRest rest

def printWord32 (x : BitVec 32) : Bool := !(hasLess32 x 0x20#32 || hasMore32 x 0x7e#32)

def validPrintTail : Bytes → Bool
  | [a, b, c] => printWord32 (0x20000000#32 ||| le32 a b c 0)
  | [a, b] => printWord32 (0x20200000#32 ||| le32 a b 0 0)
  | [a] => printWord32 (0x20202000#32 ||| le32 a 0 0 0)
  | _ => true

def validPrintRest : Bytes → Bool
  | a :: b :: c :: d :: rest =>
    if hasLess32 (le32 a b c d) 0x20#32 || hasMore32 (le32 a b c d) 0x7e#32 then false else validPrintTail rest
  | rest => validPrintTail rest

-- go: asmascii.ValidPrintString (valid_print_default.go)
def validPrintString : Bytes → Bool
  | a :: b :: c :: d :: e :: f :: g :: h :: rest =>
    if hasLess64 (le64 a b c d e f g h) 0x20#64 || hasMore64 (le64 a b c d e f g h) 0x7e#64 then false
    else validPrintString rest
  | rest => validPrintRest rest

-- go: asmascii.ValidByte / ValidRune / ValidPrintByte / ValidPrintRune
def validByte (b : UInt8) : Bool := b ≤ 0x7f
def validRune (r : Int) : Bool := decide (r ≤ 0x7f)     -- note: as coded, negative runes are "valid"
def validPrintByte (b : UInt8) : Bool := 0x20 ≤ b && b ≤ 0x7e
def validPrintRune (r : Int) : Bool := decide (0x20 ≤ r) && decide (r ≤ 0x7e)

/-- `lowerCase[b]` with the extracted table -/
def lowerCase (b : UInt8) : UInt8 := UInt8.ofNat (Gen.t_asmascii_lowerCase.getD b.toNat 0)

/-- the OR-accumulated comparison of the tail and of each 8-block (`cmp |= lowerCase[a[i]] ^ lowerCase[b[i]]`) -/
def foldCmp : Bytes → Bytes → UInt8 → UInt8
  | a :: as, b :: bs, cmp => foldCmp as bs (cmp ||| (lowerCase a ^^^ lowerCase b))
  | _, _, cmp => cmp

-- go: asmascii.EqualFoldString (equal_fold_default.go)
/-- blocks of 8 with early exit, then the tail switch -/
def equalFoldLoop : Bytes → Bytes → UInt8 → Bool
  | a0 :: a1 :: a2 :: a3 :: a4 :: a5 :: a6 :: a7 :: as, b0 :: b1 :: b2 :: b3 :: b4 :: b5 :: b6 :: b7 :: bs, cmp =>
    let cmp' := foldCmp [a0, a1, a2, a3, a4, a5, a6, a7] [b0, b1, b2, b3, b4, b5, b6, b7] cmp
    if cmp' != 0 then false else equalFoldLoop as bs cmp'
  | as, bs, cmp => foldCmp as bs cmp == 0

def equalFoldString (a b : Bytes) : Bool :=
  if a.length != b.length then false else equalFoldLoop a b 0

-- go: asmascii.HasPrefixFoldString / HasSuffixFoldString (equal_fold.go)
def hasPrefixFold (s p : Bytes) : Bool := decide (s.length ≥ p.length) && equalFoldString (s.take p.length) p
def hasSuffixFold (s p : Bytes) : Bool := decide (s.length ≥ p.length) && equalFoldString (s.drop (s.length - p.length)) p

end Enc.Model.Ascii
