import Enc.Base.Bytes
import Enc.Gen.Consts
/-!
Model of /repo/iso8601: `Parse`'s word-at-a-time fast path (`parseFast`), `validate`, `daysSinceEpoch`,
`isLeapYear`, and `Valid` with `readDigits`/`readByte`. Constants come from Enc/Gen/Consts.lean (regenerated).
Machine words are `BitVec 64` exactly where the Go code relies on them.
-/
namespace Enc.Model.Iso
open Enc

def w64 (n : Nat) : BitVec 64 := BitVec.ofNat 64 n
def mask1 := w64 Gen.c_iso8601_mask1
def mask2 := w64 Gen.c_iso8601_mask2
def mask3 := w64 Gen.c_iso8601_mask3
def replace1 := w64 Gen.c_iso8601_replace1
def replace2 := w64 Gen.c_iso8601_replace2
def replace3 := w64 Gen.c_iso8601_replace3
def msb := w64 Gen.c_iso8601_msb
def zero := w64 Gen.c_iso8601_zero
def nine := w64 Gen.c_iso8601_nine

def sep1 := w64 Gen.c_iso8601_sep1
def sep2 := w64 Gen.c_iso8601_sep2
def sep3 := w64 Gen.c_iso8601_sep3
-- go: iso8601.match
def matchMask (u sep mask : BitVec 64) : Bool := (u &&& sep) == mask
-- go: iso8601.nonNumeric
def nonNumeric (u : BitVec 64) : BitVec 64 := ((u - zero) ||| (u + (~~~msb - nine)) ||| u) &&& msb

def le64 (a b c d e f g h : UInt8) : BitVec 64 :=
  h.toBitVec ++ g.toBitVec ++ f.toBitVec ++ e.toBitVec ++ d.toBitVec ++ c.toBitVec ++ b.toBitVec ++ a.toBitVec

-- go: iso8601.isLeapYear
def isLeapYear (y : Nat) : Bool := y % 4 == 0 && (y % 100 != 0 || y % 400 == 0)

-- go: iso8601.validate   (true = nil error)
def validate (year month day hour minute second : Nat) : Bool :=
  if day == 0 || day > 31 then false
  else if month == 0 || month > 12 then false
  else if hour ≥ 24 then false
  else if minute ≥ 60 then false
  else if second ≥ 60 then false
  else if month == 2 && (day > 29 || (day == 29 && !isLeapYear year)) then false
  else if day == 31 && (month == 4 || month == 6 || month == 9 || month == 11) then false
  else true

-- go: iso8601.daysSinceEpoch   (uint64 arithmetic; `month - 3` wraps and is detected by `monthAdjusted > month`)
def daysSinceEpoch (year month day : BitVec 64) : BitVec 64 :=
  let monthAdjusted := month - 3#64
  let carry : BitVec 64 := if monthAdjusted > month then 1#64 else 0#64
  let adjust : BitVec 64 := if carry == 1#64 then 12#64 else 0#64
  let yearAdjusted := year + 4800#64 - carry
  let monthDays := ((monthAdjusted + adjust) * 62719#64 + 769#64) / 2048#64
  let leapDays := yearAdjusted / 4#64 - yearAdjusted / 100#64 + yearAdjusted / 400#64
  yearAdjusted * 365#64 + leapDays + monthDays + (day - 1#64) - 2472632#64

/-- fraction loop: `nanos = nanos*10 + (c-'0')`, none if a non-digit is met -/
def fracDigits : Bytes → Nat → Option Nat
  | [], acc => some acc
  | c :: cs, acc => if c < 0x30 || c > 0x39 then none else fracDigits cs (acc * 10 + (c.toNat - 0x30))

inductive FastRes where
  | notFast                                   -- shape mismatch: `goto fallback` (time.Parse decides)
  | rangeErr                                  -- validate() failed: error returned directly
  | ok (unix : Int) (nanos : Nat)
  deriving Repr, DecidableEq

def nib (t : BitVec 64) (sh : Nat) : Nat := ((t >>> sh) &&& 0xF#64).toNat

-- go: iso8601.Parse — the block guarded by `len(b) >= 20 && len(b) <= 30 && b[len(b)-1] == 'Z'`
def parseFast (b : Bytes) : FastRes :=
  let n := b.length
  if !(n ≥ Gen.lits_iso8601_Parse.getD 0 20 && n ≤ Gen.lits_iso8601_Parse.getD 1 30 && b.getLast? == some 0x5a) then .notFast
  else if n == 21 || (n > 21 && b.getD 19 0 != 0x2e) then .notFast
  else
    match b with
    | b0 :: b1 :: b2 :: b3 :: b4 :: b5 :: b6 :: b7 :: b8 :: b9 :: b10 :: b11 :: b12 :: b13 :: b14 :: b15 :: b16 :: b17 :: b18 :: _ =>
      let t1 := le64 b0 b1 b2 b3 b4 b5 b6 b7
      let t2 := le64 b8 b9 b10 b11 b12 b13 b14 b15
      let t3 := le64 b16 b17 b18 0x5a 0 0 0 0
      if !matchMask t1 sep1 mask1 || !matchMask t2 sep2 mask2 || !matchMask t3 sep3 mask3 then .notFast
      else
        let t1 := t1 ^^^ replace1
        let t2 := t2 ^^^ replace2
        let t3 := t3 ^^^ replace3
        if (nonNumeric t1 ||| nonNumeric t2 ||| nonNumeric t3) != 0#64 then .notFast
        else
          let t1 := t1 - zero
          let t2 := t2 - zero
          let t3 := t3 - zero
          let year := nib t1 0 * 1000 + nib t1 8 * 100 + nib t1 16 * 10 + nib t1 24
          let month := nib t1 40 * 10 + nib t1 48
          let day := nib t2 0 * 10 + nib t2 8
          let hour := nib t2 24 * 10 + nib t2 32
          let minute := nib t2 48 * 10 + (t2 >>> 56).toNat
          let second := nib t3 8 * 10 + (t3 >>> 16).toNat
          let frac : Option Nat :=
            if n > 20 then
              match fracDigits ((b.drop 20).take (n - 21)) 0 with
              | some d => some (d * (Gen.t_iso8601_pow10.getD (30 - n) 0))
              | none => none
            else some 0
          match frac with
          | none => .notFast
          | some nanos =>
            if !validate year month day hour minute second then .rangeErr
            else
              let days := (daysSinceEpoch (w64 year) (w64 month) (w64 day)).toInt
              .ok (days * 86400 + (hour * 3600 + minute * 60 + second : Nat)) nanos
    | _ => .notFast

/-! ## Valid -/

-- go: iso8601.isDigit
def isDigit (c : UInt8) : Bool := 0x30 ≤ c && c ≤ 0x39

/-- the `for i < max && i < len(value) && isDigit(value[i])` loop: number of leading digits, at most `max` -/
def countDigits : Bytes → Nat → Nat
  | _, 0 => 0
  | [], _ => 0
  | c :: cs, max + 1 => if isDigit c then countDigits cs max + 1 else 0

-- go: iso8601.readDigits
def readDigits (value : Bytes) (min max : Nat) : Bytes × Bool :=
  if value.length < min then (value, false)
  else
    let i := countDigits value max
    if i < max && i < min then (value, false) else (value.drop i, true)

-- go: iso8601.readByte
def readByte (value : Bytes) (c : UInt8) : Bytes × Bool :=
  match value with
  | [] => (value, false)
  | x :: rest => if x != c then (value, false) else (rest, true)

structure VFlags where
  space : Bool
  missingTime : Bool
  missingSubsecond : Bool
  missingTimezone : Bool
  numericTimezone : Bool

def VFlags.ofNat (f : Nat) : VFlags :=
  { space := f &&& Gen.c_iso8601_AllowSpaceSeparator != 0
    missingTime := f &&& Gen.c_iso8601_AllowMissingTime != 0
    missingSubsecond := f &&& Gen.c_iso8601_AllowMissingSubsecond != 0
    missingTimezone := f &&& Gen.c_iso8601_AllowMissingTimezone != 0
    numericTimezone := f &&& Gen.c_iso8601_AllowNumericTimezone != 0 }

-- go: iso8601.Valid
def valid (value : Bytes) (fl : VFlags) : Bool :=
  let (value, ok) := readDigits value 4 4
  if !ok then false else
  let (value, ok) := readByte value 0x2d
  if !ok then false else
  let (value, ok) := readDigits value 2 2
  if !ok then false else
  let (value, ok) := readByte value 0x2d
  if !ok then false else
  let (value, ok) := readDigits value 2 2
  if !ok then false else
  if value.isEmpty && fl.missingTime then true else
  let sep : Bytes × Bool :=
    let (v, ok) := readByte value 0x54
    if ok then (v, true)
    else if !fl.space then (v, false)
    else readByte v 0x20
  let (value, ok) := sep
  if !ok then false else
  let (value, ok) := readDigits value 2 2
  if !ok then false else
  let (value, ok) := readByte value 0x3a
  if !ok then false else
  let (value, ok) := readDigits value 2 2
  if !ok then false else
  let (value, ok) := readByte value 0x3a
  if !ok then false else
  let (value, ok) := readDigits value 2 2
  if !ok then false else
  let frac : Bytes × Bool :=
    let (v, ok) := readByte value 0x2e
    if !ok then (v, fl.missingSubsecond)
    else readDigits v 1 9
  let (value, ok) := frac
  if !ok then false else
  if value.isEmpty && fl.missingTimezone then true else
  let (v, ok) := readByte value 0x5a
  if ok then v.isEmpty else
  let value := if fl.space then (readByte value 0x20).1 else value
  let sign : Bytes × Bool :=
    let (v, ok) := readByte value 0x2b
    if ok then (v, true) else readByte v 0x2d
  let (value, ok) := sign
  if !ok then false else
  let (value, ok) := readDigits value 2 2
  if !ok then false else
  let colon : Bytes × Bool :=
    let (v, ok) := readByte value 0x3a
    if ok then (v, true) else (v, fl.numericTimezone)
  let (value, ok) := colon
  if !ok then false else
  let (value, ok) := readDigits value 2 2
  if !ok then false else
  value.isEmpty

end Enc.Model.Iso
