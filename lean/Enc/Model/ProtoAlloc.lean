import Enc.Model.Proto
import Enc.Base.Layout
/-!
Allocation accounting for the decoders of /repo/proto (the "memory allocated stays within a constant factor of the
input length" clause of C07).

`decodeA` / `decodeStructA` / `unmarshalA` are `decode` / `decodeStruct` / `unmarshal` of `Enc/Model/Proto.lean` with
one more result: the number of bytes REQUESTED at the allocation sites of the package on that path — also on the paths
that end in an error (the allocation is made before the error is found). They are separate functions; their first
component is the existing decoder (`Enc/Lemmas/ProtoAlloc.lean`: `decodeA_proj`, `unmarshalA_proj`).

What is counted (one unit = one byte requested from the Go allocator; word = 8, amd64 layout):
  * `reflect.New(t)`                  pointer.go (nil pointee), map.go (scratch {Key, Elem} struct)        `sz` of the type
  * `MakeSlice(p, len, cap)`          slice.go `growSlice`: cap 0 → 10, else 2·cap; ALL `cap` elements are allocated
  * `MakeMap(mtype, 10)`              map.go: on the first occurrence of the field, BEFORE the entry is looked at
  * `MapAssign` of a new key          one bucket of the runtime map (an upper bound of the amortised growth)
  * `string(v)`, `make([]byte, 0, len(v))`, `append((*pb)[:0], v...)` beyond the capacity, `make([]byte, len(b))`
    (RawMessage.Unmarshal)            the length copied (`append`: at most twice the length)
  * `&UnmarshalFieldError{…}`         struct.go `fieldError`: one per struct decoder that returns an error
  * `fmt.Errorf(…)`                   a nominal `fmtErr` (int32/uint32 overflow, wire-type mismatch, byte array size,
                                      trailing bytes)
Not counted (runtime internals, absorbed by the slack `c1·alloc + c0` of the harness op `proto.allocm`): size-class
rounding, the bucket layout of runtime maps beyond the per-key bucket, `sync.Pool` bookkeeping, the codec cache.
Where the code MAY allocate depending on state the model does not carry (spare capacity of a `[]byte` that is decoded a
second time, the `sync.Pool` of scratch structs, the partial value of a truncated varint in `decodeInt32`) the model
charges the allocation: `alloc` is the worst case over that state.
-/
namespace Enc.Model.Proto
open Enc

/-! ## Go memory layout (amd64): a fixed function of the type -/

mutual
/-- `reflect.Type.Size()` of the Go type a codec was built for -/
def Codec.sz : Codec → Nat
  | .bool => 1
  | .int | .int64 | .uint | .uint64 | .fixed64 | .sfixed64 | .float64 => 8
  | .int32 | .uint32 | .fixed32 | .sfixed32 | .float32 => 4
  | .string => 16
  | .bytes | .message => 24            -- slice header (RawMessage = []byte)
  | .byteArray n => n
  | .ptr _ => 8
  | .struct fs => alignUp (CFields.al fs) (CFields.layout fs 0 false)
  | .slice .. => 24
  | .map .. => 8
  | .unsupported => 0
/-- `reflect.Type.Align()` -/
def Codec.al : Codec → Nat
  | .bool | .byteArray _ => 1
  | .int32 | .uint32 | .fixed32 | .sfixed32 | .float32 => 4
  | .struct fs => CFields.al fs
  | _ => 8
def CFields.al : CFields → Nat
  | .nil => 1
  | .cons _ _ _ _ c rest => max (Codec.al c) (CFields.al rest)
/-- end offset of the fields laid out from `off`; a non-empty struct that ends in a zero-size field gets one more byte -/
def CFields.layout : CFields → Nat → Bool → Nat
  | .nil, off, lastZero => if lastZero && off > 0 then off + 1 else off
  | .cons _ _ _ _ c rest, off, _ => CFields.layout rest (alignUp (Codec.al c) off + Codec.sz c) (Codec.sz c == 0)
end

/-! ## allocation sizes of the sites -/

/-- `unsafe.Sizeof(UnmarshalFieldError{})`: two ints and an interface -/
def errWrap : Nat := 32          -- TODO extractor: proto.UnmarshalFieldError (layout)
/-- nominal charge for one `fmt.Errorf` -/
def fmtErr : Nat := 64
-- go: proto.growSlice `cap = 10`
def sliceCap0 : Nat := 10        -- TODO extractor: proto.growSlice (literal 10)
-- go: proto.growSlice `cap := 2 * s.Cap()`
def sliceGrow : Nat := 2         -- TODO extractor: proto.growSlice (literal 2)
/-- `reflect.Zero` of a type larger than `abi.ZeroValSize` allocates the value -/
def zeroValSize : Nat := 1024
/-- one bucket of a runtime map (8 slots of key and element, 8 tophash bytes, the overflow pointer) -/
def bucketSz (entry : Codec) : Nat := 8 * Codec.sz entry + 16
/-- `MakeMap(mtype, 10)`: the header and the 2 buckets a hint of 10 reserves (go1.23: `B = 1`) -/
def mapInit (entry : Codec) : Nat := 48 + 2 * bucketSz entry     -- TODO extractor: proto.mapDecodeFuncOf (hint 10)

/-- go: proto.sliceDecodeFuncOf and growSlice, as a function of the length: the capacity of a slice that started nil
and was appended to `n` times by the decoder (`if i == s.Cap() { *s = growSlice(elemType, s) }`) -/
def capOf : Nat → Nat
  | 0 => 0
  | n + 1 => if n == capOf n then (if capOf n == 0 then sliceCap0 else sliceGrow * capOf n) else capOf n

/-- elements allocated by the decoder of a repeated field when the slice holds `n` elements -/
def growAlloc (n : Nat) : Nat := if n == capOf n then capOf (n + 1) else 0

def allocOk {α} (r : Res α) (f : α → Nat) : Nat :=
  match r with
  | .ok a => f a
  | _ => 0

/-- go: structDecodeFuncOf, the `switch wireType` that carves `data`: (data, bytes skipped before data) -/
def carve (w : Nat) (b1 : Bytes) (lenB off1 : Nat) (emb : Bool) : Res (Bytes × Nat) :=
  if w == 0 then (decodeVarint b1).bind fun (_, k) => .ok (b1.take k, 0)
  else if w == 2 then
    (decodeVarint b1).bind fun (l, k) =>
      if l.toNat > lenB - (off1 + k) then .err "unexpectedEof"
      else if emb then .ok ((b1.drop k).take l.toNat, k) else .ok (b1.take (k + l.toNat), 0)
  else if w == 5 then (if b1.length < 4 then .err "unexpectedEof" else .ok (b1.take 4, 0))
  else if w == 1 then (if b1.length < 8 then .err "unexpectedEof" else .ok (b1.take 8, 0))
  else .err "wireTypeUnknown"

mutual
-- go: the `decode` functions, with the bytes they allocate: (result of `decode`, bytes allocated)
def decodeA : Nat → Nat → Codec → Bytes → Val → Flags → Res (Val × Nat) × Nat
  | 0, _, _, _, _, _ => (.err "fuel", 0)
  | fuel + 1, d, c, b, cur, fl =>
    match c with
    -- no allocation site: bool.go int.go int64.go uint.go uint64.go uint32.go (fixed32) float32.go float64.go
    | .bool | .int | .int64 | .uint | .uint64 | .fixed32 | .fixed64 | .sfixed32 | .sfixed64 | .float32 | .float64
    | .unsupported => (decode (fuel + 1) d c b cur fl, 0)
    | .int32 =>
      -- go: decodeInt32 `if v < math.MinInt32 || v > math.MaxInt32 { return n, fmt.Errorf(…) }`, before `err` is looked at
      match decodeVarint b with
      | .ok (u, n) =>
        let v := fl.i64 u
        if v < -2147483648 ∨ v > 2147483647 then (.err "overflow", fmtErr) else (.ok (.int v, n), 0)
      | .err e => (.err e, fmtErr)        -- the partial value of a truncated varint may be out of range (worst case)
      | .panic e => (.panic e, 0)
    | .uint32 =>
      match decodeVarint b with
      | .ok (u, n) => if u.toNat > 4294967295 then (.err "overflow", fmtErr) else (.ok (.int u.toNat, n), 0)
      | .err e => (.err e, fmtErr)
      | .panic e => (.panic e, 0)
    | .string =>
      -- go: decodeString `*(*string)(p) = string(v)`
      let r := decodeVarlen b
      (r.bind fun (v, n) => .ok (.str v, n), allocOk r fun (v, _) => v.length)
    | .bytes =>
      -- go: decodeBytes `if *pb == nil { *pb = make([]byte, 0, len(v)) }; *pb = append((*pb)[:0], v...)`
      let r := decodeVarlen b
      (r.bind fun (v, n) => .ok (.str v, n),
       allocOk r fun (v, _) =>
         match cur with
         | .str s => if s.length < v.length then 2 * v.length else 0    -- append beyond the capacity (≥ len): ≤ 2·needed
         | _ => v.length)
    | .byteArray k =>
      let r := decodeVarlen b
      (r.bind fun (v, n) => if v.length < k then .err "arraySize" else .ok (.str (v.take k), n),
       allocOk r fun (v, _) => if v.length < k then fmtErr else 0)
    | .message =>
      -- go: messageDecodeFuncOf → RawMessage.Unmarshal `*m = make([]byte, len(b))`
      if fl.toplevel then (.ok (.str b, b.length), b.length)
      else
        let r := decodeVarlen b
        (r.bind fun (v, n) => .ok (.str v, n), allocOk r fun (v, _) => v.length)
    | .ptr c' =>
      -- go: pointerDecodeFuncOf `if *v == nil { *v = unsafe.Pointer(reflect.New(t).Pointer()) }`
      let tgt := match cur with | .ptr v => v | _ => zeroOfCodec c'
      let a0 := match cur with | .ptr _ => 0 | _ => Codec.sz c'
      let r := decodeA fuel d c' b tgt fl
      (r.1.bind fun (v, n) => .ok (.ptr v, n), a0 + r.2)
    | .struct fs =>
      if d + 1 > Gen.c_proto_maxDepth then (.err "nestingTooDeep", 0)      -- the package-level error value
      else
        match cur with
        | .struct vs =>
          let r := decodeStructA fuel (d + 1) fs b b.length vs { fl with toplevel := false } 0
          (r.1.bind fun (vs', n) => .ok (.struct vs', n), r.2)
        | _ => (.err "modelType", 0)
    | .slice elem _ _ _ =>
      -- go: sliceDecodeFuncOf `if i == s.Cap() { *s = growSlice(elemType, s) }` — before the element is decoded
      let cur' : Vals := match cur with | .list vs => vs | _ => .nil
      let a0 := growAlloc cur'.length * Codec.sz elem
      let r := decodeA fuel d elem b (zeroOfCodec elem) {}
      (match r.1 with
       | .ok (v, n) => .ok (.list (Vals.ofList (cur'.toList ++ [v])), n)
       | .err e => .err e
       | .panic e => .panic e,
       a0 + r.2)
    | .map _ _ _ _ _ entry =>
      -- go: mapDecodeFuncOf `if *m == nil { *m = MakeMap(mtype, 10) }` — before `len(b) == 0` and before the entry is decoded
      let cur' : Vals := match cur with | .map kvs => kvs | _ => .nil
      let a0 := match cur with | .map _ => 0 | _ => mapInit entry
      if b.isEmpty then (.ok (.map cur', 0), a0)
      else
        -- `s := structPool.Get(); if s == nil { s = reflect.New(structType) }` (worst case: the pool is empty)
        let r := decodeA fuel d entry b (zeroOfCodec entry) {}
        let a1 := a0 + Codec.sz entry + r.2
        match r.1 with
        | .ok (.struct (.cons k (.cons v .nil)), n) =>
          let m' := mapAssign cur' k v valEqShow
          (.ok (.map m', n), a1 + (if cur'.length < m'.length then bucketSz entry else 0))
        | .ok _ => (.err "modelType", a1)
        | .err e => (.err e, a1)
        | .panic e => (.panic e, a1)
-- go: structDecodeFuncOf, with the bytes it allocates (`fieldError` on every error return after the tag)
def decodeStructA : Nat → Nat → CFields → Bytes → Nat → Vals → Flags → Nat → Res (Vals × Nat) × Nat
  | 0, _, _, _, _, _, _, _ => (.err "fuel", 0)
  | fuel + 1, d, fs, b, lenB, vs, fl, offset =>
    if b.isEmpty then (.ok (vs, offset), 0)
    else
      match decodeVarint b with
      | .err e => (.err e, 0)                    -- `return offset, err`: the tag error is not wrapped
      | .panic e => (.panic e, 0)
      | .ok (tag, n) =>
        let number := (tag >>> 3).toNat
        let w := (tag &&& 7#64).toNat
        let b1 := b.drop n
        let off1 := offset + n
        match lookupField fs number with
        | none =>
          match skipUnknown w b1 lenB with
          | .ok skip => decodeStructA fuel d fs (b1.drop skip) lenB vs fl (off1 + skip)
          | .err e => (.err e, errWrap)
          | .panic e => (.panic e, 0)
        | some (i, emb, zz, c) =>
          if w != c.wire.num then (.err "wireType", errWrap + fmtErr)
          else
            match carve w b1 lenB off1 emb with
            | .err e => (.err e, errWrap)
            | .panic e => (.panic e, 0)
            | .ok (data, pre) =>
              let r := decodeA fuel d c data (Vals.get vs i) { fl with zigzag := fl.zigzag || zz }
              match r.1 with
              | .ok (v, m) =>
                let r2 := decodeStructA fuel d fs (b1.drop (pre + m)) lenB (Vals.set vs i v) fl (off1 + pre + m)
                (r2.1, r.2 + r2.2)
              | .err e => (.err e, r.2 + errWrap)
              | .panic e => (.panic e, r.2)
end

-- go: proto.Unmarshal, with the bytes it allocates
def unmarshalA (t : Ty) (b : Bytes) : Res Val × Nat :=
  if b.isEmpty then
    -- `reflect.ValueOf(v).Elem().Set(reflect.Zero(reflect.TypeOf(v).Elem()))`
    (.ok (zeroOf t), if Codec.sz (codecOf t) > zeroValSize then Codec.sz (codecOf t) else 0)
  else
    let r := decodeA (2 * b.length + 8 + Codec.height (codecOf t)) 0 (codecOf t) b (zeroOf t) { toplevel := true }
    match r.1 with
    | .ok (v, n) => if n < b.length then (.err "trailing", r.2 + fmtErr) else (.ok v, r.2)
    | .err e => (.err e, r.2)
    | .panic e => (.panic e, r.2)

/-! ## the constants of the bound: `alloc ≤ K·len(input) + K0`, by recursion on the codec tree -/

mutual
/-- bytes allocated per input byte consumed -/
def Codec.K : Codec → Nat
  | .string | .message => 1
  | .bytes => 2
  | .ptr c => Codec.K c
  | .struct fs => CFields.K fs
  | .slice e _ _ _ => Codec.K e
  | .map _ _ _ _ _ entry => Codec.K entry
  | _ => 0
/-- bytes allocated per call of the decoder, whatever its input (amortised: slice growth is spread over the appends) -/
def Codec.K1 : Codec → Nat
  | .int32 | .uint32 | .byteArray _ => fmtErr
  | .fixed32 | .sfixed32 => fmtErr      -- no allocation; kept equal to int32 / uint32 so that `K1` depends on the Go type only, not on the struct tag
  | .ptr c => Codec.K1 c + Codec.sz c
  | .struct _ => errWrap + fmtErr
  | .slice e _ _ _ => Codec.K1 e + 14 * Codec.sz e
  | .map _ _ _ _ _ entry => Codec.K1 entry + mapInit entry + Codec.sz entry + bucketSz entry
  | _ => 0
/-- a field occurrence consumes at least its tag byte: that byte pays for the per-call constant of the field's decoder -/
def CFields.K : CFields → Nat
  | .nil => 0
  | .cons _ _ _ _ c rest => max (max (Codec.K c) (Codec.K1 c)) (CFields.K rest)
end

/-- the additive constant of `Unmarshal`: the per-call constant of the top-level decoder, the trailing-bytes error, the
zero value of a large target on empty input -/
def Codec.K0 (c : Codec) : Nat := Codec.K1 c + fmtErr + Codec.sz c

end Enc.Model.Proto
